package main

import (
	"fmt"
	"go/types"
	"sort"
	"strings"

	"golang.org/x/tools/go/callgraph"
	"golang.org/x/tools/go/callgraph/cha"
	"golang.org/x/tools/go/ssa"
	"golang.org/x/tools/go/ssa/ssautil"
)

// "stable" storage families.
//
// A contract file may declare
//
//	//@ stable T.f                 (T a struct type of the file's package, f a non-struct field)
//	//@ stable maptype map[K]V     (a Go map type, resolved in the package)
//
// meaning: in the whole loaded program every store to that field / every update of a map of that type
// targets an object that was allocated by the storing function itself (a constructor pattern), possibly
// through unexported helper functions whose every call site passes such an object - EXCEPT in functions
// that cannot be reached from the function under verification. govc computes the storing functions
// mechanically (checkStables below) and, per unit, whether one of them is reachable in the CHA call graph
// of the loaded program; if so the family is simply not stable in that unit.
//
// Consequence used by the engine: a call that havocs the whole heap ("modifies *", unknown callee,
// loop with such a call) leaves the cells of a stable family that belong to objects allocated BEFORE
// the call unchanged, and (for pointer-valued fields) those cells still point to objects allocated
// before the call. Not covered by the check (assumptions, listed in the evidence): writes through
// reflection / unsafe / encoding libraries, and library functions without a body other than the
// known map writers in maps / x/exp/maps.

type stableDecl struct {
	file string
	text string
	fams map[string]string // family -> sort
	ptr  map[string]bool   // family holds references
	// field form
	structT types.Type
	field   int
	// map form
	mapT *types.Map
	// slice-cell form: element type
	cellT types.Type
	err   string
	// functions containing a store that is not to an own allocation, and everything that can reach one
	bad   map[*ssa.Function]string
	reach map[*ssa.Function]bool
}

func (w *World) resolveStables() {
	w.stableFams = map[string]*stableDecl{}
	var decls []*stableDecl
	var paths []string
	for p := range w.pkgs {
		paths = append(paths, p)
	}
	sort.Strings(paths)
	for _, p := range paths {
		pi := w.pkgs[p]
		if pi.cf == nil {
			continue
		}
		for _, text := range pi.cf.Stables {
			d := &stableDecl{file: pi.cf.Path, text: text, fams: map[string]string{}, ptr: map[string]bool{}}
			decls = append(decls, d)
			if rest, ok := strings.CutPrefix(text, "maptype "); ok {
				t := pi.evalType(w, strings.TrimSpace(rest))
				if t == nil {
					d.err = "cannot resolve type"
					continue
				}
				mt, ok := t.Underlying().(*types.Map)
				if !ok || scalarSort(mt.Key()) == "" {
					d.err = "not a map type with a scalar key"
					continue
				}
				d.mapT = mt
				ks := scalarSort(mt.Key())
				d.fams[mapDomFam(mt)] = ArrSort(SInt, ArrSort(ks, SBool))
				for _, c := range mapComps(mt.Elem()) {
					d.fams[mapValFam(mt)+c[0]] = ArrSort(SInt, ArrSort(ks, c[1]))
				}
				continue
			}
			if rest, ok := strings.CutPrefix(text, "slicetype "); ok {
				t := pi.evalType(w, strings.TrimSpace(rest))
				if t == nil {
					d.err = "cannot resolve type"
					continue
				}
				sl, ok := t.Underlying().(*types.Slice)
				if !ok || isStructType(sl.Elem()) || comps(sl.Elem()) == nil {
					d.err = "not a slice type with scalar / pointer / slice elements"
					continue
				}
				d.cellT = sl.Elem()
				for _, c := range comps(sl.Elem()) {
					fam := cellFam(sl.Elem()) + c[0]
					d.fams[fam] = ArrSort(SInt, c[1])
					if c[0] == "" && c[1] == SInt && isPointerLike(sl.Elem()) {
						d.ptr[fam] = true
					}
					if c[0] == "#arr" {
						d.ptr[fam] = true // the backing array of a kept slice value was allocated before the havoc
					}
				}
				continue
			}
			k := strings.LastIndex(text, ".")
			if k <= 0 {
				d.err = "expected T.f, maptype <type> or slicetype <type>"
				continue
			}
			t := pi.evalType(w, strings.TrimSpace(text[:k]))
			if t == nil {
				d.err = "cannot resolve type " + text[:k]
				continue
			}
			st, ok := t.Underlying().(*types.Struct)
			if !ok {
				d.err = "not a struct type"
				continue
			}
			d.field = -1
			for i := 0; i < st.NumFields(); i++ {
				if st.Field(i).Name() == strings.TrimSpace(text[k+1:]) {
					d.field = i
				}
			}
			if d.field < 0 {
				d.err = "no such field"
				continue
			}
			ft := st.Field(d.field).Type()
			if isStructType(ft) || comps(ft) == nil {
				d.err = "field type is a by-value struct or unsupported"
				continue
			}
			d.structT = t
			for _, c := range comps(ft) {
				fam := fieldFam(t, d.field) + c[0]
				d.fams[fam] = ArrSort(SInt, c[1])
				if c[0] == "" && c[1] == SInt && isPointerLike(ft) {
					d.ptr[fam] = true
				}
				if c[0] == "#arr" {
					d.ptr[fam] = true // the backing array of a kept slice value was allocated before the havoc
				}
			}
		}
	}
	if len(decls) == 0 {
		return
	}
	w.checkStables(decls)
	for _, d := range decls {
		if d.err != "" {
			raw := ""
			w.contractErrs = append(w.contractErrs, contractErr{d.file, fmt.Sprintf("%s: stable %s: %s", d.file, d.text, d.err), raw})
			// the file's contracts stay loaded; the error is reported for the properties the file mentions
			continue
		}
		for f := range d.fams {
			w.stableFams[f] = d
		}
	}
}

// ---------------------------------------------------------------------------
// the mechanical check

type stableChecker struct {
	w        *World
	sites    map[*ssa.Function][]ssa.CallInstruction
	escapes  map[*ssa.Function]bool
	invoked  map[string]bool // pkgpath + "." + method name called through an interface
	retMemo  map[string]int
	parMemo  map[string]int
	// functions one of whose parameters was accepted as "allocated by every caller": the objects they write
	// exist before THEIR invocation starts, so they must not be the root of a havoc
	paramFresh map[*ssa.Function]bool
}

func (w *World) checkStables(decls []*stableDecl) {
	sc := &stableChecker{w: w, sites: map[*ssa.Function][]ssa.CallInstruction{}, escapes: map[*ssa.Function]bool{}, invoked: map[string]bool{}, retMemo: map[string]int{}, parMemo: map[string]int{}, paramFresh: map[*ssa.Function]bool{}}
	all := ssautil.AllFunctions(w.prog)
	var fns []*ssa.Function
	for fn := range all {
		if fn.Blocks != nil {
			fns = append(fns, fn)
		}
	}
	sort.Slice(fns, func(i, j int) bool { return fns[i].String() < fns[j].String() })
	// index of call sites and of functions used as values
	for _, fn := range fns {
		for _, b := range fn.Blocks {
			for _, ins := range b.Instrs {
				var cc *ssa.CallCommon
				if ci, ok := ins.(ssa.CallInstruction); ok {
					cc = ci.Common()
					if cc.IsInvoke() {
						if cc.Method.Pkg() != nil {
							sc.invoked[cc.Method.Pkg().Path()+"."+cc.Method.Name()] = true
						} else {
							sc.invoked["."+cc.Method.Name()] = true
						}
					} else if callee := cc.StaticCallee(); callee != nil {
						sc.sites[callee] = append(sc.sites[callee], ci)
					}
				}
				if _, isDbg := ins.(*ssa.DebugRef); isDbg {
					continue
				}
				for _, op := range ins.Operands(nil) {
					f, ok := (*op).(*ssa.Function)
					if !ok {
						continue
					}
					if cc != nil && !cc.IsInvoke() && cc.Value == ssa.Value(f) {
						// the callee position; but it may ALSO be an argument
						n := 0
						for _, a := range cc.Args {
							if a == ssa.Value(f) {
								n++
							}
						}
						if n == 0 {
							continue
						}
					}
					if mc, isMC := ins.(*ssa.MakeClosure); isMC && mc.Fn == ssa.Value(f) {
						sc.escapes[f] = true // closures are values
						continue
					}
					sc.escapes[f] = true
				}
			}
		}
	}
	fail := func(d *stableDecl, fn *ssa.Function, ins ssa.Instruction, what string) {
		if d.bad == nil {
			d.bad = map[*ssa.Function]string{}
		}
		if _, dup := d.bad[fn]; !dup {
			d.bad[fn] = fmt.Sprintf("%s at %s", what, w.fset.Position(ins.Pos()))
		}
	}
	for _, fn := range fns {
		for _, b := range fn.Blocks {
			for _, ins := range b.Instrs {
				switch x := ins.(type) {
				case *ssa.Store:
					if fa, ok := x.Addr.(*ssa.FieldAddr); ok {
						for _, d := range decls {
							if d.structT != nil && fa.Field == d.field && sameStruct(derefType(fa.X.Type()), d.structT) {
								if !sc.fresh(fa.X, fn, 0, map[ssa.Value]bool{}) {
									fail(d, fn, ins, "store to the field")
								}
							}
						}
					}
					// store into a cell (slice element, pointed-to variable) of a stable cell type
					if _, isFA := x.Addr.(*ssa.FieldAddr); !isFA {
						if _, isG := x.Addr.(*ssa.Global); !isG {
							for _, d := range decls {
								if d.cellT != nil && types.Identical(derefType(x.Addr.Type()), d.cellT) {
									if !sc.fresh(x.Addr, fn, 0, map[ssa.Value]bool{}) {
										fail(d, fn, ins, "store into a cell of the element type")
									}
								}
							}
						}
					}
					// whole-struct store
					et := derefType(x.Addr.Type())
					if isStructType(et) || isArrayOfStruct(et) {
						for _, d := range decls {
							if d.structT != nil && containsByValue(et, d.structT, 0) {
								if !sc.fresh(x.Addr, fn, 0, map[ssa.Value]bool{}) {
									fail(d, fn, ins, "whole-struct store")
								}
							}
						}
					}
				case *ssa.FieldAddr:
					// the address of the field must not escape (it could be stored through elsewhere)
					for _, d := range decls {
						if d.structT != nil && x.Field == d.field && sameStruct(derefType(x.X.Type()), d.structT) {
							if refs := x.Referrers(); refs != nil {
								for _, r := range *refs {
									switch rr := r.(type) {
									case *ssa.Store:
										if rr.Addr == ssa.Value(x) && rr.Val != ssa.Value(x) {
											continue
										}
									case *ssa.UnOp:
										continue
									case *ssa.DebugRef:
										continue
									}
									if !sc.fresh(x.X, fn, 0, map[ssa.Value]bool{}) {
										fail(d, fn, r, "address of the field is taken")
									}
								}
							}
						}
					}
				case *ssa.IndexAddr:
					for _, d := range decls {
						if d.cellT != nil && types.Identical(derefType(x.Type()), d.cellT) {
							if refs := x.Referrers(); refs != nil {
								for _, r := range *refs {
									switch rr := r.(type) {
									case *ssa.Store:
										if rr.Addr == ssa.Value(x) && rr.Val != ssa.Value(x) {
											continue
										}
									case *ssa.UnOp:
										continue
									case *ssa.DebugRef:
										continue
									}
									if !sc.fresh(x.X, fn, 0, map[ssa.Value]bool{}) {
										fail(d, fn, r, "address of a slice element is taken")
									}
								}
							}
						}
					}
				case *ssa.MapUpdate:
					for _, d := range decls {
						if d.mapT != nil && types.Identical(x.Map.Type().Underlying(), d.mapT) {
							if !sc.fresh(x.Map, fn, 0, map[ssa.Value]bool{}) {
								fail(d, fn, ins, "map update")
							}
						}
					}
				}
				ci, ok := ins.(ssa.CallInstruction)
				if !ok {
					continue
				}
				cc := ci.Common()
				if bi, isB := cc.Value.(*ssa.Builtin); isB {
					switch bi.Name() {
					case "delete", "clear":
						for _, d := range decls {
							if d.mapT != nil && len(cc.Args) > 0 && types.Identical(cc.Args[0].Type().Underlying(), d.mapT) {
								if !sc.fresh(cc.Args[0], fn, 0, map[ssa.Value]bool{}) {
									fail(d, fn, ins, bi.Name()+" on the map")
								}
							}
						}
					case "copy", "append":
						if len(cc.Args) > 0 {
							if sl, isSl := cc.Args[0].Type().Underlying().(*types.Slice); isSl {
								if bi.Name() == "copy" {
									for _, d := range decls {
										if d.cellT != nil && types.Identical(sl.Elem(), d.cellT) {
											if !sc.fresh(cc.Args[0], fn, 0, map[ssa.Value]bool{}) {
												fail(d, fn, ins, "copy into a slice of the element type")
											}
										}
									}
								}
								for _, d := range decls {
									if d.structT != nil && containsByValue(sl.Elem(), d.structT, 0) {
										if !sc.fresh(cc.Args[0], fn, 0, map[ssa.Value]bool{}) {
											fail(d, fn, ins, bi.Name()+" on a slice of struct values")
										}
									}
								}
							}
						}
					}
					continue
				}
				if callee := cc.StaticCallee(); callee != nil && callee.Blocks == nil {
					name := callee.Name()
					if o := callee.Origin(); o != nil {
						name = o.Name()
					}
					pk := funcPkgPath(callee)
					if pk == "sort" || pk == "slices" || pk == "golang.org/x/exp/slices" {
						for _, a := range cc.Args {
							at := a.Type()
							if mi, isMI := a.(*ssa.MakeInterface); isMI {
								at = mi.X.Type()
								a = mi.X
							}
							if sl, isSl := at.Underlying().(*types.Slice); isSl {
								for _, d := range decls {
									if d.cellT != nil && types.Identical(sl.Elem(), d.cellT) {
										if !sc.fresh(a, fn, 0, map[ssa.Value]bool{}) {
											fail(d, fn, ins, pk+"."+name+" on a slice of the element type")
										}
									}
								}
							}
						}
					}
					if (pk == "maps" || pk == "golang.org/x/exp/maps") && (name == "Copy" || name == "DeleteFunc" || name == "Clear" || name == "Insert") && len(cc.Args) > 0 {
						for _, d := range decls {
							if d.mapT != nil && types.Identical(cc.Args[0].Type().Underlying(), d.mapT) {
								if !sc.fresh(cc.Args[0], fn, 0, map[ssa.Value]bool{}) {
									fail(d, fn, ins, pk+"."+name+" on the map")
								}
							}
						}
					}
				}
			}
		}
	}
	// reverse reachability over the CHA call graph (static calls, interface invokes -> every implementation,
	// calls of function values -> every address-taken function of that signature), plus an edge from a
	// function to every function value / closure it creates or mentions (it may hand it to a library)
	rev := map[*ssa.Function][]*ssa.Function{}
	cg := cha.CallGraph(w.prog)
	w.cg = cg
	w.paramFresh = sc.paramFresh
	w.namedFuncTargets(fns)
	for f, n := range cg.Nodes {
		for _, e := range n.Out {
			if e.Callee != nil && e.Callee.Func != nil && w.cgEdgeOK(e) {
				rev[e.Callee.Func] = append(rev[e.Callee.Func], f)
			}
		}
	}
	for _, fn := range fns {
		for _, b := range fn.Blocks {
			for _, ins := range b.Instrs {
				if _, isDbg := ins.(*ssa.DebugRef); isDbg {
					continue
				}
				if ci, isCall := ins.(ssa.CallInstruction); isCall && !ci.Common().IsInvoke() {
					// the callee position is a call edge already; only function values among the arguments count
					for _, a := range ci.Common().Args {
						if f, ok := a.(*ssa.Function); ok {
							rev[f] = append(rev[f], fn)
						}
					}
					continue
				}
				for _, op := range ins.Operands(nil) {
					if f, ok := (*op).(*ssa.Function); ok {
						rev[f] = append(rev[f], fn)
					}
				}
			}
		}
	}
	for _, d := range decls {
		d.reach = map[*ssa.Function]bool{}
		var work []*ssa.Function
		for f := range d.bad {
			d.reach[f] = true
			work = append(work, f)
		}
		for len(work) > 0 {
			f := work[len(work)-1]
			work = work[:len(work)-1]
			for _, c := range rev[f] {
				if !d.reach[c] {
					d.reach[c] = true
					work = append(work, c)
				}
			}
		}
	}
}

// stableIn reports whether the family is stable for the unit verifying fn: no function reachable from fn
// stores to it other than into its own allocations.
func (w *World) stableIn(fam string, fn *ssa.Function) *stableDecl {
	d := w.stableFams[fam]
	if d == nil || fn == nil {
		return nil
	}
	if d.reach[fn] || w.paramFresh[fn] {
		return nil
	}
	return d
}

// stableAt decides stability for one havoc: r.rooted -> the havoc stands for the execution of r.roots
// (a callee with a body, or the callees of a loop body plus the loop's own function r.selfFn); otherwise
// for anything the unit's function can reach.
func (w *World) stableAt(fam string, unitFn *ssa.Function, r hidRec) *stableDecl {
	d := w.stableFams[fam]
	if d == nil {
		return nil
	}
	if !r.useStable {
		return nil
	}
	if len(r.useOnly) > 0 {
		hit := false
		for _, n := range r.useOnly {
			if n == d.text || strings.HasSuffix(d.text, " "+n) || strings.HasSuffix(d.text, "."+n) {
				hit = true
			}
		}
		if !hit {
			return nil
		}
	}
	if !r.rooted {
		return w.stableIn(fam, unitFn)
	}
	for _, f := range r.roots {
		if d.reach[f] || w.paramFresh[f] {
			return nil
		}
	}
	if r.selfFn != nil {
		if _, bad := d.bad[r.selfFn]; bad || w.paramFresh[r.selfFn] {
			return nil
		}
	}
	return d
}

// loopCallees lists every function a call instruction inside the given blocks may invoke according to the
// CHA call graph; ok is false when a callee has no body (a library function may call back anything it was
// handed) or the graph is not available.
func (w *World) loopCallees(fn *ssa.Function, blocks map[*ssa.BasicBlock]bool) ([]*ssa.Function, bool) {
	if w.cg == nil {
		return nil, false
	}
	n := w.cg.Nodes[fn]
	if n == nil {
		return nil, false
	}
	seen := map[*ssa.Function]bool{}
	var out []*ssa.Function
	for _, e := range n.Out {
		if e.Site == nil || !blocks[e.Site.Block()] || e.Callee == nil || e.Callee.Func == nil || !w.cgEdgeOK(e) {
			continue
		}
		f := e.Callee.Func
		if f.Blocks == nil {
			if _, isB := e.Site.Common().Value.(*ssa.Builtin); isB {
				continue
			}
			if externalIsScalarPure(f) || externalReadonly[f.String()] {
				continue
			}
			return nil, false
		}
		if !seen[f] {
			seen[f] = true
			out = append(out, f)
		}
	}
	// function values / closures mentioned in the loop body may be handed to anybody
	for b := range blocks {
		for _, ins := range b.Instrs {
			if _, isDbg := ins.(*ssa.DebugRef); isDbg {
				continue
			}
			for _, op := range ins.Operands(nil) {
				if f, ok := (*op).(*ssa.Function); ok && !seen[f] {
					seen[f] = true
					out = append(out, f)
				}
			}
		}
	}
	sort.Slice(out, func(i, j int) bool { return out[i].String() < out[j].String() })
	return out, true
}

// whyUnstable names a storing function reachable from fn (diagnostics).
func (w *World) whyUnstable(d *stableDecl, fn *ssa.Function) string {
	var names []string
	for f, what := range d.bad {
		names = append(names, f.String()+": "+what)
	}
	sort.Strings(names)
	if len(names) > 3 {
		names = append(names[:3], "...")
	}
	return strings.Join(names, "; ")
}

func sameStruct(a, b types.Type) bool {
	return typeKey(a) == typeKey(b)
}

func isArrayOfStruct(t types.Type) bool {
	a, ok := t.Underlying().(*types.Array)
	return ok && (isStructType(a.Elem()) || isArrayOfStruct(a.Elem()))
}

func containsByValue(t, target types.Type, depth int) bool {
	if depth > 6 {
		return true
	}
	if sameStruct(t, target) {
		return true
	}
	switch x := t.Underlying().(type) {
	case *types.Struct:
		for i := 0; i < x.NumFields(); i++ {
			ft := x.Field(i).Type()
			if isStructType(ft) || isArrayOfStruct(ft) {
				if containsByValue(ft, target, depth+1) {
					return true
				}
			}
		}
	case *types.Array:
		return containsByValue(x.Elem(), target, depth+1)
	}
	return false
}

// fresh: v denotes (an address inside) an object allocated during the current invocation of fn.
func (sc *stableChecker) fresh(v ssa.Value, fn *ssa.Function, depth int, seen map[ssa.Value]bool) bool {
	if depth > 4 {
		return false
	}
	if seen[v] {
		return true // cycle through phis: decided by the other edges
	}
	seen[v] = true
	switch x := v.(type) {
	case *ssa.Alloc, *ssa.MakeMap, *ssa.MakeSlice:
		return true
	case *ssa.FieldAddr:
		return sc.fresh(x.X, fn, depth, seen)
	case *ssa.IndexAddr:
		return sc.fresh(x.X, fn, depth, seen)
	case *ssa.Slice:
		return sc.fresh(x.X, fn, depth, seen)
	case *ssa.ChangeType:
		return sc.fresh(x.X, fn, depth, seen)
	case *ssa.Phi:
		for _, e := range x.Edges {
			if !sc.fresh(e, fn, depth, seen) {
				return false
			}
		}
		return true
	case *ssa.Parameter:
		return sc.freshParam(x, fn, depth)
	case *ssa.Call:
		callee := x.Call.StaticCallee()
		if callee == nil || callee.Blocks == nil || x.Call.IsInvoke() {
			return false
		}
		return sc.freshResult(callee, 0, depth)
	case *ssa.Extract:
		if c, ok := x.Tuple.(*ssa.Call); ok {
			callee := c.Call.StaticCallee()
			if callee == nil || callee.Blocks == nil || c.Call.IsInvoke() {
				return false
			}
			return sc.freshResult(callee, x.Index, depth)
		}
	}
	return false
}

func (sc *stableChecker) freshResult(callee *ssa.Function, idx int, depth int) bool {
	key := fmt.Sprintf("%s#%d", callee.String(), idx)
	if r, ok := sc.retMemo[key]; ok {
		return r == 1
	}
	sc.retMemo[key] = 2 // recursion: pessimistic
	ok := true
	n := 0
	for _, b := range callee.Blocks {
		for _, ins := range b.Instrs {
			ret, isRet := ins.(*ssa.Return)
			if !isRet {
				continue
			}
			n++
			if idx >= len(ret.Results) || !sc.fresh(ret.Results[idx], callee, depth+1, map[ssa.Value]bool{}) {
				// a nil result is fine
				if idx < len(ret.Results) {
					if c, isC := ret.Results[idx].(*ssa.Const); isC && c.Value == nil {
						continue
					}
				}
				ok = false
			}
		}
	}
	if n == 0 {
		ok = false
	}
	if ok {
		sc.retMemo[key] = 1
	}
	return ok
}

func (sc *stableChecker) freshParam(p *ssa.Parameter, fn *ssa.Function, depth int) bool {
	idx := -1
	for i, q := range fn.Params {
		if q == p {
			idx = i
		}
	}
	if idx < 0 {
		return false
	}
	key := fmt.Sprintf("%s#%d", fn.String(), idx)
	if r, ok := sc.parMemo[key]; ok {
		return r == 1
	}
	sc.parMemo[key] = 2
	// all call sites must be known: unexported name, never used as a value, not callable through an interface
	if fn.Parent() != nil || fn.Synthetic != "" && fn.Origin() == nil || sc.escapes[fn] {
		return false
	}
	name := fn.Name()
	if o := fn.Origin(); o != nil {
		name = o.Name()
	}
	if name == "" || !(name[0] >= 'a' && name[0] <= 'z' || name[0] == '_') {
		return false
	}
	if fn.Signature.Recv() != nil {
		pk := ""
		if fn.Pkg != nil {
			pk = fn.Pkg.Pkg.Path()
		}
		if sc.invoked[pk+"."+name] {
			return false
		}
	}
	sites := sc.sites[fn]
	if len(sites) == 0 {
		return false
	}
	for _, ci := range sites {
		if _, isCall := ci.(*ssa.Call); !isCall {
			return false // go / defer
		}
		cc := ci.Common()
		if idx >= len(cc.Args) {
			return false
		}
		if !sc.fresh(cc.Args[idx], ci.Parent(), depth+1, map[ssa.Value]bool{}) {
			return false
		}
	}
	sc.parMemo[key] = 1
	sc.paramFresh[fn] = true
	return true
}

// ---------------------------------------------------------------------------
// Call-graph refinement for calls through values of NAMED function types declared in the loaded program.
// CHA resolves a call through a func value to every address-taken function of that signature - for `func()` hooks that
// is half the program. A value of a named func type T declared in a loaded package can only have been made by a
// conversion to T in loaded code (ssa.ChangeType; reflection/unsafe aside - the stated closed-world assumption), so a
// call through a value of static type T can only reach the functions / closures that are converted to T somewhere.
// If some conversion to T has an operand that is not a function constant or closure, T is "open" and CHA's answer stands.

type namedFuncInfo struct {
	targets map[*ssa.Function]bool
	open    bool
}

func (w *World) namedFuncTargets(fns []*ssa.Function) {
	w.namedFn = map[*types.TypeName]*namedFuncInfo{}
	loaded := map[*types.Package]bool{}
	for _, pi := range w.pkgs {
		loaded[pi.types] = true
	}
	get := func(t types.Type) *namedFuncInfo {
		n, ok := t.(*types.Named)
		if !ok || n.Obj().Pkg() == nil || !loaded[n.Obj().Pkg()] {
			return nil
		}
		if _, isSig := n.Underlying().(*types.Signature); !isSig {
			return nil
		}
		inf := w.namedFn[n.Obj()]
		if inf == nil {
			inf = &namedFuncInfo{targets: map[*ssa.Function]bool{}}
			w.namedFn[n.Obj()] = inf
		}
		return inf
	}
	var add func(inf *namedFuncInfo, v ssa.Value, depth int)
	add = func(inf *namedFuncInfo, v ssa.Value, depth int) {
		switch x := v.(type) {
		case *ssa.Function:
			inf.targets[x] = true
		case *ssa.MakeClosure:
			if f, ok := x.Fn.(*ssa.Function); ok {
				inf.targets[f] = true
			} else {
				inf.open = true
			}
		case *ssa.Const:
			// nil
		case *ssa.ChangeType:
			if depth < 4 {
				add(inf, x.X, depth+1)
			} else {
				inf.open = true
			}
		default:
			// a value of another named func type of the program flows in: union with that type's targets is not
			// tracked - be conservative
			inf.open = true
		}
	}
	for _, fn := range fns {
		for _, b := range fn.Blocks {
			for _, ins := range b.Instrs {
				if ct, ok := ins.(*ssa.ChangeType); ok {
					if inf := get(ct.Type()); inf != nil {
						add(inf, ct.X, 0)
					}
				}
				// a function constant / closure used directly at a position of the named type (no ChangeType)
				if v, ok := ins.(ssa.Value); ok {
					if mc, isMC := v.(*ssa.MakeClosure); isMC {
						if inf := get(mc.Type()); inf != nil {
							add(inf, mc, 0)
						}
					}
				}
			}
		}
	}
}

// cgEdgeOK: false for a CHA edge of a call through a value of a closed named func type to a function that is never
// converted to that type.
func (w *World) cgEdgeOK(e *callgraph.Edge) bool {
	if e.Site == nil || w.namedFn == nil {
		return true
	}
	cc := e.Site.Common()
	if cc.IsInvoke() || cc.StaticCallee() != nil {
		return true
	}
	n, ok := cc.Value.Type().(*types.Named)
	if !ok {
		return true
	}
	inf := w.namedFn[n.Obj()]
	if inf == nil || inf.open {
		// a named func type of the loaded program that is never converted to has no possible target except nil
		if inf == nil {
			if _, isSig := n.Underlying().(*types.Signature); isSig && n.Obj().Pkg() != nil {
				for _, pi := range w.pkgs {
					if pi.types == n.Obj().Pkg() {
						return false
					}
				}
			}
		}
		return true
	}
	return inf.targets[e.Callee.Func]
}
