package main

import (
	"fmt"
	"strings"
	"go/token"
	"go/types"
	"sort"

	"golang.org/x/tools/go/ssa"
)

type Loop struct {
	Header   *ssa.BasicBlock
	Blocks   map[*ssa.BasicBlock]bool
	Parent   *Loop
	Children []*Loop
	Ordinal  int
	minPos   token.Pos
}

type loopInfo struct {
	loops     []*Loop
	headerOf  map[*ssa.BasicBlock]*Loop
	innermost map[*ssa.BasicBlock]*Loop
	rpo       []*ssa.BasicBlock
}

type edgeState struct {
	from, to *ssa.BasicBlock
	st       *State
}

func analyzeLoops(fn *ssa.Function) *loopInfo {
	li := &loopInfo{headerOf: map[*ssa.BasicBlock]*Loop{}, innermost: map[*ssa.BasicBlock]*Loop{}}
	if len(fn.Blocks) == 0 {
		return li
	}
	// reverse postorder
	seen := map[*ssa.BasicBlock]bool{}
	var post []*ssa.BasicBlock
	var dfs func(b *ssa.BasicBlock)
	dfs = func(b *ssa.BasicBlock) {
		seen[b] = true
		for _, s := range b.Succs {
			if !seen[s] {
				dfs(s)
			}
		}
		post = append(post, b)
	}
	dfs(fn.Blocks[0])
	for i := len(post) - 1; i >= 0; i-- {
		li.rpo = append(li.rpo, post[i])
	}
	// back edges and natural loops
	for _, b := range li.rpo {
		for _, s := range b.Succs {
			if s.Dominates(b) {
				l := li.headerOf[s]
				if l == nil {
					l = &Loop{Header: s, Blocks: map[*ssa.BasicBlock]bool{s: true}}
					li.headerOf[s] = l
					li.loops = append(li.loops, l)
				}
				// add natural loop body of back edge b->s
				var stack []*ssa.BasicBlock
				if !l.Blocks[b] {
					l.Blocks[b] = true
					stack = append(stack, b)
				}
				for len(stack) > 0 {
					n := stack[len(stack)-1]
					stack = stack[:len(stack)-1]
					for _, p := range n.Preds {
						if !l.Blocks[p] && seen[p] {
							l.Blocks[p] = true
							stack = append(stack, p)
						}
					}
				}
			}
		}
	}
	// nesting: parent = smallest strictly containing loop
	for _, l := range li.loops {
		for _, m := range li.loops {
			if l == m || !m.Blocks[l.Header] || len(m.Blocks) <= len(l.Blocks) {
				continue
			}
			if l.Parent == nil || len(m.Blocks) < len(l.Parent.Blocks) {
				l.Parent = m
			}
		}
	}
	for _, l := range li.loops {
		if l.Parent != nil {
			l.Parent.Children = append(l.Parent.Children, l)
		}
	}
	for _, b := range li.rpo {
		var best *Loop
		for _, l := range li.loops {
			if l.Blocks[b] && (best == nil || len(l.Blocks) < len(best.Blocks)) {
				best = l
			}
		}
		li.innermost[b] = best
	}
	// ordinals by source position
	for _, l := range li.loops {
		l.minPos = token.Pos(1 << 40)
		for b := range l.Blocks {
			for _, ins := range b.Instrs {
				if _, isDbg := ins.(*ssa.DebugRef); isDbg {
					continue
				}
				if p := ins.Pos(); p.IsValid() && p < l.minPos {
					l.minPos = p
				}
			}
		}
	}
	sort.SliceStable(li.loops, func(i, j int) bool {
		if li.loops[i].minPos != li.loops[j].minPos {
			return li.loops[i].minPos < li.loops[j].minPos
		}
		return len(li.loops[i].Blocks) > len(li.loops[j].Blocks)
	})
	for i, l := range li.loops {
		l.Ordinal = i + 1
	}
	return li
}

// childContaining returns the direct child of parent (nil = top level) that contains b.
func (li *loopInfo) childContaining(parent *Loop, b *ssa.BasicBlock) *Loop {
	l := li.innermost[b]
	for l != nil && l.Parent != parent {
		l = l.Parent
	}
	return l
}

// ---------------------------------------------------------------------------
// state merging

func (u *Unit) mergeStates(a, b *State) *State {
	if a.G.S == "false" {
		return b
	}
	if b.G.S == "false" {
		return a
	}
	c := a.G
	n := &State{G: u.ctx.Named("g", Or(a.G, b.G))}
	n.Env = make(map[ssa.Value]Value, len(a.Env))
	for k, va := range a.Env {
		if vb, ok := b.Env[k]; ok {
			n.Env[k] = u.mergeVal(c, va, vb)
		} else {
			n.Env[k] = va
		}
	}
	for k, vb := range b.Env {
		if _, ok := a.Env[k]; !ok {
			n.Env[k] = vb
		}
	}
	n.Names = map[string]nameRef{}
	for k, va := range a.Names {
		if vb, ok := b.Names[k]; ok && va.IsAddr == vb.IsAddr {
			n.Names[k] = nameRef{V: u.mergeVal(c, va.V, vb.V), IsAddr: va.IsAddr}
		} else if !ok {
			n.Names[k] = va
		}
	}
	for k, vb := range b.Names {
		if _, ok := a.Names[k]; !ok {
			n.Names[k] = vb
		}
	}
	n.Ghost = map[string]Term{}
	for k, va := range a.Ghost {
		if vb, ok := b.Ghost[k]; ok {
			n.Ghost[k] = u.ctx.Named("gh", Ite(c, va, vb))
		} else {
			n.Ghost[k] = va
		}
	}
	for k, vb := range b.Ghost {
		if _, ok := a.Ghost[k]; !ok {
			n.Ghost[k] = vb
		}
	}
	// heap
	n.Heap = map[string]Term{}
	fams := map[string]bool{}
	for k := range a.Heap {
		fams[k] = true
	}
	for k := range b.Heap {
		fams[k] = true
	}
	for _, k := range sortedKeys(fams) {
		s := u.famSort[k]
		ta := u.heapGet(a, k, s)
		tb := u.heapGet(b, k, s)
		if ta.S == tb.S {
			n.Heap[k] = ta
		} else {
			n.Heap[k] = u.ctx.Named("H", Ite(c, ta, tb))
		}
	}
	if a.Hid == b.Hid {
		n.Hid = a.Hid
	} else {
		n.Hid = u.newHid(hidRec{kind: 2, c: c, a: a.Hid, b: b.Hid})
	}
	if a.Alloc.S == b.Alloc.S && a.AllocOff == b.AllocOff {
		n.Alloc, n.AllocOff = a.Alloc, a.AllocOff
	} else {
		n.Alloc = u.ctx.Named("alloc", Ite(c, a.allocTerm(), b.allocTerm()))
	}
	// defers: must agree structurally
	if len(a.Defers) == len(b.Defers) {
		n.Defers = append([]deferEntry{}, a.Defers...)
		for i := range n.Defers {
			if a.Defers[i].Pos != b.Defers[i].Pos {
				u.unsupported("defer stacks differ at join")
			}
			n.Defers[i].G = Or(a.Defers[i].G, b.Defers[i].G)
		}
	} else {
		// conditional defers: keep the union, each guarded by its own registration guard
		n.Defers = append(append([]deferEntry{}, a.Defers...), b.Defers[commonPrefix(a.Defers, b.Defers):]...)
	}
	return n
}

func commonPrefix(a, b []deferEntry) int {
	i := 0
	for i < len(a) && i < len(b) && a[i].Pos == b[i].Pos {
		i++
	}
	return i
}

// mergeIncoming merges the edge states entering b and evaluates b's phis.
func (u *Unit) mergeIncoming(fr *frame, b *ssa.BasicBlock, inc []edgeState) *State {
	// phi operands per incoming edge
	var phis []*ssa.Phi
	for _, ins := range b.Instrs {
		if p, ok := ins.(*ssa.Phi); ok {
			phis = append(phis, p)
		} else {
			break
		}
	}
	phiVals := make([][]Value, len(inc))
	used := map[int]bool{}
	for i, e := range inc {
		if e.from == nil {
			continue
		}
		idx := -1
		for j, p := range b.Preds {
			if p == e.from && !used[j] {
				idx = j
				break
			}
		}
		if idx < 0 {
			for j, p := range b.Preds {
				if p == e.from {
					idx = j
					break
				}
			}
		}
		if idx < 0 {
			continue
		}
		used[idx] = true
		for _, p := range phis {
			phiVals[i] = append(phiVals[i], u.val(e.st, p.Edges[idx]))
		}
	}
	if len(inc) > 1 {
		// values that cannot be used at or after b (their definition does not dominate b) are dropped before merging
		for _, e := range inc {
			for v := range e.st.Env {
				ins, ok := v.(ssa.Instruction)
				if !ok || ins.Parent() != b.Parent() || ins.Block() == nil {
					continue
				}
				if !ins.Block().Dominates(b) {
					delete(e.st.Env, v)
				}
			}
		}
	}
	st := inc[0].st
	vals := phiVals[0]
	for i := 1; i < len(inc); i++ {
		c := st.G
		nst := u.mergeStates(st, inc[i].st)
		if len(phis) > 0 {
			if vals == nil {
				vals = phiVals[i]
			} else if phiVals[i] != nil {
				nv := make([]Value, len(phis))
				for k := range phis {
					nv[k] = u.mergeVal(c, vals[k], phiVals[i][k])
				}
				vals = nv
			}
		}
		st = nst
	}
	for k, p := range phis {
		if ov, ok := fr.phiOverride[p]; ok {
			st.Env[p] = ov
		} else if vals != nil {
			st.Env[p] = vals[k]
		}
		if p.Comment != "" {
			st.Names[strings.ReplaceAll(p.Comment, ".", "_")] = nameRef{V: st.Env[p]}
		}
	}
	return st
}

// ---------------------------------------------------------------------------
// region execution

func (u *Unit) runRegion(fr *frame, L *Loop, entries []edgeState) (exits, backs []edgeState) {
	li := fr.loops
	pending := map[*ssa.BasicBlock][]edgeState{}
	var header *ssa.BasicBlock
	if L != nil {
		header = L.Header
	} else {
		header = fr.fn.Blocks[0]
	}
	pending[header] = entries
	route := func(e edgeState) {
		if e.st.G.S == "false" {
			return
		}
		if L != nil && e.to == header {
			backs = append(backs, e)
			return
		}
		if L != nil && !L.Blocks[e.to] {
			exits = append(exits, e)
			return
		}
		pending[e.to] = append(pending[e.to], e)
	}
	for _, b := range li.rpo {
		if L != nil && !L.Blocks[b] {
			continue
		}
		if li.innermost[b] != L {
			child := li.childContaining(L, b)
			if child == nil || b != child.Header {
				continue
			}
			inc := pending[b]
			if len(inc) == 0 {
				continue
			}
			delete(pending, b)
			for _, e := range u.runLoop(fr, child, inc) {
				route(e)
			}
			continue
		}
		inc := pending[b]
		if len(inc) == 0 {
			continue
		}
		delete(pending, b)
		st := u.mergeIncoming(fr, b, inc)
		for _, e := range u.execBlock(fr, st, b) {
			route(e)
		}
	}
	return exits, backs
}

func (u *Unit) execBlock(fr *frame, st *State, b *ssa.BasicBlock) []edgeState {
	for _, ins := range b.Instrs {
		switch x := ins.(type) {
		case *ssa.If:
			c := u.asSc(u.val(st, x.Cond), nil).T
			c = u.ctx.Named("c", c)
			t := st.Clone()
			t.G = u.ctx.Named("g", And(st.G, c))
			f := st
			f.G = u.ctx.Named("g", And(st.G, Not(c)))
			return []edgeState{{b, b.Succs[0], t}, {b, b.Succs[1], f}}
		case *ssa.Jump:
			return []edgeState{{b, b.Succs[0], st}}
		case *ssa.Return:
			var vals []Value
			for _, r := range x.Results {
				vals = append(vals, u.val(st, r))
			}
			fr.rets = append(fr.rets, retState{st, vals})
			return nil
		case *ssa.Panic:
			if u.noPanic() {
				u.oblige(st, "nopanic", "explicit panic reachable", x.Pos(), TFalse, "")
			}
			return nil
		default:
			u.execInstr(fr, st, ins)
			if st.G.S == "false" {
				return nil
			}
		}
	}
	return nil
}

// ---------------------------------------------------------------------------
// loops

func (u *Unit) loopSpec(fr *frame, L *Loop) *LoopSpec {
	if fr.c != nil {
		if s, ok := fr.c.Loops[L.Ordinal]; ok {
			return s
		}
	}
	return nil
}

func (u *Unit) runLoop(fr *frame, L *Loop, entries []edgeState) []edgeState {
	spec := u.loopSpec(fr, L)
	if spec != nil && spec.Unroll > 0 {
		return u.runLoopUnrolled(fr, L, spec, entries)
	}
	if spec == nil {
		u.unsupported(fmt.Sprintf("loop %d of %s has no invariant (treated as 'invariant true' with havoc)", L.Ordinal, funcKey(fr.fn)))
		spec = &LoopSpec{Ordinal: L.Ordinal}
	}
	return u.runLoopCut(fr, L, spec, entries)
}

func (u *Unit) runLoopUnrolled(fr *frame, L *Loop, spec *LoopSpec, entries []edgeState) []edgeState {
	var exitsAll []edgeState
	cur := entries
	saved := u.oblSuffix
	for i := 0; i <= spec.Unroll && len(cur) > 0; i++ {
		u.oblSuffix = fmt.Sprintf("%s@L%d.%d", saved, L.Ordinal, i)
		exits, backs := u.runRegion(fr, L, cur)
		exitsAll = append(exitsAll, exits...)
		cur = backs
	}
	u.oblSuffix = saved
	if len(cur) > 0 {
		var gs []Term
		for _, e := range cur {
			gs = append(gs, e.st.G)
		}
		tmp := &State{G: TTrue}
		u.oblige(tmp, "unwind", fmt.Sprintf("loop %d runs at most %d iterations", L.Ordinal, spec.Unroll), L.minPos, Not(Or(gs...)), fmt.Sprintf("loop%d", L.Ordinal))
	}
	return exitsAll
}

// writeSet summarises what a loop body may modify.
type famWrite struct {
	whole bool
	bases []ssa.Value
	sort  string
	deps  map[string]bool // families read to compute derived bases (must not be written in the loop)
	nonFresh bool         // some write in the loop may hit an object that existed before the loop
	freshW   bool         // some write in the loop goes to an object allocated in the same iteration
	subBases []subBase    // locations inside by-value embedded structs of stable bases
	ranges   []ssa.Value  // stable slice values whose cells are written
	items    []modItem    // locations named by callee contracts, evaluated in the loop-entry state
}

type subStep struct {
	T types.Type
	I int
}

type subBase struct {
	base ssa.Value
	path []subStep
}

// freshInLoop: v denotes (part of) an object allocated inside the loop in the same iteration.
func freshInLoop(v ssa.Value, inLoop func(ssa.Value) bool, depth int) bool {
	if v == nil || !inLoop(v) || depth > 6 {
		return false
	}
	switch x := v.(type) {
	case *ssa.Alloc, *ssa.MakeMap, *ssa.MakeSlice:
		return true
	case *ssa.Call:
		if b, ok := x.Call.Value.(*ssa.Builtin); ok && b.Name() == "append" {
			return true
		}
	case *ssa.Slice:
		return freshInLoop(x.X, inLoop, depth+1)
	case *ssa.IndexAddr:
		return freshInLoop(x.X, inLoop, depth+1)
	case *ssa.FieldAddr:
		return freshInLoop(x.X, inLoop, depth+1)
	}
	return false
}

// stableBase: v is defined outside the loop, or is a chain of loads through
// fields / cells of such values (`*(&x.f)`, `*p`); deps collects the families read
// (they must not be written in the loop for the value to be loop-invariant).
func stableBase(v ssa.Value, inLoop func(ssa.Value) bool, deps map[string]bool, depth int) bool {
	if !inLoop(v) {
		return true
	}
	if depth > 4 {
		return false
	}
	switch x := v.(type) {
	case *ssa.UnOp:
		if x.Op != token.MUL {
			return false
		}
		if fa, ok := x.X.(*ssa.FieldAddr); ok {
			st := derefType(fa.X.Type())
			if st == nil {
				return false
			}
			ft := st.Underlying().(*types.Struct).Field(fa.Field).Type()
			cs := comps(ft)
			if cs == nil {
				return false
			}
			if !stableBase(fa.X, inLoop, deps, depth+1) {
				return false
			}
			for _, c := range cs {
				deps[fieldFam(st, fa.Field)+c[0]] = true
			}
			return true
		}
		cs := comps(x.Type())
		if cs == nil || !stableBase(x.X, inLoop, deps, depth+1) {
			return false
		}
		for _, c := range cs {
			deps[cellFam(x.Type())+c[0]] = true
		}
		return true
	case *ssa.FieldAddr:
		return stableBase(x.X, inLoop, deps, depth+1)
	}
	return false
}

// evalStable evaluates a stable base in the loop-entry state.
func (u *Unit) evalStable(st *State, v ssa.Value) Value {
	if r, ok := st.Env[v]; ok {
		return r
	}
	switch x := v.(type) {
	case *ssa.Const, *ssa.Global, *ssa.Function:
		return u.val(st, v)
	case *ssa.UnOp:
		var addr Value
		if fa, ok := x.X.(*ssa.FieldAddr); ok {
			addr = u.fieldAddr(u.evalStable(st, fa.X), derefType(fa.X.Type()), fa.Field)
		} else {
			addr = u.evalStable(st, x.X)
		}
		return u.loadAt(st.View(), addr, x.Type())
	case *ssa.FieldAddr:
		return u.fieldAddr(u.evalStable(st, x.X), derefType(x.X.Type()), x.Field)
	}
	return u.val(st, v)
}

// addRange records writes to cells of the stable slice value sl.
func (ws *writeSet) addRange(fam, sortv string, sl ssa.Value, deps map[string]bool) {
	fw := ws.fams[fam]
	if fw == nil {
		fw = &famWrite{sort: sortv}
		ws.fams[fam] = fw
	}
	fw.nonFresh = true
	if fw.deps == nil {
		fw.deps = map[string]bool{}
	}
	for d := range deps {
		fw.deps[d] = true
	}
	for _, r := range fw.ranges {
		if r == sl {
			return
		}
	}
	fw.ranges = append(fw.ranges, sl)
}

type writeSet struct {
	fams   map[string]*famWrite
	all    bool
	why    string
	ghosts map[string]bool
	allocs bool
	// when all is set: the functions whose (unknown) execution made it so; allUnrooted: some reason for
	// `all` is not the call of a known function with a body (then stability falls back to the CHA callees)
	allRoots    []*ssa.Function
	allUnrooted bool
}

func (ws *writeSet) setAll(why string, root *ssa.Function) {
	ws.all, ws.why = true, why
	if root != nil && root.Blocks != nil {
		ws.allRoots = append(ws.allRoots, root)
	} else {
		ws.allUnrooted = true
	}
}

func (ws *writeSet) add(fam, sortv string, base ssa.Value, inLoop func(ssa.Value) bool) {
	fw := ws.fams[fam]
	if fw == nil {
		fw = &famWrite{sort: sortv}
		ws.fams[fam] = fw
	}
	if base != nil && freshInLoop(base, inLoop, 0) {
		fw.freshW = true // havocked only for objects younger than the loop entry (see runLoopCut)
		return
	}
	fw.nonFresh = true
	if base == nil {
		fw.whole = true
		return
	}
	if inLoop(base) {
		deps := map[string]bool{}
		if !stableBase(base, inLoop, deps, 0) {
			fw.whole = true
			return
		}
		if fw.deps == nil {
			fw.deps = map[string]bool{}
		}
		for d := range deps {
			fw.deps[d] = true
		}
	}
	for _, b := range fw.bases {
		if b == base {
			return
		}
	}
	fw.bases = append(fw.bases, base)
}

func (u *Unit) addTypeWrite(ws *writeSet, prefixFam string, t types.Type, base ssa.Value, inLoop func(ssa.Value) bool) {
	for _, c := range comps(t) {
		ws.add(prefixFam+c[0], ArrSort(SInt, c[1]), base, inLoop)
	}
}

func (u *Unit) addStructWrite(ws *writeSet, t types.Type, depth int) {
	s, ok := t.Underlying().(*types.Struct)
	if !ok || depth > 5 {
		return
	}
	for i := 0; i < s.NumFields(); i++ {
		ft := s.Field(i).Type()
		if isStructType(ft) {
			u.addStructWrite(ws, ft, depth+1)
			continue
		}
		u.addTypeWrite(ws, fieldFam(t, i), ft, nil, func(ssa.Value) bool { return true })
	}
}

// addSub records a write to family fam at the address reached from a stable base through by-value struct fields.
func (ws *writeSet) addSub(fam, sortv string, base ssa.Value, path []subStep, deps map[string]bool) {
	fw := ws.fams[fam]
	if fw == nil {
		fw = &famWrite{sort: sortv}
		ws.fams[fam] = fw
	}
	fw.nonFresh = true
	if fw.deps == nil {
		fw.deps = map[string]bool{}
	}
	for d := range deps {
		fw.deps[d] = true
	}
	fw.subBases = append(fw.subBases, subBase{base, append([]subStep{}, path...)})
}

// addStructWriteAt: a whole struct of type t is stored at base.path (base stable): every leaf is written location-wise.
func (u *Unit) addStructWriteAt(ws *writeSet, t types.Type, base ssa.Value, path []subStep, deps map[string]bool, depth int) {
	s, ok := t.Underlying().(*types.Struct)
	if !ok || depth > 5 {
		return
	}
	for i := 0; i < s.NumFields(); i++ {
		ft := s.Field(i).Type()
		if isStructType(ft) {
			u.addStructWriteAt(ws, ft, base, append(append([]subStep{}, path...), subStep{t, i}), deps, depth+1)
			continue
		}
		for _, c := range comps(ft) {
			ws.addSub(fieldFam(t, i)+c[0], ArrSort(SInt, c[1]), base, path, deps)
		}
	}
}

// addStructWriteBase: like addStructWrite but remembers whether the written object is fresh in the loop.
func (u *Unit) addStructWriteBase(ws *writeSet, t types.Type, depth int, base ssa.Value, inLoop func(ssa.Value) bool) {
	if base != nil && freshInLoop(base, inLoop, 0) {
		s, ok := t.Underlying().(*types.Struct)
		if !ok || depth > 5 {
			return
		}
		for i := 0; i < s.NumFields(); i++ {
			ft := s.Field(i).Type()
			if isStructType(ft) {
				u.addStructWriteBase(ws, ft, depth+1, base, inLoop)
				continue
			}
			u.addTypeWrite(ws, fieldFam(t, i), ft, base, inLoop)
		}
		return
	}
	u.addStructWrite(ws, t, depth)
}

func (u *Unit) addMapWrite(ws *writeSet, mt types.Type, base ssa.Value, inLoop func(ssa.Value) bool, valsToo bool) {
	m, ok := mt.Underlying().(*types.Map)
	if !ok {
		return
	}
	ks := scalarSort(m.Key())
	if ks == "" {
		ks = SInt
	}
	ws.add(mapDomFam(mt), ArrSort(SInt, ArrSort(ks, SBool)), base, inLoop)
	if valsToo {
		for _, c := range mapComps(m.Elem()) {
			ws.add(mapValFam(mt)+c[0], ArrSort(SInt, ArrSort(ks, c[1])), base, inLoop)
		}
	}
}

func (u *Unit) scanWrites(fr *frame, blocks map[*ssa.BasicBlock]bool, ws *writeSet, depth int) {
	inLoop := func(v ssa.Value) bool {
		if ins, ok := v.(ssa.Instruction); ok {
			return blocks[ins.Block()]
		}
		return false
	}
	if depth > 0 {
		inLoop = func(ssa.Value) bool { return true }
	}
	for b := range blocks {
		for _, ins := range b.Instrs {
			switch x := ins.(type) {
			case *ssa.Store:
				elem := derefType(x.Addr.Type())
				switch a := x.Addr.(type) {
				case *ssa.FieldAddr:
					st := derefType(a.X.Type())
					if isStructType(elem) {
						deps := map[string]bool{}
						if !freshInLoop(a.X, inLoop, 0) && stableBase(a.X, inLoop, deps, 0) && depth == 0 {
							u.addStructWriteAt(ws, elem, a.X, []subStep{{st, a.Field}}, deps, 0)
						} else {
							u.addStructWriteBase(ws, elem, 0, a.X, inLoop)
						}
					} else {
						u.addTypeWrite(ws, fieldFam(st, a.Field), elem, a.X, inLoop)
					}
				case *ssa.Global:
					if isStructType(elem) {
						u.addStructWrite(ws, elem, 0)
					} else {
						for _, c := range comps(elem) {
							ws.add("G:"+a.Pkg.Pkg.Path()+"."+a.Name()+c[0], ArrSort(SInt, c[1]), nil, inLoop)
						}
					}
				case *ssa.IndexAddr:
					deps := map[string]bool{}
					_, isSlice := a.X.Type().Underlying().(*types.Slice)
					if !isStructType(elem) && isSlice && depth == 0 && !freshInLoop(a.X, inLoop, 0) && stableBase(a.X, inLoop, deps, 0) {
						for _, c := range comps(elem) {
							ws.addRange(cellFam(elem)+c[0], ArrSort(SInt, c[1]), a.X, deps)
						}
					} else if isStructType(elem) {
						u.addStructWriteBase(ws, elem, 0, x.Addr, inLoop)
					} else {
						var base ssa.Value
						if freshInLoop(x.Addr, inLoop, 0) {
							base = x.Addr
						}
						u.addTypeWrite(ws, cellFam(elem), elem, base, inLoop)
					}
				default:
					if isStructType(elem) {
						u.addStructWriteBase(ws, elem, 0, x.Addr, inLoop)
					} else {
						var base ssa.Value
						if al, ok := a.(*ssa.Alloc); ok {
							base = al
						} else if freshInLoop(x.Addr, inLoop, 0) {
							base = x.Addr
						}
						u.addTypeWrite(ws, cellFam(elem), elem, base, inLoop)
					}
				}
			case *ssa.MapUpdate:
				u.addMapWrite(ws, x.Map.Type(), x.Map, inLoop, true)
			case *ssa.Alloc, *ssa.MakeMap, *ssa.MakeSlice, *ssa.MakeClosure, *ssa.MakeInterface:
				ws.allocs = true
				switch y := ins.(type) {
				case *ssa.Alloc:
					elem := derefType(y.Type())
					if isStructType(elem) {
						if countFlatFields(elem, 0) <= 80 {
							u.addStructWriteBase(ws, elem, 0, y, inLoop)
						}
					} else if comps(elem) != nil {
						u.addTypeWrite(ws, cellFam(elem), elem, y, inLoop)
					}
				case *ssa.MakeMap:
					u.addMapWrite(ws, y.Type(), y, inLoop, false)
				case *ssa.MakeSlice:
					if sl, ok := y.Type().Underlying().(*types.Slice); ok && scalarSort(sl.Elem()) != "" {
						u.addTypeWrite(ws, cellFam(sl.Elem()), sl.Elem(), y, inLoop)
					}
				}
			case *ssa.Next:
				if r, ok := x.Iter.(*ssa.Range); ok && depth == 0 {
					id := fmt.Sprintf("%s@%d", r.Name(), len(u.inlineStack))
					ws.ghosts["visited:"+id] = true
					ws.ghosts["lastkey:"+id] = true
				}
			case *ssa.Go, *ssa.Send, *ssa.Select:
				ws.setAll("concurrency", nil)
			case *ssa.Defer:
				ws.setAll("defer in loop", nil)
			case ssa.CallInstruction:
				iv, _ := ins.(ssa.Value)
				u.scanCallWrites(fr, x.Common(), iv, ws, inLoop, depth)
			}
		}
	}
}

func (u *Unit) runLoopCut(fr *frame, L *Loop, spec *LoopSpec, entries []edgeState) []edgeState {
	savedVisited := u.curVisited
	for _, ins := range L.Header.Instrs {
		if nx, ok := ins.(*ssa.Next); ok {
			if r, ok := nx.Iter.(*ssa.Range); ok {
				u.curVisited = fmt.Sprintf("visited:%s@%d", r.Name(), len(u.inlineStack))
			}
		}
	}
	defer func() { u.curVisited = savedVisited }()
	// 1. merged entry state with phi values from the entry edges
	entrySt := u.mergeIncoming(&frame{fn: fr.fn, c: fr.c, loops: fr.loops, params: fr.params, phiOverride: nil}, L.Header, cloneEdges(entries))
	// obligation: invariants hold on entry
	for i, inv := range spec.Invariants {
		t := u.evalSpecBool(fr, entrySt, inv)
		u.oblige(entrySt, "inv-entry", fmt.Sprintf("loop %d invariant %d holds on entry: %s", L.Ordinal, i+1, inv.Text), L.minPos, t, fmt.Sprintf("loop%d.%d", L.Ordinal, i+1))
	}
	// 2. havoc
	ws := &writeSet{fams: map[string]*famWrite{}, ghosts: map[string]bool{}}
	if spec.ModAll {
		ws.setAll("modifies *", nil)
	}
	u.scanEntry = entrySt
	u.scanWrites(fr, L.Blocks, ws, 0)
	u.scanEntry = nil
	head := entrySt.Clone()
	// location-wise havoc of one family on top of `old` (its value at loop entry, or - for a stable family in a
	// havoc-all loop - its value after the whole-heap havoc)
	applyFam := func(fam string, old Term) {
		fw := ws.fams[fam]
			if fw.whole {
				head.Heap[fam] = u.ctx.Fresh("H", fw.sort)
				u.famSort[fam] = fw.sort
				u.written[fam] = true
				return
			}
			cur := old
			for _, b := range fw.bases {
				ref := u.asSc(u.evalStable(entrySt, b), nil).T
				cur = Store(cur, ref, u.ctx.Fresh("hv", arrVal(fw.sort)))
			}
			for _, sb := range fw.subBases {
				ref := u.asSc(u.evalStable(entrySt, sb.base), nil).T
				for _, stp := range sb.path {
					ref = u.subAddr(ref, stp.T, stp.I)
				}
				cur = Store(cur, ref, u.ctx.Fresh("hv", arrVal(fw.sort)))
			}
			for _, it := range fw.items {
				switch {
				case it.rngArr != nil:
					cur = u.ctx.Named("H", cur)
					nh := u.ctx.Fresh("H", fw.sort)
					u.assume(head, Term{fmt.Sprintf("(forall ((p Int)) (! (=> (not %s) (= (select %s p) (select %s p))) :pattern ((select %s p))))", it.inRange("p"), nh.S, cur.S, nh.S), SBool}, "loop-callee-slice-cells-havoc")
					cur = nh
				case it.key != nil:
					inner := Select(cur, it.idx)
					cur = Store(cur, it.idx, Store(inner, *it.key, u.ctx.Fresh("hv", arrVal(inner.Sort))))
				default:
					cur = Store(cur, it.idx, u.ctx.Fresh("hv", arrVal(fw.sort)))
				}
			}
			for _, rv := range fw.ranges {
				sv, ok := u.evalStable(entrySt, rv).(SliceV)
				if !ok {
					fw.whole = true
					break
				}
				lo, hi := sv.Off, Arith("+", sv.Off, sv.Len)
				it := modItem{rngArr: &sv.Arr, rngLo: &lo, rngHi: &hi}
				cur = u.ctx.Named("H", cur)
				nh := u.ctx.Fresh("H", fw.sort)
				u.assume(head, Term{fmt.Sprintf("(forall ((p Int)) (! (=> (not %s) (= (select %s p) (select %s p))) :pattern ((select %s p))))", it.inRange("p"), nh.S, cur.S, nh.S), SBool}, "loop-slice-cells-havoc")
				cur = nh
			}
			if fw.whole {
				head.Heap[fam] = u.ctx.Fresh("H", fw.sort)
				u.famSort[fam] = fw.sort
				u.written[fam] = true
				return
			}
			if fw.freshW && strings.HasPrefix(fw.sort, "(Array Int") {
				// writes to objects allocated in the same iteration: older objects keep (the location-wise havocked) contents
				cur = u.ctx.Named("H", cur)
				nh := u.ctx.Fresh("H", fw.sort)
				u.assume(head, Term{fmt.Sprintf("(forall ((p Int)) (! (=> (< (objof p) %s) (= (select %s p) (select %s p))) :pattern ((select %s p))))", entrySt.allocTerm().S, nh.S, cur.S, nh.S), SBool}, "loop-fresh-frame")
				head.Heap[fam] = nh
				u.famSort[fam] = fw.sort
				u.written[fam] = true
				return
			} else if fw.freshW {
				head.Heap[fam] = u.ctx.Fresh("H", fw.sort)
				u.famSort[fam] = fw.sort
				u.written[fam] = true
				return
			}
			u.heapSet(head, fam, cur)
		
	}
	if ws.all {
		if !ws.allUnrooted {
			// every reason for the whole-heap havoc is the call of a known function: stability is decided from
			// those callees; the loop's own stores and its contracted callees are applied location-wise below
			u.havocRoots, u.havocSelf, u.havocRooted = ws.allRoots, nil, true
		} else if roots, ok := u.w.loopCallees(fr.fn, L.Blocks); ok {
			u.havocRoots, u.havocSelf, u.havocRooted = roots, fr.fn, true
		}
		rootedByCallees := !ws.allUnrooted
		u.havocAll(head, fmt.Sprintf("loop %d: %s", L.Ordinal, ws.why))
		// havocAll carries over (a) private address-taken locals and private maps of this function (no callee
		// can touch them) and (b) stable families when the havoc is rooted at the loop's havoc-all callees.
		// The loop body ITSELF may write both: its own stores and the frames of its contracted callees are
		// applied location-wise on top (a family that was not carried over is havocked as a whole anyway).
		rec := u.hids[head.Hid]
		kept := func(f string) bool {
			if _, explicit := head.Heap[f]; explicit {
				return true
			}
			return rootedByCallees && u.w.stableAt(f, u.fn, rec) != nil
		}
		for _, fam := range sortedKeys(ws.fams) {
			if !kept(fam) {
				continue
			}
			fw := ws.fams[fam]
			for d := range fw.deps {
				// the targets were located through family d: it must not change in the loop
				if _, written := ws.fams[d]; written || !kept(d) {
					fw.whole = true
				}
			}
			applyFam(fam, u.heapGet(head, fam, fw.sort))
		}
	} else {
		for _, fam := range sortedKeys(ws.fams) {
			fw := ws.fams[fam]
			for d := range fw.deps {
				if _, written := ws.fams[d]; written {
					fw.whole = true
				}
			}
		}
		for _, fam := range sortedKeys(ws.fams) {
			applyFam(fam, u.heapGet(entrySt, fam, ws.fams[fam].sort))
		}
		if ws.allocs {
			u.bumpAlloc(head)
		}
	}
	for k := range head.Ghost {
		if ws.ghosts[k] || ws.all {
			head.Ghost[k] = u.ctx.Fresh("gh", head.Ghost[k].Sort)
		}
	}

	// phis get fresh values
	override := map[*ssa.Phi]Value{}
	for _, ins := range L.Header.Instrs {
		p, ok := ins.(*ssa.Phi)
		if !ok {
			break
		}
		override[p] = u.freshValue(p.Type(), "loop_"+p.Comment)
		u.assumeResultOld(head, override[p])
		head.Env[p] = override[p]
		if p.Comment != "" {
			head.Names[strings.ReplaceAll(p.Comment, ".", "_")] = nameRef{V: override[p]}
		}
	}
	// values defined inside the loop are stale: drop them so that uses are re-evaluated
	for v := range head.Env {
		if ins, ok := v.(ssa.Instruction); ok && L.Blocks[ins.Block()] {
			if _, isPhi := v.(*ssa.Phi); isPhi && ins.Block() == L.Header {
				continue
			}
			delete(head.Env, v)
		}
	}
	// built-in facts for visited sets: visited is a subset of the map domain
	// 3. assume invariants at the head
	for _, inv := range spec.Invariants {
		t := u.evalSpecBool(fr, head, inv)
		u.assume(head, t, fmt.Sprintf("loop %d invariant (assumed at head): %s", L.Ordinal, inv.Text))
	}
	var m0 Term
	if spec.Decreases != nil {
		m0 = u.ctx.Named("measure", u.evalSpecTerm(fr, head, *spec.Decreases))
	}
	u.cover(head, fmt.Sprintf("loop %d head reachable under invariants", L.Ordinal), L.minPos)
	// 4. run the body once
	sub := &frame{fn: fr.fn, c: fr.c, loops: fr.loops, params: fr.params, entry: fr.entry, isTop: fr.isTop, phiOverride: override}
	saved := u.oblSuffix
	exits, backs := u.runRegion(sub, L, []edgeState{{nil, L.Header, head}})
	u.oblSuffix = saved
	fr.rets = append(fr.rets, sub.rets...)
	// 5. back edges: invariant preserved, measure decreases
	for _, e := range backs {
		bst := e.st.Clone()
		idx := -1
		for j, p := range L.Header.Preds {
			if p == e.from {
				idx = j
			}
		}
		for _, ins := range L.Header.Instrs {
			p, ok := ins.(*ssa.Phi)
			if !ok {
				break
			}
			if idx >= 0 {
				v := u.val(e.st, p.Edges[idx])
				bst.Env[p] = v
				if p.Comment != "" {
					bst.Names[strings.ReplaceAll(p.Comment, ".", "_")] = nameRef{V: v}
				}
			}
		}
		for i, inv := range spec.Invariants {
			t := u.evalSpecBool(fr, bst, inv)
			u.oblige(bst, "inv-preserved", fmt.Sprintf("loop %d invariant %d preserved: %s", L.Ordinal, i+1, inv.Text), L.minPos, t, fmt.Sprintf("loop%d.%d", L.Ordinal, i+1))
		}
		if spec.Decreases != nil {
			m1 := u.evalSpecTerm(fr, bst, *spec.Decreases)
			u.oblige(bst, "decreases", fmt.Sprintf("loop %d measure decreases and is bounded: %s", L.Ordinal, spec.Decreases.Text), L.minPos, And(Cmp("<", m1, m0), Cmp(">=", m0, u.coerce(TZero, m0.Sort))), fmt.Sprintf("loop%d", L.Ordinal))
		}
	}
	return exits
}

func cloneEdges(es []edgeState) []edgeState {
	out := make([]edgeState, len(es))
	for i, e := range es {
		out[i] = edgeState{e.from, e.to, e.st.Clone()}
	}
	return out
}
