package main

import (
	"fmt"
	"go/token"
	"go/types"
	"strings"

	"golang.org/x/tools/go/ssa"
)

type extHandler func(u *Unit, fr *frame, st *State, callee *ssa.Function, args []Value, resT types.Type, pos token.Pos) Value

var externals map[string]extHandler
var ifaceExternals map[string]extHandler

// externalWrites: externals that modify caller-visible memory (none of the modelled ones do).
var externalWrites = map[string]bool{}

// externalWriteFams: precise write sets of modelled externals (for loop havoc computation).
var externalWriteFams = map[string]func(u *Unit, callee *ssa.Function, ws *writeSet){}

// externalReadonly: body-less library functions known not to write caller-visible memory.
var externalReadonly = map[string]bool{
	"reflect.DeepEqual":           true,
	"strings.Join":                true,
	"strings.Split":               true,
	"strings.Fields":              true,
	"fmt.Sprintf":                 true,
	"fmt.Sprint":                  true,
	"fmt.Errorf":                  true,
	"errors.New":                  true,
	"errors.Is":                   true,
	"(k8s.io/apimachinery/pkg/api/resource.Quantity).String": true,
}

func externalIsScalarPure(f *ssa.Function) bool {
	sig := f.Signature
	chk := func(t types.Type) bool {
		if _, op := isOpaqueScalar(t); op {
			return true
		}
		if b, ok := t.Underlying().(*types.Basic); ok {
			return b.Info()&(types.IsBoolean|types.IsNumeric|types.IsString) != 0
		}
		return false
	}
	if sig.Recv() != nil && !chk(sig.Recv().Type()) {
		return false
	}
	for i := 0; i < sig.Params().Len(); i++ {
		if !chk(sig.Params().At(i).Type()) {
			return false
		}
	}
	for i := 0; i < sig.Results().Len(); i++ {
		t := sig.Results().At(i).Type()
		if !chk(t) && !isErrorType(t) {
			return false
		}
	}
	if sig.Variadic() {
		return false
	}
	return true
}

func isErrorType(t types.Type) bool {
	n, ok := t.(*types.Named)
	return ok && n.Obj().Pkg() == nil && n.Obj().Name() == "error"
}

// externalDefault handles calls to functions without bodies and without a model.
func (u *Unit) externalDefault(st *State, callee *ssa.Function, args []Value, resT types.Type, pos token.Pos) Value {
	full := callee.String()
	if externalIsScalarPure(callee) {
		u.note("external " + full + " modelled as a deterministic uninterpreted function of its arguments")
		var sorts []string
		var ts []Term
		for _, a := range args {
			sc := u.asSc(a, nil)
			sorts = append(sorts, sc.T.Sort)
			ts = append(ts, sc.T)
		}
		mk := func(i int, t types.Type) Value {
			s := scalarSort(t)
			f := u.ctx.Fun(fmt.Sprintf("ext:%s#%d", full, i), sorts, s)
			if len(ts) == 0 {
				return Sc{Term{f, s}, t}
			}
			return Sc{app(f, s, ts...), t}
		}
		rs := callee.Signature.Results()
		switch rs.Len() {
		case 0:
			return nil
		case 1:
			return mk(0, rs.At(0).Type())
		}
		var tv TupleV
		for i := 0; i < rs.Len(); i++ {
			tv = append(tv, mk(i, rs.At(i).Type()))
		}
		return tv
	}
	if externalReadonly[full] {
		u.note("external " + full + ": result unconstrained, heap unchanged (listed read-only)")
		r := u.freshResult(st, resT, "ext")
		return r
	}
	u.note("external " + full + " has no model: heap havocked at the call")
	u.havocAll(st, "external "+full)
	return u.freshResult(st, resT, "ext")
}

func fsc(u *Unit, v Value) Term { return u.asSc(v, nil).T }

func floatT() types.Type { return types.Typ[types.Float64] }

func init() {
	externals = map[string]extHandler{}
	ifaceExternals = map[string]extHandler{}
	f64 := func(t Term) Value { return Sc{t, types.Typ[types.Float64]} }
	externals["math.Min"] = func(u *Unit, fr *frame, st *State, c *ssa.Function, a []Value, rt types.Type, pos token.Pos) Value {
		x, y := fsc(u, a[0]), fsc(u, a[1])
		if x.Sort == SF {
			return f64(app("f_min", SF, x, y))
		}
		return f64(u.ctx.Named("min", Ite(Cmp("<=", x, y), x, y)))
	}
	externals["math.Max"] = func(u *Unit, fr *frame, st *State, c *ssa.Function, a []Value, rt types.Type, pos token.Pos) Value {
		x, y := fsc(u, a[0]), fsc(u, a[1])
		if x.Sort == SF {
			return f64(app("f_max", SF, x, y))
		}
		return f64(u.ctx.Named("max", Ite(Cmp(">=", x, y), x, y)))
	}
	externals["math.Abs"] = func(u *Unit, fr *frame, st *State, c *ssa.Function, a []Value, rt types.Type, pos token.Pos) Value {
		x := fsc(u, a[0])
		if x.Sort == SF {
			return f64(app("f_abs", SF, x))
		}
		return f64(Ite(Cmp(">=", x, Term{"0.0", SReal}), x, app("-", SReal, x)))
	}
	externals["math.Floor"] = func(u *Unit, fr *frame, st *State, c *ssa.Function, a []Value, rt types.Type, pos token.Pos) Value {
		x := fsc(u, a[0])
		if x.Sort == SF {
			return f64(app("f_floor", SF, x))
		}
		return f64(app("to_real", SReal, app("to_int", SInt, x)))
	}
	externals["math.Ceil"] = func(u *Unit, fr *frame, st *State, c *ssa.Function, a []Value, rt types.Type, pos token.Pos) Value {
		x := fsc(u, a[0])
		if x.Sort == SF {
			return f64(app("f_ceil", SF, x))
		}
		return f64(app("to_real", SReal, app("-", SInt, app("to_int", SInt, app("-", SReal, x)))))
	}
	externals["math.Trunc"] = func(u *Unit, fr *frame, st *State, c *ssa.Function, a []Value, rt types.Type, pos token.Pos) Value {
		x := fsc(u, a[0])
		if x.Sort == SF {
			u.unsupported("math.Trunc in ieee mode")
			return u.freshValue(floatT(), "trunc")
		}
		return f64(app("to_real", SReal, Ite(Cmp(">=", x, Term{"0.0", SReal}), app("to_int", SInt, x), app("-", SInt, app("to_int", SInt, app("-", SReal, x))))))
	}
	externals["math.Round"] = func(u *Unit, fr *frame, st *State, c *ssa.Function, a []Value, rt types.Type, pos token.Pos) Value {
		x := fsc(u, a[0])
		if x.Sort == SF {
			u.unsupported("math.Round in ieee mode")
			return u.freshValue(floatT(), "round")
		}
		// round half away from zero
		half := Term{"0.5", SReal}
		pos1 := app("to_int", SInt, Arith("+", x, half))
		neg1 := app("-", SInt, app("to_int", SInt, Arith("+", app("-", SReal, x), half)))
		return f64(app("to_real", SReal, Ite(Cmp(">=", x, Term{"0.0", SReal}), pos1, neg1)))
	}
	externals["math.Inf"] = func(u *Unit, fr *frame, st *State, c *ssa.Function, a []Value, rt types.Type, pos token.Pos) Value {
		s := fsc(u, a[0])
		if curFloatSort == SF {
			return f64(Ite(Cmp(">=", s, TZero), Term{"pinf", SF}, Term{"ninf", SF}))
		}
		u.unsupported("math.Inf needs 'ieee' mode")
		return u.freshValue(floatT(), "inf")
	}
	externals["math.IsNaN"] = func(u *Unit, fr *frame, st *State, c *ssa.Function, a []Value, rt types.Type, pos token.Pos) Value {
		x := fsc(u, a[0])
		if x.Sort == SF {
			return Sc{app("f_isnan", SBool, x), types.Typ[types.Bool]}
		}
		u.note("A-REAL: math.IsNaN is false in the Real model")
		return Sc{TFalse, types.Typ[types.Bool]}
	}
	externals["math.IsInf"] = func(u *Unit, fr *frame, st *State, c *ssa.Function, a []Value, rt types.Type, pos token.Pos) Value {
		x := fsc(u, a[0])
		sg := fsc(u, a[1])
		if x.Sort == SF {
			return Sc{Or(And(Cmp(">=", sg, TZero), Eq(x, Term{"pinf", SF})), And(Cmp("<=", sg, TZero), Eq(x, Term{"ninf", SF}))), types.Typ[types.Bool]}
		}
		u.note("A-REAL: math.IsInf is false in the Real model")
		return Sc{TFalse, types.Typ[types.Bool]}
	}
	// strconv ---------------------------------------------------------------
	errT := types.Universe.Lookup("error").Type()
	externals["strconv.ParseFloat"] = func(u *Unit, fr *frame, st *State, c *ssa.Function, a []Value, rt types.Type, pos token.Pos) Value {
		s := fsc(u, a[0])
		bits := fsc(u, a[1])
		fs := curFloatSort
		fv := u.ctx.Fun("strconv.ParseFloat#val", []string{SStr, SInt}, fs)
		fe := u.ctx.Fun("strconv.ParseFloat#err", []string{SStr, SInt}, SInt)
		v := app(fv, fs, s, bits)
		e := app(fe, SInt, s, bits)
		u.ctx.Assert(And(Cmp(">=", e, TZero), Implies(Eq(s, u.ctx.StrLit("")), And(Neq(e, TNil), Eq(v, u.zeroTerm(fs))))), "strconv.ParseFloat: error value; empty string is a syntax error with value 0")
		if fs == SF {
			// on error the value is 0 (syntax) or +-Inf (range); on success it can be any float incl. NaN/Inf
			u.ctx.Assert(Implies(Neq(e, TNil), Or(Eq(v, Term{"(fin 0.0)", SF}), Eq(v, Term{"pinf", SF}), Eq(v, Term{"ninf", SF}))), "strconv.ParseFloat: value on error")
		} else {
			u.note("A-REAL: strconv.ParseFloat never yields NaN/Inf in the Real model")
		}
		u.note("external strconv.ParseFloat: deterministic function of (string, bitSize)")
		return TupleV{Sc{v, types.Typ[types.Float64]}, Sc{e, errT}}
	}
	parseInt := func(name string, unsigned bool) extHandler {
		return func(u *Unit, fr *frame, st *State, c *ssa.Function, a []Value, rt types.Type, pos token.Pos) Value {
			s := fsc(u, a[0])
			base, bits := IntLit(10), IntLit(0)
			if len(a) >= 3 {
				base, bits = fsc(u, a[1]), fsc(u, a[2])
			}
			return u.parseIntModel(s, base, bits, unsigned, rt)
		}
	}
	externals["strconv.ParseInt"] = parseInt("ParseInt", false)
	externals["strconv.ParseUint"] = parseInt("ParseUint", true)
	externals["strconv.Atoi"] = func(u *Unit, fr *frame, st *State, c *ssa.Function, a []Value, rt types.Type, pos token.Pos) Value {
		return u.parseIntModel(fsc(u, a[0]), IntLit(10), IntLit(0), false, rt)
	}
	// fmt / errors -----------------------------------------------------------
	freshErr := func(u *Unit, fr *frame, st *State, c *ssa.Function, a []Value, rt types.Type, pos token.Pos) Value {
		e := u.ctx.Fresh("err", SInt)
		u.ctx.Assert(And(Neq(e, TNil), Cmp(">", e, TZero), Eq(app("objof", SInt, e), TZero)), "fresh error is non-nil")
		return Sc{e, errT}
	}
	externals["fmt.Errorf"] = freshErr
	externals["errors.New"] = freshErr
	freshStr := func(u *Unit, fr *frame, st *State, c *ssa.Function, a []Value, rt types.Type, pos token.Pos) Value {
		return Sc{u.ctx.Fresh("str", SStr), types.Typ[types.String]}
	}
	externals["fmt.Sprintf"] = func(u *Unit, fr *frame, st *State, c *ssa.Function, a []Value, rt types.Type, pos token.Pos) Value {
		// deterministic uninterpreted function of the format and the (boxed) arguments when their number is known
		anyT := types.NewInterfaceType(nil, nil)
		var boxed []Term
		ok := false
		if len(a) == 2 {
			if sl, isSl := a[1].(SliceV); isSl {
				if n, isLit := smallLit(sl.Len); isLit && n <= 8 && sl.Off.S == "0" {
					arr := u.heapGet(st, cellFam(sl.Elem), ArrSort(SInt, SInt))
					for i := int64(0); i < n; i++ {
						boxed = append(boxed, Select(arr, u.elemAddr(sl.Arr, IntLit(i))))
					}
					ok = true
				}
			}
		}
		if !ok && len(a) >= 1 && len(a) <= 9 {
			// called from a specification with the variadic arguments spelled out: box them the way the compiler does
			ok = true
			for _, v := range a[1:] {
				t := valueType(v)
				if _, isSl := v.(SliceV); isSl || t == nil {
					ok = false
					break
				}
				if isInterfaceType(t) {
					boxed = append(boxed, u.asSc(v, t).T)
				} else {
					boxed = append(boxed, u.asSc(u.makeInterface(v, t, anyT), anyT).T)
				}
			}
		}
		if ok {
			sorts := []string{SStr}
			ts := []Term{u.asSc(a[0], nil).T}
			for _, b := range boxed {
				sorts = append(sorts, SInt)
				ts = append(ts, b)
			}
			f := u.ctx.Fun(fmt.Sprintf("fmt.Sprintf#%d", len(boxed)), sorts, SStr)
			return Sc{app(f, SStr, ts...), types.Typ[types.String]}
		}
		return Sc{u.ctx.Fresh("str", SStr), types.Typ[types.String]}
	}
	externals["fmt.Sprint"] = freshStr
	externals["fmt.Sprintln"] = freshStr
	externals["strings.Join"] = freshStr
	// time -------------------------------------------------------------------
	timeT := func(u *Unit) types.Type { return u.w.lookupType("time", "Time") }
	externals["time.Now"] = func(u *Unit, fr *frame, st *State, c *ssa.Function, a []Value, rt types.Type, pos token.Pos) Value {
		// the k-th executed time.Now() of the unit is the constant time.Now#k (spec builtin now() / now(k))
		if u.specMode == 0 {
			u.nowN++
		}
		n := u.nowN
		if n == 0 {
			n = 1
		}
		return Sc{u.ctx.Const(fmt.Sprintf("time.Now#%d", n), SInt), rt}
	}
	externals["(time.Time).Before"] = func(u *Unit, fr *frame, st *State, c *ssa.Function, a []Value, rt types.Type, pos token.Pos) Value {
		return Sc{Cmp("<", fsc(u, a[0]), fsc(u, a[1])), types.Typ[types.Bool]}
	}
	externals["(time.Time).After"] = func(u *Unit, fr *frame, st *State, c *ssa.Function, a []Value, rt types.Type, pos token.Pos) Value {
		return Sc{Cmp(">", fsc(u, a[0]), fsc(u, a[1])), types.Typ[types.Bool]}
	}
	externals["(time.Time).Equal"] = func(u *Unit, fr *frame, st *State, c *ssa.Function, a []Value, rt types.Type, pos token.Pos) Value {
		return Sc{Eq(fsc(u, a[0]), fsc(u, a[1])), types.Typ[types.Bool]}
	}
	externals["(time.Time).IsZero"] = func(u *Unit, fr *frame, st *State, c *ssa.Function, a []Value, rt types.Type, pos token.Pos) Value {
		return Sc{Eq(fsc(u, a[0]), TZero), types.Typ[types.Bool]}
	}
	externals["(time.Time).Add"] = func(u *Unit, fr *frame, st *State, c *ssa.Function, a []Value, rt types.Type, pos token.Pos) Value {
		return Sc{Arith("+", fsc(u, a[0]), fsc(u, a[1])), rt}
	}
	externals["(time.Time).Sub"] = func(u *Unit, fr *frame, st *State, c *ssa.Function, a []Value, rt types.Type, pos token.Pos) Value {
		return Sc{Arith("-", fsc(u, a[0]), fsc(u, a[1])), rt}
	}
	externals["time.Since"] = func(u *Unit, fr *frame, st *State, c *ssa.Function, a []Value, rt types.Type, pos token.Pos) Value {
		return Sc{Arith("-", u.ctx.Fresh("now", SInt), fsc(u, a[0])), rt}
	}
	_ = timeT
	// metav1.Time: pointer-receiver comparisons read the cell
	mt := "k8s.io/apimachinery/pkg/apis/meta/v1.Time"
	timeArg := func(u *Unit, st *State, v Value) (val Term, nonnil Term) {
		t := u.w.lookupType("k8s.io/apimachinery/pkg/apis/meta/v1", "Time")
		switch x := v.(type) {
		case LocPtr:
			return u.asSc(u.loadLoc(st.View(), x.Fam, x.Idx, x.Typ), nil).T, TTrue
		case Sc:
			return Select(u.heapGet(st, cellFam(t), ArrSort(SInt, SInt)), x.T), Neq(x.T, TNil)
		}
		return u.ctx.Fresh("time", SInt), u.ctx.Fresh("timenn", SBool)
	}
	externals["(*"+mt+").Before"] = func(u *Unit, fr *frame, st *State, c *ssa.Function, a []Value, rt types.Type, pos token.Pos) Value {
		xv, xn := timeArg(u, st, a[0])
		yv, yn := timeArg(u, st, a[1])
		// (t != nil && u != nil) ? t.Before(u) : false
		return Sc{And(xn, yn, Cmp("<", xv, yv)), types.Typ[types.Bool]}
	}
	externals["(*"+mt+").Equal"] = func(u *Unit, fr *frame, st *State, c *ssa.Function, a []Value, rt types.Type, pos token.Pos) Value {
		xv, xn := timeArg(u, st, a[0])
		yv, yn := timeArg(u, st, a[1])
		return Sc{Ite(And(Not(xn), Not(yn)), TTrue, And(xn, yn, Eq(xv, yv))), types.Typ[types.Bool]}
	}
	externals["(*"+mt+").IsZero"] = func(u *Unit, fr *frame, st *State, c *ssa.Function, a []Value, rt types.Type, pos token.Pos) Value {
		xv, xn := timeArg(u, st, a[0])
		return Sc{Or(Not(xn), Eq(xv, TZero)), types.Typ[types.Bool]}
	}
	externals[mt+"Now"] = externals["time.Now"]
	ctxNew := func(u *Unit, fr *frame, st *State, c *ssa.Function, a []Value, rt types.Type, pos token.Pos) Value {
		v := u.ctx.Const("context.Background", SInt)
		u.ctx.AssertAlways(And(Cmp(">", v, TZero), Eq(app("objof", SInt, v), TZero)), "context.Background is a non-nil constant")
		return Sc{v, rt}
	}
	externals["context.Background"] = ctxNew
	externals["context.TODO"] = ctxNew
	// maps -------------------------------------------------------------------
	externals["maps.Clone"] = func(u *Unit, fr *frame, st *State, c *ssa.Function, a []Value, rt types.Type, pos token.Pos) Value {
		mt := c.Signature.Params().At(0).Type()
		m := u.asSc(a[0], mt)
		ks, vt := u.mapSorts(mt)
		r := u.newObject(st)
		domFam := mapDomFam(mt)
		domArr := u.heapGet(st, domFam, ArrSort(SInt, ArrSort(ks, SBool)))
		u.heapSet(st, domFam, Store(domArr, r, Select(domArr, m.T)))
		for _, cp := range mapComps(vt) {
			fam := mapValFam(mt) + cp[0]
			arr := u.heapGet(st, fam, ArrSort(SInt, ArrSort(ks, cp[1])))
			u.heapSet(st, fam, Store(arr, r, Select(arr, m.T)))
		}
		// Clone(nil) == nil
		return Sc{u.ctx.Named("clone", Ite(Eq(m.T, TNil), TNil, r)), rt}
	}
	externalWriteFams["maps.Clone"] = func(u *Unit, callee *ssa.Function, ws *writeSet) {
		ws.allocs = true
		u.addMapWrite(ws, callee.Signature.Params().At(0).Type(), nil, func(ssa.Value) bool { return true }, true)
	}
	externals["maps.Copy"] = func(u *Unit, fr *frame, st *State, c *ssa.Function, a []Value, rt types.Type, pos token.Pos) Value {
		dt := c.Signature.Params().At(0).Type()
		stp := c.Signature.Params().At(1).Type()
		d := u.asSc(a[0], dt)
		sm := u.asSc(a[1], stp)
		ks, vt := u.mapSorts(dt)
		view := st.View()
		srcDom := Ite(Eq(sm.T, TNil), Term{"((as const " + ArrSort(ks, SBool) + ") false)", ArrSort(ks, SBool)}, u.mapDom(view, stp, sm.T))
		// writing into a nil destination panics unless the source is empty
		nonEmpty := Term{fmt.Sprintf("(exists ((k %s)) (select %s k))", ks, srcDom.S), SBool}
		u.panicIf(st, And(Eq(d.T, TNil), nonEmpty), pos, "maps.Copy into nil map")
		domFam := mapDomFam(dt)
		domArr := u.heapGet(st, domFam, ArrSort(SInt, ArrSort(ks, SBool)))
		oldDom := Select(domArr, d.T)
		newDom := u.ctx.Fresh("dom", ArrSort(ks, SBool))
		u.assume(st, Term{fmt.Sprintf("(forall ((k %s)) (! (= (select %s k) (or (select %s k) (select %s k))) :pattern ((select %s k))))", ks, newDom.S, oldDom.S, srcDom.S, newDom.S), SBool}, "maps.Copy domain")
		u.heapSet(st, domFam, Ite(Eq(d.T, TNil), domArr, Store(domArr, d.T, newDom)))
		for _, cp := range mapComps(vt) {
			dfam := mapValFam(dt) + cp[0]
			sfam := mapValFam(stp) + cp[0]
			darr := u.heapGet(st, dfam, ArrSort(SInt, ArrSort(ks, cp[1])))
			sarr := u.viewGet(view, sfam, ArrSort(SInt, ArrSort(ks, cp[1])))
			oldV := Select(darr, d.T)
			srcV := Select(sarr, sm.T)
			newV := u.ctx.Fresh("val", ArrSort(ks, cp[1]))
			u.assume(st, Term{fmt.Sprintf("(forall ((k %s)) (! (= (select %s k) (ite (select %s k) (select %s k) (select %s k))) :pattern ((select %s k))))", ks, newV.S, srcDom.S, srcV.S, oldV.S, newV.S), SBool}, "maps.Copy values")
			u.heapSet(st, dfam, Ite(Eq(d.T, TNil), darr, Store(darr, d.T, newV)))
		}
		return nil
	}
	externalWriteFams["maps.Copy"] = func(u *Unit, callee *ssa.Function, ws *writeSet) {
		u.addMapWrite(ws, callee.Signature.Params().At(0).Type(), nil, func(ssa.Value) bool { return true }, true)
	}
	sliceContains := func(u *Unit, fr *frame, st *State, c *ssa.Function, a []Value, rt types.Type, pos token.Pos) Value {
		sl, ok := a[0].(SliceV)
		if !ok || scalarSort(sl.Elem) == "" {
			u.note("slices.Contains on non-scalar elements: result unconstrained")
			return u.freshValue(types.Typ[types.Bool], "contains")
		}
		v := u.asSc(a[1], sl.Elem)
		arr := u.heapGet(st, cellFam(sl.Elem), ArrSort(SInt, scalarSort(sl.Elem)))
		r := u.ctx.Fresh("contains", SBool)
		u.assume(st, Eq(r, Term{fmt.Sprintf("(exists ((i Int)) (and (>= i 0) (< i %s) (= (select %s (ea %s (+ %s i))) %s)))", sl.Len.S, arr.S, sl.Arr.S, sl.Off.S, v.T.S), SBool}), "slices.Contains")
		return Sc{r, types.Typ[types.Bool]}
	}
	externals["slices.Contains"] = sliceContains
	externals["golang.org/x/exp/slices.Contains"] = sliceContains
	// x/exp/maps.Clone behaves like maps.Clone
	externals["golang.org/x/exp/maps.Clone"] = externals["maps.Clone"]
	externalWriteFams["golang.org/x/exp/maps.Clone"] = externalWriteFams["maps.Clone"]
	externals["golang.org/x/exp/maps.Copy"] = externals["maps.Copy"]
	externalWriteFams["golang.org/x/exp/maps.Copy"] = externalWriteFams["maps.Copy"]
	// strings ----------------------------------------------------------------
	// (scalar-pure default covers HasPrefix/Contains/ToLower/...)
	_ = strings.ToLower
}

func (w *World) lookupType(pkgPath, name string) types.Type {
	if tp := w.findTypesPackage(pkgPath); tp != nil {
		if o := tp.Scope().Lookup(name); o != nil {
			return o.Type()
		}
	}
	return nil
}

const maxInt64S = "9223372036854775807"
const maxUint64S = "18446744073709551615"

// parseIntModel: strconv.ParseInt / ParseUint / Atoi as deterministic functions
// of the string (and base, bitSize) with the relations between the signed and
// unsigned parsers that hold for the real implementations (assumed; listed).
func (u *Unit) parseIntModel(s, base, bits Term, unsigned bool, rt types.Type) Value {
	iv := u.ctx.Fun("strconv.ParseInt#val", []string{SStr, SInt, SInt}, SInt)
	ie := u.ctx.Fun("strconv.ParseInt#err", []string{SStr, SInt, SInt}, SInt)
	uv := u.ctx.Fun("strconv.ParseUint#val", []string{SStr, SInt, SInt}, SInt)
	ue := u.ctx.Fun("strconv.ParseUint#err", []string{SStr, SInt, SInt}, SInt)
	sgn := u.ctx.Fun("strconv#hasSign", []string{SStr}, SBool)
	I := app(iv, SInt, s, base, bits)
	IE := app(ie, SInt, s, base, bits)
	U := app(uv, SInt, s, base, bits)
	UE := app(ue, SInt, s, base, bits)
	hs := app(sgn, SBool, s)
	maxI := Term{maxInt64S, SInt}
	minI := Term{"(- 9223372036854775808)", SInt}
	maxU := Term{maxUint64S, SInt}
	key := "parseint:" + s.S + base.S + bits.S
	if !u.subSeen[key] {
		u.subSeen[key] = true
		u.ctx.Assert(And(
			Cmp(">=", IE, TZero), Cmp(">=", UE, TZero),
			Cmp("<=", minI, I), Cmp("<=", I, maxI), Cmp("<=", TZero, U), Cmp("<=", U, maxU),
			// values on error: 0 (syntax) or the nearest bound (range)
			Implies(Neq(IE, TNil), Or(Eq(I, TZero), Eq(I, maxI), Eq(I, minI))),
			Implies(Neq(UE, TNil), Or(Eq(U, TZero), Eq(U, maxU))),
			// relations between the parsers (bitSize 0/64)
			Implies(And(Eq(UE, TNil), Cmp("<=", U, maxI)), And(Eq(IE, TNil), Eq(I, U))),
			Implies(And(Eq(UE, TNil), Cmp(">", U, maxI)), Neq(IE, TNil)),
			Implies(And(Eq(IE, TNil), Cmp(">=", I, TZero), Not(hs)), And(Eq(UE, TNil), Eq(U, I))),
			Implies(Eq(UE, TNil), Not(hs)),
			// the empty string is a syntax error for both parsers
			Implies(Eq(s, u.ctx.StrLit("")), And(Neq(IE, TNil), Neq(UE, TNil), Eq(I, TZero), Eq(U, TZero))),
		), "strconv integer parser relations (assumed)")
	}
	u.note("external strconv.ParseInt/ParseUint/Atoi: deterministic functions of (string, base, bitSize) related by the documented signed/unsigned agreement (assumed)")
	errT := types.Universe.Lookup("error").Type()
	tu, _ := rt.(*types.Tuple)
	var vt types.Type = types.Typ[types.Int64]
	if tu != nil && tu.Len() > 0 {
		vt = tu.At(0).Type()
	}
	if unsigned {
		return TupleV{Sc{U, vt}, Sc{UE, errT}}
	}
	return TupleV{Sc{I, vt}, Sc{IE, errT}}
}
