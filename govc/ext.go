package main

import (
	"fmt"
	"go/token"
	"go/types"
	"strings"

	"golang.org/x/tools/go/ssa"
)

type extHandler func(u *Unit, fr *frame, st *State, callee *ssa.Function, args []Value, resT types.Type, pos token.Pos) Value

var externals map[string]extHandler
var ifaceExternals map[string]extHandler

// externalWrites: externals that modify caller-visible memory (none of the modelled ones do).
var externalWrites = map[string]bool{}

// externalReadonly: body-less library functions known not to write caller-visible memory.
var externalReadonly = map[string]bool{
	"reflect.DeepEqual":           true,
	"strings.Join":                true,
	"strings.Split":               true,
	"strings.Fields":              true,
	"fmt.Sprintf":                 true,
	"fmt.Sprint":                  true,
	"fmt.Errorf":                  true,
	"errors.New":                  true,
	"errors.Is":                   true,
	"(k8s.io/apimachinery/pkg/api/resource.Quantity).String": true,
}

func externalIsScalarPure(f *ssa.Function) bool {
	sig := f.Signature
	chk := func(t types.Type) bool {
		if _, op := isOpaqueScalar(t); op {
			return true
		}
		if b, ok := t.Underlying().(*types.Basic); ok {
			return b.Info()&(types.IsBoolean|types.IsNumeric|types.IsString) != 0
		}
		return false
	}
	if sig.Recv() != nil && !chk(sig.Recv().Type()) {
		return false
	}
	for i := 0; i < sig.Params().Len(); i++ {
		if !chk(sig.Params().At(i).Type()) {
			return false
		}
	}
	for i := 0; i < sig.Results().Len(); i++ {
		t := sig.Results().At(i).Type()
		if !chk(t) && !isErrorType(t) {
			return false
		}
	}
	if sig.Variadic() {
		return false
	}
	return true
}

func isErrorType(t types.Type) bool {
	n, ok := t.(*types.Named)
	return ok && n.Obj().Pkg() == nil && n.Obj().Name() == "error"
}

// externalDefault handles calls to functions without bodies and without a model.
func (u *Unit) externalDefault(st *State, callee *ssa.Function, args []Value, resT types.Type, pos token.Pos) Value {
	full := callee.String()
	if externalIsScalarPure(callee) {
		u.note("external " + full + " modelled as a deterministic uninterpreted function of its arguments")
		var sorts []string
		var ts []Term
		for _, a := range args {
			sc := u.asSc(a, nil)
			sorts = append(sorts, sc.T.Sort)
			ts = append(ts, sc.T)
		}
		mk := func(i int, t types.Type) Value {
			s := scalarSort(t)
			f := u.ctx.Fun(fmt.Sprintf("ext:%s#%d", full, i), sorts, s)
			if len(ts) == 0 {
				return Sc{Term{f, s}, t}
			}
			return Sc{app(f, s, ts...), t}
		}
		rs := callee.Signature.Results()
		switch rs.Len() {
		case 0:
			return nil
		case 1:
			return mk(0, rs.At(0).Type())
		}
		var tv TupleV
		for i := 0; i < rs.Len(); i++ {
			tv = append(tv, mk(i, rs.At(i).Type()))
		}
		return tv
	}
	if externalReadonly[full] {
		u.note("external " + full + ": result unconstrained, heap unchanged (listed read-only)")
		r := u.freshResult(st, resT, "ext")
		return r
	}
	u.note("external " + full + " has no model: heap havocked at the call")
	u.havocAll(st, "external "+full)
	return u.freshResult(st, resT, "ext")
}

func fsc(u *Unit, v Value) Term { return u.asSc(v, nil).T }

func floatT() types.Type { return types.Typ[types.Float64] }

func init() {
	externals = map[string]extHandler{}
	ifaceExternals = map[string]extHandler{}
	f64 := func(t Term) Value { return Sc{t, types.Typ[types.Float64]} }
	externals["math.Min"] = func(u *Unit, fr *frame, st *State, c *ssa.Function, a []Value, rt types.Type, pos token.Pos) Value {
		x, y := fsc(u, a[0]), fsc(u, a[1])
		if x.Sort == SF {
			return f64(app("f_min", SF, x, y))
		}
		return f64(u.ctx.Named("min", Ite(Cmp("<=", x, y), x, y)))
	}
	externals["math.Max"] = func(u *Unit, fr *frame, st *State, c *ssa.Function, a []Value, rt types.Type, pos token.Pos) Value {
		x, y := fsc(u, a[0]), fsc(u, a[1])
		if x.Sort == SF {
			return f64(app("f_max", SF, x, y))
		}
		return f64(u.ctx.Named("max", Ite(Cmp(">=", x, y), x, y)))
	}
	externals["math.Abs"] = func(u *Unit, fr *frame, st *State, c *ssa.Function, a []Value, rt types.Type, pos token.Pos) Value {
		x := fsc(u, a[0])
		if x.Sort == SF {
			return f64(app("f_abs", SF, x))
		}
		return f64(Ite(Cmp(">=", x, Term{"0.0", SReal}), x, app("-", SReal, x)))
	}
	externals["math.Floor"] = func(u *Unit, fr *frame, st *State, c *ssa.Function, a []Value, rt types.Type, pos token.Pos) Value {
		x := fsc(u, a[0])
		if x.Sort == SF {
			return f64(app("f_floor", SF, x))
		}
		return f64(app("to_real", SReal, app("to_int", SInt, x)))
	}
	externals["math.Ceil"] = func(u *Unit, fr *frame, st *State, c *ssa.Function, a []Value, rt types.Type, pos token.Pos) Value {
		x := fsc(u, a[0])
		if x.Sort == SF {
			return f64(app("f_ceil", SF, x))
		}
		return f64(app("to_real", SReal, app("-", SInt, app("to_int", SInt, app("-", SReal, x)))))
	}
	externals["math.Trunc"] = func(u *Unit, fr *frame, st *State, c *ssa.Function, a []Value, rt types.Type, pos token.Pos) Value {
		x := fsc(u, a[0])
		if x.Sort == SF {
			u.unsupported("math.Trunc in ieee mode")
			return u.freshValue(floatT(), "trunc")
		}
		return f64(app("to_real", SReal, Ite(Cmp(">=", x, Term{"0.0", SReal}), app("to_int", SInt, x), app("-", SInt, app("to_int", SInt, app("-", SReal, x))))))
	}
	externals["math.Round"] = func(u *Unit, fr *frame, st *State, c *ssa.Function, a []Value, rt types.Type, pos token.Pos) Value {
		x := fsc(u, a[0])
		if x.Sort == SF {
			u.unsupported("math.Round in ieee mode")
			return u.freshValue(floatT(), "round")
		}
		// round half away from zero
		half := Term{"0.5", SReal}
		pos1 := app("to_int", SInt, Arith("+", x, half))
		neg1 := app("-", SInt, app("to_int", SInt, Arith("+", app("-", SReal, x), half)))
		return f64(app("to_real", SReal, Ite(Cmp(">=", x, Term{"0.0", SReal}), pos1, neg1)))
	}
	externals["math.Inf"] = func(u *Unit, fr *frame, st *State, c *ssa.Function, a []Value, rt types.Type, pos token.Pos) Value {
		s := fsc(u, a[0])
		if curFloatSort == SF {
			return f64(Ite(Cmp(">=", s, TZero), Term{"pinf", SF}, Term{"ninf", SF}))
		}
		u.unsupported("math.Inf needs 'ieee' mode")
		return u.freshValue(floatT(), "inf")
	}
	externals["math.IsNaN"] = func(u *Unit, fr *frame, st *State, c *ssa.Function, a []Value, rt types.Type, pos token.Pos) Value {
		x := fsc(u, a[0])
		if x.Sort == SF {
			return Sc{app("f_isnan", SBool, x), types.Typ[types.Bool]}
		}
		u.note("A-REAL: math.IsNaN is false in the Real model")
		return Sc{TFalse, types.Typ[types.Bool]}
	}
	externals["math.IsInf"] = func(u *Unit, fr *frame, st *State, c *ssa.Function, a []Value, rt types.Type, pos token.Pos) Value {
		x := fsc(u, a[0])
		sg := fsc(u, a[1])
		if x.Sort == SF {
			return Sc{Or(And(Cmp(">=", sg, TZero), Eq(x, Term{"pinf", SF})), And(Cmp("<=", sg, TZero), Eq(x, Term{"ninf", SF}))), types.Typ[types.Bool]}
		}
		u.note("A-REAL: math.IsInf is false in the Real model")
		return Sc{TFalse, types.Typ[types.Bool]}
	}
	// strconv ---------------------------------------------------------------
	errT := types.Universe.Lookup("error").Type()
	externals["strconv.ParseFloat"] = func(u *Unit, fr *frame, st *State, c *ssa.Function, a []Value, rt types.Type, pos token.Pos) Value {
		s := fsc(u, a[0])
		bits := fsc(u, a[1])
		fs := curFloatSort
		fv := u.ctx.Fun("strconv.ParseFloat#val", []string{SStr, SInt}, fs)
		fe := u.ctx.Fun("strconv.ParseFloat#err", []string{SStr, SInt}, SInt)
		v := app(fv, fs, s, bits)
		e := app(fe, SInt, s, bits)
		u.ctx.Assert(Cmp(">=", e, TZero), "strconv.ParseFloat: error value")
		if fs == SF {
			// on error the value is 0 (syntax) or +-Inf (range); on success it can be any float incl. NaN/Inf
			u.ctx.Assert(Implies(Neq(e, TNil), Or(Eq(v, Term{"(fin 0.0)", SF}), Eq(v, Term{"pinf", SF}), Eq(v, Term{"ninf", SF}))), "strconv.ParseFloat: value on error")
		} else {
			u.note("A-REAL: strconv.ParseFloat never yields NaN/Inf in the Real model")
		}
		u.note("external strconv.ParseFloat: deterministic function of (string, bitSize)")
		return TupleV{Sc{v, types.Typ[types.Float64]}, Sc{e, errT}}
	}
	parseInt := func(name string, unsigned bool) extHandler {
		return func(u *Unit, fr *frame, st *State, c *ssa.Function, a []Value, rt types.Type, pos token.Pos) Value {
			s := fsc(u, a[0])
			base, bits := IntLit(10), IntLit(0)
			if len(a) >= 3 {
				base, bits = fsc(u, a[1]), fsc(u, a[2])
			}
			return u.parseIntModel(s, base, bits, unsigned, rt)
		}
	}
	externals["strconv.ParseInt"] = parseInt("ParseInt", false)
	externals["strconv.ParseUint"] = parseInt("ParseUint", true)
	externals["strconv.Atoi"] = func(u *Unit, fr *frame, st *State, c *ssa.Function, a []Value, rt types.Type, pos token.Pos) Value {
		return u.parseIntModel(fsc(u, a[0]), IntLit(10), IntLit(0), false, rt)
	}
	// fmt / errors -----------------------------------------------------------
	freshErr := func(u *Unit, fr *frame, st *State, c *ssa.Function, a []Value, rt types.Type, pos token.Pos) Value {
		e := u.ctx.Fresh("err", SInt)
		u.ctx.Assert(And(Neq(e, TNil), Cmp(">", e, TZero), Eq(app("objof", SInt, e), TZero)), "fresh error is non-nil")
		return Sc{e, errT}
	}
	externals["fmt.Errorf"] = freshErr
	externals["errors.New"] = freshErr
	freshStr := func(u *Unit, fr *frame, st *State, c *ssa.Function, a []Value, rt types.Type, pos token.Pos) Value {
		return Sc{u.ctx.Fresh("str", SStr), types.Typ[types.String]}
	}
	externals["fmt.Sprintf"] = freshStr
	externals["fmt.Sprint"] = freshStr
	externals["fmt.Sprintln"] = freshStr
	externals["strings.Join"] = freshStr
	// time -------------------------------------------------------------------
	timeT := func(u *Unit) types.Type { return u.w.lookupType("time", "Time") }
	externals["time.Now"] = func(u *Unit, fr *frame, st *State, c *ssa.Function, a []Value, rt types.Type, pos token.Pos) Value {
		return Sc{u.ctx.Fresh("now", SInt), rt}
	}
	externals["(time.Time).Before"] = func(u *Unit, fr *frame, st *State, c *ssa.Function, a []Value, rt types.Type, pos token.Pos) Value {
		return Sc{Cmp("<", fsc(u, a[0]), fsc(u, a[1])), types.Typ[types.Bool]}
	}
	externals["(time.Time).After"] = func(u *Unit, fr *frame, st *State, c *ssa.Function, a []Value, rt types.Type, pos token.Pos) Value {
		return Sc{Cmp(">", fsc(u, a[0]), fsc(u, a[1])), types.Typ[types.Bool]}
	}
	externals["(time.Time).Equal"] = func(u *Unit, fr *frame, st *State, c *ssa.Function, a []Value, rt types.Type, pos token.Pos) Value {
		return Sc{Eq(fsc(u, a[0]), fsc(u, a[1])), types.Typ[types.Bool]}
	}
	externals["(time.Time).IsZero"] = func(u *Unit, fr *frame, st *State, c *ssa.Function, a []Value, rt types.Type, pos token.Pos) Value {
		return Sc{Eq(fsc(u, a[0]), TZero), types.Typ[types.Bool]}
	}
	externals["(time.Time).Add"] = func(u *Unit, fr *frame, st *State, c *ssa.Function, a []Value, rt types.Type, pos token.Pos) Value {
		return Sc{Arith("+", fsc(u, a[0]), fsc(u, a[1])), rt}
	}
	externals["(time.Time).Sub"] = func(u *Unit, fr *frame, st *State, c *ssa.Function, a []Value, rt types.Type, pos token.Pos) Value {
		return Sc{Arith("-", fsc(u, a[0]), fsc(u, a[1])), rt}
	}
	externals["time.Since"] = func(u *Unit, fr *frame, st *State, c *ssa.Function, a []Value, rt types.Type, pos token.Pos) Value {
		return Sc{Arith("-", u.ctx.Fresh("now", SInt), fsc(u, a[0])), rt}
	}
	_ = timeT
	// metav1.Time: pointer-receiver comparisons read the cell
	mt := "k8s.io/apimachinery/pkg/apis/meta/v1.Time"
	externals["(*"+mt+").Before"] = func(u *Unit, fr *frame, st *State, c *ssa.Function, a []Value, rt types.Type, pos token.Pos) Value {
		x, y := u.asSc(a[0], nil), u.asSc(a[1], nil)
		t := u.w.lookupType("k8s.io/apimachinery/pkg/apis/meta/v1", "Time")
		xv := Select(u.heapGet(st, cellFam(t), ArrSort(SInt, SInt)), x.T)
		yv := Select(u.heapGet(st, cellFam(t), ArrSort(SInt, SInt)), y.T)
		// nil receivers / arguments: (t != nil && u != nil) ? t.Before(u) : false
		return Sc{And(Neq(x.T, TNil), Neq(y.T, TNil), Cmp("<", xv, yv)), types.Typ[types.Bool]}
	}
	externals["(*"+mt+").Equal"] = func(u *Unit, fr *frame, st *State, c *ssa.Function, a []Value, rt types.Type, pos token.Pos) Value {
		x, y := u.asSc(a[0], nil), u.asSc(a[1], nil)
		t := u.w.lookupType("k8s.io/apimachinery/pkg/apis/meta/v1", "Time")
		xv := Select(u.heapGet(st, cellFam(t), ArrSort(SInt, SInt)), x.T)
		yv := Select(u.heapGet(st, cellFam(t), ArrSort(SInt, SInt)), y.T)
		return Sc{Ite(And(Eq(x.T, TNil), Eq(y.T, TNil)), TTrue, And(Neq(x.T, TNil), Neq(y.T, TNil), Eq(xv, yv))), types.Typ[types.Bool]}
	}
	externals["(*"+mt+").IsZero"] = func(u *Unit, fr *frame, st *State, c *ssa.Function, a []Value, rt types.Type, pos token.Pos) Value {
		x := u.asSc(a[0], nil)
		t := u.w.lookupType("k8s.io/apimachinery/pkg/apis/meta/v1", "Time")
		xv := Select(u.heapGet(st, cellFam(t), ArrSort(SInt, SInt)), x.T)
		return Sc{Or(Eq(x.T, TNil), Eq(xv, TZero)), types.Typ[types.Bool]}
	}
	externals[mt+"Now"] = externals["time.Now"]
	// strings ----------------------------------------------------------------
	// (scalar-pure default covers HasPrefix/Contains/ToLower/...)
	_ = strings.ToLower
}

func (w *World) lookupType(pkgPath, name string) types.Type {
	if tp := w.findTypesPackage(pkgPath); tp != nil {
		if o := tp.Scope().Lookup(name); o != nil {
			return o.Type()
		}
	}
	return nil
}

const maxInt64S = "9223372036854775807"
const maxUint64S = "18446744073709551615"

// parseIntModel: strconv.ParseInt / ParseUint / Atoi as deterministic functions
// of the string (and base, bitSize) with the relations between the signed and
// unsigned parsers that hold for the real implementations (assumed; listed).
func (u *Unit) parseIntModel(s, base, bits Term, unsigned bool, rt types.Type) Value {
	iv := u.ctx.Fun("strconv.ParseInt#val", []string{SStr, SInt, SInt}, SInt)
	ie := u.ctx.Fun("strconv.ParseInt#err", []string{SStr, SInt, SInt}, SInt)
	uv := u.ctx.Fun("strconv.ParseUint#val", []string{SStr, SInt, SInt}, SInt)
	ue := u.ctx.Fun("strconv.ParseUint#err", []string{SStr, SInt, SInt}, SInt)
	sgn := u.ctx.Fun("strconv#hasSign", []string{SStr}, SBool)
	I := app(iv, SInt, s, base, bits)
	IE := app(ie, SInt, s, base, bits)
	U := app(uv, SInt, s, base, bits)
	UE := app(ue, SInt, s, base, bits)
	hs := app(sgn, SBool, s)
	maxI := Term{maxInt64S, SInt}
	minI := Term{"(- 9223372036854775808)", SInt}
	maxU := Term{maxUint64S, SInt}
	key := "parseint:" + s.S + base.S + bits.S
	if !u.subSeen[key] {
		u.subSeen[key] = true
		u.ctx.Assert(And(
			Cmp(">=", IE, TZero), Cmp(">=", UE, TZero),
			Cmp("<=", minI, I), Cmp("<=", I, maxI), Cmp("<=", TZero, U), Cmp("<=", U, maxU),
			// values on error: 0 (syntax) or the nearest bound (range)
			Implies(Neq(IE, TNil), Or(Eq(I, TZero), Eq(I, maxI), Eq(I, minI))),
			Implies(Neq(UE, TNil), Or(Eq(U, TZero), Eq(U, maxU))),
			// relations between the parsers (bitSize 0/64)
			Implies(And(Eq(UE, TNil), Cmp("<=", U, maxI)), And(Eq(IE, TNil), Eq(I, U))),
			Implies(And(Eq(UE, TNil), Cmp(">", U, maxI)), Neq(IE, TNil)),
			Implies(And(Eq(IE, TNil), Cmp(">=", I, TZero), Not(hs)), And(Eq(UE, TNil), Eq(U, I))),
			Implies(Eq(UE, TNil), Not(hs)),
		), "strconv integer parser relations (assumed)")
	}
	u.note("external strconv.ParseInt/ParseUint/Atoi: deterministic functions of (string, base, bitSize) related by the documented signed/unsigned agreement (assumed)")
	errT := types.Universe.Lookup("error").Type()
	tu, _ := rt.(*types.Tuple)
	var vt types.Type = types.Typ[types.Int64]
	if tu != nil && tu.Len() > 0 {
		vt = tu.At(0).Type()
	}
	if unsigned {
		return TupleV{Sc{U, vt}, Sc{UE, errT}}
	}
	return TupleV{Sc{I, vt}, Sc{IE, errT}}
}
