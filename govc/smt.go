package main

import (
	"fmt"
	"math/big"
	"sort"
	"strings"
)

// Term is an SMT-LIB2 term with its sort.
type Term struct {
	S    string
	Sort string
}

const (
	SBool = "Bool"
	SInt  = "Int"
	SReal = "Real"
	SStr  = "Str"
	SF    = "F" // ieee-ish float datatype (fin Real | pinf | ninf | nan)
)

func ArrSort(k, v string) string { return "(Array " + k + " " + v + ")" }

var (
	TTrue  = Term{"true", SBool}
	TFalse = Term{"false", SBool}
	TZero  = Term{"0", SInt}
	TOne   = Term{"1", SInt}
	TNil   = Term{"0", SInt}
)

func IntLit(n int64) Term {
	if n < 0 {
		return Term{fmt.Sprintf("(- %d)", -n), SInt}
	}
	return Term{fmt.Sprintf("%d", n), SInt}
}

func BigIntLit(n *big.Int) Term {
	if n.Sign() < 0 {
		return Term{"(- " + new(big.Int).Neg(n).String() + ")", SInt}
	}
	return Term{n.String(), SInt}
}

func RatLit(r *big.Rat) Term {
	neg := r.Sign() < 0
	a := new(big.Rat).Abs(r)
	var s string
	if a.IsInt() {
		s = a.Num().String() + ".0"
	} else {
		s = "(/ " + a.Num().String() + ".0 " + a.Denom().String() + ".0)"
	}
	if neg {
		s = "(- " + s + ")"
	}
	return Term{s, SReal}
}

func app(op string, sortv string, args ...Term) Term {
	var b strings.Builder
	b.WriteByte('(')
	b.WriteString(op)
	for _, a := range args {
		b.WriteByte(' ')
		b.WriteString(a.S)
	}
	b.WriteByte(')')
	return Term{b.String(), sortv}
}

func Not(a Term) Term {
	switch a.S {
	case "true":
		return TFalse
	case "false":
		return TTrue
	}
	if strings.HasPrefix(a.S, "(not ") {
		return Term{a.S[5 : len(a.S)-1], SBool}
	}
	return app("not", SBool, a)
}

func And(ts ...Term) Term {
	var out []Term
	seen := map[string]bool{}
	for _, t := range ts {
		if t.S == "true" {
			continue
		}
		if t.S == "false" {
			return TFalse
		}
		if seen[t.S] {
			continue
		}
		seen[t.S] = true
		out = append(out, t)
	}
	if len(out) == 0 {
		return TTrue
	}
	if len(out) == 1 {
		return out[0]
	}
	return app("and", SBool, out...)
}

func Or(ts ...Term) Term {
	var out []Term
	seen := map[string]bool{}
	for _, t := range ts {
		if t.S == "false" {
			continue
		}
		if t.S == "true" {
			return TTrue
		}
		if seen[t.S] {
			continue
		}
		seen[t.S] = true
		out = append(out, t)
	}
	if len(out) == 0 {
		return TFalse
	}
	if len(out) == 1 {
		return out[0]
	}
	return app("or", SBool, out...)
}

func Implies(a, b Term) Term {
	if a.S == "true" {
		return b
	}
	if a.S == "false" || b.S == "true" {
		return TTrue
	}
	if b.S == "false" {
		return Not(a)
	}
	return app("=>", SBool, a, b)
}

func Ite(c, a, b Term) Term {
	if c.S == "true" {
		return a
	}
	if c.S == "false" {
		return b
	}
	if a.S == b.S {
		return a
	}
	if a.Sort == SBool {
		if a.S == "true" && b.S == "false" {
			return c
		}
		if a.S == "false" && b.S == "true" {
			return Not(c)
		}
	}
	return app("ite", a.Sort, c, a, b)
}

func Eq(a, b Term) Term {
	if a.S == b.S {
		return TTrue
	}
	if a.Sort != b.Sort {
		a, b = coerceNum(a, b)
	}
	return app("=", SBool, a, b)
}

func Neq(a, b Term) Term { return Not(Eq(a, b)) }

// coerceNum lifts Int to Real when sorts are mixed.
func coerceNum(a, b Term) (Term, Term) {
	if a.Sort == SF && b.Sort != SF {
		return a, toF(b)
	}
	if b.Sort == SF && a.Sort != SF {
		return toF(a), b
	}
	if a.Sort == SInt && b.Sort == SReal {
		return ToReal(a), b
	}
	if a.Sort == SReal && b.Sort == SInt {
		return a, ToReal(b)
	}
	return a, b
}

func ToReal(a Term) Term {
	if a.Sort == SReal {
		return a
	}
	// literal fast path
	if isIntLiteral(a.S) {
		return Term{a.S + ".0", SReal}
	}
	if strings.HasPrefix(a.S, "(- ") && isIntLiteral(a.S[3:len(a.S)-1]) {
		return Term{"(- " + a.S[3:len(a.S)-1] + ".0)", SReal}
	}
	return app("to_real", SReal, a)
}

func isIntLiteral(s string) bool {
	if s == "" {
		return false
	}
	for _, c := range s {
		if c < '0' || c > '9' {
			return false
		}
	}
	return true
}

func toF(a Term) Term {
	switch a.Sort {
	case SF:
		return a
	case SInt:
		return app("fin", SF, ToReal(a))
	case SReal:
		return app("fin", SF, a)
	}
	return a
}

var fArith = map[string]string{"+": "f_add", "-": "f_sub", "*": "f_mul", "/": "f_div"}
var fCmp = map[string]string{"<": "f_lt", "<=": "f_le", ">": "f_gt", ">=": "f_ge"}

func Arith(op string, a, b Term) Term {
	if a.Sort == SF || b.Sort == SF {
		return app(fArith[op], SF, toF(a), toF(b))
	}
	a, b = coerceNum(a, b)
	return app(op, a.Sort, a, b)
}

func Cmp(op string, a, b Term) Term {
	if a.Sort == SF || b.Sort == SF {
		return app(fCmp[op], SBool, toF(a), toF(b))
	}
	a, b = coerceNum(a, b)
	return app(op, SBool, a, b)
}

func Select(arr, idx Term) Term {
	// (Array K V) -> V
	return app("select", arrVal(arr.Sort), arr, idx)
}

func Store(arr, idx, v Term) Term {
	return app("store", arr.Sort, arr, idx, v)
}

// arrVal returns the value sort of an array sort string "(Array K V)".
func arrVal(s string) string {
	k, v := splitArr(s)
	_ = k
	return v
}

func arrKey(s string) string {
	k, _ := splitArr(s)
	return k
}

func splitArr(s string) (string, string) {
	if !strings.HasPrefix(s, "(Array ") {
		panic("not an array sort: " + s)
	}
	body := s[7 : len(s)-1]
	// split at top-level space
	depth := 0
	for i, c := range body {
		switch c {
		case '(':
			depth++
		case ')':
			depth--
		case ' ':
			if depth == 0 {
				return body[:i], body[i+1:]
			}
		}
	}
	panic("bad array sort: " + s)
}

func qsym(s string) string {
	// quote a symbol if needed
	simple := true
	for _, c := range s {
		if !(c >= 'a' && c <= 'z' || c >= 'A' && c <= 'Z' || c >= '0' && c <= '9' || c == '_' || c == '.' || c == '@' || c == '$' || c == '!') {
			simple = false
			break
		}
	}
	if simple && s != "" && !(s[0] >= '0' && s[0] <= '9') {
		return s
	}
	s = strings.ReplaceAll(s, "|", "!")
	s = strings.ReplaceAll(s, "\\", "/")
	return "|" + s + "|"
}

// SMTCtx accumulates declarations and the ordered list of assumptions for
// one verification unit (one function body).
type SMTCtx struct {
	declOrder []string
	decls     map[string]string // symbol -> full declaration command
	asserts   []string          // ordered assumptions (each a Bool term string)
	notes     []string          // parallel to asserts: provenance
	freshN    int
	strLits   map[string]string // literal -> symbol
	strOrder  []string
	tags      map[string]int // type string -> interface tag
	tagOrder  []string
	usesF     bool
	usesStrLt bool
	inQuant   int // >0 while building the body of a quantifier: no side assertions, no naming
	qvars     map[string]string // bound-variable symbol -> sort (for sum summands under enclosing binders)
	qrecs     []qrec            // outermost universal quantifiers built from specifications (for goal-directed instantiation)
}

// qrec records one outermost universal quantifier term built from a specification.
type qrec struct {
	full string      // the complete (forall ...) term
	vars [][2]string // (symbol, sort)
	body string      // the body
}

func (c *SMTCtx) noteQVar(sym, sortv string) {
	if c.qvars == nil {
		c.qvars = map[string]string{}
	}
	c.qvars[sym] = sortv
}

func NewSMTCtx() *SMTCtx {
	return &SMTCtx{decls: map[string]string{}, strLits: map[string]string{}, tags: map[string]int{}}
}

func (c *SMTCtx) declare(sym, cmd string) {
	if _, ok := c.decls[sym]; ok {
		return
	}
	c.decls[sym] = cmd
	c.declOrder = append(c.declOrder, sym)
}

func (c *SMTCtx) Const(name, sortv string) Term {
	q := qsym(name)
	c.declare(q, fmt.Sprintf("(declare-fun %s () %s)", q, sortv))
	return Term{q, sortv}
}

func (c *SMTCtx) Fresh(prefix, sortv string) Term {
	c.freshN++
	return c.Const(fmt.Sprintf("%s!%d", prefix, c.freshN), sortv)
}

func (c *SMTCtx) Fun(name string, args []string, ret string) string {
	q := qsym(name)
	c.declare(q, fmt.Sprintf("(declare-fun %s (%s) %s)", q, strings.Join(args, " "), ret))
	return q
}

func (c *SMTCtx) Assert(t Term, note string) {
	if t.S == "true" || c.inQuant > 0 {
		return
	}
	c.asserts = append(c.asserts, t.S)
	c.notes = append(c.notes, note)
}

// AssertAlways records a closed (ground) fact even while a quantifier body is being built.
func (c *SMTCtx) AssertAlways(t Term, note string) {
	saved := c.inQuant
	c.inQuant = 0
	c.Assert(t, note)
	c.inQuant = saved
}

// Atom returns a constant equal to t (a plain symbol is returned as is): terms used inside quantifier
// patterns must not contain ite/or/and.
func (c *SMTCtx) Atom(prefix string, t Term) Term {
	if !strings.HasPrefix(t.S, "(") {
		return t
	}
	saved := c.inQuant
	c.inQuant = 0
	n := c.Fresh(prefix, t.Sort)
	c.Assert(Eq(n, t), "def")
	c.inQuant = saved
	return n
}

// Named introduces a definitional constant for t (keeps terms small).
func (c *SMTCtx) Named(prefix string, t Term) Term {
	if len(t.S) < 40 || c.inQuant > 0 {
		return t
	}
	n := c.Fresh(prefix, t.Sort)
	c.Assert(Eq(n, t), "def")
	return n
}

func (c *SMTCtx) StrLit(s string) Term {
	if sym, ok := c.strLits[s]; ok {
		return Term{sym, SStr}
	}
	sym := qsym(fmt.Sprintf("str:%q", s))
	c.strLits[s] = sym
	c.strOrder = append(c.strOrder, s)
	return Term{sym, SStr}
}

func (c *SMTCtx) Tag(typ string) Term {
	if n, ok := c.tags[typ]; ok {
		return IntLit(int64(n))
	}
	n := len(c.tags) + 1
	c.tags[typ] = n
	c.tagOrder = append(c.tagOrder, typ)
	return IntLit(int64(n))
}

// Prelude returns sort/function declarations shared by all queries.
func (c *SMTCtx) Prelude() string {
	var b strings.Builder
	b.WriteString("(declare-sort Str 0)\n")
	b.WriteString("(declare-datatypes ((F 0)) (((fin (fval Real)) (pinf) (ninf) (nan))))\n")
	b.WriteString("(declare-fun objof (Int) Int)\n")
	b.WriteString("(declare-fun sub (Int Int) Int)\n(declare-fun sub_base (Int) Int)\n(declare-fun sub_key (Int) Int)\n")
	b.WriteString("(declare-fun ea (Int Int) Int)\n(declare-fun ea_base (Int) Int)\n(declare-fun ea_idx (Int) Int)\n")
	b.WriteString("(declare-fun mkiface (Int Int) Int)\n(declare-fun itag (Int) Int)\n(declare-fun ipay (Int) Int)\n")
	b.WriteString("(declare-fun mkiface_Real (Int Real) Int)\n(declare-fun ipay_Real (Int) Real)\n")
	b.WriteString("(declare-fun mkiface_Str (Int Str) Int)\n(declare-fun ipay_Str (Int) Str)\n")
	b.WriteString("(declare-fun mkiface_Bool (Int Bool) Int)\n(declare-fun ipay_Bool (Int) Bool)\n")
	b.WriteString("(declare-fun str_len (Str) Int)\n(declare-fun str_cat (Str Str) Str)\n(declare-fun str_lt (Str Str) Bool)\n")
	b.WriteString("(declare-fun str_rank (Str) Int)\n")
	b.WriteString(fPrelude)
	return b.String()
}

func (c *SMTCtx) StrDecls() string {
	var b strings.Builder
	for _, s := range c.strOrder {
		fmt.Fprintf(&b, "(declare-fun %s () Str)\n", c.strLits[s])
	}
	if len(c.strOrder) > 1 {
		b.WriteString("(assert (distinct")
		for _, s := range c.strOrder {
			b.WriteString(" " + c.strLits[s])
		}
		b.WriteString("))\n")
	}
	for _, s := range c.strOrder {
		fmt.Fprintf(&b, "(assert (= (str_len %s) %d))\n", c.strLits[s], len(s))
	}
	// literal order: consistent with Go string comparison
	lits := append([]string{}, c.strOrder...)
	sort.Strings(lits)
	for i := 0; i+1 < len(lits); i++ {
		fmt.Fprintf(&b, "(assert (< (str_rank %s) (str_rank %s)))\n", c.strLits[lits[i]], c.strLits[lits[i+1]])
	}
	return b.String()
}

// Query builds the SMT-LIB text that is unsat iff goal is valid under the
// first prefixLen assumptions.
func (c *SMTCtx) Query(prefixLen int, goal Term, wantModel bool) string {
	return c.QueryX(prefixLen, goal, wantModel, false)
}

// QueryX: relaxed=true omits the global quantified address axioms (used only to search for candidate countermodels).
func (c *SMTCtx) QueryX(prefixLen int, goal Term, wantModel bool, relaxed bool) string {
	var b strings.Builder
	if wantModel {
		b.WriteString("(set-option :produce-models true)\n")
	}
	b.WriteString("(set-logic ALL)\n")
	b.WriteString(c.Prelude())
	b.WriteString(c.StrDecls())
	for _, sym := range c.declOrder {
		b.WriteString(c.decls[sym])
		b.WriteByte('\n')
	}
	var body strings.Builder
	for i := 0; i < prefixLen && i < len(c.asserts); i++ {
		body.WriteString("(assert ")
		body.WriteString(c.asserts[i])
		body.WriteString(")\n")
	}
	body.WriteString("(assert (not ")
	body.WriteString(goal.S)
	body.WriteString("))\n(check-sat)\n")
	bs := body.String()
	if strings.Contains(bs, "str_lt") {
		// string order: str_lt is the strict total order induced by an injective rank
		b.WriteString("(assert (forall ((a Str) (b Str)) (! (= (str_lt a b) (< (str_rank a) (str_rank b))) :pattern ((str_lt a b)))))\n")
		b.WriteString("(assert (forall ((a Str) (b Str)) (! (=> (= (str_rank a) (str_rank b)) (= a b)) :pattern ((str_rank a) (str_rank b)))))\n")
	}
	hasQuant := (strings.Contains(bs, "(forall ") || strings.Contains(bs, "(exists ")) && !relaxed
	if hasQuant && strings.Contains(bs, "(sub ") {
		b.WriteString("(assert (forall ((x Int) (i Int)) (! (and (= (objof (sub x i)) (objof x)) (= (sub_base (sub x i)) x) (= (sub_key (sub x i)) i) (not (= (sub x i) 0))) :pattern ((sub x i)))))\n")
	}
	if hasQuant && strings.Contains(bs, "(ea ") {
		b.WriteString("(assert (forall ((a Int) (i Int)) (! (and (= (objof (ea a i)) (objof a)) (= (ea_base (ea a i)) a) (= (ea_idx (ea a i)) i) (= (sub_key (ea a i)) (- 1)) (not (= (ea a i) 0))) :pattern ((ea a i)))))\n")
	}
	if strings.Contains(bs, "str_len") {
		b.WriteString("(assert (forall ((a Str)) (! (>= (str_len a) 0) :pattern ((str_len a)))))\n")
	}
	b.WriteString("(assert (= (objof 0) 0))\n")
	b.WriteString(bs)
	if wantModel {
		b.WriteString("(get-model)\n")
	}
	return b.String()
}

// IEEE-style float datatype operations (real arithmetic on finite values,
// IEEE rules for the special values; rounding and overflow are not modelled).
const fPrelude = `(define-fun f_isfin ((a F)) Bool ((_ is fin) a))
(define-fun f_isnan ((a F)) Bool ((_ is nan) a))
(define-fun f_isinf ((a F)) Bool (or ((_ is pinf) a) ((_ is ninf) a)))
(define-fun f_neg ((a F)) F (ite ((_ is fin) a) (fin (- (fval a))) (ite ((_ is pinf) a) ninf (ite ((_ is ninf) a) pinf nan))))
(define-fun f_add ((a F) (b F)) F (ite (or ((_ is nan) a) ((_ is nan) b)) nan (ite ((_ is fin) a) (ite ((_ is fin) b) (fin (+ (fval a) (fval b))) b) (ite ((_ is fin) b) a (ite (= a b) a nan)))))
(define-fun f_sub ((a F) (b F)) F (f_add a (f_neg b)))
(define-fun f_sgn ((a F)) Int (ite ((_ is pinf) a) 1 (ite ((_ is ninf) a) (- 1) (ite ((_ is fin) a) (ite (> (fval a) 0.0) 1 (ite (< (fval a) 0.0) (- 1) 0)) 0))))
(define-fun f_mul ((a F) (b F)) F (ite (or ((_ is nan) a) ((_ is nan) b)) nan (ite (and ((_ is fin) a) ((_ is fin) b)) (fin (* (fval a) (fval b))) (ite (= (* (f_sgn a) (f_sgn b)) 0) nan (ite (> (* (f_sgn a) (f_sgn b)) 0) pinf ninf)))))
(define-fun f_div ((a F) (b F)) F (ite (or ((_ is nan) a) ((_ is nan) b)) nan (ite ((_ is fin) b) (ite (= (fval b) 0.0) (ite (= (f_sgn a) 0) nan (ite (> (f_sgn a) 0) pinf ninf)) (ite ((_ is fin) a) (fin (/ (fval a) (fval b))) (ite (> (* (f_sgn a) (f_sgn b)) 0) pinf ninf))) (ite ((_ is fin) a) (fin 0.0) nan))))
(define-fun f_lt ((a F) (b F)) Bool (and (not ((_ is nan) a)) (not ((_ is nan) b)) (ite ((_ is fin) a) (ite ((_ is fin) b) (< (fval a) (fval b)) ((_ is pinf) b)) (ite ((_ is ninf) a) (not ((_ is ninf) b)) false))))
(define-fun f_eq ((a F) (b F)) Bool (and (not ((_ is nan) a)) (not ((_ is nan) b)) (= a b)))
(define-fun f_le ((a F) (b F)) Bool (or (f_lt a b) (f_eq a b)))
(define-fun f_gt ((a F) (b F)) Bool (f_lt b a))
(define-fun f_ge ((a F) (b F)) Bool (f_le b a))
(define-fun f_min ((a F) (b F)) F (ite (or ((_ is nan) a) ((_ is nan) b)) nan (ite (f_lt a b) a b)))
(define-fun f_max ((a F) (b F)) F (ite (or ((_ is nan) a) ((_ is nan) b)) nan (ite (f_lt a b) b a)))
(define-fun f_floor ((a F)) F (ite ((_ is fin) a) (fin (to_real (to_int (fval a)))) a))
(define-fun f_ceil ((a F)) F (ite ((_ is fin) a) (fin (to_real (- (to_int (- (fval a)))))) a))
(define-fun f_abs ((a F)) F (ite ((_ is fin) a) (fin (ite (>= (fval a) 0.0) (fval a) (- (fval a)))) (ite ((_ is nan) a) nan pinf)))
`

// substSym replaces every occurrence of the symbol sym (as a whole SMT symbol) in s by repl.
func substSym(s, sym, repl string) string {
	if !strings.Contains(s, sym) {
		return s
	}
	var b strings.Builder
	for i := 0; i < len(s); {
		j := strings.Index(s[i:], sym)
		if j < 0 {
			b.WriteString(s[i:])
			break
		}
		j += i
		end := j + len(sym)
		okL := j == 0 || s[j-1] == ' ' || s[j-1] == '('
		okR := end == len(s) || s[end] == ' ' || s[end] == ')'
		b.WriteString(s[i:j])
		if okL && okR {
			b.WriteString(repl)
		} else {
			b.WriteString(sym)
		}
		i = end
	}
	return b.String()
}

// splitForall parses "(forall ((v S) ...) BODY)" as built by the specification evaluator.
func splitForall(t string) (vars [][2]string, body string, ok bool) {
	const pre = "(forall ("
	if !strings.HasPrefix(t, pre) || !strings.HasSuffix(t, ")") {
		return nil, "", false
	}
	i := len(pre)
	for i < len(t) && t[i] == '(' {
		// one declaration (sym sort) - the sort may contain parentheses
		depth := 0
		j := i
		for ; j < len(t); j++ {
			if t[j] == '(' {
				depth++
			} else if t[j] == ')' {
				depth--
				if depth == 0 {
					break
				}
			}
		}
		d := t[i+1 : j]
		sp := strings.Index(d, " ")
		if sp < 0 {
			return nil, "", false
		}
		vars = append(vars, [2]string{d[:sp], d[sp+1:]})
		i = j + 1
		if i < len(t) && t[i] == ' ' {
			i++
		}
	}
	if i >= len(t) || t[i] != ')' {
		return nil, "", false
	}
	i++
	if i >= len(t) || t[i] != ' ' {
		return nil, "", false
	}
	body = t[i+1 : len(t)-1]
	if strings.HasPrefix(body, "(! ") {
		return nil, "", false // patterned quantifier: leave alone
	}
	return vars, body, true
}
