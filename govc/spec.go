package main

import (
	"fmt"
	"os"
	"strconv"
	"strings"
	"unicode"
)

// ---------------------------------------------------------------------------
// Spec expression AST

type SExpr interface{ String() string }

type SIdent struct{ Name string }
type SLit struct {
	Kind string // int real string bool nil
	Val  string
}
type SBin struct {
	Op   string
	L, R SExpr
}
type SUn struct {
	Op string
	X  SExpr
}
type SSel struct {
	X    SExpr
	Name string
}
type SIndex struct{ X, I SExpr }
type SCall struct {
	Fun  string
	Args []SExpr
}
type SQVar struct{ Name, Type string }
type SQuant struct {
	Forall bool
	Kind   string // "" (forall/exists), "sum", "count"
	Vars   []SQVar
	In     SExpr // optional collection for the (single) variable
	Body   SExpr
}

func (e *SIdent) String() string { return e.Name }
func (e *SLit) String() string {
	if e.Kind == "string" {
		return strconv.Quote(e.Val)
	}
	return e.Val
}
func (e *SBin) String() string   { return "(" + e.L.String() + " " + e.Op + " " + e.R.String() + ")" }
func (e *SUn) String() string    { return e.Op + e.X.String() }
func (e *SSel) String() string   { return e.X.String() + "." + e.Name }
func (e *SIndex) String() string { return e.X.String() + "[" + e.I.String() + "]" }
func (e *SCall) String() string {
	var a []string
	for _, x := range e.Args {
		a = append(a, x.String())
	}
	return e.Fun + "(" + strings.Join(a, ", ") + ")"
}
func (e *SQuant) String() string {
	q := "exists"
	if e.Forall {
		q = "forall"
	}
	if e.Kind != "" {
		q = e.Kind
	}
	var vs []string
	for _, v := range e.Vars {
		vs = append(vs, v.Name+" "+v.Type)
	}
	if e.In != nil {
		return "(" + q + " " + e.Vars[0].Name + " in " + e.In.String() + " :: " + e.Body.String() + ")"
	}
	return "(" + q + " " + strings.Join(vs, ", ") + " :: " + e.Body.String() + ")"
}

// ---------------------------------------------------------------------------
// Tokenizer

type tok struct {
	k string // id num str op eof
	v string
}

func lexSpec(s string) ([]tok, error) {
	var out []tok
	i := 0
	for i < len(s) {
		c := rune(s[i])
		switch {
		case unicode.IsSpace(c):
			i++
		case unicode.IsLetter(c) || c == '_':
			j := i
			for j < len(s) && (unicode.IsLetter(rune(s[j])) || unicode.IsDigit(rune(s[j])) || s[j] == '_' || s[j] == '$') {
				j++
			}
			out = append(out, tok{"id", s[i:j]})
			i = j
		case unicode.IsDigit(c):
			j := i
			for j < len(s) && (unicode.IsDigit(rune(s[j])) || s[j] == '.' || s[j] == 'e' || s[j] == 'E' || ((s[j] == '-' || s[j] == '+') && (s[j-1] == 'e' || s[j-1] == 'E'))) {
				j++
			}
			out = append(out, tok{"num", s[i:j]})
			i = j
		case c == '"':
			j := i + 1
			for j < len(s) && s[j] != '"' {
				if s[j] == '\\' {
					j++
				}
				j++
			}
			if j >= len(s) {
				return nil, fmt.Errorf("unterminated string in %q", s)
			}
			u, err := strconv.Unquote(s[i : j+1])
			if err != nil {
				return nil, err
			}
			out = append(out, tok{"str", u})
			i = j + 1
		default:
			ops := []string{"<==>", "==>", "::", "&&", "||", "==", "!=", "<=", ">=", "(", ")", "[", "]", ",", ".", ":", "<", ">", "+", "-", "*", "/", "%", "!", "{", "}", "="}
			matched := false
			for _, op := range ops {
				if strings.HasPrefix(s[i:], op) {
					out = append(out, tok{"op", op})
					i += len(op)
					matched = true
					break
				}
			}
			if !matched {
				return nil, fmt.Errorf("bad character %q in spec %q", c, s)
			}
		}
	}
	out = append(out, tok{"eof", ""})
	return out, nil
}

type sparser struct {
	toks []tok
	p    int
}

func (p *sparser) peek() tok { return p.toks[p.p] }
func (p *sparser) next() tok { t := p.toks[p.p]; p.p++; return t }
func (p *sparser) isOp(v string) bool {
	t := p.peek()
	return t.k == "op" && t.v == v
}
func (p *sparser) isID(v string) bool {
	t := p.peek()
	return t.k == "id" && t.v == v
}
func (p *sparser) expectOp(v string) error {
	if !p.isOp(v) {
		return fmt.Errorf("expected %q, got %q", v, p.peek().v)
	}
	p.p++
	return nil
}

func ParseSpecExpr(s string) (e SExpr, err error) {
	toks, err := lexSpec(s)
	if err != nil {
		return nil, err
	}
	p := &sparser{toks: toks}
	defer func() {
		if r := recover(); r != nil {
			err = fmt.Errorf("spec parse error in %q: %v", s, r)
		}
	}()
	e = p.parseIff()
	if p.peek().k != "eof" {
		return nil, fmt.Errorf("trailing tokens in spec %q at %q", s, p.peek().v)
	}
	return e, nil
}

func (p *sparser) parseIff() SExpr {
	l := p.parseImp()
	for p.isOp("<==>") {
		p.next()
		r := p.parseImp()
		l = &SBin{"<==>", l, r}
	}
	return l
}

func (p *sparser) parseImp() SExpr {
	l := p.parseOr()
	if p.isOp("==>") {
		p.next()
		r := p.parseImp()
		return &SBin{"==>", l, r}
	}
	return l
}

func (p *sparser) parseOr() SExpr {
	l := p.parseAnd()
	for p.isOp("||") {
		p.next()
		r := p.parseAnd()
		l = &SBin{"||", l, r}
	}
	return l
}

func (p *sparser) parseAnd() SExpr {
	l := p.parseCmp()
	for p.isOp("&&") {
		p.next()
		r := p.parseCmp()
		l = &SBin{"&&", l, r}
	}
	return l
}

func (p *sparser) parseCmp() SExpr {
	l := p.parseAdd()
	for {
		t := p.peek()
		if t.k == "op" && (t.v == "==" || t.v == "!=" || t.v == "<" || t.v == "<=" || t.v == ">" || t.v == ">=") {
			p.next()
			r := p.parseAdd()
			l = &SBin{t.v, l, r}
			continue
		}
		if t.k == "id" && t.v == "in" {
			p.next()
			r := p.parseAdd()
			l = &SBin{"in", l, r}
			continue
		}
		return l
	}
}

func (p *sparser) parseAdd() SExpr {
	l := p.parseMul()
	for p.isOp("+") || p.isOp("-") {
		op := p.next().v
		r := p.parseMul()
		l = &SBin{op, l, r}
	}
	return l
}

func (p *sparser) parseMul() SExpr {
	l := p.parseUnary()
	for p.isOp("*") || p.isOp("/") || p.isOp("%") {
		op := p.next().v
		r := p.parseUnary()
		l = &SBin{op, l, r}
	}
	return l
}

func (p *sparser) parseUnary() SExpr {
	if p.isOp("!") {
		p.next()
		return &SUn{"!", p.parseUnary()}
	}
	if p.isOp("-") {
		p.next()
		return &SUn{"-", p.parseUnary()}
	}
	if p.isOp("*") { // explicit dereference
		p.next()
		return &SUn{"*", p.parseUnary()}
	}
	return p.parsePostfix()
}

func (p *sparser) parseTypeUntil(stops ...string) string {
	var parts []string
	for {
		t := p.peek()
		if t.k == "eof" {
			panic("unterminated type")
		}
		if t.k == "op" {
			stop := false
			for _, s := range stops {
				if t.v == s {
					stop = true
				}
			}
			if stop {
				break
			}
		}
		parts = append(parts, p.next().v)
	}
	return strings.Join(parts, "")
}

func (p *sparser) parsePostfix() SExpr {
	var e SExpr
	t := p.next()
	switch t.k {
	case "num":
		if strings.ContainsAny(t.v, ".eE") {
			e = &SLit{"real", t.v}
		} else {
			e = &SLit{"int", t.v}
		}
	case "str":
		e = &SLit{"string", t.v}
	case "id":
		switch t.v {
		case "true", "false":
			e = &SLit{"bool", t.v}
		case "nil":
			e = &SLit{"nil", "nil"}
		case "forall", "exists", "sum", "count":
			if (t.v == "sum" || t.v == "count") && !(p.peek().k == "id" && p.p+1 < len(p.toks) && p.toks[p.p+1].k == "id" && p.toks[p.p+1].v == "in") {
				// plain identifier / call named sum or count
				if p.isOp("(") {
					p.next()
					var args []SExpr
					for !p.isOp(")") {
						args = append(args, p.parseIff())
						if p.isOp(",") {
							p.next()
						}
					}
					p.next()
					e = &SCall{t.v, args}
				} else {
					e = &SIdent{t.v}
				}
				break
			}
			q := &SQuant{Forall: t.v == "forall"}
			if t.v == "sum" || t.v == "count" {
				q.Kind = t.v
			}
			for {
				name := p.next()
				if name.k != "id" {
					panic("quantifier variable expected")
				}
				if p.isID("in") {
					p.next()
					q.Vars = append(q.Vars, SQVar{name.v, ""})
					q.In = p.parseAdd()
					break
				}
				ty := p.parseTypeUntil("::", ",")
				q.Vars = append(q.Vars, SQVar{name.v, ty})
				if p.isOp(",") {
					p.next()
					continue
				}
				break
			}
			if err := p.expectOp("::"); err != nil {
				panic(err)
			}
			q.Body = p.parseIff()
			return q
		default:
			if p.isOp("(") {
				p.next()
				var args []SExpr
				for !p.isOp(")") {
					args = append(args, p.parseIff())
					if p.isOp(",") {
						p.next()
					}
				}
				p.next()
				e = &SCall{t.v, args}
			} else {
				e = &SIdent{t.v}
			}
		}
	case "op":
		if t.v == "(" {
			e = p.parseIff()
			if err := p.expectOp(")"); err != nil {
				panic(err)
			}
		} else {
			panic("unexpected " + t.v)
		}
	default:
		panic("unexpected end")
	}
	for {
		if p.isOp(".") {
			p.next()
			n := p.next()
			if n.k != "id" {
				panic("field name expected")
			}
			// qualified call pkg.fn(args) or method call recv.m(args)
			if p.isOp("(") {
				p.next()
				var args []SExpr
				for !p.isOp(")") {
					args = append(args, p.parseIff())
					if p.isOp(",") {
						p.next()
					}
				}
				p.next()
				if id, ok := e.(*SIdent); ok {
					e = &SCall{id.Name + "." + n.v, args}
				} else {
					e = &SCall{"." + n.v, append([]SExpr{e}, args...)}
				}
				continue
			}
			e = &SSel{e, n.v}
			continue
		}
		if p.isOp("[") {
			p.next()
			if p.isOp("*") {
				p.next()
				if err := p.expectOp("]"); err != nil {
					panic(err)
				}
				e = &SIndex{e, &SIdent{"*"}}
				continue
			}
			i := p.parseIff()
			if err := p.expectOp("]"); err != nil {
				panic(err)
			}
			e = &SIndex{e, i}
			continue
		}
		return e
	}
}

// ---------------------------------------------------------------------------
// Contract files

type Clause struct {
	Expr SExpr
	Text string
	Line int
	Tag  string // optional label:  ensures [name] expr
	Assumed bool // `trust [tag] e`: exported to callers like an ensures, NOT proved here, listed as an assumption
}

type LoopSpec struct {
	Ordinal    int
	Unroll     int
	Invariants []Clause
	Decreases  *Clause
	ModAll     bool
}

type Contract struct {
	File     string
	Line     int
	Func     string
	Props    []string
	Requires []Clause
	Ensures  []Clause
	Modifies []Clause
	ModAll   bool
	UseStable     bool // the unit uses the stable declarations (all, or those named in UseStableOnly by their T.f / type text)
	UseStableOnly []string
	Pure     bool
	Loops    map[int]*LoopSpec
	NoPanic  bool // true = nopanic obligations are generated (default)
	IEEE     bool
	Inline   bool
	Trusted  bool // contract is assumed, body not verified
	NoBody   bool
	Assumes  []Clause // assume-config facts (listed in evidence)
	Lemmas   []Clause // extra assertions proved at function exit
	Hints    []Clause // proved at function exit BEFORE the postconditions, then assumed for the clauses that follow (proof steps)
	Notes    []string
	Decreases *Clause // termination measure for recursive functions
	Fresh    bool // result is freshly allocated
	FreshResults map[int]bool // `fresh N`: tuple component N is freshly allocated
	Opaque   bool // do not verify body even if available (external)
}

type Define struct {
	Name   string
	Params []SQVar
	Ret    string
	Body   SExpr // nil = uninterpreted
	Text   string
	Ghost  bool // mutable ghost state: a heap family indexed by the (single) parameter
}

type GlobalSpec struct {
	Name string
	Line int
}

type ContractFile struct {
	Path      string
	Contracts map[string]*Contract
	Order     []string
	Defines   map[string]*Define
	Axioms    []Clause
	Consts    map[string]bool // globals to be treated as init-constants
	Stables   []string        // stable families: "T.f" or "maptype <type>"
	Imports   map[string]string
}

var clauseKeywords = map[string]bool{
	"func": true, "end": true, "props": true, "requires": true, "ensures": true, "modifies": true,
	"pure": true, "loop": true, "invariant": true, "decreases": true, "unroll": true, "define": true,
	"axiom": true, "constglobal": true, "stable": true, "usestable": true, "inline": true, "nopanic": true, "ieee": true, "assume": true,
	"trusted": true, "note": true, "fresh": true, "lemma": true, "hint": true, "trust": true, "opaque": true, "declare": true, "import": true, "ghost": true,
}

func ParseContractFile(path string) (*ContractFile, error) {
	data, err := os.ReadFile(path)
	if err != nil {
		return nil, err
	}
	cf := &ContractFile{Path: path, Contracts: map[string]*Contract{}, Defines: map[string]*Define{}, Consts: map[string]bool{}, Imports: map[string]string{}}
	type rawClause struct {
		kw   string
		text string
		line int
	}
	var clauses []rawClause
	for i, ln := range strings.Split(string(data), "\n") {
		t := strings.TrimSpace(ln)
		if !strings.HasPrefix(t, "//@") {
			continue
		}
		body := strings.TrimSpace(t[3:])
		if body == "" || strings.HasPrefix(body, "#") {
			continue
		}
		// strip trailing comment " // ..."
		if k := strings.Index(body, " //"); k >= 0 {
			body = strings.TrimSpace(body[:k])
		}
		first := body
		rest := ""
		if k := strings.IndexAny(body, " \t"); k >= 0 {
			first, rest = body[:k], strings.TrimSpace(body[k+1:])
		}
		if clauseKeywords[first] {
			clauses = append(clauses, rawClause{first, rest, i + 1})
		} else if len(clauses) > 0 {
			clauses[len(clauses)-1].text += " " + body
		} else {
			return nil, fmt.Errorf("%s:%d: continuation without clause", path, i+1)
		}
	}
	var cur *Contract
	var curLoop *LoopSpec
	mk := func(rc rawClause) (Clause, error) {
		text := rc.text
		tag := ""
		if strings.HasPrefix(text, "[") {
			if k := strings.Index(text, "]"); k > 0 {
				tag = text[1:k]
				text = strings.TrimSpace(text[k+1:])
			}
		}
		e, err := ParseSpecExpr(text)
		if err != nil {
			return Clause{}, fmt.Errorf("%s:%d: %v", path, rc.line, err)
		}
		return Clause{Expr: e, Text: text, Line: rc.line, Tag: tag}, nil
	}
	for _, rc := range clauses {
		switch rc.kw {
		case "import":
			// import alias "path"
			f := strings.Fields(rc.text)
			if len(f) == 2 {
				cf.Imports[f[0]] = strings.Trim(f[1], "\"")
			}
			continue
		case "define", "declare", "ghost":
			d, err := parseDefine(rc.text, rc.kw != "define")
			if err != nil {
				return nil, fmt.Errorf("%s:%d: %v", path, rc.line, err)
			}
			d.Ghost = rc.kw == "ghost"
			cf.Defines[d.Name] = d
			continue
		case "axiom":
			c, err := mk(rc)
			if err != nil {
				return nil, err
			}
			cf.Axioms = append(cf.Axioms, c)
			continue
		case "constglobal":
			for _, n := range strings.Fields(rc.text) {
				cf.Consts[n] = true
			}
			continue
		case "stable":
			cf.Stables = append(cf.Stables, strings.TrimSpace(rc.text))
			continue
		case "func":
			cur = &Contract{File: path, Line: rc.line, Func: strings.TrimSpace(rc.text), Loops: map[int]*LoopSpec{}, NoPanic: true}
			curLoop = nil
			if _, dup := cf.Contracts[cur.Func]; dup {
				return nil, fmt.Errorf("%s:%d: duplicate contract for %s", path, rc.line, cur.Func)
			}
			cf.Contracts[cur.Func] = cur
			cf.Order = append(cf.Order, cur.Func)
			continue
		case "end":
			cur, curLoop = nil, nil
			continue
		}
		if cur == nil {
			return nil, fmt.Errorf("%s:%d: clause %q outside func block", path, rc.line, rc.kw)
		}
		switch rc.kw {
		case "props":
			cur.Props = append(cur.Props, strings.Fields(rc.text)...)
		case "requires":
			c, err := mk(rc)
			if err != nil {
				return nil, err
			}
			cur.Requires = append(cur.Requires, c)
		case "ensures":
			c, err := mk(rc)
			if err != nil {
				return nil, err
			}
			cur.Ensures = append(cur.Ensures, c)
		case "lemma":
			c, err := mk(rc)
			if err != nil {
				return nil, err
			}
			cur.Lemmas = append(cur.Lemmas, c)
		case "trust":
			c, err := mk(rc)
			if err != nil {
				return nil, err
			}
			c.Assumed = true
			cur.Ensures = append(cur.Ensures, c)
		case "hint":
			c, err := mk(rc)
			if err != nil {
				return nil, err
			}
			cur.Hints = append(cur.Hints, c)
		case "assume":
			c, err := mk(rc)
			if err != nil {
				return nil, err
			}
			cur.Assumes = append(cur.Assumes, c)
		case "modifies":
			if strings.TrimSpace(rc.text) == "*" {
				if curLoop != nil {
					curLoop.ModAll = true
				} else {
					cur.ModAll = true
				}
				continue
			}
			for _, part := range splitTopLevel(rc.text, ',') {
				c, err := mk(rawClause{"modifies", part, rc.line})
				if err != nil {
					return nil, err
				}
				cur.Modifies = append(cur.Modifies, c)
			}
		case "pure":
			cur.Pure = true
		case "inline":
			cur.Inline = true
		case "trusted":
			cur.Trusted = true
		case "opaque":
			cur.Opaque = true
		case "usestable":
			cur.UseStable = true
			cur.UseStableOnly = append(cur.UseStableOnly, strings.Fields(strings.ReplaceAll(rc.text, ",", " "))...)
		case "fresh":
			if t := strings.TrimSpace(rc.text); t != "" {
				if cur.FreshResults == nil {
					cur.FreshResults = map[int]bool{}
				}
				for _, f := range strings.Fields(t) {
					if n, err := strconv.Atoi(f); err == nil {
						cur.FreshResults[n] = true
					}
				}
			} else {
				cur.Fresh = true
			}
		case "ieee":
			cur.IEEE = true
		case "nopanic":
			cur.NoPanic = strings.TrimSpace(rc.text) != "off"
		case "note":
			cur.Notes = append(cur.Notes, rc.text)
		case "loop":
			f := strings.Fields(rc.text)
			if len(f) == 0 {
				return nil, fmt.Errorf("%s:%d: loop needs an ordinal", path, rc.line)
			}
			n, err := strconv.Atoi(strings.TrimSuffix(f[0], ":"))
			if err != nil {
				return nil, fmt.Errorf("%s:%d: bad loop ordinal", path, rc.line)
			}
			curLoop = &LoopSpec{Ordinal: n}
			cur.Loops[n] = curLoop
			if len(f) >= 3 && f[1] == "unroll" {
				k, err := strconv.Atoi(f[2])
				if err != nil {
					return nil, fmt.Errorf("%s:%d: bad unroll count", path, rc.line)
				}
				curLoop.Unroll = k
			}
		case "unroll":
			if curLoop == nil {
				return nil, fmt.Errorf("%s:%d: unroll outside loop", path, rc.line)
			}
			k, err := strconv.Atoi(strings.TrimSpace(rc.text))
			if err != nil {
				return nil, err
			}
			curLoop.Unroll = k
		case "invariant":
			if curLoop == nil {
				return nil, fmt.Errorf("%s:%d: invariant outside loop", path, rc.line)
			}
			c, err := mk(rc)
			if err != nil {
				return nil, err
			}
			curLoop.Invariants = append(curLoop.Invariants, c)
		case "decreases":
			c, err := mk(rc)
			if err != nil {
				return nil, err
			}
			if curLoop != nil {
				curLoop.Decreases = &c
			} else {
				cur.Decreases = &c
			}
		}
	}
	return cf, nil
}

func splitTopLevel(s string, sep byte) []string {
	var out []string
	depth := 0
	last := 0
	for i := 0; i < len(s); i++ {
		switch s[i] {
		case '(', '[':
			depth++
		case ')', ']':
			depth--
		default:
			if s[i] == sep && depth == 0 {
				out = append(out, strings.TrimSpace(s[last:i]))
				last = i + 1
			}
		}
	}
	out = append(out, strings.TrimSpace(s[last:]))
	return out
}

// parseDefine parses  name(p T, q U) R = expr   (or without "= expr" for declare)
func parseDefine(s string, uninterp bool) (*Define, error) {
	lp := strings.Index(s, "(")
	if lp < 0 {
		return nil, fmt.Errorf("bad define %q", s)
	}
	name := strings.TrimSpace(s[:lp])
	depth := 0
	rp := -1
	for i := lp; i < len(s); i++ {
		if s[i] == '(' {
			depth++
		} else if s[i] == ')' {
			depth--
			if depth == 0 {
				rp = i
				break
			}
		}
	}
	if rp < 0 {
		return nil, fmt.Errorf("bad define %q", s)
	}
	d := &Define{Name: name, Text: s}
	ps := strings.TrimSpace(s[lp+1 : rp])
	if ps != "" {
		for _, p := range splitTopLevel(ps, ',') {
			f := strings.Fields(p)
			if len(f) < 2 {
				return nil, fmt.Errorf("bad parameter %q in define %s", p, name)
			}
			d.Params = append(d.Params, SQVar{f[0], strings.Join(f[1:], "")})
		}
	}
	rest := strings.TrimSpace(s[rp+1:])
	if uninterp {
		d.Ret = strings.TrimSpace(rest)
		return d, nil
	}
	eq := strings.Index(rest, "=")
	if eq < 0 {
		return nil, fmt.Errorf("define %s lacks '='", name)
	}
	d.Ret = strings.TrimSpace(rest[:eq])
	e, err := ParseSpecExpr(rest[eq+1:])
	if err != nil {
		return nil, err
	}
	d.Body = e
	return d, nil
}
