package main

import (
	"fmt"
	"sort"
	"go/token"
	"go/types"
	"strings"

	"golang.org/x/tools/go/ssa"
)

const repoModule = "github.com/NVIDIA/KAI-scheduler"

func funcKey(f *ssa.Function) string {
	if f.Parent() != nil {
		return funcKey(f.Parent()) + "$" + strings.TrimPrefix(f.Name(), f.Parent().Name()+"$")
	}
	if o := f.Origin(); o != nil && o != f {
		f = o
	}
	if recv := f.Signature.Recv(); recv != nil {
		var pkg *types.Package
		if f.Pkg != nil {
			pkg = f.Pkg.Pkg
		} else if f.Object() != nil {
			pkg = f.Object().Pkg()
		}
		return "(" + types.TypeString(recv.Type(), types.RelativeTo(pkg)) + ")." + f.Name()
	}
	return f.Name()
}

func funcPkgPath(f *ssa.Function) string {
	for f.Parent() != nil {
		f = f.Parent()
	}
	if f.Pkg != nil {
		return f.Pkg.Pkg.Path()
	}
	if f.Object() != nil && f.Object().Pkg() != nil {
		return f.Object().Pkg().Path()
	}
	if o := f.Origin(); o != nil && o != f {
		return funcPkgPath(o)
	}
	return ""
}

var noopPkgPrefixes = []string{
	repoModule + "/pkg/scheduler/log",
	repoModule + "/pkg/scheduler/metrics",
	"k8s.io/klog",
	"github.com/go-logr/logr",
	"go.uber.org/zap",
	"sigs.k8s.io/controller-runtime/pkg/log",
	"log",
}

func isNoopCallee(path string, name string) bool {
	for _, p := range noopPkgPrefixes {
		if path == p || strings.HasPrefix(path, p+"/") {
			return true
		}
	}
	return false
}

// ---------------------------------------------------------------------------

func (u *Unit) execCall(fr *frame, st *State, call *ssa.CallCommon, instr ssa.Value, pos token.Pos) Value {
	var resT types.Type
	if instr != nil {
		resT = instr.Type()
	} else {
		resT = call.Signature().Results()
	}
	args := make([]Value, len(call.Args))
	for i, a := range call.Args {
		args[i] = u.val(st, a)
	}
	if call.IsInvoke() {
		recv := u.val(st, call.Value)
		return u.invokeCall(fr, st, call, recv, args, resT, pos)
	}
	switch callee := call.Value.(type) {
	case *ssa.Builtin:
		return u.execBuiltin(fr, st, callee, call, args, resT, pos)
	case *ssa.Function:
		return u.staticCall(fr, st, callee, args, nil, resT, pos)
	case *ssa.MakeClosure:
		cv := u.val(st, callee).(*ClosureV)
		return u.staticCall(fr, st, cv.Fn, args, cv.Bind, resT, pos)
	}
	fv := u.val(st, call.Value)
	if cv, ok := fv.(*ClosureV); ok {
		return u.staticCall(fr, st, cv.Fn, args, cv.Bind, resT, pos)
	}
	// context.CancelFunc values (context.WithTimeout / WithCancel): cancelling a context has no effect on the
	// scheduler's or binder's model state
	if isHarmlessFuncType(call.Value.Type()) {
		return u.zeroOrNil(resT)
	}
	// call through a function value
	if sc, ok := fv.(Sc); ok {
		if cv, ok := u.closures[sc.T.S]; ok {
			return u.staticCall(fr, st, cv.Fn, args, cv.Bind, resT, pos)
		}
		if u.noPanic() {
			u.oblige(st, "nopanic", "call of nil function value", pos, Neq(sc.T, TNil), "")
		}
		// the value may be one of the closures created in this unit (e.g. a slice literal of method values)
		if len(u.closures) > 0 && len(u.closures) <= 6 && u.w.funcFieldContract(call.Value) == nil {
			var ids []string
			for id := range u.closures {
				ids = append(ids, id)
			}
			sort.Strings(ids)
			var outs []retState
			rest := st.Clone()
			for _, id := range ids {
				cv := u.closures[id]
				if !types.Identical(cv.Fn.Signature.Params(), call.Signature().Params()) && cv.Fn.Signature.Params().Len() != call.Signature().Params().Len() {
					continue
				}
				cs := st.Clone()
				is := Eq(sc.T, cv.ID)
				cs.G = u.ctx.Named("g", And(st.G, is))
				rest.G = u.ctx.Named("g", And(rest.G, Not(is)))
				r := u.staticCall(fr, cs, cv.Fn, args, cv.Bind, resT, pos)
				outs = append(outs, retState{cs, []Value{r}})
			}
			u.note("call through a function value: case split over the closures created in this unit; any other value havocs the heap")
			u.havocAll(rest, "unknown function value call at "+u.posOf(pos))
			outs = append(outs, retState{rest, []Value{u.freshResult(rest, resT, "fv")}})
			merged := outs[0].st
			val := outs[0].vals[0]
			for i := 1; i < len(outs); i++ {
				cnd := merged.G
				merged = u.mergeStates(merged, outs[i].st)
				if val != nil && outs[i].vals[0] != nil {
					val = u.mergeVal(cnd, val, outs[i].vals[0])
				}
			}
			*st = *merged
			return val
		}
		if c := u.w.funcFieldContract(call.Value); c != nil {
			ps := fieldContractParams(call, args)
			ps["fn"] = Sc{sc.T, types.Typ[types.UnsafePointer]}
			return u.applyContract(fr, st, nil, c, ps, resT, pos, "func value "+c.Func)
		}
	}
	u.note("call through unknown function value at " + u.posOf(pos) + ": heap havocked")
	u.havocAll(st, "unknown function value call at "+u.posOf(pos))
	return u.freshResult(st, resT, "fv")
}

func fieldContractParams(call *ssa.CallCommon, args []Value) map[string]Value {
	m := map[string]Value{}
	sig := call.Signature()
	for i := 0; i < sig.Params().Len() && i < len(args); i++ {
		n := sig.Params().At(i).Name()
		if n == "" || n == "_" {
			n = fmt.Sprintf("arg%d", i)
		}
		m[n] = args[i]
		m[fmt.Sprintf("arg%d", i)] = args[i]
	}
	return m
}

func (u *Unit) freshResult(st *State, t types.Type, prefix string) Value {
	if t == nil {
		return nil
	}
	if tu, ok := t.(*types.Tuple); ok {
		if tu.Len() == 0 {
			return nil
		}
		if tu.Len() == 1 {
			t = tu.At(0).Type()
		}
	}
	v := u.freshValue(t, prefix)
	u.assumeResultOld(st, v)
	return v
}

func (u *Unit) assumeResultOld(st *State, v Value) {
	switch x := v.(type) {
	case Sc:
		if x.Typ != nil && (isPointerLike(x.Typ) || isInterfaceType(x.Typ)) {
			u.ctx.Assert(Implies(st.G, And(Cmp("<", app("objof", SInt, x.T), st.allocTerm()), Cmp(">=", x.T, TZero))), "result-ref-allocated")
		}
	case SliceV:
		u.ctx.Assert(Implies(st.G, Cmp("<", app("objof", SInt, x.Arr), st.allocTerm())), "result-ref-allocated")
	case TupleV:
		for _, e := range x {
			u.assumeResultOld(st, e)
		}
	}
}

func (u *Unit) staticCall(fr *frame, st *State, callee *ssa.Function, args []Value, binds []Value, resT types.Type, pos token.Pos) Value {
	path := funcPkgPath(callee)
	full := callee.String()
	if o := callee.Origin(); o != nil && o != callee {
		full = o.String()
	}
	if h, ok := externals[full]; ok {
		return h(u, fr, st, callee, args, resT, pos)
	}
	if isNoopCallee(path, callee.Name()) {
		u.note("A-LOG: logging/metrics calls are no-ops")
		return u.freshResult(st, resT, "log")
	}
	c := u.w.contractFor(callee)
	if c != nil && !c.Inline {
		params := map[string]Value{}
		// positional aliases: recv, arg0, arg1, ... (receiver first when there is one)
		off := 0
		if callee.Signature.Recv() != nil && len(args) > 0 {
			params["recv"] = args[0]
			off = 1
		}
		for i := off; i < len(args); i++ {
			params[fmt.Sprintf("arg%d", i-off)] = args[i]
		}
		if len(callee.Params) > 0 {
			for i, p := range callee.Params {
				if i < len(args) {
					params[p.Name()] = args[i]
				}
			}
		} else {
			// functions loaded from export data carry no ssa parameters: use the signature's names
			if rv := callee.Signature.Recv(); rv != nil && len(args) > 0 && rv.Name() != "" && rv.Name() != "_" {
				params[rv.Name()] = args[0]
			}
			ps := callee.Signature.Params()
			for i := 0; i < ps.Len() && i+off < len(args); i++ {
				if n := ps.At(i).Name(); n != "" && n != "_" {
					params[n] = args[i+off]
				}
			}
		}
		return u.applyContract(fr, st, callee, c, params, resT, pos, funcKey(callee))
	}
	if u.canInline(callee, c) {
		return u.inlineCall(fr, st, callee, c, args, binds, resT, pos)
	}
	if callee.Name() == "DeepCopy" && c == nil {
		u.note("A-DEEPCOPY: DeepCopy() without contract returns a new object (content unconstrained) and leaves every existing object unchanged")
		if resT != nil && scalarSort(resT) == SInt && isPointerLike(resT) {
			r := u.newObject(st)
			if len(args) > 0 {
				if a0, ok := args[0].(Sc); ok {
					return Sc{u.ctx.Named("dc", Ite(Eq(a0.T, TNil), TNil, r)), resT}
				}
			}
			return Sc{r, resT}
		}
		return u.freshResult(st, resT, "deepcopy")
	}
	if callee.Blocks == nil {
		return u.externalDefault(st, callee, args, resT, pos)
	}
	if u.w.isReadonly(callee) {
		u.note("callee " + shortFuncName(callee) + " has no contract: result unconstrained, heap unchanged (mechanically inferred read-only)")
		return u.freshResult(st, resT, "ro_"+callee.Name())
	}
	u.note("callee " + shortFuncName(callee) + " has no contract: heap havocked at the call")
	u.havocRoots, u.havocRooted = []*ssa.Function{callee}, true
	u.havocAll(st, "call to "+shortFuncName(callee)+" without contract")
	return u.freshResult(st, resT, "unk_"+callee.Name())
}

func shortFuncName(f *ssa.Function) string {
	p := funcPkgPath(f)
	if i := strings.LastIndex(p, "/"); i >= 0 {
		p = p[i+1:]
	}
	return p + "." + funcKey(f)
}

func (u *Unit) canInline(callee *ssa.Function, c *Contract) bool {
	if callee.Blocks == nil {
		return false
	}
	for _, f := range u.inlineStack {
		if f == callee {
			return false
		}
	}
	if len(u.inlineStack) >= 6 {
		return false
	}
	if c != nil && c.Inline {
		return true
	}
	if callee.Synthetic != "" {
		return true
	}
	if !strings.HasPrefix(funcPkgPath(callee), repoModule) {
		return false
	}
	li := u.w.loopsOf(callee)
	if len(li.loops) > 0 {
		return false
	}
	n := 0
	for _, b := range callee.Blocks {
		n += len(b.Instrs)
	}
	return n <= 120
}

func (u *Unit) inlineCall(fr *frame, st *State, callee *ssa.Function, c *Contract, args []Value, binds []Value, resT types.Type, pos token.Pos) Value {
	u.inlineStack = append(u.inlineStack, callee)
	defer func() { u.inlineStack = u.inlineStack[:len(u.inlineStack)-1] }()
	nf := &frame{fn: callee, c: c, loops: u.w.loopsOf(callee), params: map[string]Value{}}
	for i, p := range callee.Params {
		if i < len(args) {
			st.Env[p] = retype(args[i], p.Type())
			nf.params[p.Name()] = st.Env[p]
		}
	}
	for i, fv := range callee.FreeVars {
		if i < len(binds) {
			st.Env[fv] = binds[i]
		}
	}
	savedNames, savedDefers := st.Names, st.Defers
	st.Names = map[string]nameRef{}
	for k, v := range nf.params {
		st.Names[k] = nameRef{V: v}
	}
	st.Defers = nil
	savedSuffix := u.oblSuffix
	u.oblSuffix = savedSuffix + ">" + callee.Name()
	nf.entry = st
	u.runRegion(nf, nil, []edgeState{{nil, callee.Blocks[0], st.Clone()}})
	u.oblSuffix = savedSuffix
	if len(nf.rets) == 0 {
		st.G = TFalse
		return u.freshResult(st, resT, "noret")
	}
	merged := nf.rets[0].st
	vals := nf.rets[0].vals
	for i := 1; i < len(nf.rets); i++ {
		cnd := merged.G
		nm := u.mergeStates(merged, nf.rets[i].st)
		nv := make([]Value, len(vals))
		for k := range vals {
			nv[k] = u.mergeVal(cnd, vals[k], nf.rets[i].vals[k])
		}
		merged, vals = nm, nv
	}
	merged.Names, merged.Defers = savedNames, savedDefers
	*st = *merged
	switch len(vals) {
	case 0:
		return nil
	case 1:
		return vals[0]
	}
	return TupleV(vals)
}

// ---------------------------------------------------------------------------
// contracts at call sites

type modItem struct {
	fam   string
	sort  string
	idx   Term
	key   *Term
	whole bool
	// element range of a slice: cells ea(rngArr, i) with rngLo <= i < rngHi
	rngArr, rngLo, rngHi *Term
}

// inRange: p is one of the cells described by a range item.
func (it modItem) inRange(p string) string {
	return fmt.Sprintf("(and (= (ea_base %s) %s) (= %s (ea (ea_base %s) (ea_idx %s))) (<= %s (ea_idx %s)) (< (ea_idx %s) %s))", p, it.rngArr.S, p, p, p, it.rngLo.S, p, p, it.rngHi.S)
}

func (u *Unit) applyContract(fr *frame, st *State, callee *ssa.Function, c *Contract, params map[string]Value, resT types.Type, pos token.Pos, name string) Value {
	u.w.noteContractUse(u, c)
	env := &SpecEnv{u: u, st: st, old: st, vars: params, pkg: u.w.pkgOfContract(c), fr: fr}
	for i, rq := range c.Requires {
		t := env.evalBool(rq.Expr)
		u.oblige(st, "pre", fmt.Sprintf("precondition %d of %s: %s", i+1, name, rq.Text), pos, t, "")
	}
	if callee != nil && c.Decreases != nil && u.c != nil && u.c.Decreases != nil && u.measure0 != nil && u.w.sameRecursionGroup(callee, u.fn) {
		m1 := u.asSc(env.eval(c.Decreases.Expr), nil).T
		u.oblige(st, "decreases", fmt.Sprintf("recursive call to %s decreases the measure %s (and the measure is bounded below)", name, c.Decreases.Text), pos, And(Cmp("<", m1, *u.measure0), Cmp(">=", *u.measure0, u.coerce(TZero, u.measure0.Sort))), "")
	}
	pre := st.Clone()
	if c.ModAll {
		if callee != nil && callee.Blocks != nil {
			u.havocRoots, u.havocRooted = []*ssa.Function{callee}, true
		}
		u.havocAll(st, "contract of "+name+" modifies *")
	} else {
		var items []modItem
		for _, m := range c.Modifies {
			items = append(items, env.modItems(m.Expr)...) // all targets are evaluated in the pre-call state
		}
		for _, it := range items {
			u.havocItem(st, it)
		}
		if !c.Pure {
			u.bumpAlloc(st)
		}
	}
	// results
	var res Value
	var rvals []Value
	memoKey := u.pureMemoKey(st, c, params, resT, name)
	if memoKey != "" {
		if m, hit := u.pureMemo[memoKey]; hit {
			rvals = m
			if len(rvals) == 1 {
				res = rvals[0]
			} else if len(rvals) > 1 {
				res = TupleV(rvals)
			}
		}
	}
	// Inside the body of a binder (forall/exists/sum) with arguments that mention bound variables the results are
	// FUNCTIONS of those variables (a plain fresh constant would denote one value for all instances - unsound when
	// the quantified formula is assumed), and the contract facts are asserted universally: forall vars. pre ==> ensures.
	var qv []Term
	if u.ctx.inQuant > 0 {
		seen := map[string]bool{}
		var names []string
		for k := range params {
			names = append(names, k)
		}
		sort.Strings(names)
		for _, k := range names {
			for _, sym := range qvarRe.FindAllString(describeValue(params[k]), -1) {
				if srt, ok := u.ctx.qvars[sym]; ok && !seen[sym] {
					seen[sym] = true
					qv = append(qv, Term{sym, srt})
				}
			}
		}
	}
	skolem := func(t types.Type) (Value, bool) {
		if len(qv) == 0 {
			return nil, false
		}
		rs := scalarSort(t)
		if rs == "" || isOpaqueStructLike(t) {
			return nil, false
		}
		var as []string
		for _, v := range qv {
			as = append(as, v.Sort)
		}
		u.ctx.freshN++
		f := u.ctx.Fun(fmt.Sprintf("res_%s!%d", sanitize(name), u.ctx.freshN), as, rs)
		return Sc{app(f, rs, qv...), t}, true
	}
	if rvals != nil {
		// same pure callee, same arguments, same heap: same results (see pureMemoKey)
	} else if tu, ok := resT.(*types.Tuple); ok && len(qv) > 0 {
		for i := 0; i < tu.Len(); i++ {
			if v, ok := skolem(tu.At(i).Type()); ok {
				rvals = append(rvals, v)
			} else {
				u.unsupported("result of contracted call " + name + " under a binder with bound-variable arguments is not a scalar: over-approximated by one value")
				rvals = append(rvals, u.freshValue(tu.At(i).Type(), "res_"+sanitize(name)))
			}
		}
		if len(rvals) > 0 {
			res = TupleV(rvals)
		}
	} else if v, ok := skolemIf(resT, len(qv) > 0, skolem); ok {
		res = v
		rvals = []Value{res}
	} else if tu, ok := resT.(*types.Tuple); ok {
		for i := 0; i < tu.Len(); i++ {
			if c.FreshResults[i] && scalarSort(tu.At(i).Type()) == SInt && isPointerLike(tu.At(i).Type()) {
				rvals = append(rvals, Sc{u.newObject(st), tu.At(i).Type()})
				continue
			}
			rvals = append(rvals, u.freshValue(tu.At(i).Type(), "res_"+sanitize(name)))
		}
		if len(rvals) > 0 {
			res = TupleV(rvals)
		}
	} else if resT != nil {
		if c.Fresh && scalarSort(resT) == SInt {
			r := u.newObject(st)
			res = Sc{r, resT}
		} else if sl, isSl := resT.Underlying().(*types.Slice); isSl && c.Fresh {
			r := u.newObject(st)
			ln := u.ctx.Fresh("res_len", SInt)
			u.ctx.Assert(Cmp(">=", ln, TZero), "slice-wf")
			res = SliceV{r, TZero, ln, sl.Elem()}
		} else {
			res = u.freshValue(resT, "res_"+sanitize(name))
		}
		rvals = []Value{res}
	}
	if memoKey != "" {
		if u.pureMemo == nil {
			u.pureMemo = map[string][]Value{}
		}
		u.pureMemo[memoKey] = rvals
	}
	for _, rv := range rvals {
		if !c.Fresh {
			u.assumeResultOld(st, rv)
		}
	}
	post := &SpecEnv{u: u, st: st, old: pre, vars: map[string]Value{}, pkg: env.pkg, fr: fr}
	for k, v := range params {
		post.vars[k] = v
	}
	bindResults(post.vars, callee, rvals)
	if len(qv) > 0 {
		var pres []Term
		for _, rq := range c.Requires {
			pres = append(pres, env.evalBool(rq.Expr))
		}
		var decls []string
		for _, v := range qv {
			decls = append(decls, fmt.Sprintf("(%s %s)", v.S, v.Sort))
		}
		var pats []string
		for _, rv := range rvals {
			if sc, ok := rv.(Sc); ok && strings.HasPrefix(sc.T.S, "(res_") {
				pats = append(pats, sc.T.S)
			}
		}
		for _, en := range c.Ensures {
			t := Implies(And(append([]Term{st.G}, pres...)...), post.evalBool(en.Expr))
			if t.S == "true" {
				continue
			}
			body := t.S
			if len(pats) > 0 {
				body = fmt.Sprintf("(! %s :pattern (%s))", t.S, strings.Join(pats, " "))
			}
			u.ctx.AssertAlways(Term{fmt.Sprintf("(forall (%s) %s)", strings.Join(decls, " "), body), SBool}, "ensures of "+name+" (under a binder, universally closed): "+en.Text)
		}
		return res
	}
	for _, en := range c.Ensures {
		t := post.evalBool(en.Expr)
		u.assume(st, t, "ensures of "+name+": "+en.Text)
	}
	return res
}

func skolemIf(t types.Type, on bool, mk func(types.Type) (Value, bool)) (Value, bool) {
	if !on || t == nil {
		return nil, false
	}
	if _, isTuple := t.(*types.Tuple); isTuple {
		return nil, false
	}
	return mk(t)
}

// isOpaqueStructLike: types whose values are not a single SMT scalar in the engine's model.
func isOpaqueStructLike(t types.Type) bool {
	return isStructType(t) || isSliceType(t) || isInterfaceType(t)
}

func sanitize(s string) string {
	return strings.NewReplacer("(", "", ")", "", "*", "", " ", "_", "|", "_").Replace(s)
}

func bindResults(vars map[string]Value, callee *ssa.Function, rvals []Value) {
	if len(rvals) == 1 {
		vars["result"] = rvals[0]
	}
	for i, v := range rvals {
		vars[fmt.Sprintf("result%d", i)] = v
	}
	if callee != nil {
		rs := callee.Signature.Results()
		for i := 0; i < rs.Len() && i < len(rvals); i++ {
			if n := rs.At(i).Name(); n != "" && n != "_" {
				vars[n] = rvals[i]
			}
		}
	}
}

func (u *Unit) havocItem(st *State, it modItem) {
	arr := u.heapGet(st, it.fam, it.sort)
	switch {
	case it.rngArr != nil:
		nh := u.ctx.Fresh("H", it.sort)
		u.assume(st, Term{fmt.Sprintf("(forall ((p Int)) (! (=> (not %s) (= (select %s p) (select %s p))) :pattern ((select %s p))))", it.inRange("p"), nh.S, arr.S, nh.S), SBool}, "slice-elements-havoc")
		st.Heap[it.fam] = nh
		u.famSort[it.fam] = it.sort
		u.written[it.fam] = true
	case it.whole:
		st.Heap[it.fam] = u.ctx.Fresh("H", it.sort)
		u.famSort[it.fam] = it.sort
		u.written[it.fam] = true
	case it.key != nil:
		inner := Select(arr, it.idx)
		u.heapSet(st, it.fam, Store(arr, it.idx, Store(inner, *it.key, u.ctx.Fresh("hv", arrVal(inner.Sort)))))
	default:
		u.heapSet(st, it.fam, Store(arr, it.idx, u.ctx.Fresh("hv", arrVal(it.sort))))
	}
}

// ---------------------------------------------------------------------------
// interface method calls

func (u *Unit) invokeCall(fr *frame, st *State, call *ssa.CallCommon, recv Value, args []Value, resT types.Type, pos token.Pos) Value {
	rsc := u.asSc(recv, call.Value.Type())
	if n, ok := call.Value.Type().(*types.Named); ok && n.Obj().Pkg() != nil && isNoopCallee(n.Obj().Pkg().Path(), call.Method.Name()) {
		u.note("A-LOG: logging/metrics calls are no-ops")
		return u.freshResult(st, resT, "log")
	}
	if isErrorType(call.Value.Type()) && call.Method.Name() == "Error" {
		if u.noPanic() {
			u.oblige(st, "nopanic", "Error() on nil error", pos, Neq(rsc.T, TNil), "")
		}
		f := u.ctx.Fun("error_message", []string{SInt}, SStr)
		u.note("error.Error(): read-only, deterministic uninterpreted message of the error value")
		return Sc{app(f, SStr, rsc.T), types.Typ[types.String]}
	}
	if u.noPanic() {
		u.oblige(st, "nopanic", "method call on nil interface: "+call.Method.Name(), pos, Neq(rsc.T, TNil), "")
	}
	st.G = u.ctx.Named("g", And(st.G, Neq(rsc.T, TNil)))
	// 1. contract on the interface method
	iname := types.TypeString(call.Value.Type(), func(p *types.Package) string { return p.Name() })
	if c := u.w.ifaceContract(call.Value.Type(), call.Method.Name()); c != nil {
		params := fieldContractParams(call, args)
		params["recv"] = rsc
		return u.applyContract(fr, st, nil, c, params, resT, pos, iname+"."+call.Method.Name())
	}
	if h, ok := ifaceExternals[typeKey(call.Value.Type())+"."+call.Method.Name()]; ok {
		return h(u, fr, st, nil, append([]Value{rsc}, args...), resT, pos)
	}
	// 2. closed-world dispatch over the concrete in-repo types implementing the interface
	impls := u.w.implementations(call.Value.Type(), call.Method)
	if len(impls) > 0 && len(impls) <= 4 {
		var outs []retState
		rest := st.Clone()
		for _, im := range impls {
			tag := u.ctx.Tag("type:" + typeKey(im.recvT))
			cs := st.Clone()
			is := Eq(app("itag", SInt, rsc.T), tag)
			cs.G = u.ctx.Named("g", And(st.G, is))
			rest.G = u.ctx.Named("g", And(rest.G, Not(is)))
			var rv Value
			k := payloadKind(im.recvT)
			if k == "?" && isStructType(im.recvT) {
				bt := rsc.T
				rv = &StructV{Typ: im.recvT, Box: &bt, BoxKey: typeKey(im.recvT)}
			} else if k == "?" {
				rv = u.freshValue(im.recvT, "recv")
			} else {
				rv = Sc{app("ipay"+k, scalarSort(im.recvT), rsc.T), im.recvT}
			}
			r := u.staticCall(fr, cs, im.fn, append([]Value{rv}, args...), nil, resT, pos)
			outs = append(outs, retState{cs, []Value{r}})
		}
		// remaining dynamic types: unknown implementation
		u.note("interface call " + iname + "." + call.Method.Name() + ": dynamic types other than the in-repo implementations havoc the heap")
		u.havocAll(rest, "interface call with unknown dynamic type")
		rr := u.freshResult(rest, resT, "dyn")
		outs = append(outs, retState{rest, []Value{rr}})
		merged := outs[0].st
		val := outs[0].vals[0]
		for i := 1; i < len(outs); i++ {
			cnd := merged.G
			merged = u.mergeStates(merged, outs[i].st)
			if val != nil && outs[i].vals[0] != nil {
				val = u.mergeVal(cnd, val, outs[i].vals[0])
			}
		}
		*st = *merged
		return val
	}
	u.note("interface call " + iname + "." + call.Method.Name() + " without contract: heap havocked")
	u.havocAll(st, "interface call "+iname+"."+call.Method.Name())
	return u.freshResult(st, resT, "iface")
}

// ---------------------------------------------------------------------------
// builtins

func (u *Unit) execBuiltin(fr *frame, st *State, b *ssa.Builtin, call *ssa.CallCommon, args []Value, resT types.Type, pos token.Pos) Value {
	switch b.Name() {
	case "len":
		switch x := args[0].(type) {
		case SliceV:
			return Sc{x.Len, resT}
		case Sc:
			at := call.Args[0].Type()
			if _, ok := at.Underlying().(*types.Map); ok {
				return Sc{u.mapLen(st.View(), at, x.T), resT}
			}
			if isStringType(at) {
				return Sc{app("str_len", SInt, x.T), resT}
			}
		}
	case "cap":
		if x, ok := args[0].(SliceV); ok {
			c := u.ctx.Fresh("cap", SInt)
			u.ctx.Assert(Cmp(">=", c, x.Len), "cap>=len")
			return Sc{c, resT}
		}
	case "append":
		return u.execAppend(st, call, args, pos)
	case "delete":
		mt := call.Args[0].Type()
		m := u.asSc(args[0], mt)
		k := u.asSc(args[1], nil)
		u.mapDelete(st, mt, m.T, k.T)
		return nil
	case "min", "max":
		acc := u.asSc(args[0], resT).T
		for _, a := range args[1:] {
			y := u.asSc(a, resT).T
			if b.Name() == "min" {
				acc = Ite(Cmp("<=", acc, y), acc, y)
			} else {
				acc = Ite(Cmp(">=", acc, y), acc, y)
			}
		}
		return Sc{u.ctx.Named("mm", acc), resT}
	case "print", "println":
		return nil
	case "recover":
		return Sc{TNil, resT}
	case "copy":
		// copy(dst, src): n = min(len dst, len src) leading elements of dst are overwritten (scalar elements)
		d, ok1 := args[0].(SliceV)
		sr, ok2 := args[1].(SliceV)
		if ok1 && ok2 {
			if s := scalarSort(d.Elem); s != "" {
				fam := cellFam(d.Elem)
				arr := u.heapGet(st, fam, ArrSort(SInt, s))
				n := u.ctx.Named("copied", Ite(Cmp("<=", d.Len, sr.Len), d.Len, sr.Len))
				nh := u.ctx.Fresh("H", ArrSort(SInt, s))
				q := fmt.Sprintf("(forall ((p Int)) (! (= (select %s p) (ite (and (= (ea_base p) %s) (= p (ea (ea_base p) (ea_idx p))) (<= %s (ea_idx p)) (< (ea_idx p) (+ %s %s))) (select %s (ea %s (+ %s (- (ea_idx p) %s)))) (select %s p))) :pattern ((select %s p))))",
					nh.S, d.Arr.S, d.Off.S, d.Off.S, n.S, arr.S, sr.Arr.S, sr.Off.S, d.Off.S, arr.S, nh.S)
				u.ctx.Assert(Implies(st.G, Term{q, SBool}), "copy")
				st.Heap[fam] = nh
				u.famSort[fam] = ArrSort(SInt, s)
				u.written[fam] = true
				return Sc{n, resT}
			}
		}
	case "clear":
	}
	u.unsupported("builtin " + b.Name())
	u.havocAll(st, "builtin "+b.Name())
	return u.freshResult(st, resT, "bi")
}

// execAppend: always reallocates (fresh backing array).
func (u *Unit) execAppend(st *State, call *ssa.CallCommon, args []Value, pos token.Pos) Value {
	s, ok1 := args[0].(SliceV)
	t, ok2 := args[1].(SliceV)
	if !ok1 || !ok2 {
		if sc, ok := args[1].(Sc); ok && ok1 && sc.T.Sort == SStr {
			u.note("append([]byte, string...) yields unconstrained bytes")
			return u.freshValue(call.Args[0].Type(), "appbytes")
		}
		u.unsupported("append on non-slice values")
		return u.freshValue(call.Args[0].Type(), "app")
	}
	elem := s.Elem
	r := u.newObject(st)
	newLen := u.ctx.Named("applen", Arith("+", s.Len, t.Len))
	// an element j >= len(s) of the result is element j - len(s) of the appended slice: goal-directed quantifier
	// instantiation also tries that shifted index (see skolemizeGoal)
	if u.ctx.inQuant == 0 && len(u.appendLens) < 3 && s.Len.S != "0" {
		dup := false
		for _, l := range u.appendLens {
			if l.S == s.Len.S {
				dup = true
			}
		}
		if !dup {
			u.appendLens = append(u.appendLens, s.Len)
		}
	}
	// copyFam: the family holding a leaf reached from an element through the chain of by-value struct
	// fields `path` (sub keys, outermost first) is copied element-wise into the new array.
	copyFam := func(fam, sortv string, path []int) {
		u.inAppendCopy++
		arr := u.heapGet(st, fam, sortv)
		u.inAppendCopy--
		n := u.ctx.Fresh("H", sortv)
		// elem(p): the element address p belongs to; cond: p is exactly the leaf location of a new element
		elemOf := "p"
		var conds []string
		for i := len(path) - 1; i >= 0; i-- {
			conds = append(conds, fmt.Sprintf("(= (sub_key %s) %d)", elemOf, path[i]), fmt.Sprintf("(= %s (sub (sub_base %s) %d))", elemOf, elemOf, path[i]))
			elemOf = "(sub_base " + elemOf + ")"
		}
		conds = append(conds, fmt.Sprintf("(= (ea_base %s) %s)", elemOf, r.S), fmt.Sprintf("(= %s (ea (ea_base %s) (ea_idx %s)))", elemOf, elemOf, elemOf))
		idx := "(ea_idx " + elemOf + ")"
		srcElem := fmt.Sprintf("(ite (< %s %s) (ea %s (+ %s %s)) (ea %s (+ %s (- %s %s))))", idx, s.Len.S, s.Arr.S, s.Off.S, idx, t.Arr.S, t.Off.S, idx, s.Len.S)
		src := srcElem
		for _, k := range path {
			src = fmt.Sprintf("(sub %s %d)", src, k)
		}
		q := fmt.Sprintf("(forall ((p Int)) (! (= (select %s p) (ite (and %s) (select %s %s) (select %s p))) :pattern ((select %s p))))",
			n.S, strings.Join(conds, " "), arr.S, src, arr.S, n.S)
		u.ctx.Assert(Implies(st.G, Term{q, SBool}), "append-copy")
		if len(path) == 0 {
			// forward trigger: an index of the old slice yields the corresponding cell of the new array
			sArr, sOff := u.ctx.Atom("sarr", s.Arr), u.ctx.Atom("soff", s.Off)
			s := SliceV{sArr, sOff, s.Len, s.Elem}
			fq := fmt.Sprintf("(forall ((i Int)) (! (=> (and (<= 0 i) (< i %s)) (= (select %s (ea %s i)) (select %s (ea %s (+ %s i))))) :pattern ((ea %s (+ %s i)))))",
				s.Len.S, n.S, r.S, arr.S, s.Arr.S, s.Off.S, s.Arr.S, s.Off.S)
			u.ctx.Assert(Implies(st.G, Term{fq, SBool}), "append-copy-forward")
			// ground facts for the appended elements when their number is a small constant
			if k, ok := smallLit(t.Len); ok && k <= 4 {
				for j := int64(0); j < k; j++ {
					dst := Select(n, u.elemAddr(r, Arith("+", s.Len, IntLit(j))))
					src := Select(arr, u.elemAddr(t.Arr, Arith("+", t.Off, IntLit(j))))
					if j == 0 {
						dst = Select(n, u.elemAddr(r, s.Len))
					}
					if t.Off.S == "0" {
						src = Select(arr, u.elemAddr(t.Arr, IntLit(j)))
					}
					u.ctx.Assert(Implies(st.G, Eq(dst, src)), "append-element")
				}
			}
		}
		st.Heap[fam] = n
		u.famSort[fam] = sortv
		u.written[fam] = true
	}
	if isStructType(elem) {
		u.usedStructAppend = true
		var walk func(t types.Type, path []int, depth int)
		walk = func(t types.Type, path []int, depth int) {
			st2, ok := t.Underlying().(*types.Struct)
			if !ok || depth > 3 {
				return
			}
			for i := 0; i < st2.NumFields(); i++ {
				ft := st2.Field(i).Type()
				if isStructType(ft) {
					walk(ft, append(append([]int{}, path...), u.w.subKey(fieldFam(t, i))), depth+1)
					continue
				}
				for _, c := range comps(ft) {
					fam := fieldFam(t, i) + c[0]
					if u.relevant != nil && !u.relevant[fam] {
						continue
					}
					copyFam(fam, ArrSort(SInt, c[1]), path)
				}
			}
		}
		walk(elem, nil, 0)
		u.note("append of struct elements: element fields (including by-value nested structs) are copied per family")
	} else {
		for _, c := range comps(elem) {
			copyFam(cellFam(elem)+c[0], ArrSort(SInt, c[1]), nil)
		}
	}
	return SliceV{r, TZero, newLen, elem}
}

func (u *Unit) forEachFlatFam(t types.Type, f func(fam, sortv string)) {
	s, ok := t.Underlying().(*types.Struct)
	if !ok {
		return
	}
	for i := 0; i < s.NumFields(); i++ {
		ft := s.Field(i).Type()
		if isStructType(ft) {
			continue // nested by-value structs live at sub-addresses: not handled here
		}
		for _, c := range comps(ft) {
			f(fieldFam(t, i)+c[0], ArrSort(SInt, c[1]))
		}
	}
}

// ---------------------------------------------------------------------------
// defers

func (u *Unit) runDefers(fr *frame, st *State) {
	ds := st.Defers
	st.Defers = nil
	for i := len(ds) - 1; i >= 0; i-- {
		d := ds[i]
		run := st.Clone()
		run.G = u.ctx.Named("g", And(st.G, d.G))
		skip := st.Clone()
		skip.G = u.ctx.Named("g", And(st.G, Not(d.G)))
		var resT types.Type = d.Call.Signature().Results()
		if d.Call.IsInvoke() {
			u.invokeCall(fr, run, d.Call, d.Fn, d.Args, resT, d.Pos.Pos())
		} else if cv, ok := d.Fn.(*ClosureV); ok {
			u.staticCall(fr, run, cv.Fn, d.Args, cv.Bind, resT, d.Pos.Pos())
		} else if bi, ok := d.Call.Value.(*ssa.Builtin); ok {
			u.execBuiltin(fr, run, bi, d.Call, d.Args, resT, d.Pos.Pos())
		} else if isHarmlessFuncType(d.Call.Value.Type()) {
			// deferred context.CancelFunc: no effect on the modelled state
		} else {
			u.note("deferred call through unknown function value: heap havocked")
			u.havocAll(run, "deferred unknown call")
		}
		if skip.G.S == "false" {
			*st = *run
		} else {
			*st = *u.mergeStates(run, skip)
		}
	}
}

// ---------------------------------------------------------------------------
// write-set scanning for calls inside cut loops

func (u *Unit) scanCallWrites(fr *frame, call *ssa.CallCommon, instr ssa.Value, ws *writeSet, inLoop func(ssa.Value) bool, depth int) {
	if call.IsInvoke() {
		if c := u.w.ifaceContract(call.Value.Type(), call.Method.Name()); c != nil {
			if !u.scanContractWritesAt(c, ws, call, nil, inLoop, depth) {
				u.scanContractWrites(c, ws, call.Signature(), call.Value.Type())
			}
			return
		}
		if n, ok := call.Value.Type().(*types.Named); ok && n.Obj().Pkg() != nil && isNoopCallee(n.Obj().Pkg().Path(), call.Method.Name()) {
			return
		}
		if isErrorType(call.Value.Type()) && call.Method.Name() == "Error" {
			return // read-only
		}
		impls := u.w.implementations(call.Value.Type(), call.Method)
		if len(impls) > 0 && len(impls) <= 4 {
			// the case split applies at execution; unknown dynamic types havoc on an (expected unreachable) path
			for _, im := range impls {
				u.scanFuncWrites(fr, im.fn, ws, depth)
			}
			return
		}
		ws.setAll("interface call "+call.Method.Name(), nil)
		return
	}
	switch callee := call.Value.(type) {
	case *ssa.Builtin:
		switch callee.Name() {
		case "append":
			ws.allocs = true
			if sl, ok := call.Args[0].Type().Underlying().(*types.Slice); ok {
				// append always returns a fresh backing array: the written cells belong to an object allocated here
				var base ssa.Value
				if instr != nil && depth == 0 {
					base = instr
				}
				if isStructType(sl.Elem()) {
					u.addStructWriteBase(ws, sl.Elem(), 0, base, inLoop)
				} else {
					u.addTypeWrite(ws, cellFam(sl.Elem()), sl.Elem(), base, inLoop)
				}
			}
		case "delete":
			u.addMapWrite(ws, call.Args[0].Type(), call.Args[0], inLoop, false)
		case "copy":
			if sl, ok := call.Args[0].Type().Underlying().(*types.Slice); ok {
				u.addTypeWrite(ws, cellFam(sl.Elem()), sl.Elem(), nil, inLoop)
			}
		}
		return
	case *ssa.Function:
		if c := u.w.contractFor(callee); c != nil && !c.Inline {
			if _, isExt := externals[callee.String()]; !isExt && u.scanContractWritesAt(c, ws, call, callee, inLoop, depth) {
				return
			}
		}
		u.scanFuncWrites(fr, callee, ws, depth)
		return
	case *ssa.MakeClosure:
		u.scanFuncWrites(fr, callee.Fn.(*ssa.Function), ws, depth)
		return
	}
	if c := u.w.funcFieldContract(call.Value); c != nil {
		u.scanContractWrites(c, ws, call.Signature(), nil)
		return
	}
	if isHarmlessFuncType(call.Value.Type()) {
		return
	}
	ws.setAll("call through function value", nil)
}

func (u *Unit) scanFuncWrites(fr *frame, callee *ssa.Function, ws *writeSet, depth int) {
	full := callee.String()
	if o := callee.Origin(); o != nil && o != callee {
		full = o.String()
	}
	if _, ok := externals[full]; ok {
		if externalWrites[full] {
			ws.setAll("external "+full, nil)
		}
		if wf, ok := externalWriteFams[full]; ok {
			wf(u, callee, ws)
		}
		return
	}
	if isNoopCallee(funcPkgPath(callee), callee.Name()) {
		return
	}
	c := u.w.contractFor(callee)
	if c != nil && !c.Inline {
		if c.ModAll {
			ws.setAll("contract of "+shortFuncName(callee)+" modifies *", callee)
			return
		}
		u.scanContractWrites(c, ws, callee.Signature, nil)
		return
	}
	if callee.Name() == "DeepCopy" {
		ws.allocs = true
		return
	}
	if callee.Blocks == nil {
		if !externalIsScalarPure(callee) && !externalReadonly[full] {
			ws.setAll("external "+full, nil)
		}
		return
	}
	if u.canInline(callee, c) && depth < 5 {
		blocks := map[*ssa.BasicBlock]bool{}
		for _, b := range callee.Blocks {
			blocks[b] = true
		}
		u.inlineStack = append(u.inlineStack, callee)
		u.scanWrites(fr, blocks, ws, depth+1)
		u.inlineStack = u.inlineStack[:len(u.inlineStack)-1]
		return
	}
	if u.w.isReadonly(callee) {
		return
	}
	ws.setAll("call to "+shortFuncName(callee), callee)
}

// scanContractWritesAt: like scanContractWrites, but when every argument of the call is loop-invariant the
// modifies targets are evaluated once in the loop-entry state and havocked location-wise. Returns false when
// that is not possible (the caller then falls back to the family-wise scan).
func (u *Unit) scanContractWritesAt(c *Contract, ws *writeSet, call *ssa.CallCommon, callee *ssa.Function, inLoop func(ssa.Value) bool, depth int) bool {
	if u.scanEntry == nil || depth != 0 || c.ModAll || len(c.Modifies) == 0 {
		return false
	}
	deps := map[string]bool{}
	var argv []ssa.Value
	if call.IsInvoke() {
		argv = append(argv, call.Value)
	}
	argv = append(argv, call.Args...)
	params := map[string]Value{}
	vals := make([]Value, len(argv))
	for i, a := range argv {
		if stableBase(a, inLoop, deps, 0) {
			vals[i] = u.evalStable(u.scanEntry, a)
		} else {
			// loop-variant argument: a placeholder; if a modifies target turns out to depend on it we give up below
			// unique per call site: the same name with another sort at another call gave ill-sorted terms (cvc5 rejected
			// every query of the unit)
			u.ctx.freshN++
			vals[i] = u.namedFreshValue(a.Type(), fmt.Sprintf("scan_unstable_%d_%d", i, u.ctx.freshN))
		}
	}
	off := 0
	if call.IsInvoke() || (callee != nil && callee.Signature.Recv() != nil) {
		if len(vals) > 0 {
			params["recv"] = vals[0]
			off = 1
		}
	}
	for i := off; i < len(vals); i++ {
		params[fmt.Sprintf("arg%d", i-off)] = vals[i]
	}
	if callee != nil && len(callee.Params) > 0 {
		for i, p := range callee.Params {
			if i < len(vals) {
				params[p.Name()] = vals[i]
			}
		}
	} else {
		sig := call.Signature()
		if callee != nil {
			sig = callee.Signature
			if rv := sig.Recv(); rv != nil && len(vals) > 0 && rv.Name() != "" && rv.Name() != "_" {
				params[rv.Name()] = vals[0]
			}
		}
		ps := sig.Params()
		for i := 0; i < ps.Len() && i+off < len(vals); i++ {
			if n := ps.At(i).Name(); n != "" && n != "_" {
				params[n] = vals[i+off]
			}
		}
	}
	before := map[string]bool{}
	for f := range u.touched {
		before[f] = true
	}
	var items []modItem
	ok := true
	func() {
		defer func() {
			if r := recover(); r != nil {
				if _, is := r.(specError); is {
					ok = false
					return
				}
				panic(r)
			}
		}()
		env := &SpecEnv{u: u, st: u.scanEntry, old: u.scanEntry, vars: params, pkg: u.w.pkgOfContract(c)}
		for _, m := range c.Modifies {
			items = append(items, env.modItems(m.Expr)...)
		}
	}()
	if !ok {
		return false
	}
	for f := range u.touched {
		if !before[f] {
			deps[f] = true // families read while locating the targets must not change in the loop
		}
	}
	for _, it := range items {
		fw := ws.fams[it.fam]
		if fw == nil {
			fw = &famWrite{sort: it.sort}
			ws.fams[it.fam] = fw
		}
		fw.nonFresh = true
		if it.whole {
			fw.whole = true
			continue
		}
		// a target that depends on a loop-variant argument: only ITS family is written at an unknown location
		// (family-wide havoc at the loop head); the other targets of the call stay location-wise
		txt := it.idx.S
		if it.key != nil {
			txt += it.key.S
		}
		if it.rngArr != nil {
			txt += it.rngArr.S + it.rngLo.S + it.rngHi.S
		}
		if strings.Contains(txt, "scan_unstable_") {
			fw.whole = true
			continue
		}
		if fw.deps == nil {
			fw.deps = map[string]bool{}
		}
		for d := range deps {
			fw.deps[d] = true
		}
		fw.items = append(fw.items, it)
	}
	if !c.Pure {
		ws.allocs = true
	}
	return true
}

func (u *Unit) scanContractWrites(c *Contract, ws *writeSet, sig *types.Signature, recvT types.Type) {
	if c.ModAll {
		ws.setAll("contract modifies *", nil)
		return
	}
	if !c.Pure {
		ws.allocs = true
	}
	if len(c.Modifies) > 0 {
		pk := u.w.pkgOfContract(c)
		for _, m := range c.Modifies {
			fams, ok := u.w.staticModFams(u, pk, c, m.Expr, sig, recvT)
			if !ok {
				ws.setAll("modifies clause not statically resolvable: "+m.Text, nil)
				return
			}
			for fam, sortv := range fams {
				ws.add(fam, sortv, nil, func(ssa.Value) bool { return true })
			}
		}
	}
}

// pureMemoKey identifies a call of a contracted function that is `pure` (proved to write nothing
// and allocate nothing visible), has no modifies clause and returns only non-reference scalars, by
// callee, argument terms and the complete heap version. Two such calls with equal keys get the same
// result constants: the result of a pure function is taken to be a function of its arguments and
// the heap (assumption "pure-deterministic": no dependence on map iteration order, time or
// randomness). Returns "" when the call does not qualify.
func (u *Unit) pureMemoKey(st *State, c *Contract, params map[string]Value, resT types.Type, name string) string {
	if !c.Pure || c.ModAll || len(c.Modifies) > 0 || c.Fresh || u.ctx.inQuant > 0 || resT == nil {
		return ""
	}
	for _, f := range c.FreshResults {
		if f {
			return ""
		}
	}
	okT := func(t types.Type) bool {
		if isPointerLike(t) {
			return false
		}
		switch b := t.Underlying().(type) {
		case *types.Basic:
			return b.Info()&(types.IsBoolean|types.IsNumeric|types.IsString) != 0
		}
		return false
	}
	if tu, ok := resT.(*types.Tuple); ok {
		if tu.Len() == 0 {
			return ""
		}
		for i := 0; i < tu.Len(); i++ {
			if !okT(tu.At(i).Type()) {
				return ""
			}
		}
	} else if !okT(resT) {
		return ""
	}
	var names []string
	for k := range params {
		names = append(names, k)
	}
	sort.Strings(names)
	var b strings.Builder
	b.WriteString(name)
	for _, k := range names {
		switch params[k].(type) {
		case Sc, SliceV, LocPtr, nil:
		default:
			return ""
		}
		b.WriteString("|" + k + "=" + describeValue(params[k]))
	}
	fmt.Fprintf(&b, "|hid=%d|alloc=%s+%d", st.Hid, st.Alloc.S, st.AllocOff)
	var fams []string
	for f := range st.Heap {
		fams = append(fams, f)
	}
	sort.Strings(fams)
	for _, f := range fams {
		b.WriteString("|" + f + "=" + st.Heap[f].S)
	}
	var gh []string
	for g := range st.Ghost {
		gh = append(gh, g)
	}
	sort.Strings(gh)
	for _, g := range gh {
		b.WriteString("|" + g + "=" + st.Ghost[g].S)
	}
	return b.String()
}

// isHarmlessFuncType: named function types of the standard library whose values have no effect on the modelled state.
func isHarmlessFuncType(t types.Type) bool {
	n, ok := t.(*types.Named)
	if !ok || n.Obj().Pkg() == nil {
		return false
	}
	return n.Obj().Pkg().Path() == "context" && (n.Obj().Name() == "CancelFunc" || n.Obj().Name() == "CancelCauseFunc")
}

func (u *Unit) zeroOrNil(resT types.Type) Value {
	if resT == nil {
		return nil
	}
	if tu, ok := resT.(*types.Tuple); ok {
		if tu.Len() == 0 {
			return nil
		}
		var vs TupleV
		for i := 0; i < tu.Len(); i++ {
			vs = append(vs, u.zeroValue(tu.At(i).Type()))
		}
		return vs
	}
	return u.zeroValue(resT)
}
