package main

// Finite sums in specifications:  sum k in X :: e   /   count k in X :: cond
//
// X is a map (its key set), a key set (`visited`, dom(m), with(S,k), without(S,k)), a slice (its indices)
// or range(lo, hi) (the integers lo <= i < hi).  The summand e is Int or Real.
//
// Encoding.  Every syntactically distinct summand (as an SMT term over the bound variable, the heap
// constants of the state it is evaluated in, and the bound variables of enclosing quantifiers) gets
//     (define-fun sumF_N ((k K) outer...) R e)
//     (declare-fun sumS_N ((Array K Bool) outer...) R)      key sets
//     (declare-fun sumR_N (Int Int outer...) R)              integer intervals
// with the recursive characterisation of a finite sum as axioms:
//     sumS_N(empty) = 0
//     sumS_N(store(A,k,true))  = sumS_N(A) + ite(A[k], 0, sumF_N(k))      :pattern sumS_N(store(A,k,true))
//     sumS_N(store(A,k,false)) = sumS_N(A) - ite(A[k], sumF_N(k), 0)      :pattern sumS_N(store(A,k,false))
//     (forall k in A: sumF_N(k) >= 0) ==> sumS_N(A) >= 0
//     sumR_N(lo,hi) = 0 if hi <= lo;  sumR_N(lo,hi) = sumR_N(lo,hi-1) + sumF_N(hi-1) if hi > lo   (one ground
//         instance per application: a quantified version would be a matching loop)
// and, for two summands N, M that come from the same source expression (evaluated in different states),
//     (forall k in A: sumF_N(k) = sumF_M(k)) ==> sumS_N(A) = sumS_M(A)           (same for intervals)
// For every application sumS_N(A) and every map key the unit touches (or names through with/without) the
// one-point split  A[k0] ==> sumS_N(A) = sumS_N(store(A,k0,false)) + sumF_N(k0)  is emitted as a ground instance.
//
// Soundness: these are theorems about sums over FINITE sets (Go maps are finite; `visited` is a subset of a
// map's key set). The axioms say nothing that fixes the value on an infinite set except relative to finite
// modifications, and the non-negativity axiom is stated for all sets; a context that forces an infinite key
// set together with a strictly positive summand would be inconsistent - such a context does not describe a
// Go state, and the cover obligations (entry/loop head/exit satisfiable) guard against it.

import (
	"fmt"
	"go/types"
	"regexp"
	"sort"
	"strings"
)

type sumFn struct {
	nonneg  bool // summand is an indicator (count): emit the non-negativity axiom
	keyTyp  types.Type // Go type of the index (nil if unknown, e.g. `visited`)
	idx     int
	tmpl    string
	ks, rs  string
	isRange bool
	fsym    string // sumF_N
	ssym    string // sumS_N / sumR_N
	outerS  []string
}

type sumApp struct {
	fn    *sumFn
	set   Term
	outer []Term
}

type sumKey struct {
	t   Term
	typ types.Type // Go type of the key where known
}

type sumState struct {
	fns  map[string]*sumFn
	list []*sumFn
	apps []sumApp
	seen map[string]bool
	keys map[string][]sumKey
}

func (u *Unit) sums() *sumState {
	if u.sumSt == nil {
		u.sumSt = &sumState{fns: map[string]*sumFn{}, seen: map[string]bool{}, keys: map[string][]sumKey{}}
	}
	return u.sumSt
}

func zeroOf(s string) Term {
	if s == SReal {
		return Term{"0.0", SReal}
	}
	return TZero
}

func emptySet(ks string) Term {
	return Term{"((as const " + ArrSort(ks, SBool) + ") false)", ArrSort(ks, SBool)}
}

var qvarRe = regexp.MustCompile(`[A-Za-z_][A-Za-z0-9_]*!q[0-9]+`)

type outerVar struct {
	src string
	t   Term
}

func (e *SpecEnv) evalSum(n *SQuant) Value {
	u := e.u
	// In an `ieee` unit the summand is evaluated over the reals (integer-derived quantities such as MIG slices x instances:
	// no NaN/Inf can arise from them) and the finite sum is embedded as fin(sum). A summand that reads float64 state of an
	// ieee unit (sort F) is rejected below.
	ieee := curFloatSort == SF
	if ieee {
		curFloatSort = SReal
		defer func() { curFloatSort = SF }()
	}
	outerBound := e.bound
	nb := map[string]Value{}
	for k, v := range outerBound {
		nb[k] = v
	}
	// 1. the index domain
	var setT, lo, hi Term
	isRange := false
	ks := ""
	var keyTyp types.Type
	if call, ok := n.In.(*SCall); ok && call.Fun == "range" {
		if len(call.Args) != 2 {
			e.fail("range(lo, hi) expects two arguments")
		}
		lo, hi = e.scalar(call.Args[0]).T, e.scalar(call.Args[1]).T
		isRange, ks, keyTyp = true, SInt, types.Typ[types.Int]
	} else {
		coll := e.eval(n.In)
		switch c := coll.(type) {
		case SliceV:
			lo, hi = TZero, c.Len
			isRange, ks, keyTyp = true, SInt, types.Typ[types.Int]
		case Sc:
			if strings.HasPrefix(c.T.Sort, "(Array") {
				ks = arrKey(c.T.Sort)
				setT = c.T
			} else if c.Typ != nil {
				m, isMap := c.Typ.Underlying().(*types.Map)
				if !isMap {
					e.fail("sum/count must range over a map, a key set, a slice or range(lo, hi)")
				}
				ks = scalarSort(m.Key())
				keyTyp = m.Key()
				setT = Ite(Eq(c.T, TNil), emptySet(ks), u.mapDom(e.st.View(), c.Typ, c.T))
			} else {
				e.fail("sum/count must range over a map, a key set, a slice or range(lo, hi)")
			}
		default:
			e.fail("sum/count must range over a map, a key set, a slice or range(lo, hi)")
		}
	}
	if u.ctx.inQuant == 0 {
		if isRange {
			lo, hi = u.ctx.Atom("slo", lo), u.ctx.Atom("shi", hi)
		} else {
			setT = u.ctx.Atom("sset", setT)
		}
	}
	// 2. the summand, with the index variable bound
	u.ctx.freshN++
	vname := qsym(fmt.Sprintf("%s!q%d", n.Vars[0].Name, u.ctx.freshN))
	bv := Term{vname, ks}
	u.ctx.noteQVar(vname, ks)
	nb[n.Vars[0].Name] = Sc{bv, keyTyp}
	e.bound = nb
	u.ctx.inQuant++
	var body Term
	func() {
		defer func() { e.bound = outerBound; u.ctx.inQuant-- }()
		if n.Kind == "count" {
			body = Ite(e.evalBool(n.Body), TOne, TZero)
		} else {
			body = e.scalar(n.Body).T
		}
	}()
	rs := body.Sort
	if rs != SInt && rs != SReal {
		e.fail("the summand of sum must be an integer or a real (got sort %s)", rs)
	}
	// 3. bound variables of enclosing quantifiers that occur in the summand become parameters
	var outers []outerVar
	seenO := map[string]bool{vname: true}
	for _, sym := range qvarRe.FindAllString(body.S, -1) {
		if seenO[sym] {
			continue
		}
		seenO[sym] = true
		if strings.Contains(body.S, "("+sym+" ") {
			continue // declared by a binder inside the summand itself: not a free variable
		}
		srt, ok := u.ctx.qvars[sym]
		if !ok {
			e.fail("sum: the summand mentions the bound variable %s of an enclosing binder whose sort is unknown", sym)
		}
		outers = append(outers, outerVar{sym[:strings.Index(sym, "!q")], Term{sym, srt}})
	}
	sort.SliceStable(outers, func(i, j int) bool { return outers[i].src < outers[j].src })
	canon := strings.ReplaceAll(body.S, vname, "%K")
	var outerSorts []string
	var outerTerms []Term
	for i, o := range outers {
		canon = strings.ReplaceAll(canon, o.t.S, fmt.Sprintf("%%O%d", i))
		outerSorts = append(outerSorts, o.t.Sort)
		outerTerms = append(outerTerms, o.t)
	}
	key := fmt.Sprintf("%v|%s|%s|%s|%s", isRange, ks, rs, strings.Join(outerSorts, ","), canon)
	ss := u.sums()
	fn := ss.fns[key]
	if fn == nil {
		fn = &sumFn{idx: len(ss.list) + 1, tmpl: n.String(), ks: ks, rs: rs, isRange: isRange, outerS: outerSorts, nonneg: n.Kind == "count"}
		fn.keyTyp = keyTyp
		fn.fsym = fmt.Sprintf("sumF_%d", fn.idx)
		params := []string{fmt.Sprintf("(%s %s)", vname, ks)}
		for _, o := range outers {
			params = append(params, fmt.Sprintf("(%s %s)", o.t.S, o.t.Sort))
		}
		u.ctx.declare(fn.fsym, fmt.Sprintf("(define-fun %s (%s) %s %s)", fn.fsym, strings.Join(params, " "), rs, body.S))
		if isRange {
			fn.ssym = fmt.Sprintf("sumR_%d", fn.idx)
			u.ctx.Fun(fn.ssym, append([]string{SInt, SInt}, outerSorts...), rs)
		} else {
			fn.ssym = fmt.Sprintf("sumS_%d", fn.idx)
			u.ctx.Fun(fn.ssym, append([]string{ArrSort(ks, SBool)}, outerSorts...), rs)
		}
		u.sumAxioms(fn)
		for _, other := range ss.list {
			if other.tmpl == fn.tmpl && other.ks == fn.ks && other.rs == fn.rs && other.isRange == fn.isRange && strings.Join(other.outerS, ",") == strings.Join(fn.outerS, ",") {
				u.sumCongruence(other, fn)
			}
		}
		ss.fns[key] = fn
		ss.list = append(ss.list, fn)
		u.sumLinearity(fn, body.S, vname, ks, rs, isRange, outers, keyTyp, n.String())
		u.assumptionsUsed["finite sums: sum/count over key sets and integer intervals are axiomatised recursively (empty, insert, remove, one-point split, pointwise congruence, non-negativity); machine arithmetic as A-INT/A-REAL"] = true
	}
	// 4. the application
	var t Term
	if isRange {
		t = app(fn.ssym, rs, append([]Term{lo, hi}, outerTerms...)...)
		if !ss.seen[t.S] {
			ss.seen[t.S] = true
			z := zeroOf(rs)
			hi1 := Arith("-", hi, TOne)
			prev := app(fn.ssym, rs, append([]Term{lo, hi1}, outerTerms...)...)
			fAt := app(fn.fsym, rs, append([]Term{hi1}, outerTerms...)...)
			inst := And(Implies(Cmp("<=", hi, lo), Eq(t, z)), Implies(Cmp(">", hi, lo), Eq(t, Arith("+", prev, fAt))))
			if u.ctx.inQuant == 0 {
				u.ctx.AssertAlways(inst, "sum-range-unfold")
			} else {
				// under an enclosing binder: the same unfolding, universally closed over the bound variables it mentions
				var decls []string
				seenV := map[string]bool{}
				okAll := true
				for _, sym := range qvarRe.FindAllString(inst.S, -1) {
					if seenV[sym] {
						continue
					}
					seenV[sym] = true
					if srt, ok := u.ctx.qvars[sym]; ok {
						decls = append(decls, fmt.Sprintf("(%s %s)", sym, srt))
					} else {
						okAll = false
					}
				}
				if okAll && len(decls) > 0 {
					u.ctx.AssertAlways(Term{fmt.Sprintf("(forall (%s) (! %s :pattern (%s)))", strings.Join(decls, " "), inst.S, t.S), SBool}, "sum-range-unfold (closed over enclosing binders)")
				}
			}
		}
	} else {
		t = app(fn.ssym, rs, append([]Term{setT}, outerTerms...)...)
		if u.ctx.inQuant == 0 && !ss.seen[t.S] {
			ss.seen[t.S] = true
			a := sumApp{fn, setT, outerTerms}
			ss.apps = append(ss.apps, a)
			for _, k := range ss.keys[ks] {
				if keyTypesCompatible(fn.keyTyp, k.typ) {
					u.sumSplit(a, k.t)
				}
			}
		}
	}
	gt := types.Typ[types.Int]
	if rs == SReal {
		gt = types.Typ[types.Float64]
		if ieee {
			return Sc{toF(t), gt}
		}
	}
	return Sc{t, gt}
}

func (u *Unit) sumAxioms(fn *sumFn) {
	z := zeroOf(fn.rs).S
	var pd, pa string // outer parameter declarations / arguments
	for i, s := range fn.outerS {
		pd += fmt.Sprintf(" (o%d %s)", i, s)
		pa += fmt.Sprintf(" o%d", i)
	}
	all := func(vars, body string) Term {
		vars = strings.TrimSpace(vars + pd)
		if vars == "" {
			return Term{body, SBool}
		}
		return Term{"(forall (" + vars + ") " + body + ")", SBool}
	}
	if fn.isRange {
		if fn.nonneg {
			u.ctx.AssertAlways(all("(lo Int) (hi Int)", fmt.Sprintf("(! (=> (forall ((i Int)) (=> (and (<= lo i) (< i hi)) (>= (%s i%s) %s))) (>= (%s lo hi%s) %s)) :pattern ((%s lo hi%s)))", fn.fsym, pa, z, fn.ssym, pa, z, fn.ssym, pa)), "sum-range-nonneg")
		}
		return
	}
	as := ArrSort(fn.ks, SBool)
	u.ctx.AssertAlways(all("", fmt.Sprintf("(= (%s ((as const %s) false)%s) %s)", fn.ssym, as, pa, z)), "sum-empty")
	u.ctx.AssertAlways(all(fmt.Sprintf("(A %s) (k %s)", as, fn.ks), fmt.Sprintf("(! (= (%s (store A k true)%s) (+ (%s A%s) (ite (select A k) %s (%s k%s)))) :pattern ((%s (store A k true)%s)))", fn.ssym, pa, fn.ssym, pa, z, fn.fsym, pa, fn.ssym, pa)), "sum-insert")
	u.ctx.AssertAlways(all(fmt.Sprintf("(A %s) (k %s)", as, fn.ks), fmt.Sprintf("(! (= (%s (store A k false)%s) (- (%s A%s) (ite (select A k) (%s k%s) %s))) :pattern ((%s (store A k false)%s)))", fn.ssym, pa, fn.ssym, pa, fn.fsym, pa, z, fn.ssym, pa)), "sum-remove")
	if fn.nonneg {
		// counts only: for a general summand the axiom fired for every sum term and its nested forall re-triggered the
		// unit's `forall k in m` invariants (measured 52 s -> 2 s on a C09 conservation obligation)
		u.ctx.AssertAlways(all(fmt.Sprintf("(A %s)", as), fmt.Sprintf("(! (=> (forall ((k %s)) (=> (select A k) (>= (%s k%s) %s))) (>= (%s A%s) %s)) :pattern ((%s A%s)))", fn.ks, fn.fsym, pa, z, fn.ssym, pa, z, fn.ssym, pa)), "sum-nonneg")
	}
}

// sumCongruence: two summands from the same source expression that agree pointwise on the index set have the same sum.
func (u *Unit) sumCongruence(a, b *sumFn) {
	var pd, pa string
	for i, s := range a.outerS {
		pd += fmt.Sprintf(" (o%d %s)", i, s)
		pa += fmt.Sprintf(" o%d", i)
	}
	if a.isRange {
		u.ctx.AssertAlways(Term{fmt.Sprintf("(forall ((lo Int) (hi Int)%s) (! (=> (forall ((i Int)) (=> (and (<= lo i) (< i hi)) (= (%s i%s) (%s i%s)))) (= (%s lo hi%s) (%s lo hi%s))) :pattern ((%s lo hi%s) (%s lo hi%s))))",
			pd, a.fsym, pa, b.fsym, pa, a.ssym, pa, b.ssym, pa, a.ssym, pa, b.ssym, pa), SBool}, "sum-range-congruence")
		return
	}
	as := ArrSort(a.ks, SBool)
	u.ctx.AssertAlways(Term{fmt.Sprintf("(forall ((A %s)%s) (! (=> (forall ((k %s)) (=> (select A k) (= (%s k%s) (%s k%s)))) (= (%s A%s) (%s A%s))) :pattern ((%s A%s) (%s A%s))))",
		as, pd, a.ks, a.fsym, pa, b.fsym, pa, a.ssym, pa, b.ssym, pa, a.ssym, pa, b.ssym, pa), SBool}, "sum-congruence")
}

// sumSplit emits the one-point split of application a at key k (ground instance of sum-remove).
func (u *Unit) sumSplit(a sumApp, k Term) {
	fn := a.fn
	rest := app(fn.ssym, fn.rs, append([]Term{Store(a.set, k, TFalse)}, a.outer...)...)
	whole := app(fn.ssym, fn.rs, append([]Term{a.set}, a.outer...)...)
	fAt := app(fn.fsym, fn.rs, append([]Term{k}, a.outer...)...)
	u.ctx.AssertAlways(Eq(rest, Arith("-", whole, Ite(Select(a.set, k), fAt, zeroOf(fn.rs)))), "sum-split")
}

// noteSumKey registers a map key the unit works with: every sum over a key set of that sort (and, where both are
// known, of that Go key type: a ResourceName key is no split point of a sum over QueueIDs) is split at it.
func (u *Unit) noteSumKey(ks string, k Term) { u.noteSumKeyT(ks, k, nil) }

func (u *Unit) noteSumKeyT(ks string, k Term, typ types.Type) {
	if u.ctx.inQuant > 0 || strings.Contains(k.S, "!q") {
		return
	}
	ss := u.sums()
	for _, o := range ss.keys[ks] {
		if o.t.S == k.S {
			return
		}
	}
	if len(ss.keys[ks]) >= 12 {
		return
	}
	ss.keys[ks] = append(ss.keys[ks], sumKey{k, typ})
	for _, a := range ss.apps {
		if a.fn.ks == ks && keyTypesCompatible(a.fn.keyTyp, typ) {
			u.sumSplit(a, k)
		}
	}
}

func keyTypesCompatible(a, b types.Type) bool {
	if a == nil || b == nil {
		return true
	}
	return types.Identical(a, b)
}

// sumLinearity: a summand of the shape c*e, e*c or e/c with c free of every bound variable: register the summand e as
// well and state  sum(c*e) == c * sum(e)  (sum(e/c) == sum(e)/c for c != 0) - finite sums are linear, and without this the
// solver has to redo the distribution over every one-point insert by nonlinear arithmetic.
func (u *Unit) sumLinearity(fn *sumFn, body, vname, ks, rs string, isRange bool, outers []outerVar, keyTyp types.Type, tmpl string) {
	if rs != SReal && rs != SInt || len(body) < 5 || body[0] != '(' {
		return
	}
	op := ""
	switch {
	case strings.HasPrefix(body, "(* "):
		op = "*"
	case strings.HasPrefix(body, "(/ ") && rs == SReal:
		op = "/"
	default:
		return
	}
	in := body[3 : len(body)-1]
	e1 := sexprEnd(in, 0)
	if e1 <= 0 || e1 >= len(in) || in[e1] != ' ' {
		return
	}
	a, b := in[:e1], in[e1+1:]
	if sexprEnd(b, 0) != len(b) {
		return // more than two factors
	}
	hasV := func(t string) bool { return substSym(t, vname, "\x00") != t }
	free := func(t string) bool { return !qvarRe.MatchString(t) }
	var c, e string
	switch {
	case op == "*" && !hasV(a) && free(a) && hasV(b):
		c, e = a, b
	case op == "*" && !hasV(b) && free(b) && hasV(a):
		c, e = b, a
	case op == "/" && !hasV(b) && free(b) && hasV(a):
		c, e = b, a
	default:
		return
	}
	ss := u.sums()
	// the inner summand e as its own sum function
	canon := strings.ReplaceAll(e, vname, "%K")
	var outerSorts []string
	var pd, pa string
	for i, o := range outers {
		canon = strings.ReplaceAll(canon, o.t.S, fmt.Sprintf("%%O%d", i))
		outerSorts = append(outerSorts, o.t.Sort)
		pd += fmt.Sprintf(" (o%d %s)", i, o.t.Sort)
		pa += fmt.Sprintf(" o%d", i)
	}
	key := fmt.Sprintf("%v|%s|%s|%s|%s", isRange, ks, rs, strings.Join(outerSorts, ","), canon)
	inner := ss.fns[key]
	if inner == nil {
		inner = &sumFn{idx: len(ss.list) + 1, tmpl: tmpl + " /linear-part", ks: ks, rs: rs, isRange: isRange, outerS: outerSorts, keyTyp: keyTyp}
		inner.fsym = fmt.Sprintf("sumF_%d", inner.idx)
		params := []string{fmt.Sprintf("(%s %s)", vname, ks)}
		for _, o := range outers {
			params = append(params, fmt.Sprintf("(%s %s)", o.t.S, o.t.Sort))
		}
		u.ctx.declare(inner.fsym, fmt.Sprintf("(define-fun %s (%s) %s %s)", inner.fsym, strings.Join(params, " "), rs, e))
		if isRange {
			inner.ssym = fmt.Sprintf("sumR_%d", inner.idx)
			u.ctx.Fun(inner.ssym, append([]string{SInt, SInt}, outerSorts...), rs)
		} else {
			inner.ssym = fmt.Sprintf("sumS_%d", inner.idx)
			u.ctx.Fun(inner.ssym, append([]string{ArrSort(ks, SBool)}, outerSorts...), rs)
		}
		u.sumAxioms(inner)
		for _, other := range ss.list {
			if other.tmpl == inner.tmpl && other.ks == inner.ks && other.rs == inner.rs && other.isRange == inner.isRange && strings.Join(other.outerS, ",") == strings.Join(inner.outerS, ",") {
				u.sumCongruence(other, inner)
			}
		}
		ss.fns[key] = inner
		ss.list = append(ss.list, inner)
		// nested shapes: A*(m[k]/S) -> A * sum(m[k]/S) -> A * (sum(m[k]) / S)
		u.sumLinearity(inner, e, vname, ks, rs, isRange, outers, keyTyp, inner.tmpl)
	}
	dom, args := fmt.Sprintf("(A %s)", ArrSort(ks, SBool)), "A"
	if isRange {
		dom, args = "(lo Int) (hi Int)", "lo hi"
	}
	var rhs string
	if op == "*" {
		rhs = fmt.Sprintf("(* %s (%s %s%s))", c, inner.ssym, args, pa)
	} else {
		rhs = fmt.Sprintf("(/ (%s %s%s) %s)", inner.ssym, args, pa, c)
	}
	eq := fmt.Sprintf("(= (%s %s%s) %s)", fn.ssym, args, pa, rhs)
	if op == "/" {
		eq = fmt.Sprintf("(=> (not (= %s 0.0)) %s)", c, eq)
	}
	u.ctx.AssertAlways(Term{fmt.Sprintf("(forall (%s%s) (! %s :pattern ((%s %s%s))))", dom, pd, eq, fn.ssym, args, pa), SBool}, "sum-linearity")
}
