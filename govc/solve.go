package main

import (
	"sort"
	"crypto/sha256"
	"strconv"
	"bytes"
	"context"
	"fmt"
	"os"
	"os/exec"
	"path/filepath"
	"strings"
	"sync"
	"time"
)

type solverSpec struct {
	name string
	argv func(file string, timeoutS int) []string
}

var solvers = []solverSpec{
	{"z3-new", func(f string, t int) []string { return []string{"z3-new", fmt.Sprintf("-T:%d", t), f} }},
	{"cvc5", func(f string, t int) []string {
		return []string{"cvc5", "--lang=smt2", fmt.Sprintf("--tlimit=%d", t*1000), f}
	}},
	{"z3", func(f string, t int) []string { return []string{"z3", fmt.Sprintf("-T:%d", t), f} }},
}

type solveOut struct {
	verdict string // unsat sat unknown timeout error
	output  string
	ms      int64
}

func runSolver(s solverSpec, file string, timeoutS int) solveOut {
	return runSolverCtx(context.Background(), s, file, timeoutS)
}

func runSolverCtx(parent context.Context, s solverSpec, file string, timeoutS int) solveOut {
	ctx, cancel := context.WithTimeout(parent, time.Duration(timeoutS+2)*time.Second)
	defer cancel()
	argv := s.argv(file, timeoutS)
	// GOVC_SEED=n perturbs every solver's random seed (stability sweeps: an obligation that is only discharged for
	// one seed is a false alarm waiting to happen)
	if sd := os.Getenv("GOVC_SEED"); sd != "" && sd != "0" {
		switch argv[0] {
		case "z3", "z3-new":
			hasSeed := false
			for _, a := range argv {
				if strings.HasPrefix(a, "smt.random_seed=") {
					hasSeed = true
				}
			}
			if !hasSeed {
				argv = append(argv[:len(argv)-1:len(argv)-1], "smt.random_seed="+sd, "sat.random_seed="+sd, argv[len(argv)-1])
			}
		case "cvc5":
			argv = append(argv[:len(argv)-1:len(argv)-1], "--seed="+sd, argv[len(argv)-1])
		}
	}
	cmd := exec.CommandContext(ctx, argv[0], argv[1:]...)
	var out bytes.Buffer
	cmd.Stdout = &out
	cmd.Stderr = &out
	t0 := time.Now()
	_ = cmd.Run()
	ms := time.Since(t0).Milliseconds()
	text := out.String()
	first := ""
	for _, ln := range strings.Split(text, "\n") {
		ln = strings.TrimSpace(ln)
		if ln == "" || strings.HasPrefix(ln, "WARNING") || strings.HasPrefix(ln, ";") {
			continue
		}
		first = ln
		break
	}
	v := "unknown"
	switch {
	case first == "unsat":
		v = "unsat"
	case first == "sat":
		v = "sat"
	case first == "timeout" || ctx.Err() != nil:
		v = "timeout"
	case strings.HasPrefix(first, "(error") || strings.Contains(first, "rror"):
		v = "error"
	}
	return solveOut{v, text, ms}
}

type solveConfig struct {
	workdir  string
	timeoutS int
	all      bool // thorough: run every solver and require agreement
	jobs     int
}

// solveAll discharges the obligations of all units in parallel.
func solveAll(units []*UnitResult, cfg solveConfig) (disagreements []string) {
	type job struct {
		u *UnitResult
		o *OblResult
	}
	var jobs []job
	for _, u := range units {
		for _, o := range u.Obls {
			jobs = append(jobs, job{u, o})
		}
	}
	ch := make(chan job)
	var wg sync.WaitGroup
	var mu sync.Mutex
	for i := 0; i < cfg.jobs; i++ {
		wg.Add(1)
		go func() {
			defer wg.Done()
			for j := range ch {
				d := solveOne(j.u, j.o, cfg)
				if d != "" {
					mu.Lock()
					disagreements = append(disagreements, d)
					mu.Unlock()
				}
			}
		}()
	}
	for _, j := range jobs {
		ch <- j
	}
	close(ch)
	wg.Wait()
	// Thorough tier: stability probe. Every discharged obligation is re-run with two other solver seeds (z3-new,
	// short limit); the number that is NOT re-proved by either is reported in the evidence (coverage.seed_unstable):
	// such proofs hang on one lucky instantiation order and are the ones a harmless edit can turn into an alarm.
	if cfg.all && os.Getenv("GOVC_NOSTABILITY") == "" {
		var mu2 sync.Mutex
		ch3 := make(chan job)
		var wg3 sync.WaitGroup
		for i := 0; i < cfg.jobs; i++ {
			wg3.Add(1)
			go func() {
				defer wg3.Done()
				for j := range ch3 {
					file := oblFile(cfg, j.o.Name)
					proved := 0
					for _, sd := range []int{1, 2} {
						sp := solverSpec{"z3-new", func(f string, t int) []string {
							return []string{"z3-new", fmt.Sprintf("-T:%d", t), fmt.Sprintf("smt.random_seed=%d", sd), fmt.Sprintf("sat.random_seed=%d", sd), f}
						}}
						if r := runSolver(sp, file, 10); r.verdict == "unsat" {
							proved++
						}
					}
					mu2.Lock()
					StabilityProbed++
					if proved == 0 {
						StabilityUnstable = append(StabilityUnstable, j.o.Name)
					}
					mu2.Unlock()
				}
			}()
		}
		for _, j := range jobs {
			if !j.o.Cover && j.o.Status == "discharged" && j.o.Backend != "syntactic" {
				if _, err := os.Stat(oblFile(cfg, j.o.Name)); err == nil {
					ch3 <- j
				}
			}
		}
		close(ch3)
		wg3.Wait()
		sort.Strings(StabilityUnstable)
	}
	// Second chance for obligations that were left undecided (or only got a candidate countermodel from the
	// relaxed query) because a solver ran into its time limit: on a loaded machine that is not evidence of
	// anything. They are re-run a few at a time with three times the limit.
	if !cfg.all {
		var again []job
		for _, j := range jobs {
			o := j.o
			if o.Cover || !(o.Status == "unknown" || o.Status == "failed" && o.Relaxed) {
				continue
			}
			timedOut := false
			for _, t := range o.Tried {
				if strings.HasSuffix(t, ":timeout") {
					timedOut = true
				}
			}
			if timedOut {
				again = append(again, j)
			}
		}
		if len(again) > 24 {
			again = again[:24]
		}
		if len(again) > 0 {
			cfg2 := cfg
			cfg2.timeoutS = cfg.timeoutS * 3
			par := 3
			if cfg.jobs < par {
				par = cfg.jobs
			}
			fmt.Fprintf(os.Stderr, "retrying %d obligation(s) that hit the solver time limit, %d at a time with %ds\n", len(again), par, cfg2.timeoutS)
			ch2 := make(chan job)
			var wg2 sync.WaitGroup
			for i := 0; i < par; i++ {
				wg2.Add(1)
				go func() {
					defer wg2.Done()
					for j := range ch2 {
						o := j.o
						prev := append([]string{}, o.Tried...)
						o.Status, o.Backend, o.Output, o.Model, o.Relaxed = "", "", "", "", false
						o.Tried = append(prev, "retry")
						ms0 := o.Ms
						solveOne(j.u, o, cfg2)
						o.Ms += ms0
					}
				}()
			}
			for _, j := range again {
				ch2 <- j
			}
			close(ch2)
			wg2.Wait()
		}
	}
	return
}

func oblFile(cfg solveConfig, name string) string {
	s := strings.NewReplacer("/", "_", "(", "", ")", "", "*", "P", " ", "", "[", "_", "]", "", "$", "S", ">", "-", "@", "-", "#", "-").Replace(name)
	// the replacement is not injective (map[K]map[K]V and map[K]V gave the same file: two obligations overwrote each
	// other's query): long or bracketed names get a short hash of the real name
	if strings.ContainsAny(name, "[]") || len(s) > 180 {
		h := sha256.Sum256([]byte(name))
		if len(s) > 150 {
			s = s[:150]
		}
		s = fmt.Sprintf("%s.%x", s, h[:4])
	}
	return filepath.Join(cfg.workdir, s+".smt2")
}

func solveOne(u *UnitResult, o *OblResult, cfg solveConfig) (disagreement string) {
	// trivially valid goals need no solver
	if !o.Cover && o.Goal.S == "true" {
		o.Status, o.Backend = "discharged", "syntactic"
		return
	}
	q := u.ctx.Query(o.Prefix, o.Goal, true)
	file := oblFile(cfg, o.Name)
	if err := os.WriteFile(file, []byte(q), 0o644); err != nil {
		o.Status, o.Output = "error", err.Error()
		return
	}
	if o.Cover {
		// reachability: any 'sat' wins; 'unsat' from one solver is double-checked by another
		ctx, cancel := context.WithCancel(context.Background())
		defer cancel()
		type res struct {
			s solverSpec
			r solveOut
		}
		to := cfg.timeoutS
		if to > 5 {
			to = 5
		}
		ch := make(chan res, len(solvers))
		for _, s := range solvers {
			go func(s solverSpec) { ch <- res{s, runSolverCtx(ctx, s, file, to)} }(s)
		}
		t0 := time.Now()
		nUnsat := 0
		for range solvers {
			x := <-ch
			if o.Status == "cover-ok" {
				continue
			}
			o.Tried = append(o.Tried, x.s.name+":"+x.r.verdict)
			switch x.r.verdict {
			case "sat":
				o.Status, o.Backend = "cover-ok", x.s.name
				cancel()
			case "unsat":
				nUnsat++
			}
		}
		o.Ms = time.Since(t0).Milliseconds()
		if o.Status == "cover-ok" {
			if nUnsat > 0 {
				return fmt.Sprintf("%s: solvers disagree on reachability (%s)", o.Name, strings.Join(o.Tried, ", "))
			}
			return
		}
		if nUnsat >= 1 {
			o.Status = "cover-vacuous"
		} else {
			o.Status = "cover-ok" // undecided reachability is not evidence of vacuity
			o.Backend = "undecided"
		}
		return
	}
	var verdicts []string
	if !cfg.all {
		// race: first definitive answer wins. A fourth racer runs the query without the global quantified
		// address axioms: 'unsat' there implies 'unsat' of the full query (fewer assumptions); 'sat' there is a
		// candidate countermodel that is accepted only if no solver refutes the full query within a grace period.
		ctx, cancel := context.WithCancel(context.Background())
		type res struct {
			name    string
			relaxed bool
			r       solveOut
		}
		var chSend func(chan res, res)
		// Staged race (keeps the machine usable when several checks run at once): z3-new and its E-matching-only
		// variant start at once and decide most obligations in well under a second; the other racers join only if
		// nothing has answered by then. Every racer still gets the full time limit from its own start.
		ch := make(chan res, len(solvers)+8)
		chSend = func(c chan res, r res) { c <- r }
		stage := func(d time.Duration, name string, relaxed bool, run func() solveOut) {
			go func() {
				if d > 0 {
					select {
					case <-time.After(d):
					case <-ctx.Done():
						ch2 := res{name, relaxed, solveOut{verdict: "skipped"}}
						chSend(ch, ch2)
						return
					}
				}
				chSend(ch, res{name, relaxed, run()})
			}()
		}
		n := 0
		for i, s := range solvers {
			s := s
			d := time.Duration(0)
			if i > 0 {
				d = stageDelay(1)
			}
			if s.name == "z3" {
				d = stageDelay(2)
			}
			n++
			stage(d, s.name, false, func() solveOut { return runSolverCtx(ctx, s, file, cfg.timeoutS) })
		}
		// E-matching only (no model-based quantifier instantiation): decides many quantifier-heavy goals instantly;
		// only its 'unsat' is used
		n++
		stage(0, "z3-new(ematch)", false, func() solveOut {
			em := solverSpec{"z3-new(ematch)", func(f string, t int) []string {
				if os.Getenv("GOVC_EMATCH_AUTO") != "" {
					return []string{"z3-new", fmt.Sprintf("-T:%d", t), "smt.mbqi=false", f}
				}
				return []string{"z3-new", fmt.Sprintf("-T:%d", t), "smt.mbqi=false", "smt.auto_config=false", f}
			}}
			r := runSolverCtx(ctx, em, file, cfg.timeoutS)
			if r.verdict != "unsat" {
				r.verdict = "unknown"
			}
			return r
		})
		// no array extensionality axioms (fewer axioms: only its 'unsat' is used): units with many heap families
		// otherwise spend their time in extensionality splits between the family arrays
		n++
		stage(stageDelay(1), "z3-new(noext)", false, func() solveOut {
			ne := solverSpec{"z3-new(noext)", func(f string, t int) []string {
				return []string{"z3-new", fmt.Sprintf("-T:%d", t), "smt.array.extensional=false", f}
			}}
			r := runSolverCtx(ctx, ne, file, cfg.timeoutS)
			if r.verdict != "unsat" {
				r.verdict = "unknown"
			}
			return r
		})
		// seed-diversified instances of the main solver (only their 'unsat' is used): quantifier-heavy goals are often
		// decided for some random seeds and not for others; a small portfolio makes the verdict robust against the
		// perturbations (renumbered symbols, reordered assertions) that harmless code edits cause
		for _, sd := range []int{1, 2} {
			sd := sd
			n++
			stage(stageDelay(2), fmt.Sprintf("z3-new(seed%d)", sd), false, func() solveOut {
				sp := solverSpec{fmt.Sprintf("z3-new(seed%d)", sd), func(f string, t int) []string {
					return []string{"z3-new", fmt.Sprintf("-T:%d", t), fmt.Sprintf("smt.random_seed=%d", sd), fmt.Sprintf("sat.random_seed=%d", sd), f}
				}}
				r := runSolverCtx(ctx, sp, file, cfg.timeoutS)
				if r.verdict != "unsat" {
					r.verdict = "unknown"
				}
				return r
			})
		}
		rq := u.ctx.QueryX(o.Prefix, o.Goal, true, true)
		if rq != q {
			rfile := strings.TrimSuffix(file, ".smt2") + ".relaxed.smt2"
			if os.WriteFile(rfile, []byte(rq), 0o644) == nil {
				n++
				stage(stageDelay(1), solvers[0].name+"(relaxed)", true, func() solveOut { return runSolverCtx(ctx, solvers[0], rfile, cfg.timeoutS) })
			}
		}
		t0 := time.Now()
		var candidate *res
		var grace <-chan time.Time
		pending := n
	loop:
		for pending > 0 {
			select {
			case x := <-ch:
				pending--
				if x.r.verdict == "skipped" {
					continue
				}
				o.Tried = append(o.Tried, x.name+":"+x.r.verdict)
				if !x.relaxed {
					verdicts = append(verdicts, x.r.verdict)
				}
				switch {
				case x.r.verdict == "unsat":
					o.Status, o.Backend = "discharged", x.name
					break loop
				case x.r.verdict == "sat" && !x.relaxed:
					o.Status, o.Backend, o.Model, o.Output = "failed", x.name, x.r.output, x.r.output
					break loop
				case x.r.verdict == "sat" && x.relaxed:
					// a candidate is only accepted after every solver had its full time on the complete query
					xx := x
					candidate = &xx
				default:
					if o.Output == "" {
						o.Output = x.r.output
					}
				}
			case <-grace:
				break loop
			}
		}
		cancel()
		if o.Status == "" {
			if candidate != nil {
				o.Status, o.Backend, o.Model, o.Output = "failed", candidate.name+": candidate countermodel", candidate.r.output, candidate.r.output
				o.Relaxed = true
			} else {
				o.Status = "unknown"
			}
		}
		o.Ms = time.Since(t0).Milliseconds()
		return ""
	}
	for _, s := range solvers {
		r := runSolver(s, file, cfg.timeoutS)
		o.Tried = append(o.Tried, s.name+":"+r.verdict)
		o.Ms += r.ms
		verdicts = append(verdicts, r.verdict)
		switch r.verdict {
		case "unsat":
			if o.Status == "" || o.Status == "unknown" {
				o.Status, o.Backend = "discharged", s.name
			}
		case "sat":
			if o.Status == "" || o.Status == "unknown" {
				o.Status, o.Backend, o.Model, o.Output = "failed", s.name, r.output, r.output
			}
		default:
			if o.Status == "" {
				o.Status = "unknown"
				o.Output = r.output
			}
		}
	}
	// the thorough tier must not be weaker than the quick one: an obligation that none of the three complete runs
	// decided gets the quick tier's portfolio (E-matching only, no extensionality, relaxed query, other seeds)
	if o.Status == "unknown" {
		cfgQ := cfg
		cfgQ.all = false
		o.Status, o.Backend, o.Output, o.Model = "", "", "", ""
		o.Tried = append(o.Tried, "portfolio")
		ms0 := o.Ms
		solveOne(u, o, cfgQ)
		o.Ms += ms0
	}
	hasSat, hasUnsat := false, false
	for _, v := range verdicts {
		if v == "sat" {
			hasSat = true
		}
		if v == "unsat" {
			hasUnsat = true
		}
	}
	if hasSat && hasUnsat {
		return fmt.Sprintf("%s: solvers disagree (%s)", o.Name, strings.Join(o.Tried, ", "))
	}
	return ""
}

// stageDelay: start delay of the racers of stage k (GOVC_STAGE_MS overrides the unit of 1000 ms; 0 = all at once).
func stageDelay(k int) time.Duration {
	unit := 1000
	if v := os.Getenv("GOVC_STAGE_MS"); v != "" {
		if n, err := strconv.Atoi(v); err == nil && n >= 0 {
			unit = n
		}
	}
	if k == 2 {
		return time.Duration(3*unit) * time.Millisecond
	}
	return time.Duration(unit) * time.Millisecond
}

// results of the thorough tier's stability probe (see solveAll)
var (
	StabilityProbed   int
	StabilityUnstable []string
)
