package main

// ReplayResult describes the attempt to re-run a counterexample on the real code.
type ReplayResult struct {
	Attempted  bool   `json:"attempted"`
	Reproduced bool   `json:"reproduced"`
	Reason     string `json:"reason,omitempty"`
	TestFile   string `json:"test_file,omitempty"`
	Output     string `json:"output,omitempty"`
	Inputs     map[string]string `json:"inputs,omitempty"`
}

func tryReplay(w *World, u *UnitResult, o *OblResult, workdir string) *ReplayResult {
	return &ReplayResult{Attempted: false, Reason: "replay generator not available for this function shape"}
}
