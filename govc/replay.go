package main

import (
	"bufio"
	"bytes"
	"context"
	"encoding/json"
	"fmt"
	"go/types"
	"io"
	"math/big"
	"os"
	"os/exec"
	"path/filepath"
	"sort"
	"strings"
	"time"

	"golang.org/x/tools/go/ssa"
)

// ReplayResult describes the attempt to re-run a counterexample on the real code.
type ReplayResult struct {
	Attempted  bool              `json:"attempted"`
	Reproduced bool              `json:"reproduced"`
	Reason     string            `json:"reason,omitempty"`
	TestFile   string            `json:"test_file,omitempty"`
	TestSource string            `json:"test_source,omitempty"`
	Output     string            `json:"output,omitempty"`
	Inputs     map[string]string `json:"inputs,omitempty"`
	Predicted  []string          `json:"model_predicted_results,omitempty"`
	Observed   []string          `json:"observed_results,omitempty"`
	Command    string            `json:"command,omitempty"`
	TestPath   string            `json:"test_overlay_path,omitempty"`
	Kind       string            `json:"obligation_kind,omitempty"`
}

// cmdReplay re-runs the generated test of a replay file against /repo's current tree.
func cmdReplay(path string) int {
	data, err := os.ReadFile(path)
	if err != nil {
		fmt.Println(err)
		return 2
	}
	var doc struct {
		Property   string        `json:"property"`
		Obligation string        `json:"obligation"`
		Desc       string        `json:"desc"`
		Status     string        `json:"status"`
		Output     string        `json:"solver_output"`
		Replay     *ReplayResult `json:"replay"`
	}
	if err := json.Unmarshal(data, &doc); err != nil {
		fmt.Println(err)
		return 2
	}
	fmt.Printf("obligation: %s\n%s\nstatus: %s\n", doc.Obligation, doc.Desc, doc.Status)
	if doc.Replay == nil || doc.Replay.TestSource == "" {
		fmt.Println("no executable replay recorded for this obligation (no-failing-input-found); solver output:")
		fmt.Println(truncate(doc.Output, 4000))
		return 0
	}
	dir, _ := os.MkdirTemp("/var/tmp", "govc-replay-")
	defer os.RemoveAll(dir)
	tf := filepath.Join(dir, "replay_test.go")
	os.WriteFile(tf, []byte(doc.Replay.TestSource), 0o644)
	ov, _ := json.Marshal(map[string]map[string]string{"Replace": {doc.Replay.TestPath: tf}})
	of := filepath.Join(dir, "ov.json")
	os.WriteFile(of, ov, 0o644)
	rel, _ := filepath.Rel("/repo", filepath.Dir(doc.Replay.TestPath))
	cmd := exec.Command("go", "test", "-v", "-overlay", of, "-vet=off", "-count=1", "-timeout", "60s", "-run", "^TestGovcReplay$", "./"+rel)
	cmd.Dir = "/repo"
	cmd.Env = append(os.Environ(), "GOFLAGS=-mod=mod", "GOPROXY=off", "GOTOOLCHAIN=auto")
	out, _ := cmd.CombinedOutput()
	fmt.Println(string(out))
	fmt.Printf("model-predicted results: %v\n", doc.Replay.Predicted)
	var observed []string
	panicked := false
	for _, ln := range strings.Split(string(out), "\n") {
		if strings.HasPrefix(ln, "GOVC-RESULT ") {
			f := strings.SplitN(ln, " ", 3)
			if len(f) == 3 {
				observed = append(observed, f[2])
			}
		}
		if strings.HasPrefix(ln, "GOVC-PANIC") {
			panicked = true
		}
	}
	same := len(observed) == len(doc.Replay.Predicted) && len(observed) > 0
	for i := range observed {
		if same && doc.Replay.Predicted[i] != "?" && !sameShown(observed[i], doc.Replay.Predicted[i]) {
			same = false
		}
	}
	if doc.Replay.Kind == "nopanic" {
		same = panicked
	}
	if same {
		fmt.Printf("VIOLATION property=%s replay=%s\n", doc.Property, path)
		return 1
	}
	fmt.Println("the current tree no longer reproduces this counterexample")
	return 0
}



// ---------------------------------------------------------------------------
// interactive model session (z3-new -in): one model, many get-value queries

type modelSession struct {
	cmd *exec.Cmd
	in  io.WriteCloser
	out *bufio.Reader
	ok  bool
}

func newModelSession(query string) (*modelSession, error) {
	// strip the final (get-model) and keep the solver alive
	q := strings.Replace(query, "(get-model)\n", "", 1)
	ctx, _ := context.WithTimeout(context.Background(), 60*time.Second)
	cmd := exec.CommandContext(ctx, "z3-new", "-in", "-T:40")
	in, err := cmd.StdinPipe()
	if err != nil {
		return nil, err
	}
	outp, err := cmd.StdoutPipe()
	if err != nil {
		return nil, err
	}
	cmd.Stderr = cmd.Stdout
	if err := cmd.Start(); err != nil {
		return nil, err
	}
	s := &modelSession{cmd: cmd, in: in, out: bufio.NewReader(outp)}
	io.WriteString(in, q)
	line, err := s.out.ReadString('\n')
	if err != nil {
		s.close()
		return nil, err
	}
	if strings.TrimSpace(line) != "sat" {
		s.close()
		return nil, fmt.Errorf("model session: solver answered %q", strings.TrimSpace(line))
	}
	s.ok = true
	return s, nil
}

func (s *modelSession) close() {
	if s.in != nil {
		io.WriteString(s.in, "(exit)\n")
		s.in.Close()
	}
	if s.cmd != nil && s.cmd.Process != nil {
		s.cmd.Process.Kill()
		s.cmd.Wait()
	}
}

// eval returns the model value of term as an s-expression string.
func (s *modelSession) eval(term string) (string, error) {
	io.WriteString(s.in, "(get-value ("+term+"))\n")
	// read one balanced s-expression
	var b strings.Builder
	depth := 0
	started := false
	for {
		c, err := s.out.ReadByte()
		if err != nil {
			return "", err
		}
		b.WriteByte(c)
		switch c {
		case '(':
			depth++
			started = true
		case ')':
			depth--
		case '|':
			// quoted symbol: copy until closing bar
			for {
				d, err := s.out.ReadByte()
				if err != nil {
					return "", err
				}
				b.WriteByte(d)
				if d == '|' {
					break
				}
			}
		}
		if started && depth == 0 {
			break
		}
	}
	txt := strings.TrimSpace(b.String())
	if strings.HasPrefix(txt, "(error") {
		return "", fmt.Errorf("%s", txt)
	}
	// txt = ((term value))
	sx := parseSexp(txt)
	if sx == nil || len(sx.kids) != 1 || len(sx.kids[0].kids) != 2 {
		return "", fmt.Errorf("unexpected get-value answer %q", txt)
	}
	return sx.kids[0].kids[1].String(), nil
}

// tiny s-expression parser -----------------------------------------------------

type sexp struct {
	atom string
	kids []*sexp
	list bool
}

func (s *sexp) String() string {
	if !s.list {
		return s.atom
	}
	var p []string
	for _, k := range s.kids {
		p = append(p, k.String())
	}
	return "(" + strings.Join(p, " ") + ")"
}

func parseSexp(txt string) *sexp {
	pos := 0
	var parse func() *sexp
	skip := func() {
		for pos < len(txt) && (txt[pos] == ' ' || txt[pos] == '\n' || txt[pos] == '\t' || txt[pos] == '\r') {
			pos++
		}
	}
	parse = func() *sexp {
		skip()
		if pos >= len(txt) {
			return nil
		}
		if txt[pos] == '(' {
			pos++
			n := &sexp{list: true}
			for {
				skip()
				if pos >= len(txt) {
					return n
				}
				if txt[pos] == ')' {
					pos++
					return n
				}
				k := parse()
				if k == nil {
					return n
				}
				n.kids = append(n.kids, k)
			}
		}
		start := pos
		if txt[pos] == '|' {
			pos++
			for pos < len(txt) && txt[pos] != '|' {
				pos++
			}
			pos++
			return &sexp{atom: txt[start:pos]}
		}
		for pos < len(txt) && !strings.ContainsRune(" \n\t\r()", rune(txt[pos])) {
			pos++
		}
		return &sexp{atom: txt[start:pos]}
	}
	return parse()
}

// numeric model values ------------------------------------------------------------

func sexpToRat(s *sexp) (*big.Rat, bool) {
	if !s.list {
		r, ok := new(big.Rat).SetString(s.atom)
		return r, ok
	}
	if len(s.kids) == 2 && s.kids[0].atom == "-" {
		r, ok := sexpToRat(s.kids[1])
		if !ok {
			return nil, false
		}
		return r.Neg(r), true
	}
	if len(s.kids) == 3 && s.kids[0].atom == "/" {
		a, ok1 := sexpToRat(s.kids[1])
		b, ok2 := sexpToRat(s.kids[2])
		if !ok1 || !ok2 || b.Sign() == 0 {
			return nil, false
		}
		return a.Quo(a, b), true
	}
	return nil, false
}

// ---------------------------------------------------------------------------
// reconstruction of Go inputs from the model

type replayBuilder struct {
	u       *Unit
	w       *World
	sess    *modelSession
	pkg     *types.Package
	imports map[string]string // path -> alias
	stmts   []string
	objs    map[string]string // "<typekey>@<ref>" -> variable name
	nvar    int
	strs    map[string]string // model universe element -> Go string literal
	nstr    int
	fail    string
	needsUnsafe bool
	inputs  map[string]string
}

func (b *replayBuilder) failf(format string, a ...interface{}) {
	if b.fail == "" {
		b.fail = fmt.Sprintf(format, a...)
	}
}

func (b *replayBuilder) val(term string) *sexp {
	v, err := b.sess.eval(term)
	if err != nil {
		b.failf("model evaluation of %s failed: %v", truncate(term, 80), err)
		return &sexp{atom: "0"}
	}
	return parseSexp(v)
}

func (b *replayBuilder) intVal(term string) (int64, bool) {
	r, ok := sexpToRat(b.val(term))
	if !ok || !r.IsInt() || !r.Num().IsInt64() {
		return 0, false
	}
	return r.Num().Int64(), true
}

func (b *replayBuilder) typeExpr(t types.Type) string {
	return types.TypeString(t, func(p *types.Package) string {
		if p == b.pkg {
			return ""
		}
		if a, ok := b.imports[p.Path()]; ok {
			return a
		}
		a := fmt.Sprintf("p%d", len(b.imports)+1)
		b.imports[p.Path()] = a
		return a
	})
}

func (b *replayBuilder) nameable(t types.Type) bool {
	ok := true
	var visit func(t types.Type, d int)
	visit = func(t types.Type, d int) {
		if d > 6 {
			return
		}
		switch x := t.(type) {
		case *types.Named:
			if x.Obj().Pkg() != nil && x.Obj().Pkg() != b.pkg && !x.Obj().Exported() {
				ok = false
			}
			if ta := x.TypeArgs(); ta != nil {
				for i := 0; i < ta.Len(); i++ {
					visit(ta.At(i), d+1)
				}
			}
		case *types.Pointer:
			visit(x.Elem(), d+1)
		case *types.Slice:
			visit(x.Elem(), d+1)
		case *types.Map:
			visit(x.Key(), d+1)
			visit(x.Elem(), d+1)
		}
	}
	visit(t, 0)
	return ok
}

func (b *replayBuilder) strLit(sx *sexp) string {
	key := sx.String()
	if v, ok := b.strs[key]; ok {
		return v
	}
	b.nstr++
	v := fmt.Sprintf("%q", fmt.Sprintf("govc_s%d", b.nstr))
	b.strs[key] = v
	return v
}

func (b *replayBuilder) floatExpr(sx *sexp) string {
	if sx.list && len(sx.kids) == 2 && sx.kids[0].atom == "fin" {
		return b.floatExpr(sx.kids[1])
	}
	switch sx.atom {
	case "nan":
		b.imports["math"] = "math"
		return "math.NaN()"
	case "pinf":
		b.imports["math"] = "math"
		return "math.Inf(1)"
	case "ninf":
		b.imports["math"] = "math"
		return "math.Inf(-1)"
	}
	r, ok := sexpToRat(sx)
	if !ok {
		b.failf("cannot read float model value %s", sx.String())
		return "0"
	}
	if r.IsInt() {
		return "float64(" + r.Num().String() + ")"
	}
	return "(float64(" + r.Num().String() + ") / float64(" + r.Denom().String() + "))"
}

// scalarExpr renders a scalar model value of Go type t.
func (b *replayBuilder) scalarExpr(term Term, t types.Type, depth int) string {
	if _, op := isOpaqueScalar(t); op {
		b.failf("opaque scalar type %s in inputs", shortType(t))
		return "nil"
	}
	switch u := t.Underlying().(type) {
	case *types.Basic:
		sx := b.val(term.S)
		var lit string
		switch {
		case u.Info()&types.IsBoolean != 0:
			lit = sx.atom
		case u.Info()&types.IsInteger != 0:
			r, ok := sexpToRat(sx)
			if !ok || !r.IsInt() {
				b.failf("cannot read int model value %s", sx.String())
				return "0"
			}
			lit = r.Num().String()
		case u.Info()&types.IsFloat != 0:
			lit = b.floatExpr(sx)
		case u.Info()&types.IsString != 0:
			lit = b.strLit(sx)
		default:
			b.failf("unsupported basic type %s", shortType(t))
			return "0"
		}
		if _, named := t.(*types.Named); named {
			return b.typeExpr(t) + "(" + lit + ")"
		}
		return lit
	case *types.Pointer:
		return b.pointerExpr(term, t, u.Elem(), depth)
	case *types.Map:
		return b.mapExpr(term, t, u, depth)
	case *types.Interface:
		n, ok := b.intVal(term.S)
		if ok && n == 0 {
			return "nil"
		}
		if isErrorType(t) {
			b.imports["errors"] = "errors"
			return `errors.New("govc replay error")`
		}
		b.failf("non-nil interface value of type %s in inputs", shortType(t))
		return "nil"
	case *types.Signature:
		n, ok := b.intVal(term.S)
		if ok && n == 0 {
			return "nil"
		}
		b.failf("non-nil function value in inputs")
		return "nil"
	}
	b.failf("unsupported input type %s", shortType(t))
	return "nil"
}

func (b *replayBuilder) newVar() string {
	b.nvar++
	return fmt.Sprintf("o%d", b.nvar)
}

func (b *replayBuilder) preFam(fam, sortv string) Term {
	return b.u.viewGet(b.u.pre.View(), fam, sortv)
}

func (b *replayBuilder) pointerExpr(term Term, pt types.Type, elem types.Type, depth int) string {
	n, ok := b.intVal(term.S)
	if !ok {
		b.failf("cannot read pointer value")
		return "nil"
	}
	if n == 0 {
		return "nil"
	}
	key := typeKey(elem) + "@" + fmt.Sprint(n)
	if v, ok := b.objs[key]; ok {
		return v
	}
	if depth > 5 {
		return "nil"
	}
	if !b.nameable(elem) {
		b.failf("type %s cannot be named from package %s", shortType(elem), b.pkg.Name())
		return "nil"
	}
	v := b.newVar()
	b.objs[key] = v
	ref := IntLit(n)
	if isStructType(elem) {
		b.stmts = append(b.stmts, fmt.Sprintf("%s := new(%s)", v, b.typeExpr(elem)))
		b.fillStruct(v, ref, elem, depth)
		return v
	}
	if s := scalarSort(elem); s != "" {
		inner := b.scalarExpr(Select(b.preFam(cellFam(elem), ArrSort(SInt, s)), ref), elem, depth+1)
		b.stmts = append(b.stmts, fmt.Sprintf("%s := new(%s)", v, b.typeExpr(elem)), fmt.Sprintf("*%s = %s", v, inner))
		return v
	}
	b.failf("pointer to %s in inputs", shortType(elem))
	return "nil"
}

// fillStruct assigns the fields of the object at ref whose heap families the query mentions.
func (b *replayBuilder) fillStruct(v string, ref Term, t types.Type, depth int) {
	s := t.Underlying().(*types.Struct)
	for i := 0; i < s.NumFields(); i++ {
		f := s.Field(i)
		ft := f.Type()
		if isStructType(ft) {
			sub := b.u.subAddr(ref, t, i)
			b.fillStructField(v, f, sub, ft, depth)
			continue
		}
		var expr string
		if sl, ok := ft.Underlying().(*types.Slice); ok {
			fam := fieldFam(t, i)
			if _, used := b.u.famSort[fam+"#len"]; !used {
				continue
			}
			expr = b.sliceExpr(Select(b.preFam(fam+"#arr", ArrSort(SInt, SInt)), ref), Select(b.preFam(fam+"#off", ArrSort(SInt, SInt)), ref), Select(b.preFam(fam+"#len", ArrSort(SInt, SInt)), ref), ft, sl.Elem(), depth+1)
		} else if sv := scalarSort(ft); sv != "" {
			fam := fieldFam(t, i)
			if _, used := b.u.famSort[fam]; !used {
				continue
			}
			expr = b.scalarExpr(Select(b.preFam(fam, ArrSort(SInt, sv)), ref), ft, depth+1)
		} else {
			continue
		}
		b.setField(v, f, expr, ft)
	}
}

func (b *replayBuilder) fillStructField(v string, f *types.Var, sub Term, ft types.Type, depth int) {
	// nested by-value struct: fill through a pointer to the field
	if !b.nameable(ft) {
		return
	}
	inner := b.newVar()
	if f.Exported() || f.Pkg() == b.pkg {
		b.stmts = append(b.stmts, fmt.Sprintf("%s := &%s.%s", inner, v, f.Name()))
	} else {
		b.needsUnsafe = true
		b.stmts = append(b.stmts, fmt.Sprintf("%s := (*%s)(govcFieldPtr(%s, %q))", inner, b.typeExpr(ft), v, f.Name()))
	}
	n := len(b.stmts)
	b.fillStruct(inner, sub, ft, depth+1)
	if len(b.stmts) == n {
		b.stmts = append(b.stmts, "_ = "+inner)
	}
}

func (b *replayBuilder) setField(v string, f *types.Var, expr string, ft types.Type) {
	if f.Exported() || f.Pkg() == b.pkg {
		b.stmts = append(b.stmts, fmt.Sprintf("%s.%s = %s", v, f.Name(), expr))
		return
	}
	if !b.nameable(ft) {
		return
	}
	b.needsUnsafe = true
	b.stmts = append(b.stmts, fmt.Sprintf("*(*%s)(govcFieldPtr(%s, %q)) = %s", b.typeExpr(ft), v, f.Name(), expr))
}

func (b *replayBuilder) sliceExpr(arr, off, ln Term, st types.Type, elem types.Type, depth int) string {
	a, ok := b.intVal(arr.S)
	if !ok {
		b.failf("cannot read slice")
		return "nil"
	}
	if a == 0 {
		return "nil"
	}
	n, ok := b.intVal(ln.S)
	if !ok || n < 0 || n > 16 {
		b.failf("slice length %d out of replay range", n)
		return "nil"
	}
	o, _ := b.intVal(off.S)
	if !b.nameable(st) {
		b.failf("type %s cannot be named", shortType(st))
		return "nil"
	}
	var elems []string
	for i := int64(0); i < n; i++ {
		addr := b.u.elemAddr(IntLit(a), IntLit(o+i))
		if isStructType(elem) {
			ev := b.newVar()
			b.stmts = append(b.stmts, fmt.Sprintf("%s := new(%s)", ev, b.typeExpr(elem)))
			b.fillStruct(ev, addr, elem, depth+1)
			elems = append(elems, "*"+ev)
			continue
		}
		s := scalarSort(elem)
		if s == "" {
			b.failf("slice of %s in inputs", shortType(elem))
			return "nil"
		}
		elems = append(elems, b.scalarExpr(Select(b.preFam(cellFam(elem), ArrSort(SInt, s)), addr), elem, depth+1))
	}
	return b.typeExpr(st) + "{" + strings.Join(elems, ", ") + "}"
}

// mapExpr enumerates the keys of the model's domain array (store chains over a constant array).
func (b *replayBuilder) mapExpr(term Term, mt types.Type, m *types.Map, depth int) string {
	n, ok := b.intVal(term.S)
	if !ok {
		b.failf("cannot read map reference")
		return "nil"
	}
	if n == 0 {
		return "nil"
	}
	key := typeKey(mt) + "@" + fmt.Sprint(n)
	if v, ok := b.objs[key]; ok {
		return v
	}
	if !b.nameable(mt) {
		b.failf("type %s cannot be named", shortType(mt))
		return "nil"
	}
	ks := scalarSort(m.Key())
	if ks == "" {
		b.failf("map key type %s", shortType(m.Key()))
		return "nil"
	}
	v := b.newVar()
	b.objs[key] = v
	b.stmts = append(b.stmts, fmt.Sprintf("%s := %s{}", v, b.typeExpr(mt)))
	ref := IntLit(n)
	domT := Select(b.preFam(mapDomFam(mt), ArrSort(SInt, ArrSort(ks, SBool))), ref)
	// candidate keys: string literals of the query, keys stored in the model's array, values of key-sorted parameters
	cands := map[string]Term{}
	if ks == SStr {
		for _, lit := range b.u.ctx.strOrder {
			t := b.u.ctx.StrLit(lit)
			cands[t.S] = t
		}
	}
	// every declared constant of the key sort is a candidate key (model-internal element names cannot be referenced)
	for sym, decl := range b.u.ctx.decls {
		if strings.HasSuffix(decl, "() "+ks+")") {
			cands[sym] = Term{sym, ks}
		}
	}
	if ks != SStr {
		dom := b.val(domT.S)
		collectStoreKeys(dom, cands, ks)
	}
	var keys []string
	for k := range cands {
		keys = append(keys, k)
	}
	sort.Strings(keys)
	if len(keys) > 24 {
		keys = keys[:24]
	}
	seenKeyVal := map[string]bool{}
	for _, k := range keys {
		kt := cands[k]
		kv := b.val(kt.S).String()
		if seenKeyVal[kv] {
			continue
		}
		in := b.val(Select(domT, kt).S)
		if in.atom != "true" {
			continue
		}
		seenKeyVal[kv] = true
		kexpr := b.scalarExpr(kt, m.Key(), depth+1)
		var vexpr string
		if isEmptyStruct(m.Elem()) {
			vexpr = b.typeExpr(m.Elem()) + "{}"
		} else if vs := scalarSort(m.Elem()); vs != "" {
			vt := Select(Select(b.preFam(mapValFam(mt), ArrSort(SInt, ArrSort(ks, vs))), ref), kt)
			vexpr = b.scalarExpr(vt, m.Elem(), depth+1)
		} else if sl, ok := m.Elem().Underlying().(*types.Slice); ok {
			fam := mapValFam(mt)
			g := func(sfx string) Term {
				return Select(Select(b.preFam(fam+sfx, ArrSort(SInt, ArrSort(ks, SInt))), ref), kt)
			}
			vexpr = b.sliceExpr(g("#arr"), g("#off"), g("#len"), m.Elem(), sl.Elem(), depth+1)
		} else {
			b.failf("map value type %s", shortType(m.Elem()))
			return "nil"
		}
		b.stmts = append(b.stmts, fmt.Sprintf("%s[%s] = %s", v, kexpr, vexpr))
	}
	return v
}

func collectStoreKeys(sx *sexp, out map[string]Term, ks string) {
	if sx == nil || !sx.list {
		return
	}
	if len(sx.kids) == 4 && sx.kids[0].atom == "store" {
		k := sx.kids[2].String()
		out[k] = Term{k, ks}
		collectStoreKeys(sx.kids[1], out, ks)
		return
	}
	for _, k := range sx.kids {
		collectStoreKeys(k, out, ks)
	}
}

func (b *replayBuilder) valueExpr(v Value, t types.Type) string {
	switch x := v.(type) {
	case Sc:
		return b.scalarExpr(x.T, t, 0)
	case SliceV:
		sl := t.Underlying().(*types.Slice)
		return b.sliceExpr(x.Arr, x.Off, x.Len, t, sl.Elem(), 0)
	case *StructV:
		if !b.nameable(t) {
			b.failf("type %s cannot be named", shortType(t))
			return "nil"
		}
		tmp := b.newVar()
		b.stmts = append(b.stmts, fmt.Sprintf("%s := new(%s)", tmp, b.typeExpr(t)))
		s := t.Underlying().(*types.Struct)
		for i := 0; i < s.NumFields(); i++ {
			f := s.Field(i)
			fv := b.u.fieldOfStruct(x, i)
			if _, isS := fv.(*StructV); isS {
				continue // nested by-value structs of by-value parameters: left zero
			}
			if sc, ok := fv.(Sc); ok {
				if _, declared := b.u.ctx.decls[sc.T.S]; !declared && !strings.HasPrefix(sc.T.S, "(") {
					continue
				}
			}
			b.setField(tmp, f, b.valueExpr(fv, f.Type()), f.Type())
		}
		return "*" + tmp
	}
	b.failf("unsupported parameter value %T", v)
	return "nil"
}

// ---------------------------------------------------------------------------

func tryReplay(w *World, ur *UnitResult, o *OblResult, workdir string) *ReplayResult {
	rr := &ReplayResult{}
	u := ur.unit
	if u == nil || u.fn == nil {
		rr.Reason = "no unit"
		return rr
	}
	fn := u.fn
	if fn.Parent() != nil || len(fn.FreeVars) > 0 {
		rr.Reason = "closure units are not replayed (captured variables cannot be rebuilt from outside)"
		return rr
	}
	if fn.Signature.TypeParams() != nil && fn.Signature.TypeParams().Len() > 0 {
		rr.Reason = "generic function"
		return rr
	}
	switch o.Kind {
	case "ensures", "lemma", "nopanic":
	default:
		rr.Reason = "obligation kind " + o.Kind + " has no direct input/output reading (it concerns an intermediate state)"
		return rr
	}
	sess, err := newModelSession(u.ctx.QueryX(o.Prefix, o.Goal, true, o.Relaxed))
	if err != nil {
		rr.Reason = "no model session: " + err.Error()
		return rr
	}
	defer sess.close()
	rr.Attempted = true
	b := &replayBuilder{u: u, w: w, sess: sess, pkg: fn.Pkg.Pkg, imports: map[string]string{}, objs: map[string]string{}, strs: map[string]string{}, inputs: map[string]string{}}
	// string literals map to themselves
	for _, lit := range u.ctx.strOrder {
		sx := b.val(u.ctx.strLits[lit])
		b.strs[sx.String()] = fmt.Sprintf("%q", lit)
	}
	saved := curFloatSort
	if u.ieee {
		curFloatSort = SF
	}
	defer func() { curFloatSort = saved }()
	u.ctx.inQuant++ // no side assertions while rebuilding terms
	defer func() { u.ctx.inQuant-- }()
	var args []string
	for _, p := range fn.Params {
		v := u.pre.Env[p]
		e := b.valueExpr(v, p.Type())
		args = append(args, e)
		b.inputs[p.Name()] = e
	}
	if b.fail != "" {
		rr.Reason = "inputs not reconstructible: " + b.fail
		return rr
	}
	// predicted results
	var predicted []string
	for i, rv := range u.retVals {
		rt := fn.Signature.Results().At(i).Type()
		predicted = append(predicted, b.resultString(rv, rt))
	}
	rr.Predicted = predicted
	rr.Inputs = b.inputs
	// call expression
	call := ""
	if fn.Signature.Recv() != nil {
		recv := args[0]
		call = fmt.Sprintf("(%s).%s(%s)", recv, fn.Name(), strings.Join(args[1:], ", "))
	} else {
		call = fmt.Sprintf("%s(%s)", fn.Name(), strings.Join(args, ", "))
	}
	nres := fn.Signature.Results().Len()
	var src bytes.Buffer
	fmt.Fprintf(&src, "package %s\n\nimport (\n\t\"fmt\"\n\t\"testing\"\n", fn.Pkg.Pkg.Name())
	if b.needsUnsafe {
		fmt.Fprintf(&src, "\t\"reflect\"\n\t\"unsafe\"\n")
	}
	var paths []string
	for p := range b.imports {
		paths = append(paths, p)
	}
	sort.Strings(paths)
	for _, p := range paths {
		if b.imports[p] == filepath.Base(p) || b.imports[p] == p {
			fmt.Fprintf(&src, "\t%q\n", p)
		} else {
			fmt.Fprintf(&src, "\t%s %q\n", b.imports[p], p)
		}
	}
	fmt.Fprintf(&src, ")\n\n")
	if b.needsUnsafe {
		src.WriteString("func govcFieldPtr(obj interface{}, name string) unsafe.Pointer {\n\tv := reflect.ValueOf(obj).Elem()\n\treturn unsafe.Pointer(v.FieldByName(name).UnsafeAddr())\n}\n\n")
	}
	src.WriteString("func govcShow(v interface{}) string {\n\tswitch x := v.(type) {\n\tcase error:\n\t\tif x == nil { return \"nil\" }\n\t\treturn \"non-nil\"\n\t}\n\trv := fmt.Sprintf(\"%v\", v)\n\tif v == nil { return \"nil\" }\n\treturn rv\n}\n\n")
	fmt.Fprintf(&src, "// Generated by govc: replay of the counterexample of obligation\n//   %s\n//   %s\nfunc TestGovcReplay(t *testing.T) {\n", o.Name, o.Desc)
	src.WriteString("\tdefer func() {\n\t\tif r := recover(); r != nil {\n\t\t\tfmt.Printf(\"GOVC-PANIC %v\\n\", r)\n\t\t}\n\t}()\n")
	for _, s := range b.stmts {
		src.WriteString("\t" + s + "\n")
	}
	switch nres {
	case 0:
		fmt.Fprintf(&src, "\t%s\n\tfmt.Println(\"GOVC-RETURNED\")\n", call)
	default:
		var rs []string
		for i := 0; i < nres; i++ {
			rs = append(rs, fmt.Sprintf("r%d", i))
		}
		fmt.Fprintf(&src, "\t%s := %s\n", strings.Join(rs, ", "), call)
		for i := range rs {
			fmt.Fprintf(&src, "\tfmt.Printf(\"GOVC-RESULT %d %%s\\n\", govcShow(%s))\n", i, resultShowExpr(rs[i], fn.Signature.Results().At(i).Type()))
		}
	}
	src.WriteString("}\n")
	rr.TestSource = src.String()
	// run it through an overlay
	pos := w.fset.Position(fn.Pos())
	dir := filepath.Dir(pos.Filename)
	testPath := filepath.Join(dir, "zz_govc_replay_test.go")
	os.MkdirAll(workdir, 0o755)
	tmpTest := filepath.Join(workdir, "replay_"+sanitize(filepath.Base(oblFile(solveConfig{}, o.Name)))+"_test.go")
	os.WriteFile(tmpTest, src.Bytes(), 0o644)
	ov := map[string]map[string]string{"Replace": {testPath: tmpTest}}
	ovData, _ := json.Marshal(ov)
	ovFile := tmpTest + ".overlay.json"
	os.WriteFile(ovFile, ovData, 0o644)
	rel, _ := filepath.Rel("/repo", dir)
	ctx, cancel := context.WithTimeout(context.Background(), 180*time.Second)
	defer cancel()
	cmd := exec.CommandContext(ctx, "go", "test", "-v", "-overlay", ovFile, "-vet=off", "-count=1", "-timeout", "60s", "-run", "^TestGovcReplay$", "./"+rel)
	cmd.Dir = "/repo"
	cmd.Env = append(os.Environ(), "GOFLAGS=-mod=mod", "GOPROXY=off", "GOTOOLCHAIN=auto")
	out, _ := cmd.CombinedOutput()
	rr.TestPath = testPath
	rr.Kind = o.Kind
	rr.Command = "cd /repo && go test -overlay <overlay> -vet=off -count=1 -timeout 60s -run ^TestGovcReplay$ ./" + rel
	rr.TestFile = tmpTest
	rr.Output = truncate(string(out), 6000)
	var observed []string
	panicked := false
	for _, ln := range strings.Split(string(out), "\n") {
		if strings.HasPrefix(ln, "GOVC-RESULT ") {
			f := strings.SplitN(ln, " ", 3)
			if len(f) == 3 {
				observed = append(observed, f[2])
			}
		}
		if strings.HasPrefix(ln, "GOVC-PANIC") {
			panicked = true
			observed = append(observed, ln)
		}
	}
	rr.Observed = observed
	if o.Kind == "nopanic" {
		rr.Reproduced = panicked
		if !panicked {
			rr.Reason = "the real code did not panic on the model's input"
		}
		return rr
	}
	if panicked {
		rr.Reason = "the real code panicked on the model's input"
		return rr
	}
	if len(observed) != len(predicted) || len(observed) == 0 && nres > 0 {
		rr.Reason = "could not run the replay test (see output)"
		return rr
	}
	if nres == 0 || !strings.Contains(o.Desc, "result") {
		rr.Reason = "the violated clause is about the heap, not about the results: running the real code on the model's input cannot confirm it by itself"
		return rr
	}
	match := true
	for i := range observed {
		if predicted[i] == "?" {
			continue
		}
		if !sameShown(observed[i], predicted[i]) {
			match = false
		}
	}
	// The model's results violate the postcondition (the solver evaluated it to false on them).
	// If the real code returns the same results on the same inputs, the violation is reproduced.
	rr.Reproduced = match
	if !match {
		rr.Reason = "the real code's results differ from the model's prediction (spurious model from an abstraction)"
	}
	return rr
}

func resultShowExpr(name string, t types.Type) string {
	switch t.Underlying().(type) {
	case *types.Pointer, *types.Map, *types.Slice, *types.Signature:
		return fmt.Sprintf("map[bool]string{true: \"nil\", false: \"non-nil\"}[%s == nil]", name)
	}
	return name
}

func sameShown(obs, pred string) bool {
	if obs == pred {
		return true
	}
	// numeric comparison
	a, ok1 := new(big.Rat).SetString(obs)
	b, ok2 := new(big.Rat).SetString(pred)
	if ok1 && ok2 {
		d := new(big.Rat).Sub(a, b)
		d.Abs(d)
		tol := new(big.Rat).SetFrac64(1, 1000000000)
		return d.Cmp(tol) <= 0
	}
	return false
}

// resultString renders the model's value of a result in the same form the test prints it.
func (b *replayBuilder) resultString(v Value, t types.Type) string {
	switch x := v.(type) {
	case Sc:
		sx := b.val(x.T.S)
		switch tt := t.Underlying().(type) {
		case *types.Basic:
			switch {
			case tt.Info()&types.IsBoolean != 0:
				return sx.atom
			case tt.Info()&types.IsString != 0:
				if s, ok := b.strs[sx.String()]; ok {
					return strings.Trim(s, "\"")
				}
				return "?"
			case tt.Info()&types.IsFloat != 0:
				if sx.list && len(sx.kids) == 2 && sx.kids[0].atom == "fin" {
					sx = sx.kids[1]
				}
				switch sx.atom {
				case "nan":
					return "NaN"
				case "pinf":
					return "+Inf"
				case "ninf":
					return "-Inf"
				}
				r, ok := sexpToRat(sx)
				if !ok {
					return "?"
				}
				return r.FloatString(12)
			default:
				r, ok := sexpToRat(sx)
				if !ok {
					return "?"
				}
				return r.Num().String()
			}
		case *types.Pointer, *types.Map, *types.Signature, *types.Interface:
			r, ok := sexpToRat(sx)
			if !ok {
				return "?"
			}
			if r.Sign() == 0 {
				return "nil"
			}
			return "non-nil"
		}
	case SliceV:
		r, ok := sexpToRat(b.val(x.Arr.S))
		if ok && r.Sign() == 0 {
			return "nil"
		}
		return "non-nil"
	}
	return "?"
}

var _ = ssa.NewProgram
