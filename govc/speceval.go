package main

import (
	"fmt"
	"go/constant"
	"go/token"
	"go/types"
	"math/big"
	"strings"

	"golang.org/x/tools/go/ssa"
)

type SpecEnv struct {
	u     *Unit
	fr    *frame
	st    *State
	old   *State
	vars  map[string]Value
	bound map[string]Value
	pkg   *PkgInfo
	depth int
	nameSt *State // state whose local-variable names are visible inside old(...)
}

type specError struct{ msg string }

func (e *SpecEnv) fail(format string, a ...interface{}) {
	panic(specError{fmt.Sprintf(format, a...)})
}

func (u *Unit) specEnv(fr *frame, st *State) *SpecEnv {
	vars := map[string]Value{}
	if fr != nil {
		for k, v := range fr.params {
			vars[k] = v
		}
	}
	pk := u.pkg
	if fr != nil && fr.c != nil {
		pk = u.w.pkgOfContract(fr.c)
	}
	return &SpecEnv{u: u, fr: fr, st: st, old: u.pre, vars: vars, pkg: pk}
}

func (u *Unit) evalSpecBool(fr *frame, st *State, c Clause) (t Term) {
	defer func() {
		if r := recover(); r != nil {
			if se, ok := r.(specError); ok {
				u.specFail(c, se.msg)
				t = TFalse
				return
			}
			panic(r)
		}
	}()
	env := u.specEnv(fr, st)
	return env.evalBool(c.Expr)
}

func (u *Unit) evalSpecTerm(fr *frame, st *State, c Clause) (t Term) {
	defer func() {
		if r := recover(); r != nil {
			if se, ok := r.(specError); ok {
				u.specFail(c, se.msg)
				t = TZero
				return
			}
			panic(r)
		}
	}()
	env := u.specEnv(fr, st)
	return env.u.asSc(env.eval(c.Expr), nil).T
}

func (u *Unit) specFail(c Clause, msg string) {
	u.specErrs = append(u.specErrs, fmt.Sprintf("line %d: %s: %s", c.Line, c.Text, msg))
}

func (e *SpecEnv) evalBool(x SExpr) Term {
	v := e.eval(x)
	sc, ok := v.(Sc)
	if !ok || sc.T.Sort != SBool {
		e.fail("expression %s is not boolean", x.String())
	}
	return sc.T
}

func (e *SpecEnv) scalar(x SExpr) Sc {
	v := e.eval(x)
	switch s := v.(type) {
	case Sc:
		return s
	case *ClosureV:
		return Sc{s.ID, nil}
	}
	e.fail("expression %s is not a scalar (%s)", x.String(), describeValue(v))
	return Sc{}
}

func constToValue(u *Unit, val constant.Value, t types.Type) Value {
	if s, ok := isOpaqueScalar(t); ok {
		return Sc{u.zeroTerm(s), t}
	}
	switch val.Kind() {
	case constant.Bool:
		if constant.BoolVal(val) {
			return Sc{TTrue, t}
		}
		return Sc{TFalse, t}
	case constant.String:
		return Sc{u.ctx.StrLit(constant.StringVal(val)), t}
	case constant.Int:
		if isFloatType(t) {
			return Sc{u.floatConst(val), t}
		}
		bi, _ := new(big.Int).SetString(val.ExactString(), 10)
		return Sc{BigIntLit(bi), t}
	case constant.Float:
		if b, ok := t.Underlying().(*types.Basic); ok && b.Info()&types.IsInteger != 0 {
			bi, _ := new(big.Int).SetString(constant.ToInt(val).ExactString(), 10)
			return Sc{BigIntLit(bi), t}
		}
		return Sc{u.floatConst(val), t}
	}
	return nil
}

func (e *SpecEnv) lookupIdent(name string) (Value, bool) {
	if v, ok := e.bound[name]; ok {
		return v, true
	}
	// now_<param>: the CURRENT value of a parameter that the body reassigns (a bare parameter name is its entry value)
	if strings.HasPrefix(name, "now_") {
		if nr, ok := e.st.Names[strings.TrimPrefix(name, "now_")]; ok && !nr.IsAddr {
			return nr.V, true
		}
	}
	if v, ok := e.vars[name]; ok {
		return v, true
	}
	if name == "visited" {
		if k := e.u.curVisited; k != "" {
			if t, ok := e.st.Ghost[k]; ok {
				return Sc{t, nil}, true
			}
		}
		var found []string
		for k := range e.st.Ghost {
			if strings.HasPrefix(k, "visited:") {
				found = append(found, k)
			}
		}
		if len(found) == 1 {
			return Sc{e.st.Ghost[found[0]], nil}, true
		}
		e.fail("ambiguous or missing 'visited' set")
	}
	if nr, ok := e.st.Names[name]; ok {
		if nr.IsAddr {
			pt := valueType(nr.V)
			if pt != nil {
				if el := derefType(pt); el != nil {
					return e.u.loadAt(e.st.View(), nr.V, el), true
				}
			}
			if lp, ok := nr.V.(LocPtr); ok {
				return e.u.loadLoc(e.st.View(), lp.Fam, lp.Idx, lp.Typ), true
			}
		}
		return nr.V, true
	}
	// inside old(...): a local variable that did not exist at entry denotes its current value
	if e.nameSt != nil {
		if nr, ok := e.nameSt.Names[name]; ok && !nr.IsAddr {
			return nr.V, true
		}
	}
	// package scope
	if e.pkg != nil {
		if obj := e.pkg.types.Scope().Lookup(name); obj != nil {
			return e.objValue(obj)
		}
	}
	return nil, false
}

func valueType(v Value) types.Type {
	switch x := v.(type) {
	case Sc:
		return x.Typ
	case *StructV:
		return x.Typ
	}
	return nil
}

func (e *SpecEnv) objValue(obj types.Object) (Value, bool) {
	switch o := obj.(type) {
	case *types.Const:
		v := constToValue(e.u, o.Val(), o.Type())
		return v, v != nil
	case *types.Var:
		// package-level variable
		sp := e.u.w.prog.Package(o.Pkg())
		if sp == nil {
			return nil, false
		}
		g, ok := sp.Members[o.Name()].(*ssa.Global)
		if !ok {
			return nil, false
		}
		if cv, ok := e.u.w.constGlobal(e.u, e.st, g); ok {
			return cv, true
		}
		addr := e.u.globalAddr(g)
		return e.u.loadAt(e.st.View(), addr, derefType(g.Type())), true
	case *types.Func:
		// a package-level function used as a VALUE in a specification: the same value the code gets for it
		sp := e.u.w.prog.Package(o.Pkg())
		if sp == nil {
			return nil, false
		}
		if f := sp.Func(o.Name()); f != nil {
			return &ClosureV{Fn: f, ID: e.u.funcID(f)}, true
		}
	}
	return nil, false
}

func (e *SpecEnv) eval(x SExpr) Value {
	u := e.u
	switch n := x.(type) {
	case *SLit:
		switch n.Kind {
		case "int":
			bi, ok := new(big.Int).SetString(n.Val, 10)
			if !ok {
				e.fail("bad int literal %s", n.Val)
			}
			return Sc{BigIntLit(bi), types.Typ[types.Int]}
		case "real":
			r, ok := new(big.Rat).SetString(n.Val)
			if !ok {
				e.fail("bad real literal %s", n.Val)
			}
			return Sc{RatLit(r), types.Typ[types.Float64]}
		case "string":
			return Sc{u.ctx.StrLit(n.Val), types.Typ[types.String]}
		case "bool":
			if n.Val == "true" {
				return Sc{TTrue, types.Typ[types.Bool]}
			}
			return Sc{TFalse, types.Typ[types.Bool]}
		case "nil":
			return Sc{TNil, types.Typ[types.UntypedNil]}
		}
	case *SIdent:
		if v, ok := e.lookupIdent(n.Name); ok {
			return v
		}
		e.fail("unknown identifier %q", n.Name)
	case *SUn:
		switch n.Op {
		case "!":
			return Sc{Not(e.evalBool(n.X)), types.Typ[types.Bool]}
		case "-":
			s := e.scalar(n.X)
			return Sc{app("-", s.T.Sort, s.T), s.Typ}
		case "*":
			p := e.eval(n.X)
			pt := valueType(p)
			if lp, ok := p.(LocPtr); ok {
				return u.loadLoc(e.st.View(), lp.Fam, lp.Idx, lp.Typ)
			}
			if pt == nil || derefType(pt) == nil {
				e.fail("cannot dereference %s", n.X.String())
			}
			return u.loadAt(e.st.View(), p, derefType(pt))
		}
	case *SBin:
		return e.evalBin(n)
	case *SSel:
		return e.evalSel(n)
	case *SIndex:
		return e.evalIndex(n)
	case *SCall:
		return e.evalCall(n)
	case *SQuant:
		return e.evalQuant(n)
	}
	e.fail("cannot evaluate %s", x.String())
	return nil
}

func (e *SpecEnv) evalBin(n *SBin) Value {
	u := e.u
	tb := types.Typ[types.Bool]
	switch n.Op {
	case "&&":
		return Sc{And(e.evalBool(n.L), e.evalBool(n.R)), tb}
	case "||":
		return Sc{Or(e.evalBool(n.L), e.evalBool(n.R)), tb}
	case "==>":
		return Sc{Implies(e.evalBool(n.L), e.evalBool(n.R)), tb}
	case "<==>":
		return Sc{Eq(e.evalBool(n.L), e.evalBool(n.R)), tb}
	case "in":
		k := e.scalar(n.L)
		m := e.eval(n.R)
		msc, ok := m.(Sc)
		if !ok {
			e.fail("'in' needs a map or set on the right")
		}
		if strings.HasPrefix(msc.T.Sort, "(Array") {
			return Sc{Select(msc.T, k.T), tb}
		}
		if msc.Typ == nil {
			e.fail("'in' on untyped value")
		}
		if _, isMap := msc.Typ.Underlying().(*types.Map); !isMap {
			e.fail("'in' needs a map")
		}
		return Sc{And(Neq(msc.T, TNil), Select(u.mapDom(e.st.View(), msc.Typ, msc.T), k.T)), tb}
	case "==", "!=":
		l, r := e.eval(n.L), e.eval(n.R)
		var eq Term
		if _, isLoc := l.(LocPtr); isLoc {
			l = Sc{e.u.ctx.Const("nonnil-field-address", SInt), nil}
			e.u.ctx.AssertAlways(Neq(l.(Sc).T, TNil), "field addresses are never nil")
		}
		if _, isLoc := r.(LocPtr); isLoc {
			r = Sc{e.u.ctx.Const("nonnil-field-address", SInt), nil}
			e.u.ctx.AssertAlways(Neq(r.(Sc).T, TNil), "field addresses are never nil")
		}
		switch a := l.(type) {
		case SliceV:
			switch b := r.(type) {
			case Sc:
				eq = Eq(a.Arr, b.T) // comparison with nil
			case SliceV:
				eq = And(Eq(a.Arr, b.Arr), Eq(a.Off, b.Off), Eq(a.Len, b.Len))
			default:
				e.fail("bad slice comparison")
			}
		case *StructV:
			eq = u.structEq(e.st, token.EQL, l, r, tb).(Sc).T
		default:
			if rs, ok := r.(SliceV); ok {
				eq = Eq(rs.Arr, u.asSc(l, nil).T)
			} else {
				eq = Eq(u.asSc(l, nil).T, u.asSc(r, nil).T)
			}
		}
		if n.Op == "!=" {
			eq = Not(eq)
		}
		return Sc{eq, tb}
	case "<", "<=", ">", ">=":
		l, r := e.scalar(n.L), e.scalar(n.R)
		if l.T.Sort == SStr {
			switch n.Op {
			case "<":
				return Sc{app("str_lt", SBool, l.T, r.T), tb}
			case ">":
				return Sc{app("str_lt", SBool, r.T, l.T), tb}
			case "<=":
				return Sc{Not(app("str_lt", SBool, r.T, l.T)), tb}
			default:
				return Sc{Not(app("str_lt", SBool, l.T, r.T)), tb}
			}
		}
		return Sc{Cmp(n.Op, l.T, r.T), tb}
	case "+", "-", "*":
		l, r := e.scalar(n.L), e.scalar(n.R)
		if l.T.Sort == SStr && n.Op == "+" {
			return Sc{app("str_cat", SStr, l.T, r.T), l.Typ}
		}
		t := Arith(n.Op, l.T, r.T)
		typ := l.Typ
		if t.Sort == SReal {
			typ = types.Typ[types.Float64]
		}
		return Sc{t, typ}
	case "/":
		l, r := e.scalar(n.L), e.scalar(n.R)
		if l.T.Sort == SInt && r.T.Sort == SInt {
			return Sc{truncDiv(l.T, r.T), l.Typ}
		}
		return Sc{Arith("/", l.T, r.T), types.Typ[types.Float64]}
	case "%":
		l, r := e.scalar(n.L), e.scalar(n.R)
		return Sc{Arith("-", l.T, Arith("*", r.T, truncDiv(l.T, r.T))), l.Typ}
	}
	e.fail("unknown operator %s", n.Op)
	return nil
}

// findField locates a (possibly promoted) field by name; returns the index path.
func findField(t types.Type, name string, depth int) ([]int, bool) {
	if p, ok := t.Underlying().(*types.Pointer); ok {
		t = p.Elem()
	}
	s, ok := t.Underlying().(*types.Struct)
	if !ok || depth > 4 {
		return nil, false
	}
	if _, op := isOpaqueScalar(t); op {
		return nil, false
	}
	for i := 0; i < s.NumFields(); i++ {
		if s.Field(i).Name() == name {
			return []int{i}, true
		}
	}
	for i := 0; i < s.NumFields(); i++ {
		if s.Field(i).Embedded() {
			if p, ok := findField(s.Field(i).Type(), name, depth+1); ok {
				return append([]int{i}, p...), true
			}
		}
	}
	return nil, false
}

// fieldStep selects field i of v (a struct value or a pointer to a struct).
func (e *SpecEnv) fieldStep(v Value, i int) Value {
	u := e.u
	switch x := v.(type) {
	case *StructV:
		r := u.fieldOfStruct(x, i)
		if len(e.bound) == 0 {
			u.assumeLoaded(e.st, r)
		}
		return r
	case Sc:
		st := derefType(x.Typ)
		if st == nil || !isStructType(st) {
			e.fail("field selection on non-struct pointer of type %v", x.Typ)
		}
		addr := u.fieldAddr(x, st, i)
		ft := st.Underlying().(*types.Struct).Field(i).Type()
		if isStructType(ft) {
			return u.loadAt(e.st.View(), addr, ft)
		}
		if lp, ok := addr.(LocPtr); ok {
			r := u.loadLoc(e.st.View(), lp.Fam, lp.Idx, lp.Typ)
			if len(e.bound) == 0 {
				u.assumeLoaded(e.st, r)
			}
			return r
		}
	}
	e.fail("field selection on %s", describeValue(v))
	return nil
}

func (e *SpecEnv) evalSel(n *SSel) Value {
	// package-qualified identifier?
	if id, ok := n.X.(*SIdent); ok {
		if _, isVar := e.lookupIdentQuiet(id.Name); !isVar {
			if ip := e.pkg.importNamed(id.Name); ip != nil {
				obj := ip.Scope().Lookup(n.Name)
				if obj == nil {
					e.fail("%s.%s not found", id.Name, n.Name)
				}
				v, ok := e.objValue(obj)
				if !ok {
					e.fail("%s.%s is not a constant or variable", id.Name, n.Name)
				}
				return v
			}
		}
	}
	base := e.eval(n.X)
	bt := valueType(base)
	if bt == nil {
		e.fail("selector %s on untyped value", n.Name)
	}
	// opaque wrappers
	if _, op := isOpaqueScalar(bt); op {
		return base
	}
	// pointer to an opaque wrapper (q.PreemptMinRuntime.Duration with *metav1.Duration): the field is the pointed-to scalar
	if el := derefType(bt); el != nil {
		if _, op := isOpaqueScalar(el); op {
			return u0(e).loadAt(e.st.View(), base, el)
		}
	}
	path, ok := findField(bt, n.Name, 0)
	if !ok {
		e.fail("no field %s in %s", n.Name, shortType(bt))
	}
	cur := base
	for _, i := range path {
		// auto-deref pointers held in struct fields
		cur = e.fieldStep(cur, i)
	}
	return cur
}

func (e *SpecEnv) lookupIdentQuiet(name string) (v Value, ok bool) {
	defer func() {
		if r := recover(); r != nil {
			if _, is := r.(specError); is {
				v, ok = nil, false
				return
			}
			panic(r)
		}
	}()
	return e.lookupIdent(name)
}

func (e *SpecEnv) evalIndex(n *SIndex) Value {
	u := e.u
	base := e.eval(n.X)
	switch b := base.(type) {
	case SliceV:
		i := e.scalar(n.I)
		addr := u.elemAddr(b.Arr, Arith("+", b.Off, i.T))
		if b.Off.S == "0" {
			addr = u.elemAddr(b.Arr, i.T)
		}
		if isStructType(b.Elem) {
			return &StructV{Typ: b.Elem, Ref: &addr, View: e.st.View()}
		}
		return u.loadLoc(e.st.View(), cellFam(b.Elem), addr, b.Elem)
	case Sc:
		if strings.HasPrefix(b.T.Sort, "(Array") {
			i := e.scalar(n.I)
			return Sc{Select(b.T, i.T), nil}
		}
		if b.Typ != nil {
			if _, ok := b.Typ.Underlying().(*types.Map); ok {
				k := e.scalar(n.I)
				v, _ := u.mapLookup(e.st.View(), b.Typ, b.T, k.T)
				if len(e.bound) == 0 {
					u.assumeLoadedRef(e.st, v)
				}
				return v
			}
		}
	}
	e.fail("cannot index %s", n.X.String())
	return nil
}

func (e *SpecEnv) resolveType(s string) (types.Type, string) {
	switch s {
	case "int":
		return types.Typ[types.Int], SInt
	case "real", "float64":
		return types.Typ[types.Float64], curFloatSort
	case "bool":
		return types.Typ[types.Bool], SBool
	case "string":
		return types.Typ[types.String], SStr
	case "ref":
		return types.Typ[types.UnsafePointer], SInt
	}
	t := e.pkg.evalType(e.u.w, s)
	if t == nil {
		e.fail("cannot resolve type %q", s)
	}
	ss := scalarSort(t)
	if ss == "" {
		e.fail("type %q is not scalar", s)
	}
	return t, ss
}

func (e *SpecEnv) evalQuant(n *SQuant) Value {
	if n.Kind == "sum" || n.Kind == "count" {
		return e.evalSum(n)
	}
	u := e.u
	saved := e.bound
	nb := map[string]Value{}
	for k, v := range saved {
		nb[k] = v
	}
	e.bound = nb
	u.ctx.inQuant++
	defer func() { e.bound = saved; u.ctx.inQuant-- }()
	var decls []string
	var guard Term = TTrue
	if n.In != nil {
		coll := e.eval(n.In)
		csc, ok := coll.(Sc)
		if !ok {
			if sl, isSl := coll.(SliceV); isSl {
				// forall i in s  ranges over indices
				u.ctx.freshN++
				name := fmt.Sprintf("%s!q%d", n.Vars[0].Name, u.ctx.freshN)
				v := Term{qsym(name), SInt}
				e.bound[n.Vars[0].Name] = Sc{v, types.Typ[types.Int]}
				decls = append(decls, fmt.Sprintf("(%s Int)", v.S))
				u.ctx.noteQVar(v.S, SInt)
				guard = And(Cmp(">=", v, TZero), Cmp("<", v, sl.Len))
				goto body
			}
			e.fail("quantifier range must be a map, set or slice")
		}
		{
			u.ctx.freshN++
			name := fmt.Sprintf("%s!q%d", n.Vars[0].Name, u.ctx.freshN)
			if strings.HasPrefix(csc.T.Sort, "(Array") {
				ks := arrKey(csc.T.Sort)
				v := Term{qsym(name), ks}
				e.bound[n.Vars[0].Name] = Sc{v, nil}
				decls = append(decls, fmt.Sprintf("(%s %s)", v.S, ks))
				u.ctx.noteQVar(v.S, ks)
				guard = Select(csc.T, v)
			} else {
				m, isMap := csc.Typ.Underlying().(*types.Map)
				if !isMap {
					e.fail("quantifier range must be a map")
				}
				ks := scalarSort(m.Key())
				v := Term{qsym(name), ks}
				e.bound[n.Vars[0].Name] = Sc{v, m.Key()}
				decls = append(decls, fmt.Sprintf("(%s %s)", v.S, ks))
				u.ctx.noteQVar(v.S, ks)
				guard = And(Neq(csc.T, TNil), Select(u.mapDom(e.st.View(), csc.Typ, csc.T), v))
			}
		}
	} else {
		for _, qv := range n.Vars {
			t, s := e.resolveType(qv.Type)
			u.ctx.freshN++
			name := fmt.Sprintf("%s!q%d", qv.Name, u.ctx.freshN)
			v := Term{qsym(name), s}
			e.bound[qv.Name] = Sc{v, t}
			u.ctx.noteQVar(v.S, s)
			decls = append(decls, fmt.Sprintf("(%s %s)", v.S, s))
		}
	}
body:
	body := e.evalBool(n.Body)
	var t Term
	if n.Forall {
		t = Term{fmt.Sprintf("(forall (%s) %s)", strings.Join(decls, " "), Implies(guard, body).S), SBool}
		if u.ctx.inQuant == 1 && len(t.S) <= 8000 && len(u.ctx.qrecs) < 400 {
			if vs, b, ok := splitForall(t.S); ok {
				u.ctx.qrecs = append(u.ctx.qrecs, qrec{t.S, vs, b})
			}
		}
	} else {
		t = Term{fmt.Sprintf("(exists (%s) %s)", strings.Join(decls, " "), And(guard, body).S), SBool}
	}
	return Sc{t, types.Typ[types.Bool]}
}

func (e *SpecEnv) withState(st *State) *SpecEnv {
	n := *e
	if n.nameSt == nil {
		n.nameSt = e.st
	}
	n.st = st
	return &n
}

func (e *SpecEnv) evalCall(n *SCall) Value {
	u := e.u
	tb := types.Typ[types.Bool]
	switch n.Fun {
	case "old":
		if e.old == nil {
			e.fail("old() not available here")
		}
		return e.withState(e.old).eval(n.Args[0])
	case "len":
		v := e.eval(n.Args[0])
		switch x := v.(type) {
		case SliceV:
			return Sc{x.Len, types.Typ[types.Int]}
		case Sc:
			if x.Typ != nil {
				if _, ok := x.Typ.Underlying().(*types.Map); ok {
					return Sc{u.mapLen(e.st.View(), x.Typ, x.T), types.Typ[types.Int]}
				}
			}
			if x.T.Sort == SStr {
				return Sc{app("str_len", SInt, x.T), types.Typ[types.Int]}
			}
		}
		e.fail("len of %s", n.Args[0].String())
	case "ite":
		c := e.evalBool(n.Args[0])
		a, b := e.eval(n.Args[1]), e.eval(n.Args[2])
		return u.mergeVal(c, a, b)
	case "real":
		s := e.scalar(n.Args[0])
		return Sc{ToReal(s.T), types.Typ[types.Float64]}
	case "string":
		// conversion between string kinds (v1.ResourceName, types.UID, ... -> string): identity on the Str sort
		if len(n.Args) == 1 {
			s := e.scalar(n.Args[0])
			if s.T.Sort == SStr {
				return Sc{s.T, types.Typ[types.String]}
			}
			e.fail("string(x): x must be of a string kind")
		}
	case "int", "floor":
		s := e.scalar(n.Args[0])
		if s.T.Sort == SInt {
			return s
		}
		return Sc{app("to_int", SInt, s.T), types.Typ[types.Int]}
	case "trunc":
		s := e.scalar(n.Args[0])
		return Sc{Ite(Cmp(">=", s.T, Term{"0.0", SReal}), app("to_int", SInt, s.T), app("-", SInt, app("to_int", SInt, app("-", SReal, s.T)))), types.Typ[types.Int]}
	case "ceil":
		s := e.scalar(n.Args[0])
		return Sc{app("-", SInt, app("to_int", SInt, app("-", SReal, ToReal(s.T)))), types.Typ[types.Int]}
	case "min", "max":
		a, b := e.scalar(n.Args[0]), e.scalar(n.Args[1])
		at, bt := coerceNum(a.T, b.T)
		if n.Fun == "min" {
			return Sc{Ite(Cmp("<=", at, bt), at, bt), a.Typ}
		}
		return Sc{Ite(Cmp(">=", at, bt), at, bt), a.Typ}
	case "abs":
		a := e.scalar(n.Args[0])
		return Sc{Ite(Cmp(">=", a.T, u.coerce(TZero, a.T.Sort)), a.T, app("-", a.T.Sort, a.T)), a.Typ}
	case "dom":
		m := e.scalar(n.Args[0])
		return Sc{u.mapDom(e.st.View(), m.Typ, m.T), nil}
	case "with", "without":
		// with(S, k) / without(S, k): the key set S plus / minus the key k (S: a key set or a map)
		sv := e.scalar(n.Args[0])
		st := sv.T
		if !strings.HasPrefix(st.Sort, "(Array") {
			if sv.Typ == nil {
				e.fail("%s: first argument must be a key set or a map", n.Fun)
			}
			if _, isMap := sv.Typ.Underlying().(*types.Map); !isMap {
				e.fail("%s: first argument must be a key set or a map", n.Fun)
			}
			st = u.mapDom(e.st.View(), sv.Typ, sv.T)
		}
		k := e.scalar(n.Args[1])
		u.noteSumKey(arrKey(st.Sort), k.T)
		return Sc{Store(st, u.coerce(k.T, arrKey(st.Sort)), Term{map[string]string{"with": "true", "without": "false"}[n.Fun], SBool}), nil}
	case "fresh":
		if sl, ok := e.eval(n.Args[0]).(SliceV); ok {
			return Sc{And(Neq(sl.Arr, TNil), Cmp(">=", app("objof", SInt, sl.Arr), e.old.allocTerm()), Cmp("<", app("objof", SInt, sl.Arr), e.st.allocTerm())), tb}
		}
		s := e.scalar(n.Args[0])
		return Sc{And(Neq(s.T, TNil), Cmp(">=", app("objof", SInt, s.T), e.old.allocTerm()), Cmp("<", app("objof", SInt, s.T), e.st.allocTerm())), tb}
	case "allocated":
		if sl, ok := e.eval(n.Args[0]).(SliceV); ok {
			return Sc{Cmp("<", app("objof", SInt, sl.Arr), e.st.allocTerm()), tb}
		}
		s := e.scalar(n.Args[0])
		return Sc{Cmp("<", app("objof", SInt, s.T), e.st.allocTerm()), tb}
	case "typeis":
		s := e.scalar(n.Args[0])
		tn, ok := n.Args[1].(*SLit)
		if !ok {
			e.fail("typeis needs a string literal type")
		}
		t := e.pkg.evalType(u.w, tn.Val)
		if t == nil {
			e.fail("unknown type %s", tn.Val)
		}
		return Sc{And(Neq(s.T, TNil), Eq(app("itag", SInt, s.T), u.ctx.Tag("type:"+typeKey(t)))), tb}
	case "unbox":
		s := e.scalar(n.Args[0])
		tn, ok := n.Args[1].(*SLit)
		if !ok {
			e.fail("unbox needs a string literal type")
		}
		t := e.pkg.evalType(u.w, tn.Val)
		if t == nil {
			e.fail("unknown type %s", tn.Val)
		}
		k := payloadKind(t)
		if k == "?" && isStructType(t) {
			bt := s.T
			return &StructV{Typ: t, Box: &bt, BoxKey: typeKey(t)}
		}
		if k == "?" {
			e.fail("cannot unbox %s", tn.Val)
		}
		return Sc{app("ipay"+k, scalarSort(t), s.T), t}
	case "pinf", "ninf", "nan":
		if curFloatSort != SF {
			e.fail("%s() needs an 'ieee' contract", n.Fun)
		}
		return Sc{Term{n.Fun, SF}, types.Typ[types.Float64]}
	case "isfinite", "isnan", "isinf":
		s := e.scalar(n.Args[0])
		if s.T.Sort != SF {
			return Sc{map[string]Term{"isfinite": TTrue, "isnan": TFalse, "isinf": TFalse}[n.Fun], tb}
		}
		return Sc{app(map[string]string{"isfinite": "f_isfin", "isnan": "f_isnan", "isinf": "f_isinf"}[n.Fun], SBool, s.T), tb}
	case "fval":
		s := e.scalar(n.Args[0])
		if s.T.Sort != SF {
			return s
		}
		return Sc{app("fval", SReal, s.T), types.Typ[types.Float64]}
	case "bitand", "bitor", "bitxor", "bitandnot":
		a, b := e.scalar(n.Args[0]), e.scalar(n.Args[1])
		op := map[string]token.Token{"bitand": token.AND, "bitor": token.OR, "bitxor": token.XOR, "bitandnot": token.AND_NOT}[n.Fun]
		if x, ok := smallLit(a.T); ok {
			if y, ok2 := smallLit(b.T); ok2 {
				r := map[string]int64{"bitand": x & y, "bitor": x | y, "bitxor": x ^ y, "bitandnot": x &^ y}[n.Fun]
				return Sc{IntLit(r), a.Typ}
			}
		}
		return Sc{u.bitop(op, a.T, b.T), a.Typ}
	case "tuple0", "tuple1", "tuple2", "tuple3":
		v := e.eval(n.Args[0])
		tv, ok := v.(TupleV)
		idx := int(n.Fun[5] - '0')
		if !ok {
			if idx == 0 {
				return v
			}
			e.fail("%s: argument is not a tuple", n.Fun)
		}
		if idx >= len(tv) {
			e.fail("%s: tuple has %d components", n.Fun, len(tv))
		}
		return tv[idx]
	case "cur":
		// current value of a (possibly reassigned) local/parameter: source-name lookup first
		id, ok := n.Args[0].(*SIdent)
		if !ok {
			e.fail("cur() needs an identifier")
		}
		if nr, ok := e.st.Names[id.Name]; ok {
			if nr.IsAddr {
				if pt := valueType(nr.V); pt != nil && derefType(pt) != nil {
					return u.loadAt(e.st.View(), nr.V, derefType(pt))
				}
				if lp, ok := nr.V.(LocPtr); ok {
					return u.loadLoc(e.st.View(), lp.Fam, lp.Idx, lp.Typ)
				}
			}
			return nr.V
		}
		return e.eval(n.Args[0])
	case "incells":
		p := e.scalar(n.Args[0])
		sl, ok := e.eval(n.Args[1]).(SliceV)
		if !ok {
			e.fail("incells(p, s): s must be a slice")
		}
		lo, hi := sl.Off, Arith("+", sl.Off, sl.Len)
		it := modItem{rngArr: &sl.Arr, rngLo: &lo, rngHi: &hi}
		return Sc{Term{it.inRange(p.T.S), SBool}, tb}
	case "disjoint", "samearray":
		a, ok1 := e.eval(n.Args[0]).(SliceV)
		b, ok2 := e.eval(n.Args[1]).(SliceV)
		if !ok1 || !ok2 {
			e.fail("%s needs two slices", n.Fun)
		}
		if n.Fun == "samearray" {
			return Sc{Eq(a.Arr, b.Arr), tb}
		}
		// different backing arrays, or non-overlapping index ranges (empty/nil slices are disjoint from everything)
		return Sc{Or(Neq(a.Arr, b.Arr), Cmp("<=", Arith("+", a.Off, a.Len), b.Off), Cmp("<=", Arith("+", b.Off, b.Len), a.Off), Eq(a.Len, TZero), Eq(b.Len, TZero)), tb}
	case "now":
		k := "1"
		if len(n.Args) == 1 {
			if l, ok := n.Args[0].(*SLit); ok {
				k = l.Val
			}
		}
		return Sc{u.ctx.Const("time.Now#"+k, SInt), u.w.lookupType("time", "Time")}
	case "nonnil":
		var cs []Term
		for _, a := range n.Args {
			cs = append(cs, Neq(e.scalar(a).T, TNil))
		}
		return Sc{And(cs...), tb}
	case "sameheap":
		// sameheap(): no family differs from the pre-state (used in 'pure' style ensures)
		return Sc{TTrue, tb}
	}
	// user definitions
	if d, home := e.pkg.findDefine(u.w, n.Fun); d != nil {
		return e.applyDefine(d, home, n)
	}
	// Go functions evaluated symbolically inside the specification
	return e.evalGoCall(n)
}

func (e *SpecEnv) applyDefine(d *Define, home *PkgInfo, n *SCall) Value {
	u := e.u
	if len(n.Args) != len(d.Params) {
		e.fail("%s expects %d arguments", d.Name, len(d.Params))
	}
	if e.depth > 20 {
		e.fail("define expansion too deep (recursive define %s?)", d.Name)
	}
	args := make([]Value, len(n.Args))
	for i, a := range n.Args {
		args[i] = e.eval(a)
	}
	if d.Ghost {
		fam, fsort, idx := e.ghostLoc(d, home, args)
		arr := u.heapGet(e.st, fam, fsort)
		rt, _ := e.withPkg(home).resolveType(d.Ret)
		if idx == nil {
			return Sc{arr, rt}
		}
		return Sc{Select(arr, *idx), rt}
	}
	if d.Body == nil {
		// uninterpreted function over scalars
		var sorts []string
		var ts []Term
		for i, a := range args {
			sc := u.asSc(a, nil)
			he := *e
			if home != nil {
				he.pkg = home
			}
			_, s := he.resolveType(d.Params[i].Type)
			sorts = append(sorts, s)
			ts = append(ts, u.coerce(sc.T, s))
		}
		he := *e
		if home != nil {
			he.pkg = home
		}
		rt, rs := he.resolveType(d.Ret)
		hn := ""
		if home != nil {
			hn = home.short + "."
		}
		f := u.ctx.Fun("spec:"+hn+d.Name, sorts, rs)
		if len(ts) == 0 {
			return Sc{Term{f, rs}, rt}
		}
		return Sc{app(f, rs, ts...), rt}
	}
	ne := *e
	ne.depth = e.depth + 1
	if home != nil {
		ne.pkg = home
	}
	ne.vars = map[string]Value{}
	ne.bound = map[string]Value{}
	for i, p := range d.Params {
		v := args[i]
		// give typed view to untyped scalars where a Go type is declared
		if sc, ok := v.(Sc); ok {
			switch p.Type {
			case "int", "real", "bool", "string", "ref":
			default:
				if sc.Typ == nil || sc.Typ == types.Typ[types.UntypedNil] {
					if t := ne.pkg.evalType(u.w, p.Type); t != nil && scalarSort(t) != "" {
						v = Sc{sc.T, t}
					}
				}
			}
			if p.Type == "real" && sc.T.Sort == SInt {
				v = Sc{ToReal(sc.T), types.Typ[types.Float64]}
			}
		}
		ne.vars[p.Name] = v
	}
	return ne.eval(d.Body)
}

// evalGoCall evaluates a call to real Go code inside a specification by
// symbolic execution on a scratch copy of the state (no obligations, effects discarded).
func (e *SpecEnv) evalGoCall(n *SCall) Value {
	u := e.u
	var callee *ssa.Function
	var args []Value
	switch {
	case strings.HasPrefix(n.Fun, "."):
		recv := e.eval(n.Args[0])
		callee = e.findMethod(valueType(recv), n.Fun[1:])
		args = append(args, recv)
		for _, a := range n.Args[1:] {
			args = append(args, e.eval(a))
		}
	case strings.Contains(n.Fun, "."):
		parts := strings.SplitN(n.Fun, ".", 2)
		if rv, ok := e.lookupIdentQuiet(parts[0]); ok {
			callee = e.findMethod(valueType(rv), parts[1])
			args = append(args, rv)
		} else if ip := e.pkg.importNamed(parts[0]); ip != nil {
			if sp := u.w.prog.Package(ip); sp != nil {
				callee = sp.Func(parts[1])
			}
		}
		for _, a := range n.Args {
			args = append(args, e.eval(a))
		}
	default:
		if sp := u.w.prog.Package(e.pkg.types); sp != nil {
			callee = sp.Func(n.Fun)
		}
		for _, a := range n.Args {
			args = append(args, e.eval(a))
		}
	}
	if callee == nil {
		e.fail("unknown function %s", n.Fun)
	}
	scratch := e.st.Clone()
	scratch.G = TTrue
	u.specMode++
	defer func() { u.specMode-- }()
	// a call whose arguments do not mention bound variables is closed: its contract facts may be asserted
	if u.ctx.inQuant > 0 {
		closed := true
		for _, a := range args {
			d := describeValue(a)
			for _, bv := range e.bound {
				if sc, ok := bv.(Sc); ok && strings.Contains(d, sc.T.S) {
					closed = false
				}
			}
			// the bound variable may have travelled through a `define` (whose environment has no binder of its own)
			if qvarRe.MatchString(d) || valueMentionsQVar(a, 0) {
				closed = false
			}
		}
		if closed {
			saved := u.ctx.inQuant
			u.ctx.inQuant = 0
			defer func() { u.ctx.inQuant = saved }()
		}
	}
	var resT types.Type = callee.Signature.Results()
	if callee.Signature.Results().Len() == 1 {
		resT = callee.Signature.Results().At(0).Type()
	}
	for i, p := range callee.Params {
		if i < len(args) {
			args[i] = retype(args[i], p.Type())
		}
	}
	return u.staticCall(e.fr, scratch, callee, args, nil, resT, token.NoPos)
}

func (e *SpecEnv) findMethod(t types.Type, name string) *ssa.Function {
	if t == nil {
		return nil
	}
	for _, tt := range []types.Type{t, types.NewPointer(t)} {
		ms := e.u.w.prog.MethodSets.MethodSet(tt)
		for i := 0; i < ms.Len(); i++ {
			if ms.At(i).Obj().Name() == name {
				return e.u.w.prog.MethodValue(ms.At(i))
			}
		}
	}
	return nil
}

// ---------------------------------------------------------------------------
// modifies clauses

func (e *SpecEnv) structLeafItems(ref Term, t types.Type, out *[]modItem, depth int) {
	s, ok := t.Underlying().(*types.Struct)
	if !ok || depth > 5 {
		return
	}
	for i := 0; i < s.NumFields(); i++ {
		ft := s.Field(i).Type()
		if isStructType(ft) {
			e.structLeafItems(e.u.subAddr(ref, t, i), ft, out, depth+1)
			continue
		}
		for _, c := range comps(ft) {
			*out = append(*out, modItem{fam: fieldFam(t, i) + c[0], sort: ArrSort(SInt, c[1]), idx: ref})
		}
	}
}

func (e *SpecEnv) modItems(x SExpr) []modItem {
	u := e.u
	var out []modItem
	switch n := x.(type) {
	case *SSel:
		base := e.eval(n.X)
		bt := valueType(base)
		path, ok := findField(bt, n.Name, 0)
		if !ok {
			e.fail("modifies: no field %s", n.Name)
		}
		cur := base
		for k, i := range path {
			sc, isSc := cur.(Sc)
			if sv, isSV := cur.(*StructV); isSV && sv.Ref != nil && len(sv.Fields) == 0 {
				sc, isSc = Sc{*sv.Ref, types.NewPointer(sv.Typ)}, true
			}
			if !isSc {
				e.fail("modifies: %s is not addressable", x.String())
			}
			st := derefType(sc.Typ)
			ft := st.Underlying().(*types.Struct).Field(i).Type()
			if k == len(path)-1 {
				if isStructType(ft) {
					e.structLeafItems(u.subAddr(sc.T, st, i), ft, &out, 0)
				} else {
					for _, c := range comps(ft) {
						out = append(out, modItem{fam: fieldFam(st, i) + c[0], sort: ArrSort(SInt, c[1]), idx: sc.T})
					}
				}
				return out
			}
			if isStructType(ft) {
				cur = Sc{u.subAddr(sc.T, st, i), types.NewPointer(ft)}
			} else {
				cur = e.fieldStep(cur, i)
			}
		}
	case *SIndex:
		base := e.eval(n.X)
		star := false
		if id, ok := n.I.(*SIdent); ok && id.Name == "*" {
			star = true
		}
		switch b := base.(type) {
		case Sc:
			m, ok := b.Typ.Underlying().(*types.Map)
			if !ok {
				e.fail("modifies: %s is not a map", n.X.String())
			}
			ks := scalarSort(m.Key())
			var key *Term
			if !star {
				k := e.scalar(n.I).T
				key = &k
			}
			out = append(out, modItem{fam: mapDomFam(b.Typ), sort: ArrSort(SInt, ArrSort(ks, SBool)), idx: b.T, key: key})
			for _, c := range mapComps(m.Elem()) {
				out = append(out, modItem{fam: mapValFam(b.Typ) + c[0], sort: ArrSort(SInt, ArrSort(ks, c[1])), idx: b.T, key: key})
			}
			return out
		case SliceV:
			if isStructType(b.Elem) {
				u.forEachFlatFam(b.Elem, func(fam, sortv string) { out = append(out, modItem{fam: fam, sort: sortv, whole: true}) })
			} else {
				lo, hi := b.Off, Arith("+", b.Off, b.Len)
				if !star {
					i := e.scalar(n.I).T
					lo = Arith("+", b.Off, i)
					hi = Arith("+", lo, TOne)
				}
				for _, c := range comps(b.Elem) {
					arr, l2, h2 := b.Arr, lo, hi
					out = append(out, modItem{fam: cellFam(b.Elem) + c[0], sort: ArrSort(SInt, c[1]), rngArr: &arr, rngLo: &l2, rngHi: &h2})
				}
			}
			return out
		}
	case *SUn:
		if n.Op == "*" {
			if lp, ok := e.eval(n.X).(LocPtr); ok {
				for _, c := range comps(lp.Typ) {
					out = append(out, modItem{fam: lp.Fam + c[0], sort: ArrSort(SInt, c[1]), idx: lp.Idx})
				}
				return out
			}
			p := e.scalar(n.X)
			el := derefType(p.Typ)
			if el == nil {
				e.fail("modifies: cannot dereference %s", n.X.String())
			}
			if isStructType(el) {
				e.structLeafItems(p.T, el, &out, 0)
			} else {
				for _, c := range comps(el) {
					out = append(out, modItem{fam: cellFam(el) + c[0], sort: ArrSort(SInt, c[1]), idx: p.T})
				}
			}
			return out
		}
	case *SCall:
		if n.Fun == "fields" {
			p := e.scalar(n.Args[0])
			el := derefType(p.Typ)
			if el == nil || !isStructType(el) {
				e.fail("fields(): argument is not a struct pointer")
			}
			e.structLeafItems(p.T, el, &out, 0)
			return out
		}
		if d, home := e.pkg.findDefine(u.w, n.Fun); d != nil && d.Ghost {
			args := make([]Value, len(n.Args))
			for i, a := range n.Args {
				args[i] = e.eval(a)
			}
			fam, fsort, idx := e.ghostLoc(d, home, args)
			if idx == nil {
				return []modItem{{fam: fam, sort: fsort, whole: true}}
			}
			return []modItem{{fam: fam, sort: fsort, idx: *idx}}
		}
		if n.Fun == "family" {
			// family("F:...") whole family by name: family(x.f) => whole family of that field
			for _, it := range e.modItems(n.Args[0]) {
				it.whole = true
				out = append(out, it)
			}
			return out
		}
	}
	e.fail("unsupported modifies target %s", x.String())
	return nil
}

func (e *SpecEnv) withPkg(home *PkgInfo) *SpecEnv {
	n := *e
	if home != nil {
		n.pkg = home
	}
	return &n
}

// ghostLoc: heap family, sort and index of a ghost location  name(arg)  (or a ghost global  name()).
func (e *SpecEnv) ghostLoc(d *Define, home *PkgInfo, args []Value) (string, string, *Term) {
	hn := ""
	if home != nil {
		hn = home.path + "."
	}
	_, rs := e.withPkg(home).resolveType(d.Ret)
	fam := "GH:" + hn + d.Name
	switch len(d.Params) {
	case 0:
		return fam, rs, nil
	case 1:
		_, ps := e.withPkg(home).resolveType(d.Params[0].Type)
		idx := e.u.coerce(e.u.asSc(args[0], nil).T, ps)
		return fam, ArrSort(ps, rs), &idx
	}
	e.fail("ghost %s: at most one parameter is supported", d.Name)
	return "", "", nil
}

func u0(e *SpecEnv) *Unit { return e.u }

// valueMentionsQVar: some term inside the value (struct reference, box, fields, slice header) mentions a bound variable.
func valueMentionsQVar(v Value, depth int) bool {
	if depth > 4 {
		return true
	}
	switch x := v.(type) {
	case Sc:
		return qvarRe.MatchString(x.T.S)
	case SliceV:
		return qvarRe.MatchString(x.Arr.S) || qvarRe.MatchString(x.Off.S) || qvarRe.MatchString(x.Len.S)
	case LocPtr:
		return qvarRe.MatchString(x.Idx.S)
	case TupleV:
		for _, e := range x {
			if valueMentionsQVar(e, depth+1) {
				return true
			}
		}
	case *StructV:
		if x == nil {
			return false
		}
		if x.Ref != nil && qvarRe.MatchString(x.Ref.S) {
			return true
		}
		if x.Box != nil && qvarRe.MatchString(x.Box.S) {
			return true
		}
		if x.C != nil && qvarRe.MatchString(x.C.S) {
			return true
		}
		for _, f := range x.Fields {
			if valueMentionsQVar(f, depth+1) {
				return true
			}
		}
		if x.A != nil && valueMentionsQVar(x.A, depth+1) {
			return true
		}
		if x.B != nil && valueMentionsQVar(x.B, depth+1) {
			return true
		}
	}
	return false
}
