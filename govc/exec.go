package main

import (
	"os"
	"fmt"
	"go/constant"
	"go/token"
	"go/types"
	"math/big"
	"strings"

	"golang.org/x/tools/go/ssa"
)

type Obligation struct {
	Name   string
	Kind   string
	Func   string
	Desc   string
	Pos    string
	Goal   Term
	Prefix int
	Cover  bool // reachability check: expected sat
	Tag    string
}

// Unit verifies one function body against its contract.
type Unit struct {
	havocRoots  []*ssa.Function // set right before havocAll: what the havoc stands for
	havocSelf   *ssa.Function
	havocRooted bool
	pureMemo map[string][]Value
	w        *World
	pkg      *PkgInfo
	fn       *ssa.Function
	c        *Contract
	ctx      *SMTCtx
	obls     []*Obligation
	counters map[string]int
	unsup    []string
	hids     []hidRec
	hidMemo  map[string]Term
	famSort  map[string]string
	written  map[string]bool
	subSeen  map[string]bool
	havocAlls []string
	havocGuards []Term
	inlineStack []*ssa.Function
	specMode int // >0: evaluating Go code inside a specification (no obligations)
	oblSuffix string
	assumptionsUsed map[string]bool
	pre      *State // function entry state (for old())
	preView  *HeapView
	frames   []*frame
	ieee     bool
	closureN int
	closures map[string]*ClosureV
	specErrs []string
	scanEntry *State
	nowN int
	measure0 *Term
	retVals []Value // merged results of the top-level function (for replay)
	relevant map[string]bool // nil = every family; else families worth copying in struct appends
	usedStructAppend bool
	inAppendCopy int
	touched map[string]bool
	curVisited string
	sumSt      *sumState
	appendLens []Term // lengths of the first operands of appends executed so far (shifted instantiation points)
}

// frame is one activation (the unit's function or an inlined callee).
type frame struct {
	fn      *ssa.Function
	c       *Contract
	loops   *loopInfo
	rets    []retState
	params  map[string]Value
	entry   *State
	isTop   bool
	phiOverride map[*ssa.Phi]Value
}

type retState struct {
	st   *State
	vals []Value
}

func (u *Unit) unsupported(msg string) {
	for _, m := range u.unsup {
		if m == msg {
			return
		}
	}
	u.unsup = append(u.unsup, msg)
}

func (u *Unit) posOf(p token.Pos) string {
	if !p.IsValid() {
		return ""
	}
	pp := u.w.fset.Position(p)
	return fmt.Sprintf("%s:%d", strings.TrimPrefix(pp.Filename, "/repo/"), pp.Line)
}

func (u *Unit) oblige(st *State, kind, desc string, pos token.Pos, goal Term, tag string) {
	if u.specMode > 0 {
		return
	}
	u.counters[kind]++
	name := fmt.Sprintf("%s/%s#%d", u.unitName(), kind, u.counters[kind])
	if tag != "" {
		name = fmt.Sprintf("%s/%s[%s]", u.unitName(), kind, tag)
		if u.counters[kind+tag] > 0 {
			name = fmt.Sprintf("%s#%d", name, u.counters[kind+tag]+1)
		}
		u.counters[kind+tag]++
	}
	goal = u.skolemizeGoal(goal)
	g := Implies(st.G, goal)
	u.obls = append(u.obls, &Obligation{Name: name, Kind: kind, Func: u.unitName(), Desc: desc, Pos: u.posOf(pos), Goal: g, Prefix: len(u.ctx.asserts), Tag: tag})
}

func (u *Unit) cover(st *State, desc string, pos token.Pos) {
	if u.specMode > 0 {
		return
	}
	u.counters["cover"]++
	name := fmt.Sprintf("%s/cover#%d", u.unitName(), u.counters["cover"])
	// cover: guard must be satisfiable => query (assert guard) expects sat. We encode goal = not guard, Cover=true.
	u.obls = append(u.obls, &Obligation{Name: name, Kind: "cover", Func: u.unitName(), Desc: desc, Pos: u.posOf(pos), Goal: Not(st.G), Prefix: len(u.ctx.asserts), Cover: true})
}

func (u *Unit) unitName() string { return u.pkg.short + "." + funcKey(u.fn) }

func (u *Unit) assume(st *State, t Term, note string) {
	u.ctx.Assert(Implies(st.G, t), note)
}

// ---------------------------------------------------------------------------
// constants

func (u *Unit) constValue(c *ssa.Const) Value {
	t := c.Type()
	if c.Value == nil {
		// zero / nil
		return u.zeroValue(t)
	}
	if s, ok := isOpaqueScalar(t); ok {
		return Sc{u.zeroTerm(s), t}
	}
	switch tt := t.Underlying().(type) {
	case *types.Basic:
		switch {
		case tt.Info()&types.IsBoolean != 0:
			if constant.BoolVal(c.Value) {
				return Sc{TTrue, t}
			}
			return Sc{TFalse, t}
		case tt.Info()&types.IsInteger != 0:
			v := constant.ToInt(c.Value)
			bi, ok := new(big.Int).SetString(v.ExactString(), 10)
			if !ok {
				u.unsupported("integer constant " + v.ExactString())
				return Sc{TZero, t}
			}
			return Sc{BigIntLit(bi), t}
		case tt.Info()&types.IsFloat != 0:
			return Sc{u.floatConst(c.Value), t}
		case tt.Info()&types.IsString != 0:
			return Sc{u.ctx.StrLit(constant.StringVal(c.Value)), t}
		}
	}
	u.unsupported("constant of type " + shortType(t))
	return u.freshValue(t, "const")
}

func (u *Unit) floatConst(v constant.Value) Term {
	f := constant.ToFloat(v)
	r, ok := new(big.Rat).SetString(f.ExactString())
	if !ok {
		u.unsupported("float constant " + f.ExactString())
		return u.zeroTerm(curFloatSort)
	}
	if curFloatSort == SF {
		return toF(RatLit(r))
	}
	return RatLit(r)
}

// ---------------------------------------------------------------------------
// operand evaluation

func (u *Unit) val(st *State, v ssa.Value) Value {
	switch x := v.(type) {
	case *ssa.Const:
		return u.constValue(x)
	case *ssa.Global:
		return u.globalAddr(x)
	case *ssa.Function:
		return &ClosureV{Fn: x, ID: u.funcID(x)}
	case *ssa.Builtin:
		return Sc{TZero, x.Type()}
	}
	if r, ok := st.Env[v]; ok {
		return r
	}
	// values from enclosing function (free vars) are bound in Env by inlining / closures
	u.unsupported("use of undefined SSA value " + v.Name() + " in " + u.fn.Name())
	r := u.freshValue(v.Type(), "undef")
	st.Env[v] = r
	return r
}

func (u *Unit) funcID(f *ssa.Function) Term {
	return u.ctx.Tag("func:" + f.String())
}

// globalAddr: globals are cells. Struct-typed globals get a constant address.
func (u *Unit) globalAddr(g *ssa.Global) Value {
	name := g.Pkg.Pkg.Path() + "." + g.Name()
	elem := derefType(g.Type())
	if isStructType(elem) || isArrayType(elem) {
		a := u.ctx.Const("gaddr:"+name, SInt)
		if !u.subSeen[a.S] {
			u.subSeen[a.S] = true
			u.ctx.Assert(And(Cmp(">", a, TZero), Cmp("<", app("objof", SInt, a), u.pre0Alloc())), "global-addr")
		}
		return Sc{a, g.Type()}
	}
	return LocPtr{Fam: "G:" + name, Idx: TZero, Typ: elem}
}

func (u *Unit) pre0Alloc() Term { return u.ctx.Const("alloc@0", SInt) }

// ---------------------------------------------------------------------------
// instruction semantics

func (u *Unit) nilCheck(st *State, p Value, pos token.Pos, what string) {
	sc, ok := p.(Sc)
	if !ok {
		return // LocPtr etc. are never nil
	}
	if u.noPanic() {
		u.oblige(st, "nopanic", "nil dereference: "+what, pos, Neq(sc.T, TNil), "")
	}
	// continue under the assumption (execution past the point implies non-nil)
	st.G = u.ctx.Named("g", And(st.G, Neq(sc.T, TNil)))
}

func (u *Unit) noPanic() bool {
	return u.c == nil || u.c.NoPanic
}

func (u *Unit) panicIf(st *State, bad Term, pos token.Pos, what string) {
	if u.noPanic() {
		u.oblige(st, "nopanic", what, pos, Not(bad), "")
	}
	st.G = u.ctx.Named("g", And(st.G, Not(bad)))
}

func (u *Unit) execInstr(fr *frame, st *State, ins ssa.Instruction) {
	switch x := ins.(type) {
	case *ssa.DebugRef:
		if id, ok := x.Expr.(interface{ String() string }); ok {
			_ = id
		}
		if obj := x.Object(); obj != nil {
			if prev, ok := st.Names[obj.Name()]; ok && prev.IsAddr && !x.IsAddr {
				// the variable lives in memory (address-taken local): a value reference must not shadow its cell
				if _, isParam := x.X.(*ssa.Parameter); !isParam {
					break
				}
			}
			st.Names[obj.Name()] = nameRef{V: u.val(st, x.X), IsAddr: x.IsAddr}
		}
	case *ssa.Alloc:
		st.Env[x] = u.execAlloc(st, x)
		if x.Comment != "" {
			st.Names[x.Comment] = nameRef{V: st.Env[x], IsAddr: true}
		}
	case *ssa.FieldAddr:
		base := u.val(st, x.X)
		u.nilCheck(st, base, x.Pos(), "field access ."+fieldName(x.X.Type(), x.Field))
		st.Env[x] = u.fieldAddr(base, derefType(x.X.Type()), x.Field)
	case *ssa.Field:
		sv, ok := u.val(st, x.X).(*StructV)
		if !ok {
			// opaque scalar wrappers (metav1.Time{Time}) -> identity
			if sc, ok2 := u.val(st, x.X).(Sc); ok2 {
				st.Env[x] = Sc{sc.T, x.Type()}
				return
			}
			u.unsupported("Field of non-struct value")
			st.Env[x] = u.freshValue(x.Type(), "fld")
			return
		}
		st.Env[x] = u.fieldOfStruct(sv, x.Field)
	case *ssa.UnOp:
		st.Env[x] = u.execUnOp(st, x)
	case *ssa.BinOp:
		st.Env[x] = u.execBinOp(st, x.Op, u.val(st, x.X), u.val(st, x.Y), x.X.Type(), x.Type(), x.Pos())
	case *ssa.Store:
		p := u.val(st, x.Addr)
		u.nilCheck(st, p, x.Pos(), "store through nil pointer")
		u.storeAt(st, p, derefType(x.Addr.Type()), u.val(st, x.Val))
	case *ssa.Phi:
		// handled at block entry
	case *ssa.ChangeType:
		st.Env[x] = retype(u.val(st, x.X), x.Type())
	case *ssa.ChangeInterface:
		st.Env[x] = retype(u.val(st, x.X), x.Type())
	case *ssa.Convert:
		st.Env[x] = u.execConvert(st, x)
	case *ssa.MakeInterface:
		st.Env[x] = u.makeInterface(u.val(st, x.X), x.X.Type(), x.Type())
	case *ssa.TypeAssert:
		st.Env[x] = u.execTypeAssert(st, x)
	case *ssa.Extract:
		tv, ok := u.val(st, x.Tuple).(TupleV)
		if !ok || x.Index >= len(tv) {
			u.unsupported("extract from non-tuple")
			st.Env[x] = u.freshValue(x.Type(), "ext")
			return
		}
		st.Env[x] = retype(tv[x.Index], x.Type())
	case *ssa.MakeMap:
		st.Env[x] = u.execMakeMap(st, x.Type())
	case *ssa.MakeSlice:
		st.Env[x] = u.execMakeSlice(st, x)
	case *ssa.Lookup:
		st.Env[x] = u.execLookup(st, x)
	case *ssa.MapUpdate:
		u.execMapUpdate(st, x)
	case *ssa.IndexAddr:
		st.Env[x] = u.execIndexAddr(st, x)
	case *ssa.Index:
		u.unsupported("Index on array/string value")
		st.Env[x] = u.freshValue(x.Type(), "idx")
	case *ssa.Slice:
		st.Env[x] = u.execSlice(st, x)
	case *ssa.Range:
		id := fmt.Sprintf("%s@%d", x.Name(), len(u.inlineStack))
		st.Env[x] = &RangeIterV{Map: u.val(st, x.X), ID: id}
		if m, ok := x.X.Type().Underlying().(*types.Map); ok {
			ks := scalarSort(m.Key())
			if ks == "" {
				u.unsupported("range over map with non-scalar key")
				ks = SInt
			}
			st.Ghost["visited:"+id] = Term{"((as const " + ArrSort(ks, SBool) + ") false)", ArrSort(ks, SBool)}
		} else {
			u.unsupported("range over " + shortType(x.X.Type()))
		}
	case *ssa.Next:
		st.Env[x] = u.execNext(st, x)
	case *ssa.MakeClosure:
		fn := x.Fn.(*ssa.Function)
		cv := &ClosureV{Fn: fn}
		for _, b := range x.Bindings {
			cv.Bind = append(cv.Bind, u.val(st, b))
		}
		u.closureN++
		cv.ID = u.ctx.Const(fmt.Sprintf("closure:%s#%d", fn.Name(), u.closureN), SInt)
		u.ctx.Assert(Eq(cv.ID, IntLit(int64(1000000000+u.closureN))), "closure-identity")
		u.closures[cv.ID.S] = cv
		st.Env[x] = cv
	case *ssa.Call:
		res := u.execCall(fr, st, &x.Call, x, x.Pos())
		st.Env[x] = res
	case *ssa.Defer:
		d := deferEntry{G: st.G, Call: &x.Call, Pos: x}
		for _, a := range x.Call.Args {
			d.Args = append(d.Args, u.val(st, a))
		}
		if !x.Call.IsInvoke() {
			d.Fn = u.val(st, x.Call.Value)
		} else {
			d.Fn = u.val(st, x.Call.Value)
		}
		st.Defers = append(st.Defers, d)
	case *ssa.RunDefers:
		u.runDefers(fr, st)
	case *ssa.Go:
		u.unsupported("go statement")
		u.havocAll(st, "go statement")
	case *ssa.Send, *ssa.Select:
		u.unsupported("channel operation")
		u.havocAll(st, "channel operation")
	case *ssa.SliceToArrayPointer, *ssa.MultiConvert:
		u.unsupported(fmt.Sprintf("%T", ins))
		if v, ok := ins.(ssa.Value); ok {
			st.Env[v] = u.freshValue(v.Type(), "unsup")
		}
	default:
		u.unsupported(fmt.Sprintf("instruction %T", ins))
		if v, ok := ins.(ssa.Value); ok {
			st.Env[v] = u.freshValue(v.Type(), "unsup")
		}
	}
}

func fieldName(ptrT types.Type, i int) string {
	t := derefType(ptrT)
	if t == nil {
		return "?"
	}
	if s, ok := t.Underlying().(*types.Struct); ok && i < s.NumFields() {
		return s.Field(i).Name()
	}
	return "?"
}

func retype(v Value, t types.Type) Value {
	switch x := v.(type) {
	case Sc:
		return Sc{x.T, t}
	case SliceV:
		if sl, ok := t.Underlying().(*types.Slice); ok {
			return SliceV{x.Arr, x.Off, x.Len, sl.Elem()}
		}
	case *StructV:
		if isStructType(t) {
			n := *x
			n.Typ = retypeStruct(x.Typ, t)
			return &n
		}
	}
	return v
}

// retypeStruct keeps the original named type for family naming when the
// conversion is between identical underlying structs (rare).
func retypeStruct(old, new types.Type) types.Type { return new }

func (u *Unit) fieldAddr(base Value, structT types.Type, i int) Value {
	// address of the single field of an opaque scalar wrapper (metav1.Time{Time}, metav1.Duration{Duration}): the
	// wrapper IS its field in the model, so the field lives in the wrapper's own cell
	if _, op := isOpaqueScalar(structT); op {
		if st0, isSt := structT.Underlying().(*types.Struct); isSt && st0.NumFields() == 1 {
			ft := st0.Field(0).Type()
			if scalarSort(ft) == scalarSort(structT) {
				switch b := base.(type) {
				case LocPtr:
					return LocPtr{Fam: b.Fam, Idx: b.Idx, Typ: ft}
				case Sc:
					return LocPtr{Fam: cellFam(structT), Idx: b.T, Typ: ft}
				}
			}
		}
	}
	sc, ok := base.(Sc)
	if !ok {
		u.unsupported("FieldAddr on non-reference pointer")
		return u.freshValue(types.NewPointer(structT.Underlying().(*types.Struct).Field(i).Type()), "fa")
	}
	ft := structT.Underlying().(*types.Struct).Field(i).Type()
	if isStructType(ft) || isArrayType(ft) {
		return Sc{u.subAddr(sc.T, structT, i), types.NewPointer(ft)}
	}
	return LocPtr{Fam: fieldFam(structT, i), Idx: sc.T, Typ: ft}
}

func (u *Unit) newObject(st *State) Term {
	r := st.allocTerm()
	u.ctx.Assert(Implies(st.G, Eq(app("objof", SInt, r), r)), "fresh-object")
	u.ctx.Assert(Implies(st.G, Eq(app("sub_key", SInt, r), TZero)), "fresh-object")
	st.AllocOff++
	return r
}

func (u *Unit) execAlloc(st *State, x *ssa.Alloc) Value {
	elem := derefType(x.Type())
	r := u.newObject(st)
	u.zeroInit(st, r, elem)
	return Sc{r, x.Type()}
}

func (u *Unit) zeroInit(st *State, r Term, elem types.Type) {
	switch {
	case isStructType(elem):
		if countFlatFields(elem, 0) <= 80 {
			u.storeStruct(st, r, elem, &StructV{Typ: elem, Zero: true})
		} else {
			u.note("large struct " + shortType(elem) + " allocated without zero-initialisation facts (over-approximation)")
		}
	case isArrayType(elem):
		// elements left unconstrained (over-approximation); varargs arrays are fully stored before use
	default:
		if comps(elem) != nil {
			u.storeLoc(st, cellFam(elem), r, elem, u.zeroValue(elem))
		}
	}
}

func (u *Unit) note(s string) {
	if u.assumptionsUsed == nil {
		u.assumptionsUsed = map[string]bool{}
	}
	u.assumptionsUsed[s] = true
}

func (u *Unit) execUnOp(st *State, x *ssa.UnOp) Value {
	v := u.val(st, x.X)
	switch x.Op {
	case token.MUL: // load
		u.nilCheck(st, v, x.Pos(), "load through nil pointer")
		if g, ok := x.X.(*ssa.Global); ok {
			if cv, ok := u.w.constGlobal(u, st, g); ok {
				return cv
			}
		}
		res := u.loadAt(st.View(), v, x.Type())
		u.assumeLoaded(st, res)
		return res
	case token.NOT:
		return Sc{Not(u.asSc(v, x.Type()).T), x.Type()}
	case token.SUB:
		sc := u.asSc(v, x.Type())
		if sc.T.Sort == SF {
			return Sc{app("f_neg", SF, sc.T), x.Type()}
		}
		return Sc{app("-", sc.T.Sort, sc.T), x.Type()}
	case token.XOR:
		u.unsupported("bitwise complement")
		return u.freshValue(x.Type(), "xor")
	case token.ARROW:
		u.unsupported("channel receive")
		return u.freshValue(x.Type(), "recv")
	}
	u.unsupported("unop " + x.Op.String())
	return u.freshValue(x.Type(), "unop")
}

// assumeLoaded records that references read from the heap are older than the
// allocation frontier.
func (u *Unit) assumeLoaded(st *State, v Value) {
	switch x := v.(type) {
	case Sc:
		if x.Typ != nil && (isPointerLike(x.Typ) || isInterfaceType(x.Typ)) && strings.HasPrefix(x.T.S, "(select") {
			u.ctx.Assert(Implies(st.G, And(Cmp("<", app("objof", SInt, x.T), st.allocTerm()), Cmp(">=", x.T, TZero))), "loaded-ref-old")
		}
	case SliceV:
		if strings.HasPrefix(x.Arr.S, "(select") {
			u.ctx.Assert(Implies(st.G, And(Cmp("<", app("objof", SInt, x.Arr), st.allocTerm()), Cmp(">=", x.Len, TZero), Cmp(">=", x.Off, TZero), Cmp(">=", x.Arr, TZero), Implies(Eq(x.Arr, TZero), Eq(x.Len, TZero)))), "loaded-slice-wf")
		}
	}
}

func truncDiv(a, b Term) Term {
	// Go integer division truncates toward zero
	na := app("-", SInt, a)
	nb := app("-", SInt, b)
	return Ite(Cmp(">=", a, TZero),
		Ite(Cmp(">", b, TZero), app("div", SInt, a, b), app("-", SInt, app("div", SInt, a, nb))),
		Ite(Cmp(">", b, TZero), app("-", SInt, app("div", SInt, na, b)), app("div", SInt, na, nb)))
}

func (u *Unit) execBinOp(st *State, op token.Token, a, b Value, opndT, resT types.Type, pos token.Pos) Value {
	// slices / structs: only nil comparisons / struct equality unsupported
	if sa, ok := a.(SliceV); ok {
		if sb, ok2 := b.(SliceV); ok2 {
			eq := Eq(sa.Arr, sb.Arr) // comparison with nil only is legal in Go
			if op == token.NEQ {
				eq = Not(eq)
			}
			return Sc{eq, resT}
		}
	}
	if _, ok := a.(*StructV); ok {
		return u.structEq(st, op, a, b, resT)
	}
	x := u.asSc(a, opndT)
	y := u.asSc(b, opndT)
	xt, yt := x.T, y.T
	isF := xt.Sort == SReal || yt.Sort == SReal
	_ = isF
	switch op {
	case token.ADD:
		if xt.Sort == SStr {
			return Sc{app("str_cat", SStr, xt, yt), resT}
		}
		return Sc{Arith("+", xt, yt), resT}
	case token.SUB:
		return Sc{Arith("-", xt, yt), resT}
	case token.MUL:
		return Sc{Arith("*", xt, yt), resT}
	case token.QUO:
		if xt.Sort == SInt && yt.Sort == SInt {
			u.panicIf(st, Eq(yt, TZero), pos, "integer division by zero")
			return Sc{u.ctx.Named("div", truncDiv(xt, yt)), resT}
		}
		if xt.Sort != SF && yt.Sort != SF && u.noPanic() {
			// real division by zero has no value in R: require a non-zero divisor
			u.oblige(st, "nopanic", "float division by zero (Real model)", pos, Neq(yt, u.coerce(TZero, yt.Sort)), "")
		}
		return Sc{Arith("/", xt, yt), resT}
	case token.REM:
		u.panicIf(st, Eq(yt, TZero), pos, "integer modulo by zero")
		q := u.ctx.Named("div", truncDiv(xt, yt))
		return Sc{Arith("-", xt, Arith("*", yt, q)), resT}
	case token.EQL:
		if xt.Sort == SF || yt.Sort == SF {
			return Sc{app("f_eq", SBool, toF(xt), toF(yt)), resT}
		}
		return Sc{Eq(xt, yt), resT}
	case token.NEQ:
		if xt.Sort == SF || yt.Sort == SF {
			return Sc{Not(app("f_eq", SBool, toF(xt), toF(yt))), resT}
		}
		return Sc{Neq(xt, yt), resT}
	case token.LSS, token.LEQ, token.GTR, token.GEQ:
		if xt.Sort == SStr {
			switch op {
			case token.LSS:
				return Sc{app("str_lt", SBool, xt, yt), resT}
			case token.GTR:
				return Sc{app("str_lt", SBool, yt, xt), resT}
			case token.LEQ:
				return Sc{Not(app("str_lt", SBool, yt, xt)), resT}
			default:
				return Sc{Not(app("str_lt", SBool, xt, yt)), resT}
			}
		}
		m := map[token.Token]string{token.LSS: "<", token.LEQ: "<=", token.GTR: ">", token.GEQ: ">="}
		return Sc{Cmp(m[op], xt, yt), resT}
	case token.LAND:
		return Sc{And(xt, yt), resT}
	case token.LOR:
		return Sc{Or(xt, yt), resT}
	case token.SHL:
		if n, ok := smallLit(yt); ok && n < 63 {
			return Sc{Arith("*", xt, IntLit(1<<uint(n))), resT}
		}
		f := u.ctx.Fun("pow2", []string{SInt}, SInt)
		p := app(f, SInt, yt)
		u.ctx.Assert(Cmp(">=", p, TOne), "pow2-positive")
		return Sc{Arith("*", xt, p), resT}
	case token.SHR:
		if n, ok := smallLit(yt); ok && n < 63 {
			return Sc{app("div", SInt, xt, IntLit(1<<uint(n))), resT}
		}
	case token.AND, token.OR, token.XOR, token.AND_NOT:
		if xa, ok := smallLit(xt); ok {
			if ya, ok2 := smallLit(yt); ok2 {
				var r int64
				switch op {
				case token.AND:
					r = xa & ya
				case token.OR:
					r = xa | ya
				case token.XOR:
					r = xa ^ ya
				default:
					r = xa &^ ya
				}
				return Sc{IntLit(r), resT}
			}
		}
		if xt.Sort == SBool {
			switch op {
			case token.AND:
				return Sc{And(xt, yt), resT}
			case token.OR:
				return Sc{Or(xt, yt), resT}
			}
		}
		return Sc{u.bitop(op, xt, yt), resT}
	}
	u.unsupported("binop " + op.String())
	return u.freshValue(resT, "binop")
}

// bitop models bitwise operators on non-negative 16-bit masks by explicit
// bit decomposition via uninterpreted functions with defining axioms on
// literals; generic operands stay uninterpreted.
func (u *Unit) bitop(op token.Token, a, b Term) Term {
	// exact encoding when one operand is a non-negative constant mask
	if m, ok := smallLit(b); ok && m >= 0 {
		return bitopConst(op, a, m, false)
	}
	if m, ok := smallLit(a); ok && m >= 0 {
		return bitopConst(op, b, m, true)
	}
	name := map[token.Token]string{token.AND: "bit_and", token.OR: "bit_or", token.XOR: "bit_xor", token.AND_NOT: "bit_andnot"}[op]
	f := u.ctx.Fun(name, []string{SInt, SInt}, SInt)
	u.note("bitwise operator " + name + " on two non-constant operands is uninterpreted")
	return app(f, SInt, a, b)
}

// andConst: x & M for a constant M >= 0 as a sum over the set bits of M
// (floor div/mod: exact for two's-complement semantics on all integers).
func andConst(x Term, m int64) Term {
	var parts []Term
	for k := uint(0); k < 62; k++ {
		b := int64(1) << k
		if m&b == 0 {
			continue
		}
		bit := app("mod", SInt, app("div", SInt, x, IntLit(b)), IntLit(2))
		if b == 1 {
			bit = app("mod", SInt, x, IntLit(2))
			parts = append(parts, bit)
		} else {
			parts = append(parts, app("*", SInt, IntLit(b), bit))
		}
	}
	if len(parts) == 0 {
		return TZero
	}
	if len(parts) == 1 {
		return parts[0]
	}
	return app("+", SInt, parts...)
}

func bitopConst(op token.Token, x Term, m int64, constOnLeft bool) Term {
	and := andConst(x, m)
	M := IntLit(m)
	switch op {
	case token.AND:
		return and
	case token.OR:
		return Arith("-", Arith("+", x, M), and)
	case token.XOR:
		return Arith("-", Arith("+", x, M), Arith("*", IntLit(2), and))
	case token.AND_NOT:
		if constOnLeft { // M &^ x = M - (x & M)
			return Arith("-", M, and)
		}
		return Arith("-", x, and)
	}
	return and
}

func smallLit(t Term) (int64, bool) {
	if isIntLiteral(t.S) && len(t.S) < 18 {
		var n int64
		fmt.Sscanf(t.S, "%d", &n)
		return n, true
	}
	return 0, false
}

func (u *Unit) structEq(st *State, op token.Token, a, b Value, resT types.Type) Value {
	sa, ok1 := a.(*StructV)
	sb, ok2 := b.(*StructV)
	if !ok1 || !ok2 {
		u.unsupported("struct comparison with non-struct")
		return u.freshValue(resT, "seq")
	}
	s := sa.Typ.Underlying().(*types.Struct)
	var conj []Term
	for i := 0; i < s.NumFields(); i++ {
		fa, fb := u.fieldOfStruct(sa, i), u.fieldOfStruct(sb, i)
		ft := s.Field(i).Type()
		if isStructType(ft) {
			r := u.structEq(st, token.EQL, fa, fb, types.Typ[types.Bool]).(Sc)
			conj = append(conj, r.T)
			continue
		}
		if scalarSort(ft) == "" {
			u.unsupported("struct comparison with non-scalar field")
			continue
		}
		conj = append(conj, Eq(u.asSc(fa, ft).T, u.asSc(fb, ft).T))
	}
	r := And(conj...)
	if op == token.NEQ {
		r = Not(r)
	}
	return Sc{r, resT}
}

func (u *Unit) execConvert(st *State, x *ssa.Convert) Value {
	v := u.val(st, x.X)
	from, to := x.X.Type(), x.Type()
	fs, ts := scalarSort(from), scalarSort(to)
	sc, isSc := v.(Sc)
	switch {
	case isSc && fs == ts && fs != "":
		return Sc{sc.T, to}
	case isSc && fs == SInt && ts == SReal:
		return Sc{ToReal(sc.T), to}
	case isSc && fs == SInt && ts == SF:
		return Sc{toF(sc.T), to}
	case isSc && fs == SF && ts == SInt:
		f := u.ctx.Fun("nonfinite_to_int", []string{SF}, SInt)
		r := app("fval", SReal, sc.T)
		t := Ite(app("f_isfin", SBool, sc.T), Ite(Cmp(">=", r, Term{"0.0", SReal}), app("to_int", SInt, r), app("-", SInt, app("to_int", SInt, app("-", SReal, r)))), app(f, SInt, sc.T))
		return Sc{u.ctx.Named("trunc", t), to}
	case isSc && fs == SReal && ts == SInt:
		// truncation toward zero
		t := Ite(Cmp(">=", sc.T, Term{"0.0", SReal}), app("to_int", SInt, sc.T), app("-", SInt, app("to_int", SInt, app("-", SReal, sc.T))))
		return Sc{u.ctx.Named("trunc", t), to}
	case isSc && fs == SInt && ts == SStr:
		f := u.ctx.Fun("rune_to_str", []string{SInt}, SStr)
		return Sc{app(f, SStr, sc.T), to}
	}
	if sl, ok := v.(SliceV); ok && ts == SStr {
		f := u.ctx.Fun("bytes_to_str", []string{SInt, SInt, SInt}, SStr)
		u.note("[]byte->string conversion uninterpreted")
		return Sc{app(f, SStr, sl.Arr, sl.Off, sl.Len), to}
	}
	if isSc && fs == SStr && isSliceType(to) {
		u.note("string->[]byte conversion yields an unconstrained slice")
		return u.freshValue(to, "bytes")
	}
	if _, ok := v.(SliceV); ok && isSliceType(to) {
		return retype(v, to)
	}
	u.unsupported("conversion " + shortType(from) + " -> " + shortType(to))
	return u.freshValue(to, "conv")
}

func payloadKind(t types.Type) string {
	switch scalarSort(t) {
	case SInt:
		return ""
	case SReal:
		return "_Real"
	case SStr:
		return "_Str"
	case SBool:
		return "_Bool"
	}
	return "?"
}

func (u *Unit) makeInterface(v Value, from, to types.Type) Value {
	from = types.Default(from) // untyped constants box as their default type
	tag := u.ctx.Tag("type:" + typeKey(from))
	k := payloadKind(from)
	if k == "?" {
		// struct / slice payload: a box that carries its dynamic type; struct payload fields are functions of the box
		b := u.ctx.Fresh("box", SInt)
		u.ctx.Assert(And(Eq(app("itag", SInt, b), tag), Neq(b, TNil), Eq(app("objof", SInt, b), TZero)), "box")
		if sv, ok := v.(*StructV); ok && isStructType(from) && countFlatFields(from, 0) <= 60 {
			u.boxStruct(b, typeKey(from), sv, 0)
		}
		return Sc{b, to}
	}
	sc := u.asSc(v, from)
	t := app("mkiface"+k, SInt, tag, sc.T)
	if !u.subSeen[t.S] {
		u.subSeen[t.S] = true
		u.ctx.Assert(And(Eq(app("itag", SInt, t), tag), Eq(app("ipay"+k, scalarSort(from), t), sc.T), Neq(t, TNil), Eq(app("objof", SInt, t), TZero)), "iface-axiom")
	}
	return Sc{t, to}
}

func (u *Unit) execTypeAssert(st *State, x *ssa.TypeAssert) Value {
	v := u.asSc(u.val(st, x.X), x.X.Type())
	at := x.AssertedType
	var ok Term
	var res Value
	if isInterfaceType(at) {
		// interface-to-interface: succeeds iff dynamic type implements it; unknown statically
		ok = And(Neq(v.T, TNil), u.ctx.Fresh("implements", SBool))
		res = Sc{v.T, at}
	} else {
		tag := u.ctx.Tag("type:" + typeKey(at))
		ok = And(Neq(v.T, TNil), Eq(app("itag", SInt, v.T), tag))
		k := payloadKind(at)
		if k == "?" && isStructType(at) {
			bt := v.T
			res = &StructV{Typ: at, Box: &bt, BoxKey: typeKey(at)}
		} else if k == "?" {
			res = u.freshValue(at, "unbox")
		} else {
			res = Sc{app("ipay"+k, scalarSort(at), v.T), at}
			// a non-nil interface value of dynamic type T IS the boxing of its payload (type invariant of interface
			// values: only MakeInterface creates them): re-boxing the asserted payload gives the same interface value
			if u.ctx.inQuant == 0 {
				rb := app("mkiface"+k, SInt, tag, app("ipay"+k, scalarSort(at), v.T))
				key := "rebox:" + rb.S
				if !u.subSeen[key] {
					u.subSeen[key] = true
					u.ctx.Assert(Implies(ok, Eq(rb, v.T)), "iface-rebox")
				}
			}
		}
	}
	if x.CommaOk {
		okN := u.ctx.Named("taok", ok)
		return TupleV{u.mergeVal(okN, res, u.zeroValue(at)), Sc{okN, types.Typ[types.Bool]}}
	}
	u.panicIf(st, Not(ok), x.Pos(), "type assertion to "+shortType(at))
	return res
}

func (u *Unit) mapSorts(mt types.Type) (ks string, vt types.Type) {
	m := mt.Underlying().(*types.Map)
	ks = scalarSort(m.Key())
	if ks == "" {
		u.unsupported("map with non-scalar key type " + shortType(m.Key()))
		ks = SInt
	}
	return ks, m.Elem()
}

func (u *Unit) mapDom(v *HeapView, mt types.Type, ref Term) Term {
	ks, _ := u.mapSorts(mt)
	return Select(u.viewGet(v, mapDomFam(mt), ArrSort(SInt, ArrSort(ks, SBool))), ref)
}

// mapValComps returns for each storage component of the value type the array term MV[ref].
func (u *Unit) mapLookup(v *HeapView, mt types.Type, ref, key Term) (val Value, present Term) {
	ks, vt := u.mapSorts(mt)
	dom := u.mapDom(v, mt, ref)
	u.noteSumKeyT(ks, key, mt.Underlying().(*types.Map).Key())
	present = And(Neq(ref, TNil), Select(dom, key))
	if isEmptyStruct(vt) {
		return &StructV{Typ: vt, Zero: true}, present
	}
	if ft, single := singleScalarStruct(vt); single {
		srt := scalarSort(ft)
		raw := Select(Select(u.viewGet(v, mapValFam(mt), ArrSort(SInt, ArrSort(ks, srt))), ref), key)
		return &StructV{Typ: vt, Fields: map[int]Value{0: Sc{Ite(present, raw, u.zeroTerm(srt)), ft}}}, present
	}
	if isStructType(vt) {
		if mapComps(vt) == nil {
			u.unsupported("map with struct values " + shortType(mt))
			return u.freshValue(vt, "mv"), present
		}
		get := func(suffix, s string) Term {
			raw := Select(Select(u.viewGet(v, mapValFam(mt)+suffix, ArrSort(SInt, ArrSort(ks, s))), ref), key)
			return Ite(present, raw, u.zeroTerm(s))
		}
		return u.mapLoadStruct(vt, "", get), present
	}
	cs := comps(vt)
	if cs == nil {
		u.unsupported("map value type " + shortType(vt))
		return u.freshValue(vt, "mv"), present
	}
	get := func(suffix, s string) Term {
		arr := Select(u.viewGet(v, mapValFam(mt)+suffix, ArrSort(SInt, ArrSort(ks, s))), ref)
		return Select(arr, key)
	}
	if len(cs) == 1 {
		raw := get("", cs[0][1])
		return Sc{Ite(present, raw, u.zeroTerm(cs[0][1])), vt}, present
	}
	sl := vt.Underlying().(*types.Slice)
	return SliceV{Ite(present, get("#arr", SInt), TZero), Ite(present, get("#off", SInt), TZero), Ite(present, get("#len", SInt), TZero), sl.Elem()}, present
}

func (u *Unit) execLookup(st *State, x *ssa.Lookup) Value {
	mt := x.X.Type()
	if _, ok := mt.Underlying().(*types.Map); !ok {
		u.unsupported("string indexing")
		return u.freshValue(x.Type(), "stridx")
	}
	m := u.asSc(u.val(st, x.X), mt)
	k := u.asSc(u.val(st, x.Index), nil)
	val, present := u.mapLookup(st.View(), mt, m.T, k.T)
	if sc, ok := val.(Sc); ok {
		val = Sc{u.ctx.Named("lk", sc.T), sc.Typ}
		u.assumeLoadedRef(st, val)
	}
	if x.CommaOk {
		return TupleV{val, Sc{u.ctx.Named("lkok", present), types.Typ[types.Bool]}}
	}
	return val
}

func (u *Unit) assumeLoadedRef(st *State, v Value) {
	if x, ok := v.(Sc); ok && x.Typ != nil && (isPointerLike(x.Typ) || isInterfaceType(x.Typ)) {
		u.ctx.Assert(Implies(st.G, And(Cmp("<", app("objof", SInt, x.T), st.allocTerm()), Cmp(">=", x.T, TZero))), "loaded-ref-old")
	}
}

func (u *Unit) cardFun(ks string) string {
	return u.ctx.Fun("card_"+strings.NewReplacer("(", "", ")", "", " ", "_").Replace(ks), []string{ArrSort(ks, SBool)}, SInt)
}

func (u *Unit) mapLen(v *HeapView, mt types.Type, ref Term) Term {
	ks, _ := u.mapSorts(mt)
	dom := u.mapDom(v, mt, ref)
	if u.ctx.inQuant == 0 {
		dom = u.ctx.Atom("dom", dom)
	}
	f := u.cardFun(ks)
	c := app(f, SInt, dom)
	r := Ite(Eq(ref, TNil), TZero, c)
	key := "card:" + c.S
	if !u.subSeen[key] {
		u.subSeen[key] = true
		u.ctx.Assert(Cmp(">=", c, TZero), "card-nonneg")
		// a present key forces card > 0; card = 0 forces emptiness
		u.ctx.Assert(Term{fmt.Sprintf("(forall ((k %s)) (! (=> (select %s k) (> %s 0)) :pattern ((select %s k))))", ks, dom.S, c.S, dom.S), SBool}, "card-positive")
	}
	return r
}

func (u *Unit) execMapUpdate(st *State, x *ssa.MapUpdate) {
	mt := x.Map.Type()
	m := u.asSc(u.val(st, x.Map), mt)
	u.panicIf(st, Eq(m.T, TNil), x.Pos(), "assignment to entry in nil map")
	k := u.asSc(u.val(st, x.Key), nil)
	u.mapStore(st, mt, m.T, k.T, u.val(st, x.Value))
}

func (u *Unit) mapStore(st *State, mt types.Type, ref, key Term, val Value) {
	ks, vt := u.mapSorts(mt)
	domFam := mapDomFam(mt)
	domArr := u.heapGet(st, domFam, ArrSort(SInt, ArrSort(ks, SBool)))
	oldDom := Select(domArr, ref)
	u.noteSumKeyT(ks, key, mt.Underlying().(*types.Map).Key())
	newDom := u.ctx.Named("dom", Store(oldDom, key, TTrue))
	// cardinality bookkeeping
	f := u.cardFun(ks)
	u.ctx.Assert(Implies(st.G, Eq(app(f, SInt, newDom), Ite(Select(oldDom, key), app(f, SInt, oldDom), Arith("+", app(f, SInt, oldDom), TOne)))), "card-insert")
	u.heapSet(st, domFam, Store(domArr, ref, newDom))
	if isEmptyStruct(vt) {
		return
	}
	if ft, single := singleScalarStruct(vt); single {
		if sv, ok := val.(*StructV); ok {
			srt := scalarSort(ft)
			fam := mapValFam(mt)
			arr := u.heapGet(st, fam, ArrSort(SInt, ArrSort(ks, srt)))
			fv := u.asSc(u.fieldOfStruct(sv, 0), ft)
			u.heapSet(st, fam, Store(arr, ref, Store(Select(arr, ref), key, u.coerce(fv.T, srt))))
			return
		}
	}
	if isStructType(vt) {
		sv, ok := val.(*StructV)
		if mapComps(vt) == nil || !ok {
			u.unsupported("map with struct values " + shortType(mt))
			return
		}
		putS := func(suffix, s string, t Term) {
			fam := mapValFam(mt) + suffix
			arr := u.heapGet(st, fam, ArrSort(SInt, ArrSort(ks, s)))
			u.heapSet(st, fam, Store(arr, ref, Store(Select(arr, ref), key, u.coerce(t, s))))
		}
		u.mapStoreStruct(vt, "", sv, putS)
		return
	}
	cs := comps(vt)
	put := func(suffix, s string, t Term) {
		fam := mapValFam(mt) + suffix
		arr := u.heapGet(st, fam, ArrSort(SInt, ArrSort(ks, s)))
		u.heapSet(st, fam, Store(arr, ref, Store(Select(arr, ref), key, u.coerce(t, s))))
	}
	if len(cs) == 1 {
		put("", cs[0][1], u.asSc(val, vt).T)
		return
	}
	if sv, ok := val.(SliceV); ok {
		put("#arr", SInt, sv.Arr)
		put("#off", SInt, sv.Off)
		put("#len", SInt, sv.Len)
		return
	}
	u.unsupported("map update value type " + shortType(vt))
}

func (u *Unit) mapDelete(st *State, mt types.Type, ref, key Term) {
	ks, _ := u.mapSorts(mt)
	domFam := mapDomFam(mt)
	domArr := u.heapGet(st, domFam, ArrSort(SInt, ArrSort(ks, SBool)))
	oldDom := Select(domArr, ref)
	u.noteSumKeyT(ks, key, mt.Underlying().(*types.Map).Key())
	newDom := u.ctx.Named("dom", Store(oldDom, key, TFalse))
	f := u.cardFun(ks)
	u.ctx.Assert(Implies(st.G, Eq(app(f, SInt, newDom), Ite(Select(oldDom, key), Arith("-", app(f, SInt, oldDom), TOne), app(f, SInt, oldDom)))), "card-delete")
	// deleting from a nil map is a no-op
	u.heapSet(st, domFam, Ite(Eq(ref, TNil), domArr, Store(domArr, ref, newDom)))
}

func (u *Unit) execMakeMap(st *State, mt types.Type) Value {
	ks, vt := u.mapSorts(mt)
	r := u.newObject(st)
	domFam := mapDomFam(mt)
	domArr := u.heapGet(st, domFam, ArrSort(SInt, ArrSort(ks, SBool)))
	empty := Term{"((as const " + ArrSort(ks, SBool) + ") false)", ArrSort(ks, SBool)}
	u.heapSet(st, domFam, Store(domArr, r, empty))
	f := u.cardFun(ks)
	u.ctx.Assert(Eq(app(f, SInt, empty), TZero), "card-empty")
	_ = vt
	return Sc{r, mt}
}

func (u *Unit) execMakeSlice(st *State, x *ssa.MakeSlice) Value {
	n := u.asSc(u.val(st, x.Len), nil)
	u.panicIf(st, Cmp("<", n.T, TZero), x.Pos(), "makeslice: len out of range")
	r := u.newObject(st)
	sl := x.Type().Underlying().(*types.Slice)
	// zero-initialised elements (scalar element types only)
	if s := scalarSort(sl.Elem()); s != "" {
		fam := cellFam(sl.Elem())
		arr := u.heapGet(st, fam, ArrSort(SInt, s))
		n2 := u.ctx.Fresh("H", arr.Sort)
		z := u.zeroTerm(s)
		u.ctx.Assert(Implies(st.G, Term{fmt.Sprintf("(forall ((p Int)) (! (= (select %s p) (ite (and (= (ea_base p) %s) (= p (ea (ea_base p) (ea_idx p)))) %s (select %s p))) :pattern ((select %s p))))", n2.S, r.S, z.S, arr.S, n2.S), SBool}), "makeslice-zero")
		st.Heap[fam] = n2
		u.famSort[fam] = arr.Sort
		u.written[fam] = true
	}
	return SliceV{r, TZero, n.T, sl.Elem()}
}

func (u *Unit) execIndexAddr(st *State, x *ssa.IndexAddr) Value {
	base := u.val(st, x.X)
	idx := u.asSc(u.val(st, x.Index), nil)
	var arr, off, ln Term
	var elem types.Type
	switch b := base.(type) {
	case SliceV:
		arr, off, ln, elem = b.Arr, b.Off, b.Len, b.Elem
	case Sc: // pointer to array
		at, ok := derefType(x.X.Type()).Underlying().(*types.Array)
		if !ok {
			u.unsupported("IndexAddr on " + shortType(x.X.Type()))
			return u.freshValue(x.Type(), "ia")
		}
		u.nilCheck(st, b, x.Pos(), "index of nil array pointer")
		arr, off, ln, elem = b.T, TZero, IntLit(at.Len()), at.Elem()
	default:
		u.unsupported(fmt.Sprintf("IndexAddr on %T", base))
		return u.freshValue(x.Type(), "ia")
	}
	u.panicIf(st, Or(Cmp("<", idx.T, TZero), Cmp(">=", idx.T, ln)), x.Pos(), "index out of range")
	addr := u.elemAddr(arr, Arith("+", off, idx.T))
	if off.S == "0" {
		addr = u.elemAddr(arr, idx.T)
	}
	if isStructType(elem) || isArrayType(elem) {
		return Sc{addr, types.NewPointer(elem)}
	}
	return LocPtr{Fam: cellFam(elem), Idx: addr, Typ: elem}
}

func (u *Unit) execSlice(st *State, x *ssa.Slice) Value {
	base := u.val(st, x.X)
	var lo, hi Term
	lo = TZero
	if x.Low != nil {
		lo = u.asSc(u.val(st, x.Low), nil).T
	}
	switch b := base.(type) {
	case SliceV:
		hi = b.Len
		if x.High != nil {
			hi = u.asSc(u.val(st, x.High), nil).T
		}
		// bound by len (cap is not modelled: re-slicing beyond len is reported)
		u.panicIf(st, Or(Cmp("<", lo, TZero), Cmp(">", lo, hi), Cmp(">", hi, b.Len)), x.Pos(), "slice bounds out of range")
		noff := Arith("+", b.Off, lo)
		if lo.S == "0" {
			noff = b.Off
		}
		return SliceV{b.Arr, noff, u.ctx.Named("sllen", Arith("-", hi, lo)), b.Elem}
	case Sc:
		if at, ok := derefTypeOrNil(x.X.Type()).(*types.Array); ok {
			hi = IntLit(at.Len())
			if x.High != nil {
				hi = u.asSc(u.val(st, x.High), nil).T
			}
			ln := Arith("-", hi, lo)
			if lo.S == "0" {
				ln = hi
			}
			return SliceV{b.T, lo, ln, at.Elem()}
		}
		if isStringType(x.X.Type()) {
			f := u.ctx.Fun("substr", []string{SStr, SInt, SInt}, SStr)
			hi = app("str_len", SInt, b.T)
			if x.High != nil {
				hi = u.asSc(u.val(st, x.High), nil).T
			}
			u.panicIf(st, Or(Cmp("<", lo, TZero), Cmp(">", lo, hi), Cmp(">", hi, app("str_len", SInt, b.T))), x.Pos(), "string slice bounds out of range")
			return Sc{app(f, SStr, b.T, lo, hi), x.Type()}
		}
	}
	u.unsupported("Slice of " + shortType(x.X.Type()))
	return u.freshValue(x.Type(), "slice")
}

func derefTypeOrNil(t types.Type) types.Type {
	if p, ok := t.Underlying().(*types.Pointer); ok {
		return p.Elem().Underlying()
	}
	return nil
}

// execNext models one step of a map iteration with the ghost visited set.
func (u *Unit) execNext(st *State, x *ssa.Next) Value {
	it, ok := u.val(st, x.Iter).(*RangeIterV)
	tt := x.Type().(*types.Tuple)
	if !ok || x.IsString {
		u.unsupported("range over string")
		return u.freshValue(tt, "next")
	}
	rg := x.Iter.(*ssa.Range)
	mt := rg.X.Type()
	ks, _ := u.mapSorts(mt)
	m := u.asSc(it.Map, mt)
	view := st.View()
	dom := u.ctx.Atom("dom", u.mapDom(view, mt, m.T))
	vis := u.ctx.Atom("vis", st.Ghost["visited:"+it.ID])
	okc := u.ctx.Fresh("more", SBool)
	k := u.ctx.Fresh("key", ks)
	// ok => k in dom, not visited ; !ok => every key of dom visited
	u.assume(st, Implies(okc, And(Neq(m.T, TNil), Select(dom, k), Not(Select(vis, k)))), "range-next")
	u.assume(st, Implies(Not(okc), Or(Eq(m.T, TNil), Term{fmt.Sprintf("(forall ((k %s)) (! (=> (select %s k) (select %s k)) :pattern ((select %s k))))", ks, dom.S, vis.S, dom.S), SBool})), "range-done")
	// exhaustion + "visited is a subset of the key set" (an invariant the unit states where it needs it) = the two sets
	// are EQUAL: the extensionality instance is handed to the solver explicitly (sums over `visited` then equal sums over
	// the map; z3 found it only at final check, i.e. never in large units)
	{
		domP := Ite(Eq(m.T, TNil), emptySet(ks), dom)
		sub := Term{fmt.Sprintf("(forall ((k %s)) (! (=> (select %s k) (select %s k)) :pattern ((select %s k))))", ks, vis.S, domP.S, vis.S), SBool}
		u.assume(st, Implies(Not(okc), Implies(sub, Eq(vis, domP))), "range-done-extensionality")
	}
	val, _ := u.mapLookup(view, mt, m.T, k)
	if sc, isSc := val.(Sc); isSc {
		val = Sc{u.ctx.Named("rv", sc.T), sc.Typ}
		u.assumeLoadedRef(st, val)
	}
	st.Ghost["visited:"+it.ID] = u.ctx.Named("vis", Ite(okc, Store(vis, k, TTrue), vis))
	st.Ghost["lastkey:"+it.ID] = k
	return TupleV{Sc{okc, types.Typ[types.Bool]}, Sc{k, tt.At(1).Type()}, retype(val, tt.At(2).Type())}
}

func isEmptyStruct(t types.Type) bool {
	s, ok := t.Underlying().(*types.Struct)
	return ok && s.NumFields() == 0
}

// skolemizeGoal: a goal of the form (forall (vars) B) is proved as B[vars := fresh constants] (equivalent for validity),
// and every universal quantifier Q built from a specification so far is instantiated at those constants by the
// tautology Q => Q-body[v := c] placed in front of the goal. Index-quantified facts over slices have no usable
// E-matching pattern (the element address is (ea arr (+ off j))), so without this the proof depends on what MBQI
// happens to try - such obligations were discharged for one solver seed and timed out for the others.
func (u *Unit) skolemizeGoal(goal Term) Term {
	if os.Getenv("GOVC_NOSKOLEM") != "" {
		return goal
	}
	vars, body, ok := splitForall(goal.S)
	if !ok {
		return goal
	}
	// nested shape  forall x. (A => forall y. B)  : strip the inner binder too (equivalent for validity)
	for depth := 0; depth < 3; depth++ {
		ante, cons, isImp := splitImplies(body)
		if !isImp {
			break
		}
		v2, b2, ok2 := splitForall(cons)
		if !ok2 {
			break
		}
		vars = append(vars, v2...)
		body = "(=> " + ante + " " + b2 + ")"
	}
	var consts [][2]string
	for _, v := range vars {
		u.ctx.freshN++
		name := fmt.Sprintf("sk_%s!%d", strings.ReplaceAll(v[0], "!", "_"), u.ctx.freshN)
		c := u.ctx.Const(name, v[1])
		body = substSym(body, v[0], c.S)
		consts = append(consts, [2]string{c.S, v[1]})
		if v[1] == SInt {
			for _, l := range u.appendLens {
				consts = append(consts, [2]string{fmt.Sprintf("(- %s %s)", c.S, l.S), SInt})
			}
		}
	}
	var insts []Term
	seen := map[string]bool{}
	// most recent quantifiers first (callee contracts applied right before the goal are the likely partners); the
	// total size is capped: a goal that drags 80 instantiated quantifiers along (2 index constants x every quantifier of
	// two library contracts = 87 KB) was slower and flakier than the plain goal
	total := 0
	for qi := len(u.ctx.qrecs) - 1; qi >= 0; qi-- {
		q := u.ctx.qrecs[qi]
		if q.full == goal.S || len(insts) >= 48 || total > 40000 {
			continue
		}
		for vi, v := range q.vars {
			for _, c := range consts {
				if c[1] != v[1] || (v[1] != SInt && v[1] != SStr) {
					continue
				}
				b := substSym(q.body, v[0], c[0])
				var rest []string
				for k, o := range q.vars {
					if k != vi {
						rest = append(rest, fmt.Sprintf("(%s %s)", o[0], o[1]))
					}
				}
				inst := b
				if len(rest) > 0 {
					inst = fmt.Sprintf("(forall (%s) %s)", strings.Join(rest, " "), b)
				}
				t := fmt.Sprintf("(=> %s %s)", q.full, inst)
				if !seen[t] {
					seen[t] = true
					insts = append(insts, Term{t, SBool})
					total += len(t)
				}
			}
		}
	}
	return Implies(And(insts...), Term{body, SBool})
}

// splitImplies parses "(=> A B)" with exactly two arguments.
func splitImplies(t string) (a, b string, ok bool) {
	if !strings.HasPrefix(t, "(=> ") || !strings.HasSuffix(t, ")") {
		return "", "", false
	}
	in := t[4 : len(t)-1]
	// first s-expression
	end := sexprEnd(in, 0)
	if end < 0 || end >= len(in) || in[end] != ' ' {
		return "", "", false
	}
	a = in[:end]
	rest := in[end+1:]
	e2 := sexprEnd(rest, 0)
	if e2 != len(rest) {
		return "", "", false
	}
	return a, rest, true
}

// sexprEnd returns the index just after the s-expression starting at i (-1 if malformed).
func sexprEnd(s string, i int) int {
	if i >= len(s) {
		return -1
	}
	if s[i] == '|' {
		j := strings.IndexByte(s[i+1:], '|')
		if j < 0 {
			return -1
		}
		return i + 1 + j + 1
	}
	if s[i] != '(' {
		j := i
		for j < len(s) && s[j] != ' ' && s[j] != ')' {
			if s[j] == '|' {
				k := strings.IndexByte(s[j+1:], '|')
				if k < 0 {
					return -1
				}
				j += k + 2
				continue
			}
			j++
		}
		return j
	}
	depth := 0
	for j := i; j < len(s); j++ {
		switch s[j] {
		case '|':
			k := strings.IndexByte(s[j+1:], '|')
			if k < 0 {
				return -1
			}
			j += k + 1
		case '(':
			depth++
		case ')':
			depth--
			if depth == 0 {
				return j + 1
			}
		}
	}
	return -1
}

// mapLoadStruct / mapStoreStruct: a struct-typed map value is kept as one value family per flattened leaf field.
func (u *Unit) mapLoadStruct(t types.Type, prefix string, get func(suffix, sortv string) Term) *StructV {
	st := t.Underlying().(*types.Struct)
	sv := &StructV{Typ: t, Fields: map[int]Value{}}
	for i := 0; i < st.NumFields(); i++ {
		ft := st.Field(i).Type()
		p := fmt.Sprintf("%s#%d", prefix, i)
		switch {
		case scalarSort(ft) != "":
			sv.Fields[i] = Sc{get(p, scalarSort(ft)), ft}
		case isSliceType(ft):
			sv.Fields[i] = SliceV{get(p+"#arr", SInt), get(p+"#off", SInt), get(p+"#len", SInt), ft.Underlying().(*types.Slice).Elem()}
		case isStructType(ft):
			sv.Fields[i] = u.mapLoadStruct(ft, p, get)
		}
	}
	return sv
}

func (u *Unit) mapStoreStruct(t types.Type, prefix string, sv *StructV, put func(suffix, sortv string, t Term)) {
	st := t.Underlying().(*types.Struct)
	for i := 0; i < st.NumFields(); i++ {
		ft := st.Field(i).Type()
		p := fmt.Sprintf("%s#%d", prefix, i)
		fv := u.fieldOfStruct(sv, i)
		switch {
		case scalarSort(ft) != "":
			put(p, scalarSort(ft), u.asSc(fv, ft).T)
		case isSliceType(ft):
			if sl, ok := fv.(SliceV); ok {
				put(p+"#arr", SInt, sl.Arr)
				put(p+"#off", SInt, sl.Off)
				put(p+"#len", SInt, sl.Len)
			}
		case isStructType(ft):
			if sub, ok := fv.(*StructV); ok {
				u.mapStoreStruct(ft, p, sub, put)
			}
		}
	}
}
