package main

import (
	"fmt"
	"go/types"
	"sort"
	"strings"

	"golang.org/x/tools/go/ssa"
)

type hidRec struct {
	kind int // 0 initial, 1 havoc, 2 merge
	c    Term
	a, b int
	// havoc records: the state the havoc started from (stable families are carried over from it)
	prev     int
	prevHeap map[string]Term
	frontier Term
	// functions whose execution the havoc stands for (nil: anything the unit's function can reach);
	// selfFn != nil: additionally the direct stores of that function (loop bodies)
	roots  []*ssa.Function
	selfFn *ssa.Function
	rooted bool
	// the unit opted in (`usestable`), optionally for some declarations only
	useStable bool
	useOnly   []string
}

// ---------------------------------------------------------------------------
// family access

func (u *Unit) newHid(r hidRec) int {
	u.hids = append(u.hids, r)
	return len(u.hids) - 1
}

func (u *Unit) resolveHid(fam string, hid int, sortv string) Term {
	key := fmt.Sprintf("%s@%d", fam, hid)
	if t, ok := u.hidMemo[key]; ok {
		return t
	}
	u.famSort[fam] = sortv
	r := u.hids[hid]
	var t Term
	switch r.kind {
	case 0:
		t = u.ctx.Const(fam+"@pre", sortv)
	case 1:
		t = u.ctx.Const(fmt.Sprintf("%s@h%d", fam, hid), sortv)
		if d := u.w.stableAt(fam, u.fn, r); d != nil && r.prevHeap != nil {
			// stable family: cells of objects allocated before the havoc are unchanged (and still
			// refer to objects allocated before it)
			prev, ok := r.prevHeap[fam]
			if !ok {
				prev = u.resolveHid(fam, r.prev, sortv)
			}
			body := fmt.Sprintf("(= (select %s p) (select %s p))", t.S, prev.S)
			if d.ptr[fam] {
				body = fmt.Sprintf("(and %s (< (objof (select %s p)) %s))", body, t.S, r.frontier.S)
			}
			u.ctx.AssertAlways(Term{fmt.Sprintf("(forall ((p Int)) (! (=> (< (objof p) %s) %s) :pattern ((select %s p))))", r.frontier.S, body, t.S), SBool}, "stable-family")
			u.note("stable " + d.text + ": every store to it in the loaded program targets an object allocated by the storing function (checked mechanically; reflection/unsafe/bodyless library writers are not covered), so whole-heap havocs keep it for objects allocated earlier")
		}
	case 2:
		a := u.resolveHid(fam, r.a, sortv)
		b := u.resolveHid(fam, r.b, sortv)
		if a.S == b.S {
			t = a
		} else if strings.Contains(r.c.S, "!q") {
			// the merge condition mentions a quantifier-bound variable (state merge inside a spec call
			// evaluated under a quantifier): no global definition is possible, keep the ite inline
			t = Ite(r.c, a, b)
		} else {
			t = u.ctx.Const(fmt.Sprintf("%s@m%d", fam, hid), sortv)
			u.ctx.AssertAlways(Eq(t, Ite(r.c, a, b)), "heap-merge")
		}
	}
	u.hidMemo[key] = t
	return t
}

func (u *Unit) touch(fam string) {
	if u.inAppendCopy == 0 {
		if u.touched == nil {
			u.touched = map[string]bool{}
		}
		u.touched[fam] = true
	}
}

func (u *Unit) heapGet(st *State, fam, sortv string) Term {
	u.touch(fam)
	if t, ok := st.Heap[fam]; ok {
		return t
	}
	return u.resolveHid(fam, st.Hid, sortv)
}

func (u *Unit) viewGet(v *HeapView, fam, sortv string) Term {
	u.touch(fam)
	if t, ok := v.Fams[fam]; ok {
		return t
	}
	return u.resolveHid(fam, v.Hid, sortv)
}

func (u *Unit) heapSet(st *State, fam string, t Term) {
	u.famSort[fam] = t.Sort
	u.written[fam] = true
	st.Heap[fam] = u.ctx.Named("H", t)
}

func (u *Unit) havocAll(st *State, why string) {
	// address-taken locals that never leave the function (only loaded/stored here, and only read by closures)
	// cannot be changed by any callee: keep their contents across the havoc
	type kept struct {
		ptr  Value
		elem types.Type
		val  Value
	}
	var keep []kept
	view := st.View()
	for v, pv := range st.Env {
		al, ok := v.(*ssa.Alloc)
		if !ok || !u.w.privateAlloc(al) {
			continue
		}
		elem := derefType(al.Type())
		if comps(elem) == nil && !(isStructType(elem) && countFlatFields(elem, 0) <= 40) {
			continue
		}
		keep = append(keep, kept{pv, elem, u.loadAt(view, pv, elem)})
	}
	sort.Slice(keep, func(i, j int) bool { return describeValue(keep[i].ptr) < describeValue(keep[j].ptr) })
	// maps created in this function (make / fresh call results) that are only looked up, updated, ranged or
	// measured here - never stored, passed or returned - cannot be touched by a callee either
	type keptMap struct {
		ref  Term
		mt   types.Type
		dom  Term
		vals []Term
	}
	var keepMaps []keptMap
	for v, pv := range st.Env {
		mt, isMap := v.Type().Underlying().(*types.Map)
		if !isMap || !u.w.privateMap(v) {
			continue
		}
		sc, ok := pv.(Sc)
		if !ok {
			continue
		}
		ks := scalarSort(mt.Key())
		if ks == "" {
			continue
		}
		km := keptMap{ref: sc.T, mt: v.Type()}
		km.dom = Select(u.viewGet(view, mapDomFam(v.Type()), ArrSort(SInt, ArrSort(ks, SBool))), sc.T)
		for _, c := range mapComps(mt.Elem()) {
			km.vals = append(km.vals, Select(u.viewGet(view, mapValFam(v.Type())+c[0], ArrSort(SInt, ArrSort(ks, c[1]))), sc.T))
		}
		keepMaps = append(keepMaps, km)
	}
	sort.Slice(keepMaps, func(i, j int) bool { return keepMaps[i].ref.S < keepMaps[j].ref.S })
	prevHeap, prevHid, frontier := st.Heap, st.Hid, st.allocTerm()
	st.Heap = map[string]Term{}
	st.Hid = u.newHid(hidRec{kind: 1, prev: prevHid, prevHeap: prevHeap, frontier: frontier, roots: u.havocRoots, selfFn: u.havocSelf, rooted: u.havocRooted, useStable: u.c != nil && u.c.UseStable, useOnly: u.useOnly()})
	u.havocRoots, u.havocSelf, u.havocRooted = nil, nil, false
	defer func() {
		for _, k := range keep {
			u.storeAt(st, k.ptr, k.elem, k.val)
		}
		for _, km := range keepMaps {
			mt := km.mt.Underlying().(*types.Map)
			ks := scalarSort(mt.Key())
			df := mapDomFam(km.mt)
			u.heapSet(st, df, Store(u.heapGet(st, df, ArrSort(SInt, ArrSort(ks, SBool))), km.ref, km.dom))
			for i, c := range mapComps(mt.Elem()) {
				vf := mapValFam(km.mt) + c[0]
				u.heapSet(st, vf, Store(u.heapGet(st, vf, ArrSort(SInt, ArrSort(ks, c[1]))), km.ref, km.vals[i]))
			}
		}
	}()
	u.havocAlls = append(u.havocAlls, why)
	u.havocGuards = append(u.havocGuards, st.G)
	u.bumpAlloc(st)
}

func (u *Unit) bumpAlloc(st *State) {
	n := u.ctx.Fresh("alloc", SInt)
	u.ctx.Assert(Implies(st.G, Cmp(">=", n, st.allocTerm())), "alloc-monotone")
	st.Alloc = n
	st.AllocOff = 0
}

// ---------------------------------------------------------------------------
// locations

func (u *Unit) loadLoc(v *HeapView, fam string, idx Term, typ types.Type) Value {
	if s := scalarSort(typ); s != "" {
		return Sc{Select(u.viewGet(v, fam, ArrSort(SInt, s)), idx), typ}
	}
	if sl, ok := typ.Underlying().(*types.Slice); ok {
		a := Select(u.viewGet(v, fam+"#arr", ArrSort(SInt, SInt)), idx)
		o := Select(u.viewGet(v, fam+"#off", ArrSort(SInt, SInt)), idx)
		l := Select(u.viewGet(v, fam+"#len", ArrSort(SInt, SInt)), idx)
		return SliceV{a, o, l, sl.Elem()}
	}
	u.unsupported("load of type " + shortType(typ))
	return u.freshValue(typ, "ld")
}

func (u *Unit) storeLoc(st *State, fam string, idx Term, typ types.Type, val Value) {
	if s := scalarSort(typ); s != "" {
		sc := u.asSc(val, typ)
		arr := u.heapGet(st, fam, ArrSort(SInt, s))
		u.heapSet(st, fam, Store(arr, idx, u.coerce(sc.T, s)))
		return
	}
	if _, ok := typ.Underlying().(*types.Slice); ok {
		sv, ok := val.(SliceV)
		if !ok {
			u.unsupported(fmt.Sprintf("store of non-slice value %T into slice location", val))
			return
		}
		u.heapSet(st, fam+"#arr", Store(u.heapGet(st, fam+"#arr", ArrSort(SInt, SInt)), idx, sv.Arr))
		u.heapSet(st, fam+"#off", Store(u.heapGet(st, fam+"#off", ArrSort(SInt, SInt)), idx, sv.Off))
		u.heapSet(st, fam+"#len", Store(u.heapGet(st, fam+"#len", ArrSort(SInt, SInt)), idx, sv.Len))
		return
	}
	u.unsupported("store of type " + shortType(typ))
}

func (u *Unit) coerce(t Term, sortv string) Term {
	if t.Sort == sortv {
		return t
	}
	if t.Sort == SInt && sortv == SReal {
		return ToReal(t)
	}
	if sortv == SF {
		return toF(t)
	}
	return t
}

// subAddr returns the address of the struct-typed field i embedded by value
// in the object at ref.
func (u *Unit) subAddr(ref Term, structT types.Type, i int) Term {
	key := u.w.subKey(fieldFam(structT, i))
	t := app("sub", SInt, ref, IntLit(int64(key)))
	if !u.subSeen[t.S] {
		u.subSeen[t.S] = true
		u.ctx.Assert(And(
			Eq(app("objof", SInt, t), app("objof", SInt, ref)),
			Eq(app("sub_base", SInt, t), ref),
			Eq(app("sub_key", SInt, t), IntLit(int64(key))),
			Neq(t, TNil),
		), "sub-axiom")
	}
	return t
}

func (u *Unit) elemAddr(arr, idx Term) Term {
	t := app("ea", SInt, arr, idx)
	if !u.subSeen[t.S] {
		u.subSeen[t.S] = true
		u.ctx.Assert(And(
			Eq(app("objof", SInt, t), app("objof", SInt, arr)),
			Eq(app("ea_base", SInt, t), arr),
			Eq(app("ea_idx", SInt, t), idx),
			Eq(app("sub_key", SInt, t), IntLit(-1)),
			Neq(t, TNil),
		), "ea-axiom")
	}
	return t
}

// loadAt reads a value of type typ stored at pointer p.
func (u *Unit) loadAt(v *HeapView, p Value, typ types.Type) Value {
	switch x := p.(type) {
	case LocPtr:
		return u.loadLoc(v, x.Fam, x.Idx, x.Typ)
	case Sc:
		if isStructType(typ) {
			r := x.T
			return &StructV{Typ: typ, Ref: &r, View: v}
		}
		if isArrayType(typ) {
			u.unsupported("load of whole array value")
			return u.freshValue(typ, "arr")
		}
		return u.loadLoc(v, cellFam(typ), x.T, typ)
	}
	u.unsupported(fmt.Sprintf("load through %T", p))
	return u.freshValue(typ, "ld")
}

func (u *Unit) storeAt(st *State, p Value, typ types.Type, val Value) {
	switch x := p.(type) {
	case LocPtr:
		u.storeLoc(st, x.Fam, x.Idx, x.Typ, val)
	case Sc:
		if isStructType(typ) {
			sv, ok := val.(*StructV)
			if !ok {
				u.unsupported(fmt.Sprintf("store of %T as struct", val))
				return
			}
			u.storeStruct(st, x.T, typ, sv)
			return
		}
		if isArrayType(typ) {
			u.unsupported("store of whole array value")
			return
		}
		u.storeLoc(st, cellFam(typ), x.T, typ, val)
	default:
		u.unsupported(fmt.Sprintf("store through %T", p))
	}
}

// ---------------------------------------------------------------------------
// struct values

func (u *Unit) fieldOfStruct(sv *StructV, i int) Value {
	st := sv.Typ.Underlying().(*types.Struct)
	ft := st.Field(i).Type()
	if sv.Fields != nil {
		if v, ok := sv.Fields[i]; ok {
			return v
		}
	}
	switch {
	case sv.Zero:
		return u.zeroValue(ft)
	case sv.Ref != nil:
		if isStructType(ft) {
			r := u.subAddr(*sv.Ref, sv.Typ, i)
			return &StructV{Typ: ft, Ref: &r, View: sv.View}
		}
		if isArrayType(ft) {
			u.unsupported("array-typed struct field read by value")
			return u.freshValue(ft, "arrf")
		}
		return u.loadLoc(sv.View, fieldFam(sv.Typ, i), *sv.Ref, ft)
	case sv.Fresh != "":
		name := fmt.Sprintf("%s.%s", sv.Fresh, st.Field(i).Name())
		if isStructType(ft) {
			return &StructV{Typ: ft, Fresh: name}
		}
		return u.namedFreshValue(ft, name)
	case sv.Box != nil:
		key := sv.BoxKey + "." + st.Field(i).Name()
		if isStructType(ft) {
			return &StructV{Typ: ft, Box: sv.Box, BoxKey: key}
		}
		return u.boxField(*sv.Box, key, ft)
	case sv.C != nil:
		a := u.fieldOfStruct(sv.A, i)
		b := u.fieldOfStruct(sv.B, i)
		return u.mergeVal(*sv.C, a, b)
	}
	return u.zeroValue(ft)
}

// boxField: leaf field of a struct value stored in an interface box, as a function of the box.
func (u *Unit) boxField(box Term, key string, ft types.Type) Value {
	if s := scalarSort(ft); s != "" {
		f := u.ctx.Fun("ipf:"+key, []string{SInt}, s)
		return Sc{app(f, s, box), ft}
	}
	if sl, ok := ft.Underlying().(*types.Slice); ok {
		fa := u.ctx.Fun("ipf:"+key+"#arr", []string{SInt}, SInt)
		fo := u.ctx.Fun("ipf:"+key+"#off", []string{SInt}, SInt)
		fl := u.ctx.Fun("ipf:"+key+"#len", []string{SInt}, SInt)
		return SliceV{app(fa, SInt, box), app(fo, SInt, box), app(fl, SInt, box), sl.Elem()}
	}
	u.unsupported("boxed struct field of type " + shortType(ft))
	return u.freshValue(ft, "boxf")
}

// boxStruct asserts that the payload functions of box equal the fields of sv.
func (u *Unit) boxStruct(box Term, key string, sv *StructV, depth int) {
	s, ok := sv.Typ.Underlying().(*types.Struct)
	if !ok || depth > 4 {
		return
	}
	for i := 0; i < s.NumFields(); i++ {
		ft := s.Field(i).Type()
		fv := u.fieldOfStruct(sv, i)
		k := key + "." + s.Field(i).Name()
		if isStructType(ft) {
			if inner, ok := fv.(*StructV); ok {
				u.boxStruct(box, k, inner, depth+1)
			}
			continue
		}
		bf := u.boxField(box, k, ft)
		switch x := bf.(type) {
		case Sc:
			u.ctx.Assert(Eq(x.T, u.coerce(u.asSc(fv, ft).T, x.T.Sort)), "box-field")
		case SliceV:
			if y, ok := fv.(SliceV); ok {
				u.ctx.Assert(And(Eq(x.Arr, y.Arr), Eq(x.Off, y.Off), Eq(x.Len, y.Len)), "box-field")
			}
		}
	}
}

func (u *Unit) withField(sv *StructV, i int, v Value) *StructV {
	n := *sv
	n.Fields = map[int]Value{}
	for k, x := range sv.Fields {
		n.Fields[k] = x
	}
	n.Fields[i] = v
	return &n
}

func (u *Unit) storeStruct(st *State, ref Term, T types.Type, sv *StructV) {
	s := T.Underlying().(*types.Struct)
	if sv.Ref != nil && sv.Ref.S == ref.S && len(sv.Fields) == 0 {
		// self-assignment of an unchanged snapshot: still must copy from the view; fallthrough
	}
	for i := 0; i < s.NumFields(); i++ {
		ft := s.Field(i).Type()
		fv := u.fieldOfStruct(sv, i)
		if isStructType(ft) {
			inner, ok := fv.(*StructV)
			if !ok {
				u.unsupported("struct field value mismatch")
				continue
			}
			u.storeStruct(st, u.subAddr(ref, T, i), ft, inner)
			continue
		}
		if isArrayType(ft) {
			continue
		}
		u.storeLoc(st, fieldFam(T, i), ref, ft, fv)
	}
}

func countFlatFields(t types.Type, depth int) int {
	s, ok := t.Underlying().(*types.Struct)
	if !ok || depth > 6 {
		return 1
	}
	if _, op := isOpaqueScalar(t); op {
		return 1
	}
	n := 0
	for i := 0; i < s.NumFields(); i++ {
		n += countFlatFields(s.Field(i).Type(), depth+1)
	}
	return n
}

// ---------------------------------------------------------------------------
// zero / fresh values

func (u *Unit) zeroTerm(sortv string) Term {
	switch sortv {
	case SBool:
		return TFalse
	case SInt:
		return TZero
	case SReal:
		return Term{"0.0", SReal}
	case SStr:
		return u.ctx.StrLit("")
	case SF:
		return Term{"(fin 0.0)", SF}
	}
	panic("zeroTerm: " + sortv)
}

func (u *Unit) zeroValue(t types.Type) Value {
	if s := scalarSort(t); s != "" {
		return Sc{u.zeroTerm(s), t}
	}
	if sl, ok := t.Underlying().(*types.Slice); ok {
		return SliceV{TZero, TZero, TZero, sl.Elem()}
	}
	if isStructType(t) {
		return &StructV{Typ: t, Zero: true}
	}
	if tu, ok := t.(*types.Tuple); ok {
		var tv TupleV
		for i := 0; i < tu.Len(); i++ {
			tv = append(tv, u.zeroValue(tu.At(i).Type()))
		}
		return tv
	}
	u.unsupported("zero value of " + shortType(t))
	return Sc{TZero, t}
}

func (u *Unit) freshValue(t types.Type, prefix string) Value {
	u.ctx.freshN++
	return u.namedFreshValue(t, fmt.Sprintf("%s!%d", prefix, u.ctx.freshN))
}

func (u *Unit) namedFreshValue(t types.Type, name string) Value {
	if t == nil {
		return Sc{u.ctx.Const(name, SInt), nil}
	}
	if s := scalarSort(t); s != "" {
		c := u.ctx.Const(name, s)
		if isUnsigned(t) {
			u.ctx.Assert(Cmp(">=", c, TZero), "unsigned")
		}
		return Sc{c, t}
	}
	if sl, ok := t.Underlying().(*types.Slice); ok {
		a := u.ctx.Const(name+"#arr", SInt)
		o := u.ctx.Const(name+"#off", SInt)
		l := u.ctx.Const(name+"#len", SInt)
		u.ctx.Assert(And(Cmp(">=", l, TZero), Cmp(">=", o, TZero), Cmp(">=", a, TZero), Implies(Eq(a, TZero), Eq(l, TZero))), "slice-wf")
		return SliceV{a, o, l, sl.Elem()}
	}
	if isStructType(t) {
		return &StructV{Typ: t, Fresh: name}
	}
	if tu, ok := t.(*types.Tuple); ok {
		var tv TupleV
		for i := 0; i < tu.Len(); i++ {
			tv = append(tv, u.namedFreshValue(tu.At(i).Type(), fmt.Sprintf("%s.%d", name, i)))
		}
		return tv
	}
	if isArrayType(t) {
		return Sc{u.ctx.Const(name, SInt), t}
	}
	u.unsupported("fresh value of " + shortType(t))
	return Sc{u.ctx.Const(name, SInt), t}
}

func (u *Unit) asSc(v Value, t types.Type) Sc {
	switch x := v.(type) {
	case Sc:
		return x
	case *ClosureV:
		return Sc{x.ID, t}
	case LocPtr:
		u.unsupported("pointer to a struct field used as a first-class value")
		return Sc{u.ctx.Fresh("locptr", SInt), t}
	case nil:
		return Sc{TZero, t}
	}
	u.unsupported(fmt.Sprintf("value %T used as scalar", v))
	s := SInt
	if t != nil {
		if ss := scalarSort(t); ss != "" {
			s = ss
		}
	}
	return Sc{u.ctx.Fresh("bad", s), t}
}

// mergeVal builds ite(c, a, b) on engine values.
func (u *Unit) mergeVal(c Term, a, b Value) Value {
	if a == nil {
		return b
	}
	if b == nil {
		return a
	}
	switch x := a.(type) {
	case Sc:
		y, ok := b.(Sc)
		if !ok {
			if cb, ok2 := b.(*ClosureV); ok2 {
				y = Sc{cb.ID, x.Typ}
			} else {
				u.unsupported(fmt.Sprintf("merge of %T with %T", a, b))
				return a
			}
		}
		if x.T.S == y.T.S {
			return x
		}
		xt, yt := x.T, y.T
		if xt.Sort != yt.Sort {
			xt, yt = coerceNum(xt, yt)
		}
		return Sc{u.ctx.Named("phi", Ite(c, xt, yt)), x.Typ}
	case SliceV:
		y, ok := b.(SliceV)
		if !ok {
			u.unsupported("merge slice with non-slice")
			return a
		}
		return SliceV{u.ctx.Named("phi", Ite(c, x.Arr, y.Arr)), u.ctx.Named("phi", Ite(c, x.Off, y.Off)), u.ctx.Named("phi", Ite(c, x.Len, y.Len)), x.Elem}
	case LocPtr:
		y, ok := b.(LocPtr)
		if ok && x.Fam == y.Fam {
			return LocPtr{x.Fam, u.ctx.Named("phi", Ite(c, x.Idx, y.Idx)), x.Typ}
		}
		u.unsupported("merge of pointers into different field families")
		return a
	case *StructV:
		y, ok := b.(*StructV)
		if !ok {
			u.unsupported("merge struct with non-struct")
			return a
		}
		if x == y {
			return x
		}
		cc := c
		return &StructV{Typ: x.Typ, C: &cc, A: x, B: y}
	case TupleV:
		y, ok := b.(TupleV)
		if !ok || len(y) != len(x) {
			u.unsupported("merge tuple mismatch")
			return a
		}
		out := make(TupleV, len(x))
		for i := range x {
			out[i] = u.mergeVal(c, x[i], y[i])
		}
		return out
	case *ClosureV:
		if y, ok := b.(*ClosureV); ok && y.Fn == x.Fn && len(x.Bind) == len(y.Bind) {
			n := &ClosureV{Fn: x.Fn, ID: u.ctx.Named("phi", Ite(c, x.ID, y.ID))}
			for i := range x.Bind {
				n.Bind = append(n.Bind, u.mergeVal(c, x.Bind[i], y.Bind[i]))
			}
			return n
		}
		if y, ok := b.(Sc); ok {
			return Sc{u.ctx.Named("phi", Ite(c, x.ID, y.T)), y.Typ}
		}
		if y, ok := b.(*ClosureV); ok {
			return Sc{u.ctx.Named("phi", Ite(c, x.ID, y.ID)), x.Fn.Signature}
		}
	case *RangeIterV:
		return a
	}
	u.unsupported(fmt.Sprintf("merge of %T", a))
	return a
}

func (u *Unit) useOnly() []string {
	if u.c == nil {
		return nil
	}
	return u.c.UseStableOnly
}
