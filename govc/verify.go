package main

import (
	"runtime"
	"crypto/sha256"
	"fmt"
	"go/token"
	"go/types"
	"os"
	"sort"
	"strings"

	"golang.org/x/tools/go/ssa"
)

type OblResult struct {
	*Obligation
	Status  string // discharged | failed | unknown | cover-ok | cover-vacuous | error
	Backend string
	Ms      int64
	Model   string
	Output  string
	Tried   []string
	Relaxed bool
}

type UnitResult struct {
	Name        string
	Func        string
	Pkg         string
	Pos         string
	SrcHash     string
	Props       []string
	Obls        []*OblResult
	Unsupported []string
	SpecErrs    []string
	Notes       []string
	HavocAlls   []string
	Trusted     bool
	Dependency  bool // not tagged with the property: verified because a tagged unit uses its contract
	Callees     []string
	Assumes     []string
	ctx         *SMTCtx
	unit        *Unit
}

func (w *World) newUnit(pi *PkgInfo, fn *ssa.Function, c *Contract) *Unit {
	w.curUnitPkg = pi // library contracts written in the unit's own contract file take precedence (see contractFor)
	u := &Unit{w: w, pkg: pi, fn: fn, c: c, ctx: NewSMTCtx(), counters: map[string]int{}, hidMemo: map[string]Term{}, famSort: map[string]string{}, written: map[string]bool{}, subSeen: map[string]bool{}, closures: map[string]*ClosureV{}, assumptionsUsed: map[string]bool{}}
	u.hids = []hidRec{{kind: 0}}
	return u
}

func srcHash(w *World, fn *ssa.Function) (string, string) {
	if fn.Syntax() == nil {
		return "", ""
	}
	p0 := w.fset.Position(fn.Syntax().Pos())
	p1 := w.fset.Position(fn.Syntax().End())
	data, err := os.ReadFile(p0.Filename)
	if err != nil || p1.Offset > len(data) {
		return "", fmt.Sprintf("%s:%d", strings.TrimPrefix(p0.Filename, "/repo/"), p0.Line)
	}
	h := sha256.Sum256(data[p0.Offset:p1.Offset])
	return fmt.Sprintf("%x", h[:8]), fmt.Sprintf("%s:%d", strings.TrimPrefix(p0.Filename, "/repo/"), p0.Line)
}

func (w *World) verifyFunction(pi *PkgInfo, fn *ssa.Function, c *Contract) (res *UnitResult) {
	res = w.verifyFunctionPass(pi, fn, c, nil)
	if res.unit != nil && res.unit.usedStructAppend && len(res.SpecErrs) == 0 {
		// second pass: struct appends copy only the families the first pass touched anywhere
		rel := map[string]bool{}
		for f := range res.unit.touched {
			rel[f] = true
		}
		delete(w.usedContracts, res.unit)
		res2 := w.verifyFunctionPass(pi, fn, c, rel)
		res2.Assumes = append(res2.Assumes, "append of struct elements copies only the field families that the function or its contract mentions (others unconstrained)")
		return res2
	}
	return res
}

func (w *World) verifyFunctionPass(pi *PkgInfo, fn *ssa.Function, c *Contract, relevant map[string]bool) (res *UnitResult) {
	u := w.newUnit(pi, fn, c)
	u.relevant = relevant
	res = &UnitResult{Name: u.unitName(), Func: funcKey(fn), Pkg: pi.path, Props: c.Props, ctx: u.ctx, unit: u}
	res.SrcHash, res.Pos = srcHash(w, fn)
	if c.Trusted || c.Opaque || fn.Blocks == nil {
		res.Trusted = true
		return res
	}
	defer func() {
		if r := recover(); r != nil {
			if se, ok := r.(specError); ok {
				res.SpecErrs = append(res.SpecErrs, se.msg)
				return
			}
			buf := make([]byte, 4096)
			n := runtime.Stack(buf, false)
			res.SpecErrs = append(res.SpecErrs, fmt.Sprintf("engine panic: %v\n%s", r, buf[:n]))
		}
	}()
	saved := curFloatSort
	if c.IEEE {
		curFloatSort = SF
		u.ieee = true
	}
	defer func() { curFloatSort = saved }()

	st := &State{G: TTrue, Env: map[ssa.Value]Value{}, Heap: map[string]Term{}, Names: map[string]nameRef{}, Ghost: map[string]Term{}}
	st.Alloc = u.pre0Alloc()
	u.ctx.Assert(Cmp(">=", st.Alloc, TOne), "alloc frontier")
	fr := &frame{fn: fn, c: c, loops: w.loopsOf(fn), params: map[string]Value{}, isTop: true}
	for _, p := range fn.Params {
		v := u.namedFreshValue(p.Type(), "p_"+p.Name())
		st.Env[p] = v
		fr.params[p.Name()] = v
		st.Names[p.Name()] = nameRef{V: v}
		u.assumeResultOld(st, v)
	}
	var fvCells []Term
	for _, fv := range fn.FreeVars {
		v := u.namedFreshValue(fv.Type(), "fv_"+fv.Name())
		st.Env[fv] = v
		st.Names[fv.Name()] = nameRef{V: v, IsAddr: true}
		u.assumeResultOld(st, v)
		if sc, ok := v.(Sc); ok {
			// captured-variable cells are real, pairwise distinct objects
			u.ctx.Assert(And(Cmp(">", sc.T, TZero), Eq(app("objof", SInt, sc.T), sc.T)), "free-variable cell")
			for _, prev := range fvCells {
				u.ctx.Assert(Neq(sc.T, prev), "free-variable cells distinct")
			}
			fvCells = append(fvCells, sc.T)
		}
	}
	u.pre = st.Clone()
	fr.entry = u.pre
	// package axioms, assume-config facts, preconditions
	if pi.cf != nil {
		for _, ax := range pi.cf.Axioms {
			t := u.evalSpecBool(fr, st, ax)
			u.ctx.Assert(t, "axiom: "+ax.Text)
			res.Assumes = append(res.Assumes, "axiom "+pi.short+": "+ax.Text)
		}
	}
	for _, a := range c.Assumes {
		t := u.evalSpecBool(fr, st, a)
		u.ctx.Assert(t, "assume: "+a.Text)
		res.Assumes = append(res.Assumes, "assume "+u.unitName()+": "+a.Text)
	}
	for _, rq := range c.Requires {
		t := u.evalSpecBool(fr, st, rq)
		u.ctx.Assert(t, "requires: "+rq.Text)
	}
	if c.Decreases != nil {
		m := u.ctx.Named("measure", u.evalSpecTerm(fr, st, *c.Decreases))
		u.measure0 = &m
	}
	u.cover(st, "preconditions (and axioms) are satisfiable", fn.Pos())
	// body
	u.runRegion(fr, nil, []edgeState{{nil, fn.Blocks[0], st.Clone()}})
	// merge returns
	if len(fr.rets) == 0 {
		u.note("function has no normally returning path under its precondition")
	} else {
		merged := fr.rets[0].st
		vals := fr.rets[0].vals
		for i := 1; i < len(fr.rets); i++ {
			cnd := merged.G
			nm := u.mergeStates(merged, fr.rets[i].st)
			nv := make([]Value, len(vals))
			for k := range vals {
				nv[k] = u.mergeVal(cnd, vals[k], fr.rets[i].vals[k])
			}
			merged, vals = nm, nv
		}
		u.retVals = vals
		env := u.specEnv(fr, merged)
		bindResults(env.vars, fn, vals)
		for i, en := range c.Hints {
			t := u.evalClauseIn(env, en)
			u.oblige(merged, "hint", fmt.Sprintf("hint %d: %s", i+1, en.Text), fn.Pos(), t, en.Tag)
			u.assume(merged, t, "hint (proved above): "+en.Text)
		}
		for i, en := range c.Ensures {
			if en.Assumed {
				// `trust` clause: exported to callers, not proved here; listed in the evidence (the spec must still evaluate)
				u.evalClauseIn(env, en)
				res.Assumes = append(res.Assumes, fmt.Sprintf("assumed clause (trust, exported to callers, NOT proved against the body) %s [%s]: %s", u.unitName(), en.Tag, en.Text))
				continue
			}
			t := u.evalClauseIn(env, en)
			u.oblige(merged, "ensures", fmt.Sprintf("postcondition %d: %s", i+1, en.Text), fn.Pos(), t, en.Tag)
		}
		// `fresh` is a claim about the result that callers rely on: prove it
		freshGoal := func(v Value) (Term, bool) {
			switch x := v.(type) {
			case Sc:
				return And(Neq(x.T, TNil), Cmp(">=", app("objof", SInt, x.T), u.pre0Alloc())), true
			case SliceV:
				return And(Neq(x.Arr, TNil), Cmp(">=", app("objof", SInt, x.Arr), u.pre0Alloc())), true
			}
			return TTrue, false
		}
		if c.Fresh && len(vals) == 1 {
			if g, ok := freshGoal(vals[0]); ok {
				u.oblige(merged, "fresh", "the result is a newly allocated, non-nil object", fn.Pos(), g, "")
			}
		}
		for idx := range c.FreshResults {
			if idx < len(vals) {
				if g, ok := freshGoal(vals[idx]); ok {
					u.oblige(merged, "fresh", fmt.Sprintf("result %d is a newly allocated, non-nil object", idx), fn.Pos(), g, fmt.Sprintf("result%d", idx))
				}
			}
		}
		for i, en := range c.Lemmas {
			t := u.evalClauseIn(env, en)
			u.oblige(merged, "lemma", fmt.Sprintf("lemma %d: %s", i+1, en.Text), fn.Pos(), t, en.Tag)
		}
		u.frameObligations(fr, merged)
		u.cover(merged, "function exit reachable", fn.Pos())
	}
	res.Unsupported = u.unsup
	res.SpecErrs = append(res.SpecErrs, u.specErrs...)
	res.HavocAlls = u.havocAlls
	res.Assumes = append(res.Assumes, sortedKeysB(u.assumptionsUsed)...)
	for cc := range w.usedContracts[u] {
		res.Callees = append(res.Callees, cc.Func)
	}
	sort.Strings(res.Callees)
	for _, o := range u.obls {
		res.Obls = append(res.Obls, &OblResult{Obligation: o})
	}
	return res
}

func sortedKeysB(m map[string]bool) []string {
	var ks []string
	for k := range m {
		ks = append(ks, k)
	}
	sort.Strings(ks)
	return ks
}

func (u *Unit) evalClauseIn(env *SpecEnv, c Clause) (t Term) {
	defer func() {
		if r := recover(); r != nil {
			if se, ok := r.(specError); ok {
				u.specFail(c, se.msg)
				t = TFalse
				return
			}
			panic(r)
		}
	}()
	return env.evalBool(c.Expr)
}

// frameObligations: every family written by the body differs from the
// pre-state only at locations named by the modifies clauses (or at objects
// allocated by the function itself).
func (u *Unit) frameObligations(fr *frame, final *State) {
	c := u.c
	if c.ModAll {
		return
	}
	if len(u.havocAlls) > 0 {
		tmp := &State{G: TTrue}
		u.oblige(tmp, "frame", "paths that havoc the whole heap ("+strings.Join(u.havocAlls, "; ")+") are unreachable (the contract does not say 'modifies *')", u.fn.Pos(), Not(Or(u.havocGuards...)), "havoc")
	}
	allowed := map[string][]modItem{}
	env := u.specEnv(fr, u.pre)
	env.old = u.pre
	for _, m := range c.Modifies {
		func() {
			defer func() {
				if r := recover(); r != nil {
					if se, ok := r.(specError); ok {
						u.specFail(m, se.msg)
						return
					}
					panic(r)
				}
			}()
			for _, it := range env.modItems(m.Expr) {
				allowed[it.fam] = append(allowed[it.fam], it)
			}
		}()
	}
	alloc0 := u.pre0Alloc()
	for _, fam := range sortedKeysB(u.written) {
		sortv := u.famSort[fam]
		fin := u.heapGet(final, fam, sortv)
		pre := u.viewGet(u.pre.View(), fam, sortv)
		if fin.S == pre.S {
			continue
		}
		items := allowed[fam]
		whole := false
		for _, it := range items {
			if it.whole {
				whole = true
			}
		}
		if whole {
			continue
		}
		if !strings.HasPrefix(sortv, "(Array") {
			// global cell
			if len(items) == 0 {
				u.oblige(final, "frame", "global "+fam+" unchanged", u.fn.Pos(), Eq(fin, pre), sanitize(fam))
			}
			continue
		}
		p := Term{"p!frame", SInt}
		var exc []Term
		keyed := map[string][]Term{}
		keyedIdx := map[string]Term{}
		for _, it := range items {
			if it.rngArr != nil {
				exc = append(exc, Term{it.inRange("p!frame"), SBool})
				continue
			}
			if it.key != nil {
				keyed[it.idx.S] = append(keyed[it.idx.S], *it.key)
				keyedIdx[it.idx.S] = it.idx
				continue
			}
			exc = append(exc, Eq(p, it.idx))
		}
		var body Term
		same := Eq(Select(fin, p), Select(pre, p))
		if strings.HasPrefix(fam, "MV:") {
			// observational: values are compared on the (pre-state) domain only; the domain itself is framed by the MD: family
			dfam := "MD:" + strings.TrimPrefix(fam, "MV:")
			if k := strings.Index(dfam, "#"); k >= 0 {
				dfam = dfam[:k]
			}
			inner := arrVal(sortv)
			ks := arrKey(inner)
			dpre := u.viewGet(u.pre.View(), dfam, ArrSort(SInt, ArrSort(ks, SBool)))
			same = Term{fmt.Sprintf("(forall ((k!obs %s)) (=> (select (select %s p!frame) k!obs) (= (select (select %s p!frame) k!obs) (select (select %s p!frame) k!obs))))", ks, dpre.S, fin.S, pre.S), SBool}
		}
		if len(keyed) > 0 {
			inner := arrVal(sortv)
			ks := arrKey(inner)
			k := Term{"k!frame", ks}
			for _, idxS := range sortedKeys(keyed) {
				idx := keyedIdx[idxS]
				var kexc []Term
				for _, kk := range keyed[idxS] {
					kexc = append(kexc, Eq(k, kk))
				}
				kbody := Or(append(kexc, Eq(Select(Select(fin, idx), k), Select(Select(pre, idx), k)))...)
				kq := Term{fmt.Sprintf("(forall ((k!frame %s)) %s)", ks, kbody.S), SBool}
				same = Ite(Eq(p, idx), kq, same)
			}
		}
		body = Implies(And(Cmp("<", app("objof", SInt, p), alloc0), Cmp(">", p, TZero)), Or(append(exc, same)...))
		goal := Term{fmt.Sprintf("(forall ((p!frame Int)) %s)", body.S), SBool}
		u.oblige(final, "frame", "only the locations in 'modifies' change in family "+fam, u.fn.Pos(), goal, sanitize(fam))
	}
}

var _ = token.NoPos
var _ = types.Typ
