package main

import (
	"fmt"
	"go/types"
	"sort"
	"strings"

	"golang.org/x/tools/go/ssa"
)

// Value is the engine-level symbolic value of a Go expression.
type Value interface{}

// Sc is a value carried by a single SMT term (bool, ints, floats, strings,
// pointers, maps, interfaces, funcs, opaque scalars).
type Sc struct {
	T   Term
	Typ types.Type // may be nil for spec-only values
}

// SliceV is a Go slice: backing array id, offset, length.
type SliceV struct {
	Arr, Off, Len Term
	Elem          types.Type
}

// LocPtr is a pointer to a non-struct storage location that is a field of a
// struct (Burstall family F:T.f indexed by the object reference).
type LocPtr struct {
	Fam string
	Idx Term
	Typ types.Type // type of the pointee
}

// StructV is a struct value (by value). Exactly one representation is set.
type StructV struct {
	Typ    types.Type
	Ref    *Term     // read lazily from View at address Ref
	View   *HeapView // snapshot the fields are read from
	Fields map[int]Value
	Zero   bool
	Fresh  string // fresh symbolic struct: fields are fresh constants named after this id
	Box    *Term  // struct payload of an interface value: fields are functions of the box term
	BoxKey string // "<typekey>.<path>" prefix of the payload functions
	C      *Term
	A, B   *StructV
}

type TupleV []Value

type ClosureV struct {
	Fn   *ssa.Function
	Bind []Value
	ID   Term
}

type RangeIterV struct {
	Map Value
	ID  string
}

// BoundMethodV / builtin marker values are not needed: calls are resolved from ssa.CallCommon.

// HeapView is an immutable snapshot of the heap: explicit family versions
// plus the havoc-history id that resolves every other family.
type HeapView struct {
	Fams map[string]Term
	Hid  int
}

type nameRef struct {
	V      Value
	IsAddr bool
}

type deferEntry struct {
	G    Term
	Call *ssa.CallCommon
	Args []Value
	Fn   Value
	Pos  ssa.Instruction
}

// State is the symbolic state at a program point.
type State struct {
	G      Term
	Env    map[ssa.Value]Value
	Heap   map[string]Term
	Hid    int
	Alloc  Term
	AllocOff int
	Names  map[string]nameRef
	Ghost  map[string]Term
	Defers []deferEntry
}

func (s *State) Clone() *State {
	n := &State{G: s.G, Hid: s.Hid, Alloc: s.Alloc, AllocOff: s.AllocOff}
	n.Env = make(map[ssa.Value]Value, len(s.Env)+8)
	for k, v := range s.Env {
		n.Env[k] = v
	}
	n.Heap = make(map[string]Term, len(s.Heap)+4)
	for k, v := range s.Heap {
		n.Heap[k] = v
	}
	n.Names = make(map[string]nameRef, len(s.Names)+4)
	for k, v := range s.Names {
		n.Names[k] = v
	}
	n.Ghost = make(map[string]Term, len(s.Ghost))
	for k, v := range s.Ghost {
		n.Ghost[k] = v
	}
	n.Defers = append([]deferEntry{}, s.Defers...)
	return n
}

func (s *State) allocTerm() Term {
	if s.AllocOff == 0 {
		return s.Alloc
	}
	return Arith("+", s.Alloc, IntLit(int64(s.AllocOff)))
}

func (s *State) View() *HeapView {
	m := make(map[string]Term, len(s.Heap))
	for k, v := range s.Heap {
		m[k] = v
	}
	return &HeapView{Fams: m, Hid: s.Hid}
}

// ---------------------------------------------------------------------------
// Type helpers

func fullQual(p *types.Package) string { return p.Path() }

func typeKey(t types.Type) string {
	return types.TypeString(t, fullQual)
}

func shortType(t types.Type) string {
	return types.TypeString(t, func(p *types.Package) string { return p.Name() })
}

// curFloatSort is SReal (default) or SF (contracts marked 'ieee').
var curFloatSort = SReal

var opaqueScalarTypes = map[string]string{
	"time.Time":                                 SInt,
	"k8s.io/apimachinery/pkg/apis/meta/v1.Time": SInt,
	"k8s.io/apimachinery/pkg/api/resource.Quantity": SReal,
	"time.Month":    SInt,
	"time.Location": SInt,
}

func isOpaqueScalar(t types.Type) (string, bool) {
	s, ok := opaqueScalarTypes[typeKey(t)]
	return s, ok
}

// scalarSort returns the SMT sort for types carried in one term, or "".
func scalarSort(t types.Type) string {
	if s, ok := isOpaqueScalar(t); ok {
		return s
	}
	switch u := t.Underlying().(type) {
	case *types.Basic:
		switch {
		case u.Info()&types.IsBoolean != 0:
			return SBool
		case u.Info()&types.IsInteger != 0:
			return SInt
		case u.Info()&types.IsFloat != 0:
			return curFloatSort
		case u.Info()&types.IsString != 0:
			return SStr
		case u.Kind() == types.UnsafePointer:
			return SInt
		case u.Kind() == types.UntypedNil:
			return SInt
		}
		return ""
	case *types.Pointer, *types.Map, *types.Interface, *types.Signature, *types.Chan:
		return SInt
	case *types.TypeParam:
		return SInt
	}
	return ""
}

func isStructType(t types.Type) bool {
	if _, ok := isOpaqueScalar(t); ok {
		return false
	}
	_, ok := t.Underlying().(*types.Struct)
	return ok
}

func isSliceType(t types.Type) bool {
	_, ok := t.Underlying().(*types.Slice)
	return ok
}

func isArrayType(t types.Type) bool {
	_, ok := t.Underlying().(*types.Array)
	return ok
}

func isFloatType(t types.Type) bool {
	if _, ok := isOpaqueScalar(t); ok {
		return false
	}
	b, ok := t.Underlying().(*types.Basic)
	return ok && b.Info()&types.IsFloat != 0
}

func isUnsigned(t types.Type) bool {
	b, ok := t.Underlying().(*types.Basic)
	return ok && b.Info()&types.IsUnsigned != 0
}

func isStringType(t types.Type) bool {
	b, ok := t.Underlying().(*types.Basic)
	return ok && b.Info()&types.IsString != 0
}

func isPointerLike(t types.Type) bool {
	switch t.Underlying().(type) {
	case *types.Pointer, *types.Map, *types.Chan, *types.Signature:
		return true
	}
	return false
}

func isInterfaceType(t types.Type) bool {
	_, ok := t.Underlying().(*types.Interface)
	return ok
}

func derefType(t types.Type) types.Type {
	if p, ok := t.Underlying().(*types.Pointer); ok {
		return p.Elem()
	}
	return nil
}

// Families ------------------------------------------------------------------

func fieldFam(structT types.Type, idx int) string {
	st := structT.Underlying().(*types.Struct)
	return "F:" + typeKey(structT) + "." + st.Field(idx).Name()
}

func cellFam(t types.Type) string { return "C:" + typeKey(t) }
func mapDomFam(t types.Type) string {
	return "MD:" + typeKey(t.Underlying())
}
func mapValFam(t types.Type) string {
	return "MV:" + typeKey(t.Underlying())
}

// comps lists the (suffix, sort) components that a non-struct type occupies
// in a storage family.
func comps(t types.Type) []([2]string) {
	if s := scalarSort(t); s != "" {
		return [][2]string{{"", s}}
	}
	if isSliceType(t) {
		return [][2]string{{"#arr", SInt}, {"#off", SInt}, {"#len", SInt}}
	}
	return nil
}

func sortedKeys[V any](m map[string]V) []string {
	var ks []string
	for k := range m {
		ks = append(ks, k)
	}
	sort.Strings(ks)
	return ks
}

func describeValue(v Value) string {
	switch x := v.(type) {
	case Sc:
		return x.T.S
	case SliceV:
		return fmt.Sprintf("slice(%s,%s,%s)", x.Arr.S, x.Off.S, x.Len.S)
	case LocPtr:
		return fmt.Sprintf("&%s[%s]", x.Fam, x.Idx.S)
	case *StructV:
		return "struct " + shortType(x.Typ)
	case TupleV:
		var p []string
		for _, e := range x {
			p = append(p, describeValue(e))
		}
		return "(" + strings.Join(p, ", ") + ")"
	case *ClosureV:
		return "closure " + x.Fn.Name()
	case nil:
		return "<nil>"
	}
	return fmt.Sprintf("%T", v)
}

// singleScalarStruct: a struct type with exactly one field of scalar sort (metav1.Duration{time.Duration}): as a MAP
// VALUE it is stored as that scalar.
func singleScalarStruct(t types.Type) (types.Type, bool) {
	if _, op := isOpaqueScalar(t); op {
		return nil, false
	}
	st, ok := t.Underlying().(*types.Struct)
	if !ok || st.NumFields() != 1 {
		return nil, false
	}
	ft := st.Field(0).Type()
	if scalarSort(ft) == "" {
		return nil, false
	}
	return ft, true
}

// mapComps: storage components of a MAP VALUE type (like comps, plus struct values: a single-scalar struct is stored as
// its scalar, any other struct as one value family per flattened scalar / slice leaf field, suffix "#<i>.<j>...").
func mapComps(vt types.Type) [][2]string {
	if ft, ok := singleScalarStruct(vt); ok {
		return [][2]string{{"", scalarSort(ft)}}
	}
	if isStructType(vt) {
		out, ok := structLeafComps(vt, "", 0)
		if !ok || len(out) == 0 || len(out) > 40 {
			return nil
		}
		return out
	}
	return comps(vt)
}

func structLeafComps(t types.Type, prefix string, depth int) ([][2]string, bool) {
	st, ok := t.Underlying().(*types.Struct)
	if !ok || depth > 3 {
		return nil, false
	}
	var out [][2]string
	for i := 0; i < st.NumFields(); i++ {
		ft := st.Field(i).Type()
		p := fmt.Sprintf("%s#%d", prefix, i)
		switch {
		case scalarSort(ft) != "":
			out = append(out, [2]string{p, scalarSort(ft)})
		case isSliceType(ft):
			out = append(out, [2]string{p + "#arr", SInt}, [2]string{p + "#off", SInt}, [2]string{p + "#len", SInt})
		case isStructType(ft):
			sub, ok := structLeafComps(ft, p, depth+1)
			if !ok {
				return nil, false
			}
			out = append(out, sub...)
		default:
			return nil, false
		}
	}
	return out, true
}
