package main

import (
	"encoding/json"
	"flag"
	"fmt"
	"go/types"
	"os"
	"path/filepath"
	"sort"
	"strconv"
	"strings"
	"time"

	"golang.org/x/tools/go/ssa"
)

var defaultPatterns = []string{
	"./pkg/scheduler/...", "./pkg/binder/...", "./pkg/podgrouper/...", "./pkg/admission/...",
	"./pkg/common/...", "./pkg/podgroupcontroller/...", "./pkg/queuecontroller/...", "./pkg/apis/...",
}

// extraPatterns: packages loaded only for the named property's check, so that the closed world (interface dispatch,
// stable families) of every other property is exactly what it was.
var extraPatterns = map[string][]string{
	"C20": {"./pkg/operator/operands/known_types"},
}

func patternsFor(prop string) []string {
	return append(append([]string{}, defaultPatterns...), extraPatterns[prop]...)
}

func main() {
	if len(os.Args) < 2 {
		fmt.Fprintln(os.Stderr, "usage: govc check|dump|list ...")
		os.Exit(64)
	}
	switch os.Args[1] {
	case "dump":
		cmdDump(os.Args[2:])
	case "check":
		os.Exit(cmdCheck(os.Args[2:]))
	case "replay":
		if len(os.Args) < 3 {
			fmt.Println("usage: govc replay <replay.json>")
			os.Exit(64)
		}
		os.Exit(cmdReplay(os.Args[2]))
	case "sweep":
		os.Exit(cmdSweep(os.Args[2:]))
	case "parse":
		for _, f := range os.Args[2:] {
			cf, err := ParseContractFile(f)
			if err != nil {
				fmt.Println("ERROR", err)
				os.Exit(1)
			}
			fmt.Printf("%s: %d contracts, %d defines\n", f, len(cf.Contracts), len(cf.Defines))
		}
	default:
		fmt.Fprintln(os.Stderr, "unknown command", os.Args[1])
		os.Exit(64)
	}
}

func cmdDump(args []string) {
	w, err := loadWorld([]string{args[0]}, nil)
	if err != nil {
		fmt.Fprintln(os.Stderr, err)
		os.Exit(2)
	}
	for _, pi := range w.pkgs {
		var fs []*ssa.Function
		for f := range w.functionsOf(pi) {
			fs = append(fs, f)
		}
		sort.Slice(fs, func(i, j int) bool { return fs[i].String() < fs[j].String() })
		for _, f := range fs {
			if len(args) < 2 || strings.Contains(funcKey(f), args[1]) {
				fmt.Printf("## key: %s\n", funcKey(f))
				f.WriteTo(os.Stdout)
				li := w.loopsOf(f)
				for _, l := range li.loops {
					fmt.Printf("## loop %d header block %d (%s) at %s\n", l.Ordinal, l.Header.Index, l.Header.Comment, w.fset.Position(l.minPos))
				}
				fmt.Println()
			}
		}
	}
}

type knownFinding struct {
	Property   string `json:"property"`
	Obligation string `json:"obligation"`
	Status     string `json:"status"` // open | fixed
	What       string `json:"what"`
	Commit     string `json:"commit,omitempty"`
}

type evidence struct {
	PropertyID  string                 `json:"property_id"`
	Tier        string                 `json:"tier"`
	Seed        int                    `json:"seed"`
	Level       string                 `json:"level"`
	Coverage    map[string]interface{} `json:"coverage"`
	Assumptions []string               `json:"assumptions"`
	WallS       float64                `json:"wall_s"`
	Violations  int                    `json:"violations"`
}

func cmdCheck(args []string) int {
	fs := flag.NewFlagSet("check", flag.ExitOnError)
	prop := fs.String("prop", "", "property id (or 'all')")
	tier := fs.String("tier", "quick", "quick|thorough")
	cdirs := fs.String("contracts", "/repo,/verif/contracts", "comma-separated roots holding <pkg>/zz_verif_contracts.go")
	evPath := fs.String("evidence", "", "evidence file to write")
	workdir := fs.String("workdir", "", "directory for SMT files")
	only := fs.String("func", "", "only verify functions whose key contains this")
	verbose := fs.Bool("v", false, "verbose")
	timeout := fs.Int("timeout", 0, "per-solver timeout (s)")
	known := fs.String("known", "/verif/known_findings.json", "known findings file")
	replayDir := fs.String("replays", "/verif/replays", "replay output directory")
	common := fs.String("common", "/verif/spec/common.gospec", "shared spec definitions")
	keep := fs.Bool("keep", false, "keep the SMT work directory")
	slow := fs.Int("slow", 2000, "report obligations slower than this many ms (verbose)")
	closure := fs.Bool("closure", os.Getenv("GOVC_NOCLOSURE") == "", "also verify every contracted callee the property's units depend on (transitively)")
	overlayFile := fs.String("overlay", "", "json file {path: replacement-path} applied as source overlay")
	pkgFilter := fs.String("pkg", "", "after computing the property's units and their dependency closure, solve only the units whose package path contains one of these comma-separated substrings (development / seed trials: a code change can only affect the units of its own package and the units that inline it)")
	fs.Parse(args)
	t0 := time.Now()
	seed := 0
	if s := os.Getenv("VERIF_SEED"); s != "" {
		seed, _ = strconv.Atoi(s)
	}
	if *workdir == "" {
		*workdir = filepath.Join(os.TempDir(), fmt.Sprintf("govc-%s-%d", *prop, os.Getpid()))
	}
	os.MkdirAll(*workdir, 0o755)
	var overlay map[string][]byte
	if *overlayFile != "" {
		data, err := os.ReadFile(*overlayFile)
		if err != nil {
			fmt.Fprintln(os.Stderr, err)
			return 2
		}
		m := map[string]string{}
		if err := json.Unmarshal(data, &m); err != nil {
			fmt.Fprintln(os.Stderr, err)
			return 2
		}
		overlay = map[string][]byte{}
		for k, v := range m {
			b, err := os.ReadFile(v)
			if err != nil {
				fmt.Fprintln(os.Stderr, err)
				return 2
			}
			overlay[k] = b
		}
	}
	w, err := loadWorld(patternsFor(*prop), overlay)
	if err != nil {
		fmt.Printf("UNDECIDED property=%s reason=load-failed: %v\n", *prop, err)
		return 2
	}
	if err := w.loadContracts(strings.Split(*cdirs, ",")); err != nil {
		fmt.Printf("UNDECIDED property=%s reason=contract-parse: %v\n", *prop, err)
		return 2
	}
	if _, err := os.Stat(*common); err == nil {
		cf, err := ParseContractFile(*common)
		if err != nil {
			fmt.Printf("UNDECIDED property=%s reason=contract-parse: %v\n", *prop, err)
			return 2
		}
		w.common = cf
		// the shared file is evaluated in the scope of a designated package (imports via 'import' clauses)
		for _, pi := range w.pkgs {
			if pi.path == repoModule+"/pkg/scheduler/api/resource_info" {
				cp := *pi
				cp.cf = cf
				cp.imports = map[string]*types.Package{}
				for alias, path := range cf.Imports {
					if tp := w.findTypesPackage(path); tp != nil {
						cp.imports[alias] = tp
					}
				}
				w.commonPkg = &cp
			}
		}
	}
	tLoad := time.Since(t0)
	var structuralPre []string
	for _, ce := range w.contractErrs {
		if *prop == "all" || strings.Contains(ce.raw, *prop) {
			structuralPre = append(structuralPre, "contract file does not parse: "+ce.msg)
		} else {
			fmt.Fprintf(os.Stderr, "warning: contract file ignored (parse error): %s\n", ce.msg)
		}
	}

	// select units
	var units []*UnitResult
	structural := append([]string{}, structuralPre...)
	var pkgPaths []string
	for p := range w.pkgs {
		pkgPaths = append(pkgPaths, p)
	}
	sort.Strings(pkgPaths)
	for _, pp := range pkgPaths {
		pi := w.pkgs[pp]
		if pi.cf == nil {
			continue
		}
		funcs := map[string]*ssa.Function{}
		for f := range w.functionsOf(pi) {
			funcs[funcKey(f)] = f
		}
		for _, key := range pi.cf.Order {
			c := pi.cf.Contracts[key]
			if !hasProp(c.Props, *prop) || c.Inline {
				continue
			}
			if *only != "" && !strings.Contains(key, *only) {
				continue
			}
			if strings.HasPrefix(key, "field:") || strings.HasPrefix(key, "type:") || strings.HasPrefix(key, "param:") || strings.Contains(key, "/") || c.Trusted && funcs[key] == nil {
				units = append(units, &UnitResult{Name: pi.short + "." + key, Func: key, Pkg: pi.path, Props: c.Props, Trusted: true})
				continue
			}
			fn := funcs[key]
			if fn == nil {
				// interface method contracts: IfaceName.Method
				if isIfaceKey(pi, key) {
					units = append(units, &UnitResult{Name: pi.short + "." + key, Func: key, Pkg: pi.path, Props: c.Props, Trusted: true})
					continue
				}
				structural = append(structural, fmt.Sprintf("contract target %s.%s not found in the current tree", pi.short, key))
				continue
			}
			units = append(units, w.verifyFunction(pi, fn, c))
		}
	}
	// Dependency closure: a unit is proved against the CONTRACTS of its callees, so the property also rests on
	// every callee contract it used being discharged against the callee's body. Those units are added here
	// (transitively) even when their own `props` line does not name this property.
	nTagged := len(units)
	if *closure && *only == "" && *prop != "all" {
		have := map[*Contract]bool{}
		for _, u := range units {
			if u.unit != nil {
				have[u.unit.c] = true
			}
		}
		for i := 0; i < len(units); i++ {
			u := units[i]
			if u.unit == nil {
				continue
			}
			var used []*Contract
			for cc := range w.usedContracts[u.unit] {
				used = append(used, cc)
			}
			sort.Slice(used, func(a, b int) bool { return used[a].File+used[a].Func < used[b].File+used[b].Func })
			for _, cc := range used {
				if have[cc] || cc.Trusted || cc.Inline {
					continue
				}
				have[cc] = true
				pi := w.pkgOfContract(cc)
				if pi == nil || pi == w.commonPkg {
					continue
				}
				var fn *ssa.Function
				for f := range w.functionsOf(pi) {
					if funcKey(f) == cc.Func {
						fn = f
					}
				}
				if fn == nil || fn.Blocks == nil {
					continue // interface / func-typed / library contracts: assumptions, listed as such
				}
				nu := w.verifyFunction(pi, fn, cc)
				nu.Dependency = true
				units = append(units, nu)
			}
		}
	}
	if *pkgFilter != "" {
		var kept []*UnitResult
		for _, u := range units {
			for _, sub := range strings.Split(*pkgFilter, ",") {
				if sub != "" && strings.Contains(u.Pkg, sub) {
					kept = append(kept, u)
					break
				}
			}
		}
		units = kept
	}
	tGen := time.Since(t0) - tLoad
	to := 30
	if *tier == "thorough" {
		to = 60
	}
	if *timeout > 0 {
		to = *timeout
	}
	disagreements := solveAll(units, solveConfig{workdir: *workdir, timeoutS: to, all: *tier == "thorough", jobs: solverJobs()})
	tSolve := time.Since(t0) - tLoad - tGen

	// known findings
	var kf []knownFinding
	if data, err := os.ReadFile(*known); err == nil {
		json.Unmarshal(data, &kf)
	}
	isKnown := func(name string) *knownFinding {
		for i := range kf {
			if kf[i].Status == "open" && kf[i].Obligation == name && (kf[i].Property == *prop || *prop == "all") {
				return &kf[i]
			}
		}
		return nil
	}

	// report
	nObl, nDis, nCover, nCoverOK := 0, 0, 0, 0
	byBackend := map[string]int{}
	solverMs := int64(0)
	var violations []string
	knownMatched := []string{}
	var funcsUnder []map[string]interface{}
	var assumptions []string
	asmSeen := map[string]bool{}
	addAsm := func(s string) {
		if !asmSeen[s] {
			asmSeen[s] = true
			assumptions = append(assumptions, s)
		}
	}
	var samples []interface{}
	undecided := append([]string{}, structural...)
	os.MkdirAll(*replayDir, 0o755)
	for _, u := range units {
		fe := map[string]interface{}{"function": u.Name, "pos": u.Pos, "src_sha256_8": u.SrcHash, "obligations": len(u.Obls)}
		if u.Dependency {
			fe["included_as"] = "dependency (its contract is used by a unit of this property)"
		}
		if u.Trusted {
			fe["status"] = "assumed (trusted / no body)"
			note := ""
			if pi := w.pkgs[u.Pkg]; pi != nil && pi.cf != nil {
				if c := pi.cf.Contracts[u.Func]; c != nil && len(c.Notes) > 0 {
					note = " -- " + strings.Join(c.Notes, "; ")
				}
			}
			addAsm("assumed contract (not verified against a body): " + u.Name + note)
			funcsUnder = append(funcsUnder, fe)
			continue
		}
		for _, m := range u.Unsupported {
			addAsm("over-approximated in " + u.Name + ": " + m)
		}
		for _, m := range u.Assumes {
			addAsm(m)
		}
		for _, m := range u.SpecErrs {
			undecided = append(undecided, "specification error in "+u.Name+": "+m)
		}
		if len(u.Callees) > 0 {
			fe["callee_contracts_used"] = u.Callees
		}
		for cc := range w.usedContracts[u.unit] {
			for _, en := range cc.Ensures {
				if en.Assumed && !cc.Trusted {
					addAsm(fmt.Sprintf("assumed clause (trust) of %s used: [%s] %s", cc.Func, en.Tag, en.Text))
				}
			}
			if cc.Trusted || strings.Contains(cc.Func, "/") || isLibKey(cc.Func) || strings.HasPrefix(cc.Func, "type:") || strings.HasPrefix(cc.Func, "field:") || strings.HasPrefix(cc.Func, "param:") {
				addAsm("assumed contract (trusted, body not verified) used: " + cc.Func)
			}
		}
		bad := 0
		for _, o := range u.Obls {
			solverMs += o.Ms
			if o.Cover {
				nCover++
				if o.Status == "cover-ok" {
					nCoverOK++
				} else {
					undecided = append(undecided, fmt.Sprintf("vacuity: %s (%s) is unsatisfiable", o.Name, o.Desc))
				}
				continue
			}
			nObl++
			if *verbose && o.Ms > int64(*slow) {
				fmt.Printf("    slow: %s %dms %v\n", o.Name, o.Ms, o.Tried)
			}
			switch o.Status {
			case "discharged":
				nDis++
				byBackend[o.Backend]++
				if len(samples) < 3 && o.Backend != "syntactic" {
					q := u.ctx.Query(o.Prefix, o.Goal, false)
					if len(q) > 6000 {
						q = q[:3000] + "\n...[truncated]...\n" + q[len(q)-2500:]
					}
					samples = append(samples, map[string]interface{}{"obligation": o.Name, "kind": o.Kind, "desc": o.Desc, "pos": o.Pos, "backend": o.Backend, "ms": o.Ms, "smt2": q})
				}
			default:
				bad++
				if k := isKnown(o.Name); k != nil {
					knownMatched = append(knownMatched, o.Name)
					fmt.Printf("KNOWN-FINDING: property=%s %s: %s\n", *prop, o.Name, k.What)
					nDis++ // counted separately below
					byBackend["known-finding"]++
					continue
				}
				rp := filepath.Join(*replayDir, fmt.Sprintf("%s-%s.json", *prop, filepath.Base(strings.TrimSuffix(oblFile(solveConfig{workdir: ""}, o.Name), ".smt2"))))
				replay := map[string]interface{}{
					"property": *prop, "obligation": o.Name, "kind": o.Kind, "desc": o.Desc, "pos": o.Pos,
					"status": o.Status, "solvers": o.Tried, "solver_output": truncate(o.Output, 20000),
					"smt2_file": oblFile(solveConfig{workdir: *workdir}, o.Name), "function": u.Name, "function_pos": u.Pos,
				}
				suffix := " no-failing-input-found"
				if o.Status == "failed" {
					rr := tryReplay(w, u, o, *workdir)
					replay["replay"] = rr
					if rr != nil && rr.Reproduced {
						suffix = ""
					}
				}
				data, _ := json.MarshalIndent(replay, "", " ")
				os.WriteFile(rp, data, 0o644)
				violations = append(violations, fmt.Sprintf("VIOLATION property=%s replay=%s%s", *prop, rp, suffix))
				if *verbose || true {
					fmt.Printf("  FAILED %s [%s] %s (%s) %v\n", o.Name, o.Status, o.Desc, o.Pos, o.Tried)
				}
			}
		}
		fe["failed"] = bad
		funcsUnder = append(funcsUnder, fe)
		if *verbose {
			fmt.Printf("unit %-70s obligations=%d failed=%d unsupported=%d\n", u.Name, len(u.Obls), bad, len(u.Unsupported))
			for _, m := range u.Unsupported {
				fmt.Printf("    over-approximated: %s\n", m)
			}
			for _, m := range u.HavocAlls {
				fmt.Printf("    havoc-all: %s\n", m)
			}
			if len(u.HavocAlls) > 0 && u.unit != nil {
				seenD := map[*stableDecl]bool{}
				nKept := 0
				for _, fam := range sortedKeys(w.stableFams) {
					d := w.stableFams[fam]
					if seenD[d] {
						continue
					}
					seenD[d] = true
					if w.stableIn(fam, u.unit.fn) == nil {
						fmt.Printf("    stable %s NOT usable at unit level (per-callee havocs may still keep it): a reachable function stores to it: %s\n", d.text, w.whyUnstable(d, u.unit.fn))
					} else {
						nKept++
					}
				}
				fmt.Printf("    stable declarations kept across every havoc of this unit: %d\n", nKept)
			}
		}
	}
	for _, d := range disagreements {
		undecided = append(undecided, "solver disagreement: "+d)
	}
	if nObl == 0 {
		undecided = append(undecided, "no obligations generated (vacuous check)")
	}
	wall := time.Since(t0).Seconds()
	ev := evidence{PropertyID: *prop, Tier: *tier, Seed: seed, Level: "proof", WallS: wall, Violations: len(violations)}
	trusted := []string{
		"govc (this VC generator: go/ssa -> SMT-LIB2 translation, memory model, loop cutting)",
		"golang.org/x/tools v0.50.0 go/ssa, go/types, go/packages",
		"SMT solvers: z3-new 5.1.0, cvc5 1.0.x, z3 4.8.12 ('unsat' from one is accepted in the quick tier; thorough tier runs all and fails on disagreement)",
	}
	addAsm("A-INT: Go integers are mathematical integers (no overflow/wrap-around)")
	addAsm("A-REAL: float64 is the real numbers (or reals + {+Inf,-Inf,NaN} in functions marked ieee); rounding is not modelled")
	addAsm("A-FRESHFRAME: writes a callee performs on objects it allocates itself are visible to callers only through its ensures clauses")
	addAsm("A-APPEND: append always returns a fresh backing array (aliasing of spare capacity not modelled); cap() is only known to be >= len()")
	ev.Assumptions = assumptions
	ev.Coverage = map[string]interface{}{
		"obligations":              nObl,
		"discharged":               nDis - len(knownMatched),
		"known_findings_matched":   knownMatched,
		"covers":                   nCover,
		"covers_sat":               nCoverOK,
		"by_backend":               byBackend,
		"solver_time_s":            float64(solverMs) / 1000.0,
		"load_s":                   tLoad.Seconds(),
		"vcgen_s":                  tGen.Seconds(),
		"solve_wall_s":             tSolve.Seconds(),
		"checker_cmd":              "govc " + strings.Join(os.Args[1:], " "),
		"trusted_base":             trusted,
		"functions_under_contract": funcsUnder,
		"samples":                  samples,
		"undecided":                undecided,
		"bounded_obligations":      0,
		"per_solver_timeout_s":     to,
	}
	if StabilityProbed > 0 {
		ev.Coverage["seed_stability_probed"] = StabilityProbed
		ev.Coverage["seed_unstable"] = len(StabilityUnstable)
		if len(StabilityUnstable) > 40 {
			ev.Coverage["seed_unstable_obligations"] = StabilityUnstable[:40]
		} else {
			ev.Coverage["seed_unstable_obligations"] = StabilityUnstable
		}
		fmt.Printf("stability: %d discharged obligations re-run with two other solver seeds, %d proved by neither within 10 s\n", StabilityProbed, len(StabilityUnstable))
	}
	if *evPath != "" {
		os.MkdirAll(filepath.Dir(*evPath), 0o755)
		data, _ := json.MarshalIndent(ev, "", " ")
		os.WriteFile(*evPath, data, 0o644)
	}
	fmt.Printf("property=%s tier=%s units=%d (tagged %d) obligations=%d discharged=%d known=%d covers=%d/%d load=%.1fs vcgen=%.1fs solve=%.1fs\n",
		*prop, *tier, len(units), nTagged, nObl, nDis-len(knownMatched), len(knownMatched), nCoverOK, nCover, tLoad.Seconds(), tGen.Seconds(), tSolve.Seconds())
	for _, v := range violations {
		fmt.Println(v)
	}
	if len(violations) > 0 {
		for _, m := range undecided {
			fmt.Printf("note: %s\n", m)
		}
		return 1
	}
	if len(undecided) > 0 {
		for _, m := range undecided {
			fmt.Printf("UNDECIDED property=%s reason=%s\n", *prop, m)
		}
		return 2
	}
	if !*keep {
		os.RemoveAll(*workdir)
	}
	return 0
}

func truncate(s string, n int) string {
	if len(s) > n {
		return s[:n] + "...[truncated]"
	}
	return s
}

func hasProp(props []string, p string) bool {
	if p == "all" {
		return true
	}
	for _, x := range props {
		if x == p {
			return true
		}
	}
	return false
}

func isIfaceKey(pi *PkgInfo, key string) bool {
	k := strings.Index(key, ".")
	if k <= 0 {
		return false
	}
	name := key[:k]
	if j := strings.LastIndex(name, "/"); j >= 0 {
		return true // fully-qualified external interface
	}
	obj := pi.types.Scope().Lookup(name)
	if obj == nil {
		return false
	}
	_, ok := obj.Type().Underlying().(*types.Interface)
	return ok
}

// cmdSweep runs the VC generator with an empty contract (no-panic obligations only,
// modifies *) over every function of the selected packages: engine shake-out and
// zero-annotation safety sweep.  govc sweep [-solve] <pkg-substring>...
func cmdSweep(args []string) int {
	fs := flag.NewFlagSet("sweep", flag.ExitOnError)
	solve := fs.Bool("solve", false, "also run the solvers")
	fs.Parse(args)
	w, err := loadWorld(defaultPatterns, nil)
	if err != nil {
		fmt.Println(err)
		return 2
	}
	w.loadContracts([]string{"/verif/contracts"})
	var paths []string
	for p := range w.pkgs {
		for _, sub := range fs.Args() {
			if strings.Contains(p, sub) {
				paths = append(paths, p)
				break
			}
		}
	}
	sort.Strings(paths)
	nf, npanic, nobl := 0, 0, 0
	unsup := map[string]int{}
	var units []*UnitResult
	for _, p := range paths {
		pi := w.pkgs[p]
		var fl []*ssa.Function
		for f := range w.functionsOf(pi) {
			fl = append(fl, f)
		}
		sort.Slice(fl, func(i, j int) bool { return funcKey(fl[i]) < funcKey(fl[j]) })
		for _, f := range fl {
			if f.Blocks == nil || strings.HasSuffix(w.fset.Position(f.Pos()).Filename, "_test.go") || strings.Contains(w.fset.Position(f.Pos()).Filename, "zz_generated") {
				continue
			}
			c := &Contract{Func: funcKey(f), Loops: map[int]*LoopSpec{}, NoPanic: true, ModAll: true, File: "sweep"}
			r := w.verifyFunction(pi, f, c)
			nf++
			nobl += len(r.Obls)
			for _, e := range r.SpecErrs {
				if strings.HasPrefix(e, "engine panic") {
					npanic++
					fmt.Printf("ENGINE PANIC in %s: %s\n", r.Name, truncate(e, 1500))
				}
			}
			for _, m := range r.Unsupported {
				k := m
				if i := strings.Index(k, " of "); i > 0 && strings.HasPrefix(k, "loop ") {
					k = "loop without invariant"
				}
				unsup[k]++
			}
			units = append(units, r)
		}
	}
	fmt.Printf("sweep: %d functions, %d obligations, %d engine panics\n", nf, nobl, npanic)
	var ks []string
	for k := range unsup {
		ks = append(ks, k)
	}
	sort.Slice(ks, func(i, j int) bool { return unsup[ks[i]] > unsup[ks[j]] })
	for i, k := range ks {
		if i > 40 {
			break
		}
		fmt.Printf("  %5d  %s\n", unsup[k], truncate(k, 150))
	}
	if *solve {
		wd := filepath.Join(os.TempDir(), fmt.Sprintf("govc-sweep-%d", os.Getpid()))
		os.MkdirAll(wd, 0o755)
		defer os.RemoveAll(wd)
		solveAll(units, solveConfig{workdir: wd, timeoutS: 5, jobs: 16})
		bad := 0
		for _, u := range units {
			for _, o := range u.Obls {
				if !o.Cover && o.Status != "discharged" {
					bad++
					fmt.Printf("  open: %s [%s] %s (%s)\n", o.Name, o.Status, o.Desc, o.Pos)
				}
			}
		}
		fmt.Printf("sweep: %d obligations not discharged without annotations\n", bad)
	}
	return 0
}

// solverJobs: parallel obligations; backs off when the machine is already overloaded (each job races 3-4 solvers).
func solverJobs() int {
	if v := os.Getenv("GOVC_JOBS"); v != "" {
		if n, err := strconv.Atoi(v); err == nil && n > 0 {
			return n
		}
	}
	data, err := os.ReadFile("/proc/loadavg")
	if err != nil {
		return 12
	}
	f := strings.Fields(string(data))
	load, _ := strconv.ParseFloat(f[0], 64)
	switch {
	case load > 64:
		return 2
	case load > 24:
		return 4
	case load > 12:
		return 8
	}
	return 12
}
