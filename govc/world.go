package main

import (
	"golang.org/x/tools/go/callgraph"
	"fmt"
	"go/ast"
	"go/token"
	"go/types"
	"os"
	"path/filepath"
	"sort"
	"strings"

	"golang.org/x/tools/go/packages"
	"golang.org/x/tools/go/ssa"
	"golang.org/x/tools/go/ssa/ssautil"
)

type PkgInfo struct {
	path    string
	short   string
	pkg     *packages.Package
	types   *types.Package
	ssa     *ssa.Package
	cf      *ContractFile
	imports map[string]*types.Package
}

type implInfo struct {
	recvT types.Type
	fn    *ssa.Function
}

type World struct {
	namedFn map[*types.TypeName]*namedFuncInfo // closed-world targets of named func types (stable.go)
	fset      *token.FileSet
	prog      *ssa.Program
	pkgs      map[string]*PkgInfo
	byTypes   map[*types.Package]*PkgInfo
	subKeys   map[string]int
	loopMemo  map[*ssa.Function]*loopInfo
	roMemo    map[*ssa.Function]int
	common    *ContractFile // shared defines (/verif/spec/common.gospec)
	constOK   map[*ssa.Global]bool
	constMemo map[*ssa.Global]*constGlobalVal
	contractDirs []string
	implMemo  map[string][]implInfo
	usedContracts map[*Unit]map[*Contract]bool
	allFuncs  map[*ssa.Function]bool
	extMemo   map[string]*Contract
	contractErrs []contractErr
	commonPkg *PkgInfo
	fullNameMemo map[string]*ssa.Function
	privMemo map[*ssa.Alloc]bool
	boxed map[string]bool
	privMapMemo map[ssa.Value]bool
	stableFams map[string]*stableDecl
	cg *callgraph.Graph
	paramFresh map[*ssa.Function]bool
	curUnitPkg *PkgInfo
}

type contractErr struct{ file, msg, raw string }

func (w *World) subKey(name string) int {
	if k, ok := w.subKeys[name]; ok {
		return k
	}
	k := len(w.subKeys) + 1
	w.subKeys[name] = k
	return k
}

func loadWorld(patterns []string, overlay map[string][]byte) (*World, error) {
	cfg := &packages.Config{
		Mode:    packages.NeedName | packages.NeedFiles | packages.NeedCompiledGoFiles | packages.NeedImports | packages.NeedTypes | packages.NeedSyntax | packages.NeedTypesInfo | packages.NeedTypesSizes,
		Dir:     "/repo",
		Env:     append(os.Environ(), "GOTOOLCHAIN=auto", "GOPROXY=off", "GOFLAGS=-mod=mod"),
		Overlay: overlay,
	}
	pkgs, err := packages.Load(cfg, patterns...)
	if err != nil {
		return nil, err
	}
	nerr := 0
	for _, p := range pkgs {
		for _, e := range p.Errors {
			fmt.Fprintln(os.Stderr, "load error:", e)
			nerr++
		}
	}
	if nerr > 0 {
		return nil, fmt.Errorf("%d package load errors", nerr)
	}
	prog, spkgs := ssautil.Packages(pkgs, ssa.InstantiateGenerics|ssa.GlobalDebug)
	w := &World{prog: prog, pkgs: map[string]*PkgInfo{}, byTypes: map[*types.Package]*PkgInfo{}, subKeys: map[string]int{}, loopMemo: map[*ssa.Function]*loopInfo{}, roMemo: map[*ssa.Function]int{}, constOK: map[*ssa.Global]bool{}, constMemo: map[*ssa.Global]*constGlobalVal{}, implMemo: map[string][]implInfo{}, usedContracts: map[*Unit]map[*Contract]bool{}}
	if len(pkgs) > 0 {
		w.fset = pkgs[0].Fset
	}
	for i, p := range pkgs {
		if spkgs[i] == nil {
			continue
		}
		spkgs[i].Build()
		pi := &PkgInfo{path: p.PkgPath, pkg: p, types: p.Types, ssa: spkgs[i], imports: map[string]*types.Package{}}
		pi.short = p.PkgPath
		if k := strings.LastIndex(pi.short, "/"); k >= 0 {
			pi.short = pi.short[k+1:]
		}
		for _, f := range p.Syntax {
			for _, im := range f.Imports {
				path := strings.Trim(im.Path.Value, "\"")
				ip := p.Imports[path]
				if ip == nil || ip.Types == nil {
					continue
				}
				name := ip.Types.Name()
				if im.Name != nil {
					name = im.Name.Name
				}
				if name != "_" && name != "." {
					pi.imports[name] = ip.Types
				}
			}
		}
		w.pkgs[p.PkgPath] = pi
		w.byTypes[p.Types] = pi
	}
	return w, nil
}

func (w *World) loadContracts(dirs []string) error {
	w.contractDirs = dirs
	for _, pi := range w.pkgs {
		rel := strings.TrimPrefix(pi.path, repoModule+"/")
		var found string
		for _, d := range dirs {
			cand := filepath.Join(d, rel, "zz_verif_contracts.go")
			if _, err := os.Stat(cand); err == nil {
				found = cand
				break
			}
		}
		if found == "" {
			continue
		}
		cf, err := ParseContractFile(found)
		if err != nil {
			raw, _ := os.ReadFile(found)
			w.contractErrs = append(w.contractErrs, contractErr{found, err.Error(), string(raw)})
			continue
		}
		pi.cf = cf
		for k := range cf.Contracts {
			// "pkgpath.Iface.Method" keys are interface contracts: ifaceContract honours them from any contract file
			if last := k[strings.LastIndex(k, "/")+1:]; !strings.HasPrefix(k, "(") && strings.Count(last, ".") == 2 {
				continue
			}
			if strings.Contains(k, "/") && strings.HasPrefix(strings.TrimLeft(k, "(*"), repoModule+"/") {
				fmt.Fprintf(os.Stderr, "warning: %s: contract key %q names a function of this repository by its full name: such keys are only honoured for library functions and are IGNORED here; put the contract in the contract file of the function's own package\n", found, k)
			}
		}
		// extra imports declared for specifications
		for alias, path := range cf.Imports {
			if ip := pi.pkg.Imports[path]; ip != nil && ip.Types != nil {
				pi.imports[alias] = ip.Types
			} else if op, ok := w.pkgs[path]; ok {
				pi.imports[alias] = op.types
			} else if tp := w.findTypesPackage(path); tp != nil {
				pi.imports[alias] = tp
			}
		}
	}
	w.resolveStables()
	return nil
}

func (w *World) findTypesPackage(path string) *types.Package {
	for _, sp := range w.prog.AllPackages() {
		if sp.Pkg.Path() == path {
			return sp.Pkg
		}
	}
	return nil
}

func (pi *PkgInfo) importNamed(name string) *types.Package {
	if pi == nil {
		return nil
	}
	return pi.imports[name]
}

func (pi *PkgInfo) findDefine(w *World, name string) (*Define, *PkgInfo) {
	if pi != nil && pi.cf != nil {
		if d, ok := pi.cf.Defines[name]; ok {
			return d, pi
		}
	}
	if w.common != nil {
		if d, ok := w.common.Defines[name]; ok {
			return d, pi
		}
	}
	// qualified define  alias.name -> define in that package's contract file
	if k := strings.Index(name, "."); k > 0 && pi != nil {
		if ip := pi.imports[name[:k]]; ip != nil {
			if op := w.byTypes[ip]; op != nil && op.cf != nil {
				if d, ok := op.cf.Defines[name[k+1:]]; ok {
					return d, op
				}
			}
		}
	}
	return nil, nil
}

// evalType resolves a Go type expression in the scope of one of the package's files.
func (pi *PkgInfo) evalType(w *World, s string) types.Type {
	if pi == nil {
		return nil
	}
	// local alias imports from the contract file are handled by textual lookup
	for _, f := range pi.pkg.Syntax {
		pos := f.End() - 1
		tv, err := types.Eval(w.fset, pi.types, pos, s)
		if err == nil && tv.Type != nil {
			return tv.Type
		}
	}
	// retry with spec-level import aliases: alias.Name or *alias.Name
	star := strings.HasPrefix(s, "*")
	body := strings.TrimPrefix(s, "*")
	if k := strings.Index(body, "."); k > 0 {
		if ip := pi.imports[body[:k]]; ip != nil {
			if obj := ip.Scope().Lookup(body[k+1:]); obj != nil {
				if tn, ok := obj.(*types.TypeName); ok {
					if star {
						return types.NewPointer(tn.Type())
					}
					return tn.Type()
				}
			}
		}
	}
	return nil
}

func (w *World) contractFor(f *ssa.Function) *Contract {
	pi := w.pkgs[funcPkgPath(f)]
	if pi != nil && pi.cf != nil {
		if c := pi.cf.Contracts[funcKey(f)]; c != nil {
			return c
		}
	}
	// assumed contracts for library functions: keyed by the full ssa name in any contract file
	if f.Blocks == nil || !strings.HasPrefix(funcPkgPath(f), repoModule) {
		full := f.String()
		if o := f.Origin(); o != nil && o != f {
			full = o.String()
		}
		// a library contract in the contract file of the unit under verification wins over the same key
		// in another package's file (first in package-path order otherwise)
		if w.curUnitPkg != nil && w.curUnitPkg.cf != nil {
			if c, ok := w.curUnitPkg.cf.Contracts[full]; ok {
				return c
			}
		}
		if c, ok := w.extContracts()[full]; ok {
			return c
		}
	}
	return nil
}

func (w *World) extContracts() map[string]*Contract {
	if w.extMemo != nil {
		return w.extMemo
	}
	w.extMemo = map[string]*Contract{}
	var paths []string
	for p := range w.pkgs {
		paths = append(paths, p)
	}
	sort.Strings(paths)
	for _, p := range paths {
		pi := w.pkgs[p]
		if pi.cf == nil {
			continue
		}
		for k, c := range pi.cf.Contracts {
			if strings.Contains(k, "/") || !strings.HasPrefix(funcPkgPathOfKey(k), repoModule) && strings.Contains(k, ".") && isLibKey(k) {
				if _, dup := w.extMemo[k]; !dup {
					w.extMemo[k] = c
				}
			}
		}
	}
	// the shared library-model file wins
	if w.common != nil {
		for k, c := range w.common.Contracts {
			w.extMemo[k] = c
		}
	}
	return w.extMemo
}

func (w *World) pkgOfContract(c *Contract) *PkgInfo {
	for _, pi := range w.pkgs {
		if pi.cf != nil && pi.cf.Path == c.File {
			return pi
		}
	}
	if w.common != nil && w.common.Path == c.File {
		return w.commonPkg
	}
	return nil
}

func (w *World) noteContractUse(u *Unit, c *Contract) {
	m := w.usedContracts[u]
	if m == nil {
		m = map[*Contract]bool{}
		w.usedContracts[u] = m
	}
	m[c] = true
}

// ifaceContract finds a contract written for an interface method:  func IfaceName.Method
func (w *World) ifaceContract(t types.Type, method string) *Contract {
	n, ok := t.(*types.Named)
	if !ok || n.Obj().Pkg() == nil {
		return nil
	}
	key := n.Obj().Name() + "." + method
	if pi := w.pkgs[n.Obj().Pkg().Path()]; pi != nil && pi.cf != nil {
		if c, ok := pi.cf.Contracts[key]; ok {
			return c
		}
	}
	// contracts for external interfaces may live in any loaded contract file under the full name
	full := n.Obj().Pkg().Path() + "." + key
	// deterministic precedence (was Go map order = a different file per call site when two files carry the key):
	// the contract file of the unit under verification first, then the first file in package-path order
	if w.curUnitPkg != nil && w.curUnitPkg.cf != nil {
		if c, ok := w.curUnitPkg.cf.Contracts[full]; ok {
			return c
		}
	}
	var paths []string
	for p := range w.pkgs {
		paths = append(paths, p)
	}
	sort.Strings(paths)
	for _, p := range paths {
		if pi := w.pkgs[p]; pi.cf != nil {
			if c, ok := pi.cf.Contracts[full]; ok {
				return c
			}
		}
	}
	return nil
}

// funcFieldContract finds a contract attached to a func-typed struct field or
// named func type:  func field:StructName.Field   /  func type:TypeName
func (w *World) funcFieldContract(v ssa.Value) *Contract {
	// value loaded from a field address
	if un, ok := v.(*ssa.UnOp); ok {
		if fa, ok := un.X.(*ssa.FieldAddr); ok {
			st := derefType(fa.X.Type())
			if n, ok := st.(*types.Named); ok && n.Obj().Pkg() != nil {
				key := "field:" + n.Obj().Name() + "." + st.Underlying().(*types.Struct).Field(fa.Field).Name()
				if pi := w.pkgs[n.Obj().Pkg().Path()]; pi != nil && pi.cf != nil {
					if c, ok := pi.cf.Contracts[key]; ok {
						return c
					}
				}
			}
		}
	}
	if f, ok := v.(*ssa.Field); ok {
		st := f.X.Type()
		if n, ok := st.(*types.Named); ok && n.Obj().Pkg() != nil {
			key := "field:" + n.Obj().Name() + "." + st.Underlying().(*types.Struct).Field(f.Field).Name()
			if pi := w.pkgs[n.Obj().Pkg().Path()]; pi != nil && pi.cf != nil {
				if c, ok := pi.cf.Contracts[key]; ok {
					return c
				}
			}
		}
	}
	if pr, ok := v.(*ssa.Parameter); ok && pr.Parent() != nil {
		key := "param:" + funcKey(pr.Parent()) + "." + pr.Name()
		if pi := w.pkgs[funcPkgPath(pr.Parent())]; pi != nil && pi.cf != nil {
			if c, ok := pi.cf.Contracts[key]; ok {
				return c
			}
		}
	}
	if n, ok := v.Type().(*types.Named); ok && n.Obj().Pkg() != nil {
		key := "type:" + n.Obj().Name()
		if pi := w.pkgs[n.Obj().Pkg().Path()]; pi != nil && pi.cf != nil {
			if c, ok := pi.cf.Contracts[key]; ok {
				return c
			}
		}
	}
	return nil
}

func (w *World) loopsOf(f *ssa.Function) *loopInfo {
	if li, ok := w.loopMemo[f]; ok {
		return li
	}
	li := analyzeLoops(f)
	w.loopMemo[f] = li
	return li
}

// implementations lists in-repo concrete types (declared in the interface's
// own package) whose method set satisfies the interface.
func (w *World) implementations(it types.Type, m *types.Func) []implInfo {
	key := typeKey(it) + "." + m.Name()
	if r, ok := w.implMemo[key]; ok {
		return r
	}
	var out []implInfo
	iface, ok := it.Underlying().(*types.Interface)
	n, isNamed := it.(*types.Named)
	if ok && isNamed && n.Obj().Pkg() != nil && strings.HasPrefix(n.Obj().Pkg().Path(), repoModule) {
		// search every loaded repo package: closed world over the loaded program
		var names []string
		cands := map[string]implInfo{}
		for _, pi := range w.pkgs {
			if !strings.HasPrefix(pi.path, repoModule) || isTestSupportPkg(pi.path) {
				continue
			}
			sc := pi.types.Scope()
			for _, nm := range sc.Names() {
				tn, ok := sc.Lookup(nm).(*types.TypeName)
				if !ok || tn.IsAlias() {
					continue
				}
				if _, isIface := tn.Type().Underlying().(*types.Interface); isIface {
					continue
				}
				// closed world: only concrete types that the loaded program actually converts to an interface somewhere
				var candTypes []types.Type
				used := w.boxedTypes()
				for _, ct := range []types.Type{tn.Type(), types.NewPointer(tn.Type())} {
					if used[typeKey(ct)] && types.Implements(ct, iface) {
						candTypes = append(candTypes, ct)
					}
				}
				if len(candTypes) == 0 {
					candTypes = []types.Type{tn.Type(), types.NewPointer(tn.Type())}
				}
				both := len(candTypes) == 2 && used[typeKey(candTypes[0])] && used[typeKey(candTypes[1])]
				for _, cand := range candTypes {
					if types.Implements(cand, iface) {
						sel := w.prog.MethodSets.MethodSet(cand).Lookup(m.Pkg(), m.Name())
						if sel == nil {
							continue
						}
						fn := w.prog.MethodValue(sel)
						if fn == nil {
							continue
						}
						k := typeKey(cand)
						cands[k] = implInfo{cand, fn}
						names = append(names, k)
						if !both {
							break
						}
					}
				}
			}
		}
		sort.Strings(names)
		for _, k := range names {
			out = append(out, cands[k])
		}
	}
	w.implMemo[key] = out
	return out
}

// isReadonly: mechanical inference that a function (transitively) performs no
// heap writes visible to the caller, no allocation-sensitive effects and no
// unknown calls.  1 = readonly, 2 = not.
func (w *World) isReadonly(f *ssa.Function) bool {
	return w.readonlyRec(f, map[*ssa.Function]bool{})
}

func (w *World) readonlyRec(f *ssa.Function, visiting map[*ssa.Function]bool) bool {
	if r, ok := w.roMemo[f]; ok {
		return r == 1
	}
	if visiting[f] {
		return true
	}
	visiting[f] = true
	ok := true
	if f.Name() == "DeepCopy" {
		w.roMemo[f] = 1
		delete(visiting, f)
		return true
	}
	if f.Blocks == nil {
		ok = externalIsScalarPure(f) || externalReadonly[f.String()]
	}
	for _, b := range f.Blocks {
		for _, ins := range b.Instrs {
			switch x := ins.(type) {
			case *ssa.Store:
				// stores into function-local allocations are invisible to callers
				if !isLocalAddr(x.Addr) {
					ok = false
				}
			case *ssa.MapUpdate:
				if !isLocalAlloc(x.Map) {
					ok = false
				}
			case *ssa.Go, *ssa.Send, *ssa.Select, *ssa.Defer:
				ok = false
			case ssa.CallInstruction:
				c := x.Common()
				if c.IsInvoke() {
					ok = false
					break
				}
				switch cal := c.Value.(type) {
				case *ssa.Builtin:
					switch cal.Name() {
					case "delete", "copy", "clear":
						ok = false
					}
				case *ssa.Function:
					full := cal.String()
					if _, isExt := externals[full]; isExt {
						if externalWrites[full] {
							ok = false
						}
					} else if isNoopCallee(funcPkgPath(cal), cal.Name()) {
					} else if !w.readonlyRec(cal, visiting) {
						ok = false
					}
				case *ssa.MakeClosure:
					if !w.readonlyRec(cal.Fn.(*ssa.Function), visiting) {
						ok = false
					}
				default:
					ok = false
				}
			}
			if !ok {
				break
			}
		}
		if !ok {
			break
		}
	}
	delete(visiting, f)
	if ok {
		w.roMemo[f] = 1
	} else {
		w.roMemo[f] = 2
	}
	return ok
}

func isLocalAlloc(v ssa.Value) bool {
	switch x := v.(type) {
	case *ssa.Alloc:
		return true
	case *ssa.MakeMap, *ssa.MakeSlice:
		return true
	case *ssa.Phi:
		for _, e := range x.Edges {
			if !isLocalAlloc(e) {
				return false
			}
		}
		return true
	}
	return false
}

func isLocalAddr(v ssa.Value) bool {
	switch x := v.(type) {
	case *ssa.Alloc:
		return true
	case *ssa.FieldAddr:
		return isLocalAddr(x.X)
	case *ssa.IndexAddr:
		switch y := x.X.(type) {
		case *ssa.Alloc:
			return true
		case *ssa.MakeSlice:
			return true
		case *ssa.Slice:
			return isLocalAddr(y.X)
		}
	}
	return false
}

// staticModFams resolves the families named by a modifies clause without a state
// (used by the loop write-set scan).  Returns false when that is not possible.
func (w *World) staticModFams(u *Unit, pk *PkgInfo, c *Contract, x SExpr, sig *types.Signature, recvT types.Type) (map[string]string, bool) {
	// Evaluate in a scratch state with fresh parameter values.
	fn := w.findFuncByContract(pk, c)
	if fn == nil && sig == nil {
		return nil, false
	}
	out := map[string]string{}
	ok := true
	func() {
		defer func() {
			if r := recover(); r != nil {
				if _, is := r.(specError); is {
					ok = false
					return
				}
				panic(r)
			}
		}()
		st := &State{G: TTrue, Env: map[ssa.Value]Value{}, Heap: map[string]Term{}, Names: map[string]nameRef{}, Ghost: map[string]Term{}, Alloc: u.pre0Alloc()}
		env := &SpecEnv{u: u, st: st, old: st, vars: map[string]Value{}, pkg: pk}
		if fn != nil {
			for _, p := range fn.Params {
				env.vars[p.Name()] = u.freshValue(p.Type(), "scan_"+p.Name())
			}
			if sig == nil {
				sig = fn.Signature
			}
		}
		if fn == nil || len(fn.Params) == 0 {
			if recvT != nil {
				env.vars["recv"] = u.freshValue(recvT, "scan_recv")
			}
			if rv := sig.Recv(); rv != nil && recvT == nil {
				v := u.freshValue(rv.Type(), "scan_recv")
				env.vars["recv"] = v
				if rv.Name() != "" && rv.Name() != "_" {
					env.vars[rv.Name()] = v
				}
			}
			ps := sig.Params()
			for i := 0; i < ps.Len(); i++ {
				v := u.freshValue(ps.At(i).Type(), fmt.Sprintf("scan_arg%d", i))
				env.vars[fmt.Sprintf("arg%d", i)] = v
				if n := ps.At(i).Name(); n != "" && n != "_" {
					env.vars[n] = v
				}
			}
		}
		for _, it := range env.modItems(x) {
			out[it.fam] = it.sort
		}
	}()
	return out, ok
}

func (w *World) findFuncByContract(pk *PkgInfo, c *Contract) *ssa.Function {
	if strings.Contains(c.Func, "/") || isLibKey(c.Func) {
		if w.fullNameMemo == nil {
			w.fullNameMemo = map[string]*ssa.Function{}
			for fn := range ssautil.AllFunctions(w.prog) {
				w.fullNameMemo[fn.String()] = fn
			}
		}
		return w.fullNameMemo[c.Func]
	}
	if pk == nil {
		return nil
	}
	for f := range w.functionsOf(pk) {
		if funcKey(f) == c.Func {
			return f
		}
	}
	return nil
}

func (w *World) functionsOf(pk *PkgInfo) map[*ssa.Function]bool {
	out := map[*ssa.Function]bool{}
	var addAnon func(f *ssa.Function)
	addAnon = func(f *ssa.Function) {
		if f == nil || out[f] {
			return
		}
		out[f] = true
		for _, a := range f.AnonFuncs {
			addAnon(a)
		}
	}
	for _, m := range pk.ssa.Members {
		switch x := m.(type) {
		case *ssa.Function:
			addAnon(x)
		case *ssa.Type:
			for _, t := range []types.Type{x.Type(), types.NewPointer(x.Type())} {
				ms := w.prog.MethodSets.MethodSet(t)
				for i := 0; i < ms.Len(); i++ {
					f := w.prog.MethodValue(ms.At(i))
					if f != nil && f.Synthetic == "" && funcPkgPath(f) == pk.path {
						addAnon(f)
					}
				}
			}
		}
	}
	return out
}

// ---------------------------------------------------------------------------
// init-constant globals

type constGlobalVal struct {
	kind  string // "slice"
	elems []ssa.Value
	elemT types.Type
	n     int
	ok    bool
	why   string
}

// constGlobal returns the value of a package-level variable that the contract
// file declares 'constglobal': it must be assigned exactly once, in the package
// initialiser, from a composite literal of constants, and never written or
// address-taken elsewhere in the loaded program (checked mechanically here).
func (w *World) constGlobal(u *Unit, st *State, g *ssa.Global) (Value, bool) {
	pi := w.pkgs[g.Pkg.Pkg.Path()]
	if pi == nil || pi.cf == nil || !pi.cf.Consts[g.Name()] {
		return nil, false
	}
	cv := w.constMemo[g]
	if cv == nil {
		cv = w.analyzeConstGlobal(g)
		w.constMemo[g] = cv
	}
	if !cv.ok {
		u.unsupported("constglobal " + g.Name() + ": " + cv.why)
		return nil, false
	}
	name := g.Pkg.Pkg.Path() + "." + g.Name()
	arr := u.ctx.Const("garr:"+name, SInt)
	if !u.subSeen[arr.S] {
		u.subSeen[arr.S] = true
		u.ctx.Assert(And(Cmp(">", arr, TZero), Cmp("<", app("objof", SInt, arr), u.pre0Alloc()), Eq(app("objof", SInt, arr), arr)), "const-global-array")
	}
	// element facts in the current heap
	view := st.View()
	for i, ev := range cv.elems {
		addr := u.elemAddr(arr, IntLit(int64(i)))
		var val Value
		switch x := ev.(type) {
		case *ssa.Const:
			val = u.constValue(x)
		case *ssa.MakeInterface:
			// &T{} boxed into an interface: a distinct constant object per element
			obj := u.ctx.Const(fmt.Sprintf("gobj:%s:%d", name, i), SInt)
			if !u.subSeen[obj.S] {
				u.subSeen[obj.S] = true
				u.ctx.Assert(And(Cmp(">", obj, TZero), Cmp("<", app("objof", SInt, obj), u.pre0Alloc())), "const-global-object")
			}
			val = u.makeInterface(Sc{obj, x.X.Type()}, x.X.Type(), x.Type())
		default:
			u.unsupported("constglobal element shape")
			continue
		}
		if s := scalarSort(cv.elemT); s != "" {
			cur := Select(u.viewGet(view, cellFam(cv.elemT), ArrSort(SInt, s)), addr)
			u.ctx.Assert(Implies(st.G, Eq(cur, u.asSc(val, cv.elemT).T)), "const-global-element")
		}
	}
	u.note("global " + name + " is an init-time constant (single store in init, never written or address-taken elsewhere: checked mechanically)")
	return SliceV{arr, TZero, IntLit(int64(cv.n)), cv.elemT}, true
}

func (w *World) analyzeConstGlobal(g *ssa.Global) *constGlobalVal {
	cv := &constGlobalVal{}
	initFn := g.Pkg.Func("init")
	var store *ssa.Store
	// every reference to g in the whole program
	for fn := range ssautil.AllFunctions(w.prog) {
		for _, b := range fn.Blocks {
			for _, ins := range b.Instrs {
				for _, op := range ins.Operands(nil) {
					if *op != ssa.Value(g) {
						continue
					}
					switch x := ins.(type) {
					case *ssa.UnOp:
						// load: fine
					case *ssa.Store:
						if x.Addr == ssa.Value(g) && fn == initFn && store == nil {
							store = x
						} else {
							cv.why = "written outside the single init store (" + fn.String() + ")"
							return cv
						}
					case *ssa.DebugRef:
					default:
						cv.why = "address taken in " + fn.String()
						return cv
					}
				}
			}
		}
	}
	if store == nil {
		cv.why = "no initialising store found"
		return cv
	}
	sl, ok := store.Val.(*ssa.Slice)
	if !ok || sl.Low != nil || sl.High != nil {
		cv.why = "initialiser is not a slice literal"
		return cv
	}
	al, ok := sl.X.(*ssa.Alloc)
	if !ok {
		cv.why = "initialiser is not a slice literal"
		return cv
	}
	at, ok := derefType(al.Type()).Underlying().(*types.Array)
	if !ok {
		cv.why = "initialiser is not an array"
		return cv
	}
	cv.n = int(at.Len())
	cv.elemT = at.Elem()
	cv.elems = make([]ssa.Value, cv.n)
	for _, ref := range *al.Referrers() {
		ia, ok := ref.(*ssa.IndexAddr)
		if !ok {
			continue
		}
		ic, ok := ia.Index.(*ssa.Const)
		if !ok {
			cv.why = "non-constant index in initialiser"
			return cv
		}
		idx := int(ic.Int64())
		for _, r2 := range *ia.Referrers() {
			if s, ok := r2.(*ssa.Store); ok && s.Addr == ssa.Value(ia) {
				cv.elems[idx] = s.Val
			}
		}
	}
	for i, e := range cv.elems {
		switch x := e.(type) {
		case *ssa.Const:
		case *ssa.MakeInterface:
			if _, ok := x.X.(*ssa.Alloc); !ok {
				cv.why = fmt.Sprintf("element %d is not a constant or &T{} literal", i)
				return cv
			}
		default:
			cv.why = fmt.Sprintf("element %d is not a constant or &T{} literal", i)
			return cv
		}
	}
	cv.ok = true
	return cv
}

var _ = ast.Print

// sameRecursionGroup: direct recursion or mutual recursion declared by both contracts carrying 'decreases'.
func (w *World) sameRecursionGroup(callee, fn *ssa.Function) bool {
	return callee == fn || (w.contractFor(callee) != nil && w.contractFor(callee).Decreases != nil)
}

func funcPkgPathOfKey(k string) string { return "" }

// isLibKey: keys such as  maps.Clone  or  (time.Time).Before  name standard-library functions.
func isLibKey(k string) bool {
	for _, p := range []string{"maps.", "slices.", "strings.", "sort.", "strconv.", "time.", "(time.", "(*time.", "math.", "fmt.", "errors."} {
		if strings.HasPrefix(k, p) {
			return true
		}
	}
	return false
}

// privateAlloc: the cell is only loaded/stored by its own function and only read by closures capturing it,
// so no callee (and no havoc standing for one) can change it.
func (w *World) privateAlloc(a *ssa.Alloc) bool {
	if r, ok := w.privMemo[a]; ok {
		return r
	}
	if w.privMemo == nil {
		w.privMemo = map[*ssa.Alloc]bool{}
	}
	res := addrUsesPrivate(a, 0)
	w.privMemo[a] = res
	return res
}

func addrUsesPrivate(v ssa.Value, depth int) bool {
	refs := v.Referrers()
	if refs == nil || depth > 3 {
		return false
	}
	for _, r := range *refs {
		switch x := r.(type) {
		case *ssa.Store:
			if x.Val == v {
				return false
			}
		case *ssa.UnOp, *ssa.DebugRef:
		case *ssa.FieldAddr:
			if !addrUsesPrivate(x, depth+1) {
				return false
			}
		case *ssa.MakeClosure:
			fn, ok := x.Fn.(*ssa.Function)
			if !ok {
				return false
			}
			for i, b := range x.Bindings {
				if b != v {
					continue
				}
				if i >= len(fn.FreeVars) {
					return false
				}
				fr := fn.FreeVars[i].Referrers()
				if fr == nil {
					return false
				}
				for _, rr := range *fr {
					switch rr.(type) {
					case *ssa.UnOp, *ssa.DebugRef:
					default:
						return false
					}
				}
			}
		default:
			return false
		}
	}
	return true
}

// isTestSupportPkg: mocks, fakes and test utilities are not production implementations of an interface.
func isTestSupportPkg(path string) bool {
	for _, frag := range []string{"/mock", "_mock", "/fake", "_fake", "test_utils", "/testing", "/env-tests", "/e2e"} {
		if strings.Contains(path, frag) {
			return true
		}
	}
	return false
}

// boxedTypes: concrete types that appear as the operand type of a MakeInterface anywhere in the loaded program.
func (w *World) boxedTypes() map[string]bool {
	if w.boxed != nil {
		return w.boxed
	}
	w.boxed = map[string]bool{}
	for fn := range ssautil.AllFunctions(w.prog) {
		for _, b := range fn.Blocks {
			for _, ins := range b.Instrs {
				if mi, ok := ins.(*ssa.MakeInterface); ok {
					w.boxed[typeKey(mi.X.Type())] = true
				}
			}
		}
	}
	return w.boxed
}

// privateMap: v is a map created in its function (make, or the result of a call whose contract says `fresh`,
// possibly one component of a tuple result) and used only by lookups, updates, range, len and delete there.
func (w *World) privateMap(v ssa.Value) bool {
	if r, ok := w.privMapMemo[v]; ok {
		return r
	}
	if w.privMapMemo == nil {
		w.privMapMemo = map[ssa.Value]bool{}
	}
	res := false
	switch x := v.(type) {
	case *ssa.MakeMap:
		res = mapUsesPrivate(x)
	case *ssa.Call:
		if f, ok := x.Call.Value.(*ssa.Function); ok && !x.Call.IsInvoke() {
			if c := w.contractFor(f); c != nil && c.Fresh {
				res = mapUsesPrivate(x)
			}
		}
	case *ssa.Extract:
		if call, ok := x.Tuple.(*ssa.Call); ok && !call.Call.IsInvoke() {
			if f, ok := call.Call.Value.(*ssa.Function); ok {
				if c := w.contractFor(f); c != nil && c.FreshResults[x.Index] {
					res = mapUsesPrivate(x)
				}
			}
		}
	}
	w.privMapMemo[v] = res
	return res
}

func mapUsesPrivate(v ssa.Value) bool {
	refs := v.Referrers()
	if refs == nil {
		return false
	}
	for _, r := range *refs {
		switch x := r.(type) {
		case *ssa.Lookup:
			if x.X != v {
				return false
			}
		case *ssa.MapUpdate:
			if x.Map != v || x.Key == v || x.Value == v {
				return false
			}
		case *ssa.Range, *ssa.DebugRef:
		case *ssa.Call:
			b, ok := x.Call.Value.(*ssa.Builtin)
			if !ok || (b.Name() != "len" && b.Name() != "delete") {
				return false
			}
		default:
			return false
		}
	}
	return true
}
