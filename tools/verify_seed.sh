#!/bin/bash
# usage: tools/verify_seed.sh <worktree> <demo-destination-relative-path> <go test -run regexp> <pkg for demo> [existing-test packages...]
# Confirms a seeded change: patch applies, builds, existing tests pass with it, demo fails with it and passes without it.
set -u
WT="$1"; DEST="$2"; RUN="$3"; DPKG="$4"; shift 4
export GOFLAGS=-mod=mod GOPROXY=off
cd "$WT" || exit 2
git checkout -q -- . 2>/dev/null
git apply --check SEED/patch.diff || { echo "PATCH DOES NOT APPLY"; exit 1; }
git apply SEED/patch.diff
echo "--- build"; go build ./pkg/... ./cmd/... 2>&1 | tail -3; echo "build exit=${PIPESTATUS[0]}"
if [ $# -gt 0 ]; then echo "--- existing tests with change"; go test -vet=off -count=1 "$@" 2>&1 | grep -v "no test files" | grep -v "^ok" | tail -8; echo "(only non-ok lines shown)"; fi
cp SEED/demo_test.go "$DEST"
echo "--- demo WITH change (expect FAIL)"; go test -vet=off -count=1 -run "$RUN" "$DPKG" 2>&1 | tail -4
git apply -R SEED/patch.diff
echo "--- demo WITHOUT change (expect ok)"; go test -vet=off -count=1 -run "$RUN" "$DPKG" 2>&1 | tail -3
rm -f "$DEST"; git checkout -q -- .
git status --short | grep -v SEED | head -3
