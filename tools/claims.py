# Table of claims; executed by mkmanifest.py. One entry per property of /verif/properties.jsonl.
BASE = ("Trusted: govc (own VC generator: go/ssa -> SMT-LIB2, memory model, loop cutting, finite-sum axioms), go/ssa + go/types of x/tools v0.50.0, the SMT solvers "
        "(z3-new 5.1.0, cvc5 1.0, z3 4.8.12; 'unsat' from one racer suffices in the quick tier, thorough runs all three to completion, fails on disagreement and probes seed stability). "
        "Assumed everywhere: A-INT (Go integers are mathematical integers, no overflow), A-REAL (float64 is R; R + {+Inf,-Inf,NaN} in units marked ieee; no rounding), "
        "logging/metrics calls are no-ops, append always reallocates, callee writes to objects it allocates itself are visible only through its ensures, closed world for interface dispatch and for "
        "values of named func types (only what the loaded packages convert to the type), library functions per the models/assumed contracts listed in the evidence file, every contract marked trusted "
        "and every `trust` clause (per-clause assumption) - each is listed in the evidence with its note. ")

claim("C01",
      "Proof, for all inputs, of per-function contracts on the real code: the fit predicates (BaseResource/Resource/ResourceRequirements LessEqual == fitsBase/fitsRes/fitsReq; "
      "NodeInfo.IsTaskAllocatable [top]: result ==> best-effort or the request fits *Idle*, not Idle+Releasing; IsTaskAllocatableOnReleasingOrIdle; lessEqualTaskToNodeResources), "
      "the exact per-status effect of addTaskResources/removeTaskResources/AddTask/RemoveTask/UpdateTask on Idle/Used/Releasing (mirror images of each other), "
      "checkMaxPodsWithGpuGroupReservation (exact), the statement/commit pieces in framework; the snapshot constructors (NewNodeInfo: Idle == Allocatable and nothing used; AddTasksToNode: only occupying pods are "
      "recorded, exact effect of one pod; getNodeToPodInfosMap), the GPU folds GetDraGpusCount/GetGpusQuota/GetTotalGPURequest as verified finite sums, the Session dispatch wrappers (FittingNode: every registered "
      "predicate is consulted and the CPU/memory and whole-GPU gates hold) verified instead of trusted. Right level: the property is an invariant preserved by each decision; each link (check, charge, undo) is a universally quantified function contract. Session-3 late: the pod request itself - getPodResourceRequest == max(regular containers, every init container) + RuntimeClass overhead, for cpu and memory (the per-list amounts are named, not computed).",
      BASE + "Not decided: that every path from an action to Cache.Bind goes through Statement (call-graph fact), storage capacity (isTaskStorageAllocatable trusted), "
      "NodeInv as a sum over pods (effects are proved per operation; the closed sum needs ownership/separation invariants over the pods' resource objects and is not mechanised), "
      "addTasksToNodes/Snapshot as a whole (AddTask's precondition vecWF - node vectors as long as the shared layout - is stronger than what the snapshot establishes; replayed, the code is fine), multi-cycle histories beyond the per-step contracts.",
      "DESIGN.md 2/C01")

claim("C02",
      "Proof, for all inputs, of the shared-GPU functions: GetResourceGpuMemory, getGpuMemoryFractionalOnNode, EnoughIdleResourcesOnGpu ([top] result ==> allocated[g] + need <= GPU memory, plus the functional form), "
      "enoughResourcesOnGpu, isAllGpuReleased, IsTaskFitOnGpuGroup, fractionTaskGpusAllocatableDeviceCount (bounds, zero/non-zero), the exact effect of add/removeSharedTaskResourcesPerPodGroup "
      "on the per-GPU memory maps, the releasing marker and Releasing.gpus (removal is the MIRROR of addition for every status incl. nominated sharers: [mirrorOfNomination], proved on the fixed code), "
      "gpu_sharing.GetNodePreferableGpuForSharing ([newGroupsPaidByIdleGpus]) and AllocateFractionalGPUTaskToNode; the what-if undo hands the node the RESTORED task (GPU groups first, then the node update).",
      BASE + "Preconditions exported to callers: nodeWF (MemoryOfEveryGpuOnNode > 0: see finding F1 in DESIGN.md - a node label nvidia.com/gpu.memory below 100 yields 0 and unlimited sharing). "
      "Not decided: GpuInv as a sum over sharers, physical GPU index identity (binder), uuid freshness.",
      "DESIGN.md 2/C02")

claim("C03",
      "Proof, for all inputs, of the counting functions that implement gang integrity: getNumTasksToAllocate (allocated < min ==> exactly min - allocated; else at most one), getNumAllocatableTasks, "
      "getMaxNumSubGroupsToAllocate, getTasksFromQueue (exact length), GetTasksToAllocate [elasticAtMostOne], getMaxTasksToEvict (exact; [keepsMin], [orAll]), getNumOfSubGroupsToEvict (exact), "
      "GetTasksToEvict [shrinkAtMostOne][partialFlag], ShouldPipelineJob ([only][sure][never]), IsGangSatisfied/IsReadyForScheduling/IsElastic, PodSet counters (closed form: the gang counters EQUAL the recount over "
      "the recorded statuses, [recount]), validVictimForMinAvailable, PodSetOrderFn; PriorityQueue Push/Pop/Peek and JobsOrderByQueues PushJob/PopNextJob VERIFIED (were trusted) incl. ordering clauses; "
      "AllocateJob .. allocateTask (failed attempt is rolled back; capacity gate in every mode); the Execute loops and attempt* functions of allocate/reclaim/preempt/consolidation.",
      BASE + "Assumed: container/heap library contracts (a strict-weak-order comparator keeps the heap invariants), 7 trust clauses for the hereditary data invariant of the jobs-order node tree, two trust clauses per attempt* function "
      "([successIsCommittable]: the solver's statement satisfies Commit's preconditions; [outcomeRecorded]). Not decided: which pod set is popped first when only some have surplus (subgrouporder configuration), the commit protocol inside JobSolver.Solve beyond the Statement contracts.",
      "DESIGN.md 2/C03")

claim("C04",
      "Proof, for all inputs, of KAI's own placement-constraint logic: CheckNodeConditionPredicate (fit <==> schedulable and every node condition ok), checkMaxPodsWithGpuGroupReservation (exact), SkipPredicates, "
      "the WIRING of the upstream filters (NewSessionPredicates: all eight table entries present, taints / node affinity / pod affinity / host ports / volume binding / DRA required for EVERY pod, each entry wired to its own plugin), "
      "evaluateTaskOnPrePredicate (passes iff no required pre-filter fails) and evaluateTaskOnPredicates (every required filter passed, node ready and schedulable, max-pods and capacity gates), the ConfigMap and MaxNodePoolResources predicates, "
      "isNodePartOfTopology (exact), getJobTopology, calcDomainId, lowestCommonDomainID, subSetNodesFn (child node sets within the parent's), GetAllPodSets (covers exactly the pod sets below a sub-group set) and the precondition of "
      "Session.SubsetNodesFn that it is handed ALL pod sets of the sub-group it subsets for (so the domain pin of already active sibling pods is not lost). Session-3 late: (*K8sNodePodAffinityInfo).AddPod/RemovePod refresh the inter-pod (anti-)affinity index AFTER the node's pod list changed (ghost versions).",
      BASE + "Assumed (not verified): the upstream kube-scheduler filters themselves (NodeAffinity, TaintToleration, InterPodAffinity, NodePorts ...: named verdicts of type: contracts); the node-pool label selector of the listers; "
      "`trust [subsetsOfParent]` on Session.SubsetNodesFn (the nested index invariant through the spread append was not robustly provable). "
      "Not decided: evaluateTaskOnPredicates as an iff (PredicateByNodeResourcesType has no contract), in-session pod-affinity state beyond the podaffinity plugin's mirror. "
      "Known undecided candidates: calcDomainId is not injective for label values containing '.', lowestCommonDomainID absorbs empty label values; evaluateTaskOnPrePredicate discards the allowed-node intersection of upstream PreFilters (only the Filter stage enforces it).",
      "DESIGN.md 2/C04")

claim("C05",
      "Proof, for all inputs, that the listed gates do not reject the cases the property promises to serve (converse directions of the C01/C06/C07 contracts): IsTaskAllocatable(+OnReleasingOrIdle) completeness side, "
      "common.FeasibleNodesForJob (a node with idle or releasing GPU capacity is kept), Reclaimable.CanReclaimResources (iff), FitsReclaimStrategy [starvedReclaimerServed], buildFilterFuncForPreempt$1 [eligibleAccepted]; "
      "the Execute loops of preempt/reclaim/consolidation/allocate: a popped job is skipped without an attempt only because a job OF ITS OWN QUEUE (cluster-wide only where the failure reason is queue-independent) with a not-larger footprint "
      "failed before in this action ([perQueueScope], scopeOK preconditions of IsEasierToSchedule/UpdateRepresentative), and the order is drained ([orderDrained]). Session-3 late: the topology pre-job hook leaves no node-score map of an earlier job ([noScoreOfAnEarlierJobSurvives]).",
      BASE + "Explicitly NOT decided: that the solver visits every node and victim set (progress inside JobSolver.Solve), the idle_gpus accumulated filter. Candidate finding (not mechanised): jobEasierToScheduleComparison skips jobs whose request is incomparable to the recorded failure.",
      "DESIGN.md 2/C05")

claim("C06",
      "Proof, for all inputs, of the victim-eligibility functions: the preempt filter closure (result == preemptible && lower priority && same queue && other job && active allocated > 0 && PreemptVictimFilter), "
      "the consolidation and reclaim filter closures, InitializeWithJobs/GetVictimsQueue filter flags, allPodsReallocated (<==> no victim task is Releasing), minruntime (validVictimForMinAvailable, resolvers incl. their memo tables: "
      "an answer is filed under the queue / the (reclaimer, victim) pair it was computed for and no other entry changes; is*MinRuntimeProtected == started && now < lastStart + resolved, preemptFilterFn/reclaimFilterFn), "
      "CalculatePreemptibility/IsPreemptibleJob, Session victim filters/validators (conjunction over the registered slice), the action loops (on success exactly the solver's statement is committed, on failure nothing), setLastStartTimestamp.",
      BASE + "Assumed: plugin registration (the registered function values satisfy their type: contracts), time.Now as one constant per call, acyclic queue graph (ranking) for the resolver loops. "
      "Not decided: the solver's search order, that evictions and the preemptor's pipeline share one Statement inside by_pod_solver, the min-runtime scenario validators.",
      "DESIGN.md 2/C06")

claim("C07",
      "Proof, for all inputs, of the reclaim decision functions: compareQuantities with the -1 sentinel, ResourceQuantities ops, the share getters with cache coherence, both reclaim strategies and FitsReclaimStrategy "
      "(iff form + [withinQuotaIsSafe]: a queue within deserved quota and allocatable share is never reclaimed from), CanReclaimResources (iff: within fair share, non-preemptible within deserved), "
      "fairShareSaturationRatio/isFairShareSaturationLowerPerResource (ieee), getHierarchyPath/getLeveledQueues (divergence level), subtractReclaimedResources, reclaimResourcesFromReclaimees, reclaimingQueuesRemainWithinBoundaries; "
      "the queue usage establishment (only allocated statuses charge Allocated), GetTotalGPURequest as a verified finite sum, and reclaim's attempt: the validation snapshot is taken for EVERY reclaimer right before its solver run ([validationSnapshotFresh]).",
      BASE + "Assumed: the regular-expression parser of MIG profile names (named verdict), acyclic queue graph as a ranking precondition (established by UpdateQueueHierarchy/ensures[rooted] in another ghost encoding: the link is not mechanised), "
      "saturation predicate named by a definitional assume (listed). Not decided: that the validator runs on the finally committed victim set inside the solver.",
      "DESIGN.md 2/C07")

claim("C08",
      "Proof, for all inputs, of the capacity policy: isOverLimit / isAllocatedNonPreemptibleOverQuota functional; resultsOverLimit / resultsWithNonPreemptibleOverQuota: IsSchedulable <==> at EVERY ancestor level allocated + requested <= limit "
      "(resp. non-preemptible allocated + requested <= deserved), with termination; the three entry points; the Session wrappers (IsJobOverQueueCapacityFn ...: verified, were trusted - the FIRST registered capacity function decides, which is 'all registered' for the single registration of the shipped configuration); AllocateJob's capacity gate in every mode; "
      "the allocate/deallocate handler closures: for every queue object, Allocated' = Allocated +/- r exactly on the parent chain of the job's queue and unchanged elsewhere, "
      "AllocatedNotPreemptible iff non-preemptible; lemmas [limitInvariant][quotaInvariant]; createQueueResourceAttrs (each resource's quota/limit/weight from its own stanza); the what-if undo fires the plugin handlers AFTER the task is back on its node.",
      BASE + "Assumed: parent chain described by the ghost anc/depth/lvl under requires chainOK. Not decided: induction over the decisions of a cycle, "
      "check == charge across setAcceptedResources for multi-device GPU-memory requests (known mismatch, DESIGN.md section 5), termination of the setFairShareForQueues recursion.",
      "DESIGN.md 2/C08")

claim("C09",
      "Proof, for all inputs (Real arithmetic), law by law: floor law end to end (SetResourcesShare), the rounding cliffs of getResourceToGiveInCurrentRound, the satisfied notion, the share-weight formula for all k-values and its monotonicity, "
      "setDeservedResource exact and order-independent, priorities strictly descending, comparator is a strict total order, termination of divideOverQuotaResource; and, with finite sums (session 3): CONSERVATION "
      "(sum of fair shares + remaining == old sum + total) in setDeservedResource and across every round of divideUpToFairShare for every iteration order, remaining >= 0, the PRIORITY LAW (a level leaves 0, or no claimant, or less than one unit per "
      "still-unsatisfied non-zero-weight sibling), closed forms of getTotalWeightsForUnsatisfied / calcShareWeights, the exact remainder of divideRemainingResource, setResourceShare [surplusBounded] [nothingLeftWhenOverbooked].",
      BASE + "Assumed: x/exp/maps.Keys and slices.SortFunc (trusted library contracts). Not decided: conservation over ALL priority levels together (sum over a partition of the key set), 'at most one unit per queue in the remainder phase', "
      "order-independence of divideUpToFairShare as a functional postcondition. OUTSIDE A-REAL and observed on the real code: the fair shares depend on map iteration order for some sibling sets because the float64 summation order of the weights unties mathematically equal remainders (DESIGN.md section 5).",
      "DESIGN.md 2/C09")

claim("C10",
      "Proof, for all inputs, of termination and panic-freedom of the listed consumers of API data: the queue graph (snapshotQueues, updateQueueChildren, cleanQueueOrphans, queueReachesRoot terminates on every map, cleanQueueCycles, "
      "UpdateQueueHierarchy ensures [noSelfParent][noTwoCycle][rooted][parentsPresent]...), every parent-chain loop under contract with a decreases clause, sub-group factory total for ANY Spec.SubGroups, "
      "pod annotation parsing (ieee for NaN/Inf), the snapshot functions of cluster_info (pods naming unknown nodes/queues/pod groups), InitializeWithJobs/PushJob (a job whose queue is missing is never pushed), the jobs-order and priority-queue code, "
      "the action loops (nil job, nil statement), no-panic obligations of every unit tagged C10. Session-3 late: the scenario-builder constructor chain (NewPodAccumulatedScenarioBuilder, NewNodeAffinitiesFilter, NewTopologyAwareIdleGpusFilter, NewIdleGpusFilter) is verified no-panic for every input including a nil scenario - a genuine nil-pointer panic of the preempt/reclaim/consolidation solvers was found there and fixed (94e48d9).",
      BASE + "Not decided: termination of Execute as a whole, panics outside the functions under contract (evidence lists the units; `nopanic off` units are listed as assumptions), the liveness clause ('untouched workloads are still scheduled'), "
      "the link between UpdateQueueHierarchy/ensures[rooted] and the ranking preconditions of the consumers (two ghost encodings). Known undecided candidates: idle_gpus insert on an empty list, NewIdleGpusFilter(nil), pod groups of the same name in two namespaces.",
      "DESIGN.md 2/C10")

claim("C11",
      "Proof, for all inputs and all outcomes of every client call (each call's error is a fresh symbolic value, so every subset of failing calls is covered), of the binder protocol functions: Reconcile (7 clauses), Binder.Bind, "
      "Binder.Rollback, BinderPlugins.PreBind/PostBind/Rollback, reserveGPUs - and of the plugins that create the side objects, each proved against the Plugin.* interface contract assumed at the invoke sites: the DRA plugin (Bind returns nil only if EVERY claim "
      "allocation of the request was stored), volume binding, the kube-plugin chain (first error stops; failure releases every reservation and leaves no state; Rollback releases every recorded reservation), gpusharing (config maps only for fractional requests, "
      "portion and visible devices from the request, Rollback deletes exactly the two config maps PreBind can have created), the config-map upsert and naming.",
      BASE + "Assumed: controller-runtime / client-go client contracts over ghost state, upstream kube-scheduler plugin contracts (VolumeBinding.*, K8sPlugin.*), three trust clauses in the DRA plugin (claim resolution is a function of pod and reference; the retried closure's per-run clauses carried through retry.RetryOnConflict). "
      "Not decided: recoverable(S) at every crash point, the retry-from-intermediate-state lemma, concurrency. Observed (not claimed): a DRA partial failure (claim A stored, claim B fails) is undone only by a successful retry.",
      "DESIGN.md 2/C11")

claim("C12",
      "Proof, for all inputs, of both sides of the hand-off: IsFailed (functional), GetBindRequestForPod (nil <==> absent or failed), getTaskStatus (pending + live bind request ==> Binding), snapshotBindRequests partition, "
      "the snapshot side: getNodeToPodInfosMap (a listed task is Binding on SelectedNode with SelectedGPUGroups iff a live BindRequest exists, else Pending under no node), NewTaskInfoWithBindRequest, resourceClaimInfoFromPodClaims (the devices promised in the BindRequest are carried), "
      "updatePodAdditionalFields (live BindRequest groups win), UpdateStatus (retry counter persisted on every failed attempt, phases persisted, attempts never decrease, terminal failure not retried, one write iff status changed). Session-3 late: createBindRequest stamps the node-pool label exactly when the scheduler's own selector asks for it (key and value set) and always the selected-node label (ghost state of the generated client); GetLabels verified.",
      BASE + "Assumed: the status writer persists what it is handed unless it reports an error (persistence keyed on resourceVersion, fault oracle statusPatchFails), DataLister.List* read-only. "
      "Not decided: interleavings of scheduler cycles with binder reconciles as a history (the induction over reconciles is not mechanised), RequeueAfter = 2^attempts only as >= 1 s, addTasksToNodes/Snapshot as a whole.",
      "DESIGN.md 2/C12")

claim("C13",
      "Proof, for all inputs, of the statement log protocol in framework: Operation Name/TaskInfo/Reverse for the four operation kinds, operationValid, undoOperation, undoEarliestValidOperation (undoes the EARLIEST operation that is still valid), "
      "Checkpoint/Rollback/Discard/clearOperations, Evict/Pipeline/Allocate and their undo functions (captured previous state incl. a CLONE of the resource claim info; the undo restores the task first, then hands the node the restored task, then fires the handlers), "
      "Commit (emits only for live entries, never reverses an operation whose bind succeeded), plus the exact mirror contracts of the node/job mutators they call (C14; incl. un-nominating a shared-GPU task, fixed) and of the scheduler DRA plugin's allocate/deallocate.",
      BASE + "Assumed: type:ReverseOperation (plugin handlers run node/job/plugin code: modifies *; logs only grow), Cache.Evict/TaskPipelined/Bind as ghost emission counters. "
      "Not decided: whole-sequence restoration ('any sequence ... leaves the view exactly as it was') - it follows by induction from the inverse pairs, not mechanised.",
      "DESIGN.md 2/C13")

claim("C14",
      "Proof, for all inputs, of the accounting steps: Resource/ResourceRequirements arithmetic exact, GPU folds as finite sums, NodeInfo add/removeTaskResources and the AddTask family exact per status, "
      "PodSet counters as exact deltas AND in closed form (the three gang counters EQUAL the recount over the recorded statuses, preserved by AssignTask/clearOldStatus, established by NewPodSet), PodGroupInfo index/counters as per-step deltas, "
      "queue usage establish/preserve, pod_status predicates == status sets, the snapshot constructors (NewNodeInfo, AddTasksToNode), Session.Evict/BindPod (job first, then node: the node records the pod under its NEW status).",
      BASE + "Assumed: the DRA count map of a task's resource objects is not one of the node's per-GPU memory maps (draSeparate, listed). Not decided: job-level 'counter equals recount' (the all-pods map is a merge over pod sets), NodeInv as a closed sum, "
      "vector vs structured agreement beyond length/frame (finding F2 in DESIGN.md: a resource name ending in 'gpu' overwrites the GPU vector slot), NewPodGroupInfoWithVectorMap / CloneWithTasks.",
      "DESIGN.md 2/C14")

na("C15", "whole-history / liveness-style property (no eviction livelock over infinite closed-loop executions): no function contract within reach expresses a global ranking over cluster states; "
          "its local ingredients (strict saturation comparison, strictly lower priority, allPodsReallocated) are checked under C06/C07")

claim("C16",
      "Proof, for all inputs, of the comparators and fallbacks: priority.JobOrderFn (three-valued, higher priority first, antisymmetric), elastic.JobOrderFn/minAvailableState, subgrouporder.PodSetOrderFn, "
      "queue_order prioritize* functions, Session.JobOrderFn/TaskOrderFn/QueueOrderFn fallbacks (creation time, then UID); and of the data structure that applies them: (*PriorityQueue).Pop [handsOutBest] (no element of the queue is handed out before the one returned), "
      "Push keeps the order and, bounded, gives up only an element that would be handed out last ([keepsBestOld/New], lastToPopIndex [handedOutLast]); the leaf comparator of the jobs order IS Session.JobOrderFn; PopNextJob [bestOfLeaf], "
      "InitializeWithJobs [allEligiblePushed] (every eligible job reaches the heap before the depth bound is applied), allocate.Execute attempts jobs in that order and drains it.",
      BASE + "Assumed: container/heap library contracts for a strict-weak-order comparator (swo is only ever a hypothesis), trust clauses for the node-tree invariant of the jobs order. Not decided: ordering of the queue-NODE level (no ordering clause claimed), "
      "the whole-cycle monotonicity step (identical jobs: placeable later ==> placeable earlier).",
      "DESIGN.md 2/C16")

claim("C17",
      "Proof, for all inputs and all outcomes of the client calls, of the sequential reservation logic: syncForPods ([only-justified-deletes][reservation-without-consumers-deleted]), deleteNonReservedPods, deleteReservationPod, "
      "findGPUIndexByGroup, acquireGPUIndexByGroup [at-most-one-create], updatePodGPUGroup/ReserveGpuDevice (success ==> group label stored), lock released on every path, event handlers (isCompletionEvent: every phase change to a terminal phase) sync exactly the pod's groups, GetGpuGroups.",
      BASE + "Not applicable within the family and not claimed: interleavings of concurrent reconciles and the correctness of GroupMutex (trusted sequential ghost 'held'; a seeded off-by-one in its reference count needs three goroutines and is out of reach). "
      "Not decided: [running-consumers-without-reservation-deleted], at most one reservation pod per group beyond find-then-create under the lock, createGPUReservationPodAndGetIndex (channels: trusted).",
      "DESIGN.md 2/C17")

claim("C18",
      "Proof, for all inputs, of the naming/equality/merge functions of the pod-grouper: CalcPodGroupName (function of owner name and UID only), CalcPodGroupLabels/Queue (owner label wins), mapsEqualBySourceKeys, copyStringMap, updatePodGroup, "
      "ignoreFields (fields owned by other actors come from the stored object), podGroupsEqual, and of the per-kind grouper plugins (session 3; evidence lists the units): metadata is a function of the top owner and the documented template fields, "
      "minimums >= 1, malformed owner objects give an error or the documented default - two genuine panics (PyTorch segment size 0 on a pod, LeaderWorkerSet worker index outside of the group) were found as undischarged no-panic obligations and fixed.",
      BASE + "Assumed: unstructured accessors as declared deterministic functions of (object, path), generated DeepCopy. Not decided: concurrent reconciles, "
      "the write-free fixpoint of ApplyToCluster (goes through reflect.DeepEqual; two genuine write-on-every-reconcile defects were observed and replayed by hand, DESIGN.md section 5).",
      "DESIGN.md 2/C18")

claim("C19",
      "Proof, for ALL annotation strings (strconv parsers are deterministic functions of the string shared by all three components; ieee floats so NaN/Inf are representable), that admission, scheduler and binder agree: "
      "ValidateGpuRequests [exact]; Validate (admission) [accepts-iff][sharing-disabled]; updatePodAdditionalFields [agree-fraction][agree-memory][agree-count][agree-no-sharing]; GetGPUFraction/GetGPUMemory/GetNumGPUFractionDevices; GetFractionContainerRef; "
      "the config-map names admission wires into the pod and the names the binder creates are ONE spec function of (prefix, container kind, index).",
      BASE + "Assumed: the strconv relations between ParseInt/ParseUint/ParseFloat listed in the evidence. Not decided: Mutate o Mutate = Mutate as a whole (random config-map suffix).",
      "DESIGN.md 2/C19")

claim("C20",
      "Proof, for all inputs, of the aggregation steps AND of the list folds as closed-form finite sums: getStatusWithMetadata, isActivePod/isAllocatedPod/isPodScheduled, AddPodMetadata, SumResources; calculatePodGroupMetadata "
      "(Requested[r] / Allocated[r] == the sum over the listed pods of the per-pod amount under the phase guard, for every resource name; error ==> no metadata), queue controller sumChildQueueResources / sumPodGroupsResources / "
      "ResourceUpdater.UpdateQueue (status == children sum + pod-group sum: the per-level equation of the hierarchy), ChildQueuesUpdater.UpdateQueue. Session-3 late: IsPreemptible is no longer trusted - the priority resolution order (named class, else global default, else system default; look-up failures are errors) is verified in getPodGroupPriority. Session 4 (operator half, first piece): the operator's field-inherit hooks (known_types: mergeAnnotations, MutatingWebhookConfigurationFieldInherit, ValidatingWebhookConfigurationFieldInherit) are verified - whatever the configuration sets (annotation, webhook NamespaceSelector) wins, the cluster's value is taken only where the configuration is silent, nothing is invented; the package is loaded for C20 only.",
      BASE + "Assumed: resource.Quantity as a Real value, per-pod amounts named by trust clauses on GetPodMetadata (client reads: determinism assumed), client.List decodes into fresh memory. "
      "Not decided: ShouldUpdatePodGroupStatus boolean (reflect.DeepEqual), the patch diff, key sets of the result maps, both Reconcile functions, the induction over hierarchy levels, the operator's Deploy loop and its other per-kind hooks (only the field-inherit hooks above are under contract).",
      "DESIGN.md 2/C20")
