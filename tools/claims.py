# Table of claims; executed by mkmanifest.py. One entry per property of /verif/properties.jsonl.
BASE = ("Trusted: govc (own VC generator: go/ssa -> SMT-LIB2, memory model, loop cutting), go/ssa + go/types of x/tools v0.50.0, the SMT solvers "
        "(z3-new 5.1.0, cvc5 1.0, z3 4.8.12; 'unsat' from one suffices in the quick tier, thorough runs all and fails on disagreement). "
        "Assumed everywhere: A-INT (Go integers are mathematical integers, no overflow), A-REAL (float64 is R; R + {+Inf,-Inf,NaN} in units marked ieee; no rounding), "
        "logging/metrics calls are no-ops, append always reallocates, callee writes to objects it allocates itself are visible only through its ensures, "
        "library functions per the models/assumed contracts listed in the evidence file, every contract marked trusted (listed in evidence with its note). ")

claim("C01",
      "Proof, for all inputs, of per-function contracts on the real code: the fit predicates (BaseResource/Resource/ResourceRequirements LessEqual == fitsBase/fitsRes/fitsReq; "
      "NodeInfo.IsTaskAllocatable [top]: result ==> best-effort or the request fits *Idle*, not Idle+Releasing; IsTaskAllocatableOnReleasingOrIdle; lessEqualTaskToNodeResources), "
      "the exact per-status effect of addTaskResources/removeTaskResources/AddTask/RemoveTask/UpdateTask on Idle/Used/Releasing (mirror images of each other), "
      "checkMaxPodsWithGpuGroupReservation (exact), and the statement/commit pieces in framework. Right level: the property is an invariant preserved by each decision; "
      "each link (check, charge, undo) is a universally quantified function contract. Session 3: the snapshot constructors (NewNodeInfo: Idle == Allocatable, nothing used; AddTasksToNode: exact per-status effect of one pod, only occupying pods recorded; getNodeToPodInfosMap), the max-pods predicate also under C01, the GPU folds GetDraGpusCount/GetGpusQuota/GetTotalGPURequest as verified finite sums, the Session dispatch wrappers (FittingNode: every registered predicate and capacity callback is consulted) verified instead of trusted.",
      BASE + "Not decided: that every path from an action to Cache.Bind goes through Statement (call-graph fact), storage capacity (isTaskStorageAllocatable trusted), "
      "NodeInv as a sum over pods (no sum theory in the spec language: effects are proved per operation, the sum identity is the usual induction and is not mechanised), "
      "addTasksToNodes/Snapshot as a whole (AddTask's precondition vecWF - node vectors as long as the shared layout - is stronger than what the snapshot establishes; replayed, the code is fine), multi-cycle histories beyond the per-step contracts.",
      "DESIGN.md 2/C01")

claim("C02",
      "Proof, for all inputs, of the shared-GPU functions: GetResourceGpuMemory, getGpuMemoryFractionalOnNode, EnoughIdleResourcesOnGpu ([top] result ==> allocated[g] + need <= GPU memory, plus the functional form), "
      "enoughResourcesOnGpu, isAllGpuReleased, IsTaskFitOnGpuGroup, fractionTaskGpusAllocatableDeviceCount (bounds, zero/non-zero), and the exact effect of add/removeSharedTaskResourcesPerPodGroup "
      "on the per-GPU memory maps, the releasing marker and Releasing.gpus (Idle.gpus changes by at most one and only when a group opens/closes).",
      BASE + "Preconditions exported to callers: nodeWF (MemoryOfEveryGpuOnNode > 0: see finding F1 in DESIGN.md - a node label nvidia.com/gpu.memory below 100 yields 0 and unlimited sharing). "
      "Not decided: GetNodePreferableGpuForSharing/findGpuForSharingOnNode (N distinct devices for count > 1 only as 'some group fits'), GpuInv as a sum over sharers, physical GPU index identity (binder), uuid freshness.",
      "DESIGN.md 2/C02")

claim("C03",
      "Proof, for all inputs, of the counting functions that implement gang integrity: getNumTasksToAllocate (allocated < min ==> exactly min - allocated; else at most one), getNumAllocatableTasks, "
      "getMaxNumSubGroupsToAllocate, getTasksFromQueue (exact length), GetTasksToAllocate [elasticAtMostOne], getMaxTasksToEvict (exact; [keepsMin], [orAll]), getNumOfSubGroupsToEvict (exact), "
      "GetTasksToEvict [shrinkAtMostOne][partialFlag], ShouldPipelineJob ([only][sure][never]), IsGangSatisfied/IsReadyForScheduling/IsElastic, PodSet counters, validVictimForMinAvailable, PodSetOrderFn. Session 3: PriorityQueue Push/Pop/Peek and JobsOrderByQueues PushJob/PopNextJob VERIFIED (were trusted) incl. ordering clauses; the four Execute loops and attempt* functions of allocate/reclaim/preempt/consolidation verified (two trust clauses each: [successIsCommittable], [outcomeRecorded]); allocateSubGroupSet/allocatePodSet hand SubsetNodesFn ALL pod sets of the sub-group set.",
      BASE + "Assumed: container/heap library contracts (strict-weak-order comparator keeps the heap invariants), 7 trust clauses for the hereditary data invariant of the jobs-order node tree. Not decided: exact counts as cardinalities over maps (no count construct: counters are proved as per-step deltas), "
      "which pod set is popped first when only some have surplus (depends on the heap order / subgrouporder configuration), the commit protocol of allocate/solvers (attemptToAllocateJob, JobSolver.Solve) beyond the Statement contracts.",
      "DESIGN.md 2/C03")

claim("C04",
      "Proof, for all inputs, of KAI's own placement-constraint logic: CheckNodeConditionPredicate (fit <==> schedulable and every node condition ok), checkMaxPodsWithGpuGroupReservation (exact), SkipPredicates.Add/ShouldSKip, "
      "isNodePartOfTopology (exact), getJobTopology (unknown topology ==> not found), calcDomainId (safety + joined tuple), lowestCommonDomainID, and the topology node-set functions added after seeding (see DESIGN.md section 7).",
      BASE + "Assumed (not verified): the upstream kube-scheduler filters (NodeAffinity, TaintToleration, InterPodAffinity, NodePorts ...) behind k8s_internal; the node-pool label selector of the listers. "
      "Not decided: evaluateTaskOnPrePredicate/evaluateTaskOnPredicates as a whole (map with struct values, func-typed fields of k8s_internal, external Status methods), FittingNode -> allocate ordering, in-session pod-affinity state. "
      "Known undecided candidates: calcDomainId is not injective for label values containing '.', lowestCommonDomainID absorbs empty label values.",
      "DESIGN.md 2/C04")

claim("C05",
      "Proof, for all inputs, that the listed gates do not reject the cases the property promises to serve (converse directions of the C01/C06/C07 contracts): IsTaskAllocatable(+OnReleasingOrIdle) completeness side, "
      "common.FeasibleNodesForJob (a node with idle or releasing GPU capacity is kept), Reclaimable.CanReclaimResources (iff), FitsReclaimStrategy [starvedReclaimerServed], buildFilterFuncForPreempt$1 [eligibleAccepted]. Session 3: preempt/reclaim/consolidation/allocate Execute loops under contract: a job is skipped without an attempt only because a job OF ITS OWN QUEUE with a not-larger footprint failed before in this action ([perQueueScope], scopeOK preconditions of IsEasierToSchedule/UpdateRepresentative); every popped job is attempted or skipped for that reason ([orderDrained]); the seeded action-wide table is caught.",
      BASE + "Explicitly NOT decided: that allocate/reclaim/preempt visit every job, node and victim set (whole-cycle progress of an action's Execute loop), IsEasierToSchedule/UpdateRepresentative (the scheduling-signature shortcut; "
      "the seeded change of DESIGN.md section 7 for C05 lives there and is missed), idle_gpus accumulated filter. Candidate finding (not mechanised): jobEasierToScheduleComparison skips jobs whose request is incomparable to the recorded failure.",
      "DESIGN.md 2/C05")

claim("C06",
      "Proof, for all inputs, of the victim-eligibility functions: the preempt filter closure (result == preemptible && lower priority && same queue && other job && active allocated > 0 && PreemptVictimFilter), "
      "the consolidation and reclaim filter closures, InitializeWithJobs/GetVictimsQueue filter flags, allPodsReallocated (<==> no victim task is Releasing), minruntime (validVictimForMinAvailable, resolvers, "
      "is*MinRuntimeProtected == started && now < lastStart + resolved, preemptFilterFn/reclaimFilterFn), CalculatePreemptibility/IsPreemptibleJob, Session victim filters/validators (conjunction over the registered slice).",
      BASE + "Assumed: plugin registration (the registered function values satisfy their type: contracts), time.Now as one constant per call, acyclic queue graph (ranking) for the resolver loops. "
      "Not decided: the solver's search order, that evictions and the preemptor's pipeline share one Statement end to end (by_pod_solver), the min-runtime scenario validators, cache-hit paths of the resolver caches.",
      "DESIGN.md 2/C06")

claim("C07",
      "Proof, for all inputs, of the reclaim decision functions: compareQuantities with the -1 sentinel, ResourceQuantities ops, the share getters with cache coherence, both reclaim strategies and FitsReclaimStrategy "
      "(iff form + [withinQuotaIsSafe]: a queue within deserved quota and allocatable share is never reclaimed from), CanReclaimResources (iff: within fair share, non-preemptible within deserved), "
      "fairShareSaturationRatio/isFairShareSaturationLowerPerResource (ieee), getHierarchyPath/getLeveledQueues (divergence level), subtractReclaimedResources, reclaimResourcesFromReclaimees, reclaimingQueuesRemainWithinBoundaries.",
      BASE + "Assumed: (*Resource).GetTotalGPURequest (MIG share fold, trusted), acyclic queue graph as a ranking precondition (established by UpdateQueueHierarchy/ensures[rooted] in another ghost encoding: the link is not mechanised), "
      "saturation predicate named by a definitional assume (listed). Not decided: that the validator runs on the finally committed victim set (C06 protocol).",
      "DESIGN.md 2/C07")

claim("C08",
      "Proof, for all inputs, of the capacity policy: isOverLimit / isAllocatedNonPreemptibleOverQuota functional; resultsOverLimit / resultsWithNonPreemptibleOverQuota: IsSchedulable <==> at EVERY ancestor level allocated + requested <= limit "
      "(resp. non-preemptible allocated + requested <= deserved), with termination; the three entry points; the allocate/deallocate handler closures: for every queue object, Allocated' = Allocated +/- r exactly on the parent chain of the job's queue and unchanged elsewhere, "
      "AllocatedNotPreemptible iff non-preemptible; lemmas [limitInvariant][quotaInvariant] (check passed ==> still within the bound after the charge).",
      BASE + "Assumed: GetGpusQuota (trusted fold), parent chain described by the ghost anc/depth/lvl under requires chainOK. Not decided: induction over the decisions of a cycle, GPU component of the job-level sum, "
      "check == charge across setAcceptedResources for multi-device GPU-memory requests (known mismatch, DESIGN.md section 5), termination of the setFairShareForQueues recursion.",
      "DESIGN.md 2/C08")

claim("C09",
      "Proof, for all inputs (Real arithmetic), law by law: floor law end to end (SetResourcesShare: FairShare >= old + min(deserved', capped request) for CPU/Memory/GPU), the rounding cliffs of getResourceToGiveInCurrentRound, "
      "the satisfied notion, the share-weight formula for all k-values and its monotonicity in over-quota weight, setDeservedResource exact and order-independent, shares never beyond the capped request in the weighted rounds, "
      "priorities strictly descending, comparator is a strict total order, remaining <= total, loops of divideOverQuotaResource terminate; hierarchy recursion is panic-free with coherent caches.",
      BASE + "Assumed: x/exp/maps.Keys and slices.SortFunc (trusted library contracts), PriorityQueue.Push/Pop. Not decided (no sum over key sets in the spec language): remaining >= 0 / conservation, "
      "'surplus stays only if every positive-weight queue is satisfied', the priority law, order-independence and outer-loop termination of divideUpToFairShare, 'at most one unit per queue in the remainder phase' (so the < 1 rounding-unit clause end to end).",
      "DESIGN.md 2/C09")

claim("C10",
      "Proof, for all inputs, of termination and panic-freedom of the listed consumers of API data: the queue graph (snapshotQueues, updateQueueChildren, cleanQueueOrphans, queueReachesRoot terminates on every map, cleanQueueCycles, "
      "UpdateQueueHierarchy ensures [noSelfParent][noTwoCycle][rooted][parentsPresent]...), every parent-chain loop under contract with a decreases clause, sub-group factory total for ANY Spec.SubGroups (duplicates, cycles, empty names, MinMember <= 0), "
      "pod annotation parsing (updatePodAdditionalFields, getPodResourceRequest, ieee for NaN/Inf), no-panic obligations of every unit tagged C10.",
      BASE + "Not decided: termination of Execute as a whole, panics outside the functions under contract (evidence lists the units), the liveness clause ('untouched workloads are still scheduled'), "
      "the link between UpdateQueueHierarchy/ensures[rooted] and the ranking preconditions of the consumers (two ghost encodings). Known undecided candidates: idle_gpus insert on an empty list, NewIdleGpusFilter(nil).",
      "DESIGN.md 2/C10")

claim("C11",
      "Proof, for all inputs and all outcomes of every client call (each call's error is a fresh symbolic value, so every subset of failing calls is covered), of the binder protocol functions: Reconcile (7 clauses: never bound twice, "
      "no bind when Succeeded/deleted/already bound, bound to the selected node only, rollback only after bind, reported bind failure was rolled back, at most one status write), Binder.Bind (success ==> bound to the given node; failure ==> pod unbound: the binding create is the last call that can fail), "
      "Binder.Rollback (every compensation step attempted), BinderPlugins.PreBind/PostBind/Rollback, reserveGPUs.",
      BASE + "Assumed: controller-runtime client contracts over ghost state (gone, boundTo, statusWrites ...), Interface.*/Plugin.* interface contracts, DRA/volume-binding plugins. "
      "Not decided: recoverable(S) at every crash point, the retry-from-intermediate-state lemma, content written by the gpusharing/DRA plugins, concurrency.",
      "DESIGN.md 2/C11")

claim("C12",
      "Proof, for all inputs, of both sides of the hand-off: IsFailed (functional), GetBindRequestForPod (nil <==> absent or failed), getTaskStatus (pending + live bind request ==> Binding), snapshotBindRequests partition, "
      "UpdateStatus (retry counter persisted on every failed attempt, phases persisted, attempts never decrease, terminal failure not retried, one write iff status changed; step lemmas limit-reached-is-failed(-in-store)).",
      BASE + "Assumed: the status writer persists what it is handed unless it reports an error (persistence keyed on resourceVersion, fault oracle statusPatchFails). "
      "Not decided: interleavings of scheduler cycles with binder reconciles as a history (the induction over reconciles is not mechanised), RequeueAfter = 2^attempts only as >= 1 s.",
      "DESIGN.md 2/C12")

claim("C13",
      "Proof, for all inputs, of the statement log protocol in framework: Operation Name/TaskInfo/Reverse for the four operation kinds, operationValid (parity of live undo entries, terminates), undoOperation, "
      "Checkpoint/Rollback/Discard/clearOperations, Session victim filters and order functions, plus the exact mirror contracts of the node/job mutators they call (C14).",
      BASE + "Assumed: type:ReverseOperation (plugin handlers run node/job/plugin code: modifies *; logs only grow), Cache.Evict/TaskPipelined/Bind as ghost emission counters. "
      "Not decided: whole-sequence restoration ('any sequence ... leaves the view exactly as it was') - it follows by induction from the inverse pairs, not mechanised; DRA claim handlers.",
      "DESIGN.md 2/C13")

claim("C14",
      "Proof, for all inputs, of the accounting steps: Resource/ResourceRequirements arithmetic exact (Add/Sub/AddResourceRequirements/SubResourceRequirements, fits predicates), NodeInfo add/removeTaskResources and the AddTask family exact per status, "
      "PodSet counters and PodGroupInfo index/counters as exact per-step deltas (AssignTask, AddTaskInfo, UpdateTaskStatus old -> new, failure leaves counts), queue usage establish/preserve (updateQueuesResourceUsage*, handlers), pod_status predicates == status sets.",
      BASE + "Not decided: 'counter equals recount' as a closed statement (no sum/count theory: the proved per-step deltas are its inductive steps), vector vs structured agreement beyond length/frame "
      "(finding F2 in DESIGN.md: a resource name ending in 'gpu' overwrites the GPU vector slot), NewNodeInfo / NewPodGroupInfoWithVectorMap / CloneWithTasks.",
      "DESIGN.md 2/C14")

na("C15", "whole-history / liveness-style property (no eviction livelock over infinite closed-loop executions): no function contract within reach expresses a global ranking over cluster states; "
          "its local ingredients (strict saturation comparison, strictly lower priority, allPodsReallocated) are checked under C06/C07")

claim("C16",
      "Proof, for all inputs, of the comparators and fallbacks: priority.JobOrderFn (three-valued, higher priority first, antisymmetric), elastic.JobOrderFn/minAvailableState, subgrouporder.PodSetOrderFn (strict-weak-order lemmas), "
      "queue_order prioritize* functions, Session.JobOrderFn/TaskOrderFn/QueueOrderFn fallbacks (creation time, then UID; irreflexive/asymmetric lemmas), PriorityQueue construction/Empty/Len.",
      BASE + "Assumed: container/heap (Push/Pop trusted: membership only), plugin comparator registration. Not decided: PushJob/PopNextJob heap ordering and reorder logic (trusted), "
      "the whole-cycle monotonicity step (identical jobs: placeable later ==> placeable earlier).",
      "DESIGN.md 2/C16")

claim("C17",
      "Proof, for all inputs and all outcomes of the client calls, of the sequential reservation logic: syncForPods ([only-justified-deletes][reservation-without-consumers-deleted]), deleteNonReservedPods, deleteReservationPod, "
      "findGPUIndexByGroup, acquireGPUIndexByGroup [at-most-one-create], updatePodGPUGroup/ReserveGpuDevice (success ==> group label stored), lock released on every path, event handlers sync exactly the pod's groups, GetGpuGroups.",
      BASE + "Not applicable within the family and not claimed: interleavings of concurrent reconciles and the correctness of GroupMutex (trusted sequential ghost 'held'). "
      "Not decided: [running-consumers-without-reservation-deleted], at most one reservation pod per group beyond find-then-create under the lock, createGPUReservationPodAndGetIndex (channels: trusted).",
      "DESIGN.md 2/C17")

claim("C18",
      "Proof, for all inputs, of the naming/equality/merge functions of the pod-grouper: CalcPodGroupName (function of owner name and UID only), CalcPodGroupLabels/Queue, mapsEqualBySourceKeys, copyStringMap, updatePodGroup, "
      "ignoreFields (mark-unschedulable, scheduling backoff, queue, node-pool and queue labels come from the stored object; inputs unmodified), podGroupsEqual (labels/annotations half).",
      BASE + "Assumed: Unstructured.GetName/GetUID/GetLabels as declared functions of the owner, generated DeepCopy. Not decided: per-kind grouper plugins other than the default path, concurrent reconciles, "
      "the write-free fixpoint of ApplyToCluster (goes through reflect.DeepEqual; two genuine write-on-every-reconcile defects were observed and replayed by hand, DESIGN.md section 5).",
      "DESIGN.md 2/C18")

claim("C19",
      "Proof, for ALL annotation strings (strconv parsers are deterministic functions of the string shared by all three components; ieee floats so NaN/Inf are representable), that admission, scheduler and binder agree: "
      "ValidateGpuRequests [exact] accepted iff no bad combination and every present value well-formed (fraction finite in (0,1), memory and count in [1, MaxInt64]); Validate (admission) [accepts-iff][sharing-disabled]; "
      "updatePodAdditionalFields [agree-fraction][agree-memory][agree-count][agree-no-sharing]; GetGPUFraction/GetGPUMemory/GetNumGPUFractionDevices; GetFractionContainerRef.",
      BASE + "Assumed: the strconv relations between ParseInt/ParseUint/ParseFloat listed in the evidence. Not decided: Mutate o Mutate = Mutate as a whole (random config-map suffix), NewTaskInfoWithBindRequest claim handling.",
      "DESIGN.md 2/C19")

claim("C20",
      "Proof, for all inputs, of the aggregation steps: getStatusWithMetadata (Requested/Allocated from metadata, AllocatedNonPreemptible = Allocated for non-preemptible groups and empty for preemptible ones, other status kept, field-wise fixpoint), "
      "isActivePod/isAllocatedPod/isPodScheduled, AddPodMetadata (pointwise sums), SumResources (result[k] == left[k] + right[k], fresh, operands unchanged).",
      BASE + "Assumed: resource.Quantity as a Real value with trusted Add/DeepCopy models. Not decided: folds over lists (queue roll-up in resource_updater/childqueues_updater, calculatePodGroupMetadata: no fold in the spec language, "
      "lists come from client.List), ShouldUpdatePodGroupStatus boolean (reflect.DeepEqual), the operator's Deploy fixpoint (reflection over arbitrary types): undecided and stated as such.",
      "DESIGN.md 2/C20")
