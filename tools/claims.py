# Table of claims; executed by mkmanifest.py.
BASE_NOTE = ("Trusted: govc (VC generator), go/ssa, the SMT solvers. Assumed: A-INT (mathematical integers), A-REAL (float64 as reals; reals+{Inf,NaN} where marked ieee), "
             "logging/metrics calls are no-ops, external library functions per the models listed in the evidence file, callee contracts marked trusted. ")

claim("C07",
      "For all inputs: the functional contracts of the quota comparison primitives (compareQuantities with the -1 = unlimited sentinel, ResourceQuantities.LessEqual/Less/Add) are proved on the real code; these carry the reclaim strategy contracts.",
      BASE_NOTE + "Scope so far: resource_share primitives only.", "DESIGN.md 2/C07")

PENDING = "not yet claimed in this commit: contracts for this property are under construction (see DESIGN.md section 6 build order)"
for p in ["C01","C02","C03","C04","C05","C06","C08","C09","C10","C11","C12","C13","C14","C16","C17","C18","C19","C20"]:
    na(p, PENDING)
na("C15", "whole-history / liveness-style property (no eviction livelock over infinite closed-loop executions): no function contract within reach expresses a global ranking over cluster states; local ingredients are checked under C06/C07")
