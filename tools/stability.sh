#!/bin/bash
# usage: tools/stability.sh <seed> [props...]  - re-runs the properties with a perturbed solver seed (no evidence written);
# lists the obligations that are not discharged: proofs that hang on one lucky seed are false alarms waiting to happen.
cd /verif
SEED=$1; shift
PROPS=${@:-$(python3 -c "import json;print(' '.join(c['property_id'] for c in json.load(open('MANIFEST.json'))['checks']))")}
mkdir -p /var/tmp/stability
for p in $PROPS; do
  W=$(mktemp -d /var/tmp/stab-XXXXXX)
  GOVC_SEED=$SEED ./bin/govc check -prop $p -contracts /verif/contracts,/repo -evidence $W/ev.json -workdir $W -replays $W -v 2>&1 | grep -E "FAILED|^property=" | cut -c1-260 > /var/tmp/stability/seed$SEED-$p.txt
  rm -rf $W
  echo "$p seed=$SEED: $(grep -c FAILED /var/tmp/stability/seed$SEED-$p.txt) not discharged"
done
