#!/bin/bash
# usage: tools/try_seed_ov.sh <patch.diff> <prop> [<prop>...]
# Like try_seed.sh but does NOT touch /repo: the patched files are produced in a scratch directory and
# handed to govc as a build overlay (safe to use while other checks run against /repo). Evidence files
# are not rewritten. Counterexample replay runs against the unpatched tree, so a caught change is
# reported here with the suffix no-failing-input-found; use try_seed.sh for the real end-to-end run.
set -u
PATCH="$(readlink -f "$1")"; shift
T=$(mktemp -d /var/tmp/seedov-XXXXXX); trap 'rm -rf "$T"' EXIT
cd /repo || exit 2
FILES=$(git apply --numstat "$PATCH" | awk '{print $3}')
[ -n "$FILES" ] || { echo "patch lists no files"; exit 2; }
for f in $FILES; do mkdir -p "$T/src/$(dirname "$f")"; [ -f "$f" ] && cp "$f" "$T/src/$f"; done
(cd "$T/src" && git init -q . 2>/dev/null; git -C "$T/src" apply --unsafe-paths "$PATCH") || { echo "patch does not apply"; exit 2; }
python3 - "$T" $FILES > "$T/ov.json" <<'PY'
import json,sys
t=sys.argv[1]; print(json.dumps({"/repo/"+f: t+"/src/"+f for f in sys.argv[2:]}))
PY
cd /verif
for p in "$@"; do
  echo "=== $p (overlay)"
  W=$(mktemp -d /var/tmp/govc-ov-XXXXXX)
  ./bin/govc check -prop "$p" ${FUNC:+-func "$FUNC"} ${PKG:+-pkg "$PKG"} -tier quick -contracts "${CONTRACTS:-/verif/contracts,/repo}" -overlay "$T/ov.json" -evidence "$W/ev.json" -workdir "$W" -replays "$W" 2>&1 | grep -E "FAILED|VIOLATION|UNDECIDED|^property=" | cut -c1-300 | head -12
  echo "exit=${PIPESTATUS[0]}"
  rm -rf "$W"
done
