#!/bin/bash
# Engine-level must-fail / must-pass scenarios (synthetic Go files added to a repo package through a
# build overlay, with their own contract directory). usage: tools/selftest_engine.sh
set -u
cd /verif
rc=0
for d in selftest/engine/*/; do
  n=$(basename "$d")
  T=$(mktemp -d /var/tmp/engst-XXXXXX)
  cp "$d/zz_stable.go.txt" "$T/zz_stable.go"
  echo "{\"/repo/pkg/common/resources/zz_stable.go\":\"$T/zz_stable.go\"}" > "$T/ov.json"
  out=$(${GOVC:-./bin/govc} check -prop C19 -func zz -contracts "/verif/$d/contracts,/verif/contracts" -overlay "$T/ov.json" -timeout 20 -evidence "$T/ev.json" -workdir "$T/w" -replays "$T" 2>&1)
  got=$(echo "$out" | grep -oE "FAILED [^ ]+" | awk '{print $2}' | sort)
  want=$(grep -v '^#' "$d/expect.txt" | sort)
  if [ "$got" == "$want" ]; then echo "OK   $n"; else echo "BAD  $n"; echo "  want: $want"; echo "  got:  $got"; rc=1; fi
  rm -rf "$T"
done
exit $rc
