#!/usr/bin/env python3
"""Regenerates the table of seeded changes in DESIGN.md (between the markers SEED-TABLE-BEGIN/END) from seeded/*/meta.json."""
import json, glob, os, re
rows=[]
for f in sorted(glob.glob('/verif/seeded/*/meta.json')):
    i=os.path.basename(os.path.dirname(f)); m=json.load(open(f))
    first = m.get('check_result') or m.get('check_result_at_seeding_time') or {}
    later = m.get('check_result_current') or m.get('check_result_after_strengthening') or {}
    def verdict(r):
        if not r: return ''
        e=r.get('exit')
        if e in (1,141): return 'caught'
        if e==0: return 'MISSED'
        return 'undecided'
    def obl(r):
        fo=[x for x in (r.get('failed_obligations') or []) if '/' in x and not x.startswith('var')]
        return ', '.join('`'+x.split('.',1)[-1][:70]+'`' for x in fo[:2])
    ch=re.sub(r'\s+',' ',m.get('change','')).strip()
    ch=re.sub(r'^-?\s*\**[Cc]hange\**[^:]*:\s*','',ch)[:170]
    na = m.get('not_applicable_reason','')
    v1=verdict(first); v2=verdict(later)
    final = v2 or v1
    if na: final='not applicable: '+na
    rows.append((i,m['property'],m.get('round',1),ch,v1,final,obl(later) or obl(first)))
out=['| seed | property | round | change | at seeding time | now | failing obligation(s) |','|---|---|---|---|---|---|---|']
for r in rows: out.append('| %s | %s | %s | %s | %s | %s | %s |'%r)
n=len(rows); c1=sum(1 for r in rows if r[4]=='caught'); c2=sum(1 for r in rows if r[5]=='caught')
out.append('')
out.append(f'{n} seeded changes; caught at seeding time: {c1}; caught now: {c2}; missed now: {sum(1 for r in rows if r[5]=="MISSED")}.')
txt='\n'.join(out)
p='/verif/DESIGN.md'; s=open(p).read()
if 'SEED-TABLE-BEGIN' in s:
    s=re.sub(r'<!-- SEED-TABLE-BEGIN -->.*?<!-- SEED-TABLE-END -->','<!-- SEED-TABLE-BEGIN -->\n'+txt.replace('\\','\\\\')+'\n<!-- SEED-TABLE-END -->',s,flags=re.S)
    open(p,'w').write(s)
print(txt[-400:])
