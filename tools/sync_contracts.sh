#!/bin/bash
# Copies the contract files from /verif/contracts into /repo (comment-only, build tag verif)
# and commits them there as a hook commit. Usage: tools/sync_contracts.sh [commit]
set -e
cd /verif/contracts
changed=0
for f in $(find . -name zz_verif_contracts.go | sort); do
  dst="/repo/${f#./}"
  if ! cmp -s "$f" "$dst" 2>/dev/null; then
    mkdir -p "$(dirname "$dst")"; cp "$f" "$dst"; echo "synced $dst"; changed=1
  fi
done
if [ "${1:-}" = "commit" ] && [ $changed = 1 ]; then
  cd /repo
  git add $(cd /verif/contracts && find . -name zz_verif_contracts.go | sed 's|^\./||')
  git commit -q -m "verif-hook: contract files (comment-only, //go:build verif) for govc" && echo "committed in /repo: $(git rev-parse --short HEAD)"
fi
