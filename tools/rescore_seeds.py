#!/usr/bin/env python3
"""usage: tools/rescore_seeds.py [id...]   (default: every seed)
Runs each seeded change against its property's quick check with the CURRENT contracts (overlay, /repo untouched) and
records the outcome as meta.json["check_result_current"]."""
import json, os, re, subprocess, sys, glob, time
ids = sys.argv[1:] or sorted(os.path.basename(os.path.dirname(p)) for p in glob.glob('/verif/seeded/*/meta.json'))
head = subprocess.check_output(['git','-C','/verif','rev-parse','--short','HEAD'],text=True).strip()
for i in ids:
    mp = f'/verif/seeded/{i}/meta.json'; m = json.load(open(mp)); prop = m['property']
    env = dict(os.environ, CONTRACTS=os.environ.get('CONTRACTS','/verif/contracts,/repo'))
    if os.environ.get('RESCORE_FAST'):
        # modular verification: a change of function f can only fail obligations of units in f's package (and of units that
        # inline f): solve the property's units (+ dependency closure) of the patched packages only
        d = open(f'/verif/seeded/{i}/patch.diff').read()
        pk = sorted({os.path.dirname(x) for x in re.findall(r'^\+\+\+ b/(\S+)', d, re.M)})
        env['PKG'] = ','.join(pk)
    t0=time.time()
    o = subprocess.run(f'tools/try_seed_ov.sh seeded/{i}/patch.diff {prop}', shell=True, cwd='/verif', env=env, stdout=subprocess.PIPE, stderr=subprocess.STDOUT, text=True).stdout
    ex = re.findall(r'exit=(\d+)', o); failed = sorted(set(re.findall(r'FAILED (\S+)', o)))
    m['check_result_current'] = {'command': f'tools/try_seed_ov.sh seeded/{i}/patch.diff {prop}', 'verif_commit': head, 'contracts': env['CONTRACTS'], 'restricted_to_packages': env.get('PKG',''), 'exit': int(ex[-1]) if ex else None, 'failed_obligations': failed[:12], 'summary': [l for l in o.splitlines() if l.startswith('property=')][-1:], 'verdict': 'caught' if ex and ex[-1]=='1' else ('MISSED' if ex and ex[-1]=='0' else 'undecided')}
    json.dump(m, open(mp,'w'), indent=1)
    print(i, prop, m['check_result_current']['verdict'], failed[:3], f'{time.time()-t0:.0f}s', flush=True)
