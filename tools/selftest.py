#!/usr/bin/env python3
"""Must-fail / must-pass corpus runner.
Each entry of selftest/mutants.json:  {"id":..., "prop":..., "file": <path under /repo>, "search":..., "replace":..., "expect": "fail"|"pass", "obligation": optional substring}
The edit is applied through a go/packages overlay (nothing is written to /repo)."""
import json, os, subprocess, sys, tempfile, concurrent.futures, shutil

ROOT = os.path.dirname(os.path.dirname(os.path.abspath(__file__)))

def run_one(m):
    src = os.path.join("/repo", m["file"])
    text = open(src).read()
    if m["search"] not in text:
        return (m, "STALE", "search text not found")
    cnt = m.get("count", 1)
    new = text.replace(m["search"], m["replace"], cnt)
    d = tempfile.mkdtemp(prefix="govc-mut-", dir="/var/tmp")
    try:
        f = os.path.join(d, "mut.go"); open(f, "w").write(new)
        ov = os.path.join(d, "ov.json"); json.dump({src: f}, open(ov, "w"))
        cmd = [os.path.join(ROOT, "bin/govc"), "check", "-prop", m["prop"], "-contracts", os.environ.get("GOVC_CONTRACTS", "/verif/contracts"), "-overlay", ov,
               "-workdir", os.path.join(d, "w"), "-replays", os.path.join(d, "r")]
        if m.get("func"): cmd += ["-func", m["func"]]
        p = subprocess.run(cmd, capture_output=True, text=True)
        out = p.stdout + p.stderr
        failed = [l.strip() for l in out.splitlines() if l.strip().startswith("FAILED")]
        if m["expect"] == "fail":
            ok = p.returncode == 1 and (not m.get("obligation") or any(m["obligation"] in l for l in failed))
        else:
            ok = p.returncode == 0
        return (m, "OK" if ok else "WRONG", "exit=%d %s" % (p.returncode, "; ".join(l[:160] for l in failed[:3]) if failed else out.strip().splitlines()[-1][:200] if out.strip() else ""))
    finally:
        shutil.rmtree(d, ignore_errors=True)

def main():
    ms = []
    import glob
    for f in sorted(glob.glob(os.path.join(ROOT, "selftest/mutants.d/*.json"))):
        ms += json.load(open(f))
    sel = sys.argv[1:]
    if sel:
        ms = [m for m in ms if m["prop"] in sel or m["id"] in sel]
    bad = 0
    with concurrent.futures.ThreadPoolExecutor(max_workers=4) as ex:
        for m, st, info in ex.map(run_one, ms):
            print("%-6s %-40s %-5s expect=%-4s %s" % (st, m["id"], m["prop"], m["expect"], info))
            if st != "OK": bad += 1
    print("selftest: %d entries, %d wrong" % (len(ms), bad))
    sys.exit(1 if bad else 0)
main()
