#!/usr/bin/env python3
"""usage: tools/ingest_seed.py <prop> <suffix> <n> <newid> [--tests <pkgpattern>...]
Confirms change <n> delivered by a fresh seed agent in /tmp/seedwt/<prop><suffix>.out (applies, builds, existing tests
pass with it, demo fails with it and passes without it) in that agent's scratch worktree, stores it as
/verif/seeded/<newid>/ and runs the property's quick check on it through an overlay (leaves /repo untouched)."""
import json, os, re, subprocess, sys, shutil
prop, suffix, n, newid = sys.argv[1:5]
extra = sys.argv[6:] if len(sys.argv) > 5 and sys.argv[5] == '--tests' else []
wt = f"/tmp/seedwt/{prop}{suffix}"; out = wt + ".out"
env = dict(os.environ, GOFLAGS="-mod=mod", GOPROXY="off")
def sh(cmd, cwd=wt, timeout=3600):
    p = subprocess.run(cmd, shell=True, cwd=cwd, env=env, stdout=subprocess.PIPE, stderr=subprocess.STDOUT, text=True, timeout=timeout)
    return p.returncode, p.stdout
patch = f"{out}/change_{n}.diff"; demo = f"{out}/demo_{n}_test.go"; notes = open(f"{out}/notes_{n}.md").read()
demodir = None
pkgclause = re.search(r"^package\s+(\w+)", open(demo).read(), re.M).group(1)
cands = []
for cand in re.findall(r"((?:\./)?(?:pkg|cmd)/[\w\-/\.]+)", notes):
    c = cand.lstrip('./').rstrip('/.')
    if c.endswith('.go'):
        c = os.path.dirname(c)
    if os.path.isdir(f"{wt}/{c}") and c not in cands:
        cands.append(c)
def pkgname(d):
    fs = sorted(os.listdir(f"{wt}/{d}"))
    for f in [x for x in fs if x.endswith('.go') and not x.endswith('_test.go')] + [x for x in fs if x.endswith('_test.go')]:
        mm = re.search(r"^package\s+(\w+)", open(f"{wt}/{d}/{f}").read(), re.M)
        if mm:
            n = mm.group(1)
            return n[:-5] if n.endswith('_test') else n
    return None
for c in cands:
    if pkgname(c) in (pkgclause, pkgclause[:-5] if pkgclause.endswith('_test') else pkgclause):
        demodir = c; break
assert demodir, "cannot determine the demo directory from the notes: " + str(cands)
runre = re.search(r"-run\s+'?\"?([\w\^\$\|\(\)_\.]+)", notes).group(1)
tf = re.findall(r"^func (Test\w+)\(", open(demo).read(), re.M)
if tf and not any(re.search(runre, t) for t in tf):
    runre = "|".join(tf)
print("demo dir:", demodir, "run:", runre)
sh("git checkout -q -- . ; git clean -fdq pkg cmd")
rc, o = sh(f"git apply --check {patch}"); assert rc == 0, "patch does not apply: " + o
files = [l.split('\t')[2] for l in sh(f"git apply --numstat {patch}")[1].splitlines()]
sh(f"git apply {patch}")
res = {"applies": "git apply --check: ok", "files": files}
rc, o = sh("go build ./pkg/... ./cmd/..."); res["build"] = "ok" if rc == 0 else "FAILED: " + o[-500:]
tops = sorted({"./" + "/".join(f.split('/')[:2]) + "/..." for f in files}) + extra
rc, o = sh("go test -vet=off -count=1 " + " ".join(tops) + " 2>&1 | grep -v 'no test files' | grep -v '^ok' | tail -15", timeout=5400)
res["existing_tests_with_change"] = {"packages": tops, "non_ok_lines": o.strip().splitlines()}
dest = f"{wt}/{demodir}/zz_seed_{newid}_demo_test.go"
shutil.copy(demo, dest)
rc1, o1 = sh(f"go test -vet=off -count=1 -run '{runre}' ./{demodir}/ 2>&1 | tail -5")
res["demo_with_change"] = o1.strip().splitlines()[-3:]
sh(f"git apply -R {patch}")
rc2, o2 = sh(f"go test -vet=off -count=1 -run '{runre}' ./{demodir}/ 2>&1 | tail -3")
res["demo_without_change"] = o2.strip().splitlines()[-2:]
os.remove(dest); sh("git checkout -q -- .")
d = f"/verif/seeded/{newid}"; os.makedirs(d, exist_ok=True)
shutil.copy(patch, d + "/patch.diff"); shutil.copy(demo, d + "/demo_test.go"); shutil.copy(f"{out}/notes_{n}.md", d + "/agent_notes.md")
pk = ",".join(sorted({os.path.dirname(f) for f in files}))
rc, o = sh(f"PKG={pk} tools/try_seed_ov.sh seeded/{newid}/patch.diff {prop}", cwd="/verif", timeout=5400)
if "units=0 " in o:
    rc, o = sh(f"tools/try_seed_ov.sh seeded/{newid}/patch.diff {prop}", cwd="/verif", timeout=5400)
ex = re.findall(r"exit=(\d+)", o); failed = re.findall(r"FAILED (\S+)", o) + re.findall(r"VIOLATION \S+ replay=\S*?([\w\.\(\)\*\$]+/[\w\-\[\]#\.]+)", o)
meta = {"property": prop, "round": int(os.environ.get("ROUND","4")), "source": f"fresh sub-agent given only the property record and a scratch worktree of /repo (prompt: tools/SEED_AGENT_PROMPT.txt), change {n} of its delivery",
        "change": next((l for l in notes.splitlines() if l.lower().lstrip('- ').startswith('change')), "")[:600],
        "needs_to_manifest": next((l for l in notes.splitlines() if 'needs to manifest' in l.lower() or 'what it needs' in l.lower()), "")[:600],
        "demo": {"package_dir": demodir, "run": runre},
        "confirmed": res,
        "check_result_at_seeding_time": {"command": f"PKG={pk} tools/try_seed_ov.sh seeded/{newid}/patch.diff {prop}  (contracts of hook commit " + subprocess.check_output(["git","-C","/repo","log","--format=%h","-1","--grep=verif-hook"],text=True).strip() + ", units of the patched packages; full run if none)", "exit": int(ex[-1]) if ex else None, "failed_obligations": sorted(set(failed))[:12], "output_tail": o.strip().splitlines()[-8:]}}
json.dump(meta, open(d + "/meta.json", "w"), indent=1)
print(json.dumps(meta, indent=1)[:3000])
