#!/bin/bash
# usage: tools/fullcheck.sh [tier]   - runs ./check <id> <tier> for every claimed property in turn; summary at the end.
cd /verif
TIER=${1:-quick}
mkdir -p /var/tmp/fullcheck
: > /var/tmp/fullcheck/summary.txt
for p in $(python3 -c "import json;print(' '.join(c['property_id'] for c in json.load(open('MANIFEST.json'))['checks']))"); do
  t0=$(date +%s)
  ./check $p $TIER > /var/tmp/fullcheck/$p.log 2>&1
  rc=$?
  t1=$(date +%s)
  echo "$p exit=$rc wall=$((t1-t0))s $(grep '^property=' /var/tmp/fullcheck/$p.log | cut -c1-160)" | tee -a /var/tmp/fullcheck/summary.txt
  grep -E "^VIOLATION|^UNDECIDED|^KNOWN-FINDING" /var/tmp/fullcheck/$p.log | cut -c1-220 | tee -a /var/tmp/fullcheck/summary.txt
done
