#!/bin/bash
# usage: tools/mk_seed_wt.sh <prop> <suffix>   -> creates /tmp/seedwt/<prop><suffix> (worktree of /repo at the last non-hook commit)
# and prints the prompt for a fresh seed agent to /tmp/seedwt/<prop><suffix>.prompt.txt
set -e
P="$1"; S="$2"; WT=/tmp/seedwt/$P$S
mkdir -p /tmp/seedwt
BASE=$(git -C /repo rev-parse HEAD)
git -C /repo worktree add --detach -f "$WT" "$BASE" >/dev/null 2>&1
# the agent must not see the contract files (they say what the checks can detect): remove them in a scratch commit
# on the detached HEAD of the worktree; diffs the agent delivers are relative to that commit and apply to /repo as is
(cd "$WT" && find . -name zz_verif_contracts.go -print0 | xargs -0 git rm -q --ignore-unmatch && git -c user.name=seed -c user.email=seed@example.invalid commit -q -m "seed base (contract files removed)") >/dev/null 2>&1
python3 - "$P" "$WT" <<'PY'
import json,sys
p,wt=sys.argv[1:3]
rec=[json.loads(l) for l in open('/verif/properties.jsonl') if l.strip()]
r=[x for x in rec if x['id']==p][0]
open(wt+'.property.json','w').write(json.dumps(r,indent=1))
t=open('/verif/tools/SEED_AGENT_PROMPT.txt').read().replace('__WT__',wt).replace('__PROPERTY__',json.dumps(r,indent=1))
open(wt+'.prompt.txt','w').write(t)
PY
echo "$WT ($BASE)"
