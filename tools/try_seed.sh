#!/bin/bash
# usage: tools/try_seed.sh <patch.diff> <prop> [<prop>...]
# Applies a seeded change to /repo, runs the quick checks of the given properties, and undoes the change.
set -u
PATCH="$(readlink -f "$1")"; shift
cd /repo || exit 2
if ! git apply --check "$PATCH" 2>/dev/null; then echo "patch does not apply"; exit 2; fi
git apply "$PATCH"
trap 'cd /repo && git checkout -- . ' EXIT
cd /verif
for p in "$@"; do
  echo "=== $p"
  ./check "$p" quick 2>&1 | grep -E "FAILED|VIOLATION|UNDECIDED|^property=" | cut -c1-300 | head -12
  echo "exit=${PIPESTATUS[0]}"
done
