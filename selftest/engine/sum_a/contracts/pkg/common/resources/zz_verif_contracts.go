//go:build verif

package resources

//@ define zzTot(b *zzBag) int = sum k in b.counts :: b.counts[k]
//@ define zzLive(b *zzBag) int = count k in b.items :: b.items[k].live
//@ define zzInv(b *zzBag) bool = b != nil && b.counts != nil && b.total == zzTot(b)
//@ define zzItemsOK(b *zzBag) bool = b != nil && b.items != nil && (forall k in b.items :: b.items[k] != nil) && (forall k in b.items :: forall j in b.items :: b.items[k] == b.items[j] ==> k == j) && b.nlive == zzLive(b)

//@ func zzTotal
//@   props C19
//@   requires b != nil
//@   pure
//@   loop 1
//@     invariant forall k in visited :: k in b.counts
//@     invariant t == sum k in visited :: b.counts[k]
//@   ensures [total] result == zzTot(b)
//@ end

//@ func zzTotalBad
//@   props C19
//@   requires b != nil
//@   pure
//@   loop 1
//@     invariant forall k in visited :: k in b.counts
//@     invariant t == sum k in visited :: b.counts[k]
//@   ensures [mustfailTotal] result == zzTot(b)
//@ end

//@ func zzSumSlice
//@   props C19
//@   pure
//@   loop 1
//@     invariant 0 - 1 <= rangeindex && rangeindex < len(xs)
//@     invariant t == sum i in range(0, rangeindex + 1) :: xs[i]
//@   ensures [slice] result == sum i in xs :: xs[i]
//@ end

//@ func zzSumSliceBad
//@   props C19
//@   pure
//@   loop 1
//@     invariant 0 - 1 <= rangeindex && rangeindex < len(xs)
//@     invariant t == sum i in range(0, rangeindex + 1) :: xs[i]
//@   ensures [mustfailSlice] result == sum i in xs :: xs[i]
//@ end

//@ func zzPut
//@   props C19
//@   requires zzInv(b)
//@   modifies b.total, b.counts[k]
//@   ensures [inv] zzInv(b)
//@   ensures [delta] zzTot(b) == old(zzTot(b)) - old(b.counts[k]) + v
//@ end

//@ func zzPutBad
//@   props C19
//@   requires zzInv(b)
//@   modifies b.total, b.counts[k]
//@   ensures [mustfailInv] zzInv(b)
//@ end

//@ func zzDel
//@   props C19
//@   requires zzInv(b)
//@   modifies b.total, b.counts[k]
//@   ensures [inv] zzInv(b)
//@ end

//@ func zzSetLive
//@   props C19
//@   requires zzItemsOK(b)
//@   modifies b.nlive, b.items[k].live
//@   ensures [inv] zzItemsOK(b)
//@ end

//@ func zzSetLiveBad
//@   props C19
//@   requires zzItemsOK(b)
//@   modifies b.nlive, b.items[k].live
//@   ensures [mustfailLive] zzItemsOK(b)
//@ end

//@ func zzCountLive
//@   props C19
//@   requires zzItemsOK(b)
//@   pure
//@   loop 1
//@     invariant forall k in visited :: k in b.items
//@     invariant n == count k in visited :: b.items[k].live
//@   ensures [recount] result == b.nlive
//@   ensures [nonneg] result >= 0
//@ end
