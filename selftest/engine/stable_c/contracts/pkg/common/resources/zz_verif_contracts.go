//go:build verif

package resources

//@ stable zzT.f
//@ stable zzTab.m
//@ stable maptype map[int]*zzT

//@ func (*zzTab).upd
//@   props C19
//@   requires t != nil && t.m != nil
//@   modifies t.m[k]
//@   ensures t.m[k] == v && (k in t.m)
//@ end

//@ func zzLoop
//@   props C19
//@   requires x != nil
//@   modifies *
//@   usestable
//@   ensures [tableKept] result == 0
//@   loop 1
//@     invariant t != nil && t.m != nil && fresh(t) && fresh(t.m) && (forall k in t.m :: t.m[k] == x)
//@   loop 2
//@     invariant bad == 0 && t != nil && t.m != nil && (forall k in t.m :: t.m[k] == x)
//@ end

//@ func zzLoopBad
//@   props C19
//@   requires x != nil
//@   modifies *
//@   usestable
//@   ensures [tableNotKept] result == 0
//@   loop 1
//@     invariant t != nil && t.m != nil && fresh(t) && fresh(t.m) && (forall k in t.m :: t.m[k] == x)
//@   loop 2
//@     invariant bad == 0 && t != nil && t.m != nil && (forall k in t.m :: t.m[k] == x)
//@ end

//@ func zzPrivMap
//@   props C19
//@   nopanic off
//@   modifies *
//@   ensures [mustfailPrivMap] result == 0
//@   loop 1
//@     invariant true
//@ end

//@ func zzPrivCell
//@   props C19
//@   nopanic off
//@   modifies *
//@   ensures [mustfailPrivCell] result == 0
//@   loop 1
//@     invariant true
//@ end
