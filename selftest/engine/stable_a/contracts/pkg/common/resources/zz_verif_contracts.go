//go:build verif

package resources

//@ stable zzT.f

//@ func zzUse
//@   props C19
//@   requires t != nil
//@   modifies *
//@   usestable
//@   ensures [kept] result == 0
//@ end

//@ func zzBad3
//@   props C19
//@   modifies *
//@   usestable
//@   ensures [mustfail3] result == 0
//@ end
