//go:build verif

package resources

//@ func zzRegister
//@   props C19
//@   requires r != nil && r.preds != nil
//@   modifies r.preds[name]
//@   ensures [stored] name in r.preds && r.preds[name].weight == w && r.preds[name].name == name && r.preds[name].inner.b == w + 1
//@ end

//@ func zzWeight
//@   props C19
//@   requires r != nil
//@   pure
//@   ensures [value] result == ite(name in r.preds, r.preds[name].weight + r.preds[name].inner.b - r.preds[name].inner.a, 0)
//@ end

//@ func zzWeightBad
//@   props C19
//@   requires r != nil
//@   pure
//@   ensures [mustfailValue] result == r.preds[name].weight
//@ end

//@ func zzBump
//@   props C19
//@   requires r != nil && r.preds != nil
//@   modifies r.preds[name]
//@   ensures [bumped] r.preds[name].weight == old(r.preds[name].weight) + 1 && r.preds[name].inner.a == old(r.preds[name].inner.a)
//@   ensures [others] forall k string :: k != name ==> r.preds[k].weight == old(r.preds[k].weight)
//@ end
