//go:build verif

// Contracts for govc (contract-based deductive verification); comments only.
package spark

//@ import constants "github.com/NVIDIA/KAI-scheduler/pkg/podgrouper/podgrouper/plugins/constants"

// C18: "all pods with the same top-level owner are assigned to the same PodGroup (one per pod for the kinds
// documented as per-pod)": Spark driver and executors are bare pods (each its own top owner); what groups them is
// the spark-app-selector label of the pod template, and ONLY that label decides the name.
//@ func IsSparkPod
//@   props C18
//@   requires pod != nil
//@   pure
//@   ensures [bothLabels] result == ((sparkAppLabelName in pod.Labels) && (sparkAppSelectorLabelName in pod.Labels))
//@ end

//@ func (*SparkGrouper).GetPodGroupMetadata
//@   props C18
//@   requires sg != nil && sg.DefaultGrouper != nil && topOwner != nil && pod != nil
//@   ensures [noError] result1 == nil && result0 != nil && fresh(result0)
//@   ensures [nameIsAppSelector] result0.Name == pod.Labels[sparkAppSelectorLabelName]
//@   ensures [ownerRef] defaultgrouper.baseOwnerRef(result0, topOwner)
//@   ensures [common] defaultgrouper.baseCommon(result0, sg.DefaultGrouper, topOwner, pod)
//@   ensures [priority] result0.PriorityClassName == defaultgrouper.ownerPrio(sg.DefaultGrouper, topOwner, pod, constants.TrainPriorityClass)
//@   ensures [minAvailableOne] result0.MinAvailable == 1 && len(result0.SubGroups) == 0
//@ end
