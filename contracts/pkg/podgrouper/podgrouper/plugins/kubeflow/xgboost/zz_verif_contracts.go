//go:build verif

// Contracts for govc (contract-based deductive verification); comments only.
package xgboost

//@ import constants "github.com/NVIDIA/KAI-scheduler/pkg/podgrouper/podgrouper/plugins/constants"
//@ import defaultgrouper "github.com/NVIDIA/KAI-scheduler/pkg/podgrouper/podgrouper/plugins/defaultgrouper"

// C18: XGBoostJob (Master and Worker roles mandatory) = default metadata of the job object with MinAvailable = the job's explicit
// spec.runPolicy.schedulingPolicy.minAvailable, else the sum of the replica counts of all roles; the pod enters only
// through the pod-template fields of the default metadata. C10: malformed job objects give an error.
//@ func (*XGBoostGrouper).GetPodGroupMetadata
//@   props C18 C10
//@   requires xgbg != nil && xgbg.KubeflowDistributedGrouper != nil && xgbg.KubeflowDistributedGrouper.DefaultGrouper != nil && topOwner != nil && pod != nil
//@   ensures [errIff] (result1 != nil) == kubeflow.kfFailsWith(topOwner, "xgbReplicaSpecs", (!("Master" in kubeflow.specs(topOwner, "xgbReplicaSpecs")) || !("Worker" in kubeflow.specs(topOwner, "xgbReplicaSpecs"))))
//@   ensures [errorNoMetadata] result1 != nil ==> result0 == nil
//@   ensures [fresh] result1 == nil ==> result0 != nil && fresh(result0)
//@   ensures [minAvailableOfOwner] result1 == nil ==> result0.MinAvailable == kubeflow.kfMinAvailable(topOwner, "xgbReplicaSpecs")
//@   ensures [nameOfOwnerOnly] result1 == nil ==> result0.Name == defaultgrouper.pgName(topOwner)
//@   ensures [ownerRef] result1 == nil ==> defaultgrouper.baseOwnerRef(result0, topOwner)
//@   ensures [common] result1 == nil ==> defaultgrouper.baseCommon(result0, xgbg.KubeflowDistributedGrouper.DefaultGrouper, topOwner, pod)
//@   ensures [priority] result1 == nil ==> result0.PriorityClassName == defaultgrouper.ownerPrio(xgbg.KubeflowDistributedGrouper.DefaultGrouper, topOwner, pod, constants.TrainPriorityClass)
//@   ensures [noSubGroups] result1 == nil ==> len(result0.SubGroups) == 0
//@ end
