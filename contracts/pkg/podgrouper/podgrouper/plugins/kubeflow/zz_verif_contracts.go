//go:build verif

// Contracts for govc (contract-based deductive verification); comments only.
package kubeflow

//@ import constants "github.com/NVIDIA/KAI-scheduler/pkg/podgrouper/podgrouper/plugins/constants"

//@ define specs(o *unstructured.Unstructured, rsn string) map[string]interface{} = defaultgrouper.nMap(o.Object, defaultgrouper.pk2("spec", rsn))
//@ define specsErr(o *unstructured.Unstructured, rsn string) bool = defaultgrouper.nMapErr(o.Object, defaultgrouper.pk2("spec", rsn)) != nil || !defaultgrouper.nMapFound(o.Object, defaultgrouper.pk2("spec", rsn))
//@ define replicasOf(o *unstructured.Unstructured, rsn string, k string) int = defaultgrouper.nI64(o.Object, defaultgrouper.pk4("spec", rsn, k, "replicas"))
//@ define specBad(o *unstructured.Unstructured, rsn string, k string) bool = defaultgrouper.nI64Err(o.Object, defaultgrouper.pk4("spec", rsn, k, "replicas")) != nil || !defaultgrouper.nI64Found(o.Object, defaultgrouper.pk4("spec", rsn, k, "replicas")) || replicasOf(o, rsn, k) == 0
//@ define totalOf(o *unstructured.Unstructured, rsn string) int = sum k in specs(o, rsn) :: replicasOf(o, rsn, k)
//@ define mandatoryMissing(o *unstructured.Unstructured, rsn string, names []string) bool = exists i int :: 0 <= i && i < len(names) && !(names[i] in specs(o, rsn))
//@ define someSpecBad(o *unstructured.Unstructured, rsn string) bool = exists k string :: (k in specs(o, rsn)) && specBad(o, rsn, k)
//@ define numPodsFails(o *unstructured.Unstructured, rsn string, names []string) bool = specsErr(o, rsn) || mandatoryMissing(o, rsn, names) || someSpecBad(o, rsn) || totalOf(o, rsn) <= 0

// C18 "minimum member count ... depend[s] only on the owner chain": the number of pods of a Kubeflow training job is the
// SUM of spec.<replicaSpecs>.<role>.replicas over the roles of the job object (a fold over a map: order-independent).
// C10: a missing replica-spec map, a missing mandatory role, a role without / with a non-integer / with a zero replica
// count, or a non-positive total is an error, never a panic. MinAvailable >= 1 is promised on this path.
//@ func calcJobNumOfPods
//@   props C18 C10
//@   requires topOwner != nil
//@   loop 2
//@     invariant rangeindex >= -1
//@     invariant forall i int :: 0 <= i && i <= rangeindex ==> (mandatorySpecNames[i] in specs(topOwner, replicaSpecName))
//@   loop 1
//@     invariant forall k in visited :: (k in specs(topOwner, replicaSpecName)) && !specBad(topOwner, replicaSpecName, k)
//@     invariant totalReplicas == sum k in visited :: replicasOf(topOwner, replicaSpecName, k)
//@   ensures [errIff] (err != nil) == numPodsFails(topOwner, replicaSpecName, mandatorySpecNames)
//@   ensures [sumOfReplicas] err == nil ==> totalReplicas == totalOf(topOwner, replicaSpecName)
//@   ensures [atLeastOne] err == nil ==> totalReplicas >= 1
//@   ensures [errorZero] err != nil ==> totalReplicas == 0
//@ end

//@ define minAvailPath() int = defaultgrouper.pk4("spec", "runPolicy", "schedulingPolicy", "minAvailable")
//@ define kfFails(o *unstructured.Unstructured, rsn string, names []string) bool = defaultgrouper.nI64Err(o.Object, minAvailPath()) != nil || (!defaultgrouper.nI64Found(o.Object, minAvailPath()) && numPodsFails(o, rsn, names))
//@ define kfMinAvailable(o *unstructured.Unstructured, rsn string) int = ite(defaultgrouper.nI64Found(o.Object, minAvailPath()), defaultgrouper.nI64(o.Object, minAvailPath()), totalOf(o, rsn))

// C18: Kubeflow distributed jobs = default metadata with MinAvailable = spec.runPolicy.schedulingPolicy.minAvailable if
// the job sets it, else the total number of replicas. All functions of the job object.
// NOTE the explicit minAvailable is passed through unchecked (0 or negative values are not rejected).
//@ func (*KubeflowDistributedGrouper).GetPodGroupMetadata
//@   props C18 C10
//@   requires kdg != nil && kdg.DefaultGrouper != nil && topOwner != nil && pod != nil
//@   ensures [errIff] (result1 != nil) == kfFails(topOwner, replicaSpecName, mandatorySpecNames)
//@   ensures [errorNoMetadata] result1 != nil ==> result0 == nil
//@   ensures [fresh] result1 == nil ==> result0 != nil && fresh(result0)
//@   ensures [minAvailableOfOwner] result1 == nil ==> result0.MinAvailable == kfMinAvailable(topOwner, replicaSpecName)
//@   ensures [replicaTotalAtLeastOne] result1 == nil && !defaultgrouper.nI64Found(topOwner.Object, minAvailPath()) ==> result0.MinAvailable >= 1
//@   ensures [nameOfOwnerOnly] result1 == nil ==> result0.Name == defaultgrouper.pgName(topOwner)
//@   ensures [ownerRef] result1 == nil ==> defaultgrouper.baseOwnerRef(result0, topOwner)
//@   ensures [common] result1 == nil ==> defaultgrouper.baseCommon(result0, kdg.DefaultGrouper, topOwner, pod)
//@   ensures [priority] result1 == nil ==> result0.PriorityClassName == defaultgrouper.ownerPrio(kdg.DefaultGrouper, topOwner, pod, constants.TrainPriorityClass)
//@   ensures [noSubGroups] result1 == nil ==> len(result0.SubGroups) == 0
//@ end

// the same conditions with the mandatory roles written out (used by the per-framework wrappers, whose role lists are
// constant slices): kubeflow.kfFailsBase(o, rsn) || !(role in kubeflow.specs(o, rsn)) ...
//@ define numPodsFailsBase(o *unstructured.Unstructured, rsn string) bool = specsErr(o, rsn) || someSpecBad(o, rsn) || totalOf(o, rsn) <= 0
//@ define kfFailsWith(o *unstructured.Unstructured, rsn string, missing bool) bool = defaultgrouper.nI64Err(o.Object, minAvailPath()) != nil || (!defaultgrouper.nI64Found(o.Object, minAvailPath()) && (numPodsFailsBase(o, rsn) || (!specsErr(o, rsn) && missing)))
