//go:build verif

// Contracts for govc (contract-based deductive verification); comments only.
package notebook

//@ import constants "github.com/NVIDIA/KAI-scheduler/pkg/podgrouper/podgrouper/plugins/constants"

// C18: Kubeflow Notebook = default metadata, except that the per-plugin priority fallback is "build".
//@ func (*NotebookGrouper).GetPodGroupMetadata
//@   props C18
//@   requires ng != nil && ng.DefaultGrouper != nil && topOwner != nil && pod != nil
//@   ensures [noError] result1 == nil && result0 != nil && fresh(result0)
//@   ensures [nameOfOwnerOnly] result0.Name == defaultgrouper.pgName(topOwner)
//@   ensures [ownerRef] defaultgrouper.baseOwnerRef(result0, topOwner)
//@   ensures [common] defaultgrouper.baseCommon(result0, ng.DefaultGrouper, topOwner, pod)
//@   ensures [priorityBuildFallback] result0.PriorityClassName == defaultgrouper.ownerPrio(ng.DefaultGrouper, topOwner, pod, constants.BuildPriorityClass)
//@   ensures [minAvailableOne] result0.MinAvailable == 1 && len(result0.SubGroups) == 0
//@ end
