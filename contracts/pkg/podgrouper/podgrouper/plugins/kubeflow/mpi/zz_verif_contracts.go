//go:build verif

// Contracts for govc (contract-based deductive verification); comments only.
package mpi

//@ import constants "github.com/NVIDIA/KAI-scheduler/pkg/podgrouper/podgrouper/plugins/constants"
//@ import defaultgrouper "github.com/NVIDIA/KAI-scheduler/pkg/podgrouper/podgrouper/plugins/defaultgrouper"

// ASSUMED model of the pod listing: writes only the list object handed in.
//@ define asPodList(o ref) *v1.PodList = unbox(o, "*v1.PodList")
//@ func sigs.k8s.io/controller-runtime/pkg/client.Client.List
//@   props C18
//@   requires list != nil
//@   modifies fields(asPodList(list))
//@ end

// library accessors used on the listed pods (bodies not loaded): read-only
//@ func (*k8s.io/apimachinery/pkg/apis/meta/v1.ObjectMeta).GetObjectMeta
//@   trusted
//@   note library: returns the receiver as metav1.Object; read-only
//@   pure
//@   ensures result != nil
//@ end
//@ func k8s.io/apimachinery/pkg/apis/meta/v1.Object.GetDeletionTimestamp
//@   props C18
//@   pure
//@ end

// cluster state (ASSUMED a function of the job's namespace/name within one reconcile): does the listing fail, is there
// a launcher pod that is not terminating
//@ declare mpiListFails(ns string, name string) bool
//@ declare mpiLauncherAlive(ns string, name string) bool
//@ func (*MpiGrouper).launcherPodExists
//@   props C18 C10
//@   requires mg != nil && mg.client != nil && topOwner != nil
//@   loop 1
//@     invariant rangeindex >= -1
//@   ensures [errorMeansNo] result1 != nil ==> !result0
//@   trust [listDeterministic] (result1 != nil) == mpiListFails(defaultgrouper.ownerNamespace(topOwner), defaultgrouper.ownerName(topOwner))
//@   trust [launcherOfClusterState] result1 == nil ==> result0 == mpiLauncherAlive(defaultgrouper.ownerNamespace(topOwner), defaultgrouper.ownerName(topOwner))
//@   note trust: the list options (client.InNamespace, client.MatchingLabels) are opaque interface values and the listing is an API read; the result is assumed to be a function of (namespace, job name) and cluster state
//@ end

//@ define launcherPath() int = defaultgrouper.pk4("spec", "mpiReplicaSpecs", "Launcher", "replicas")
//@ define launcherReplicas(o *unstructured.Unstructured) int = defaultgrouper.nI64(o.Object, launcherPath())
//@ define launcherBad(o *unstructured.Unstructured) bool = defaultgrouper.nI64Err(o.Object, launcherPath()) != nil || !defaultgrouper.nI64Found(o.Object, launcherPath()) || launcherReplicas(o) == 0
//@ define listFails(o *unstructured.Unstructured) bool = mpiListFails(defaultgrouper.ownerNamespace(o), defaultgrouper.ownerName(o))
//@ define launcherAlive(o *unstructured.Unstructured) bool = mpiLauncherAlive(defaultgrouper.ownerNamespace(o), defaultgrouper.ownerName(o))
//@ define delayedFails(o *unstructured.Unstructured) bool = listFails(o) || (!launcherAlive(o) && launcherBad(o))
// C18 "minimum member count ... not on which pod is reconciled first": with launcherCreationPolicy=WaitForWorkersReady the
// launcher is not counted until a launcher pod exists - a function of the job object and of cluster state (documented).
//@ func (*MpiGrouper).handleDelayedLauncherPolicy
//@   props C18 C10
//@   requires mg != nil && mg.client != nil && topOwner != nil && gp != nil
//@   modifies gp.MinAvailable
//@   ensures [errIff] (result != nil) == delayedFails(topOwner)
//@   ensures [launcherNotCounted] result == nil ==> gp.MinAvailable == old(gp.MinAvailable) - ite(launcherAlive(topOwner), 0, launcherReplicas(topOwner))
//@   ensures [errorKeeps] result != nil ==> gp.MinAvailable == old(gp.MinAvailable)
//@ end

//@ define policyPath() int = defaultgrouper.pk2("spec", "launcherCreationPolicy")
//@ define delayed(o *unstructured.Unstructured) bool = defaultgrouper.nStrFound(o.Object, policyPath()) && defaultgrouper.nStr(o.Object, policyPath()) == "WaitForWorkersReady"
//@ define mpiMissing(o *unstructured.Unstructured) bool = !("Launcher" in kubeflow.specs(o, "mpiReplicaSpecs")) || !("Worker" in kubeflow.specs(o, "mpiReplicaSpecs"))
//@ define mpiFails(o *unstructured.Unstructured) bool = kubeflow.kfFailsWith(o, "mpiReplicaSpecs", mpiMissing(o)) || defaultgrouper.nStrErr(o.Object, policyPath()) != nil || (delayed(o) && delayedFails(o))
// C18: MPIJob = Kubeflow metadata (Launcher and Worker roles mandatory) minus the launcher replicas while the delayed
// launcher has not been created. NOTE no lower bound on MinAvailable is promised (explicit minAvailable 1 and one
// launcher replica give 0).
//@ func (*MpiGrouper).GetPodGroupMetadata
//@   props C18 C10
//@   requires mg != nil && mg.client != nil && mg.KubeflowDistributedGrouper != nil && mg.KubeflowDistributedGrouper.DefaultGrouper != nil && topOwner != nil && pod != nil
//@   ensures [errIff] (result1 != nil) == mpiFails(topOwner)
//@   ensures [minAvailableOfOwnerAndLauncher] result1 == nil ==> result0.MinAvailable == kubeflow.kfMinAvailable(topOwner, "mpiReplicaSpecs") - ite(delayed(topOwner) && !launcherAlive(topOwner), launcherReplicas(topOwner), 0)
//@   ensures [nameOfOwnerOnly] result1 == nil ==> result0.Name == defaultgrouper.pgName(topOwner)
//@   ensures [ownerRef] result1 == nil ==> defaultgrouper.baseOwnerRef(result0, topOwner)
//@   ensures [common] result1 == nil ==> defaultgrouper.baseCommon(result0, mg.KubeflowDistributedGrouper.DefaultGrouper, topOwner, pod)
//@   ensures [priority] result1 == nil ==> result0.PriorityClassName == defaultgrouper.ownerPrio(mg.KubeflowDistributedGrouper.DefaultGrouper, topOwner, pod, constants.TrainPriorityClass)
//@   ensures [noSubGroups] result1 == nil ==> len(result0.SubGroups) == 0
//@ end
