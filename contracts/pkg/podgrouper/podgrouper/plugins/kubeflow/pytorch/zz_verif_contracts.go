//go:build verif

// Contracts for govc (contract-based deductive verification); comments only.
package pytorch

//@ import defaultgrouper "github.com/NVIDIA/KAI-scheduler/pkg/podgrouper/podgrouper/plugins/defaultgrouper"

//@ define minReplicasPath() int = defaultgrouper.pk3("spec", "elasticPolicy", "minReplicas")
//@ define minAvailPath() int = defaultgrouper.pk4("spec", "runPolicy", "schedulingPolicy", "minAvailable")
//@ func getMinReplicas
//@   props C18 C10
//@   requires topOwner != nil
//@   ensures [errIff] (result1 != nil) == (defaultgrouper.nI64Err(topOwner.Object, minReplicasPath()) != nil || !defaultgrouper.nI64Found(topOwner.Object, minReplicasPath()))
//@   ensures [ofOwner] result1 == nil ==> result0 == defaultgrouper.nI64(topOwner.Object, minReplicasPath())
//@ end
//@ func getMinAvailable
//@   props C18 C10
//@   requires topOwner != nil
//@   ensures [errIff] (result1 != nil) == (defaultgrouper.nI64Err(topOwner.Object, minAvailPath()) != nil || !defaultgrouper.nI64Found(topOwner.Object, minAvailPath()))
//@   ensures [ofOwner] result1 == nil ==> result0 == defaultgrouper.nI64(topOwner.Object, minAvailPath())
//@ end

// the worker segment size: pod-template annotation kai.scheduler/segment-size, else the same annotation of the Worker
// replica template inside the job. C10: non-numeric or non-positive = error on BOTH paths.
// (FINDING, fixed in /repo c8c3a40: the pod's own value was not checked for positivity; "0" made the caller divide by
// zero. [positive] below + the division no-panic obligations of buildWorkerSubGroups bring it back if the fix is reverted.)
//@ define podSegStr(pod *v1.Pod) string = pod.Annotations[constants.SegmentSizeKey]
//@ define podSegSet(pod *v1.Pod) bool = (constants.SegmentSizeKey in pod.Annotations) && podSegStr(pod) != ""
//@ define tplSegPath() int = defaultgrouper.pk5("Worker", "template", "metadata", "annotations", constants.SegmentSizeKey)
//@ define tplSegSet(rs map[string]interface{}) bool = defaultgrouper.nStrFound(rs, tplSegPath()) && defaultgrouper.nStr(rs, tplSegPath()) != ""
//@ define segFails(pod *v1.Pod, rs map[string]interface{}) bool = ite(podSegSet(pod), tuple1(strconv.Atoi(podSegStr(pod))) != nil || tuple0(strconv.Atoi(podSegStr(pod))) <= 0, defaultgrouper.nStrErr(rs, tplSegPath()) != nil || (tplSegSet(rs) && (tuple1(strconv.Atoi(defaultgrouper.nStr(rs, tplSegPath()))) != nil || tuple0(strconv.Atoi(defaultgrouper.nStr(rs, tplSegPath()))) <= 0)))
//@ func getSegmentSize
//@   props C18 C10
//@   requires pod != nil
//@   ensures [errIff] (result2 != nil) == segFails(pod, replicaSpecs)
//@   ensures [found] result2 == nil ==> result1 == (podSegSet(pod) || tplSegSet(replicaSpecs))
//@   ensures [size] result2 == nil && result1 ==> result0 == ite(podSegSet(pod), tuple0(strconv.Atoi(podSegStr(pod))), tuple0(strconv.Atoi(defaultgrouper.nStr(replicaSpecs, tplSegPath()))))
//@   ensures [positive] result2 == nil && result1 ==> result0 > 0
//@   ensures [notFoundZero] !(result2 == nil && result1) ==> result0 == 0 && !result1
//@ end

// the segment of a worker pod is its replica-index label (documented per-pod input) divided by the segment size
//@ define isWorkerPod(pod *v1.Pod) bool = pod.Labels[replicaTypeLabel] == strings.ToLower("Worker")
//@ func getPodSegmentIndex
//@   props C18 C10
//@   requires pod != nil && segmentSize != 0
//@   ensures [notAWorker] !isWorkerPod(pod) ==> result0 == -1 && result1 == nil
//@   ensures [errIff] isWorkerPod(pod) ==> (result1 != nil) == (!("training.kubeflow.org/replica-index" in pod.Labels) || tuple1(strconv.Atoi(pod.Labels["training.kubeflow.org/replica-index"])) != nil)
//@   ensures [segmentOfIndex] isWorkerPod(pod) && result1 == nil ==> result0 == tuple0(strconv.Atoi(pod.Labels["training.kubeflow.org/replica-index"])) / segmentSize
//@ end

// C18 "sub-groups depend only on the owner chain and pod template": the master sub-group exists iff the job has a Master
// role with a non-zero replica count; its minimum is that count; the pod is listed as member iff it is a master pod.
//@ func buildMasterSubGroup
//@   props C18 C10
//@   requires pod != nil
//@   ensures [exists] (result != nil) == (("Master" in replicaSpecs) && masterReplicas != 0)
//@   ensures [masterOfOwner] result != nil ==> fresh(result) && result.Name == strings.ToLower("Master") && result.MinAvailable == masterReplicas && result.Parent == nil && result.TopologyConstraints == nil
//@   ensures [member] result != nil ==> len(result.PodsReferences) == ite(pod.Labels[replicaTypeLabel] == strings.ToLower("Master"), 1, 0)
//@ end

//@ define wAnn(pod *v1.Pod, rs map[string]interface{}, key string) string = ite((key in pod.Annotations) && pod.Annotations[key] != "", pod.Annotations[key], defaultgrouper.nStr(rs, defaultgrouper.pk5("Worker", "template", "metadata", "annotations", key)))
//@ func getWorkerAnnotationValue
//@   props C18 C10
//@   requires pod != nil
//@   pure
//@   ensures [podTemplateThenJobTemplate] result == wAnn(pod, replicaSpecs, key)
//@ end
//@ define ptTopology(pod *v1.Pod, rs map[string]interface{}, o *unstructured.Unstructured) string = ite(wAnn(pod, rs, constants.TopologyKey) != "", wAnn(pod, rs, constants.TopologyKey), ite(o != nil && (constants.TopologyKey in defaultgrouper.ownerAnnotations(o)), defaultgrouper.ownerAnnotations(o)[constants.TopologyKey], ""))
//@ func getTopology
//@   props C18 C10
//@   requires pod != nil
//@   pure
//@   ensures [topologyOfTemplatesThenOwner] result == ptTopology(pod, replicaSpecs, topOwner)
//@ end
//@ define segTopoNone(pod *v1.Pod, rs map[string]interface{}, o *unstructured.Unstructured) bool = ptTopology(pod, rs, o) == "" || (wAnn(pod, rs, constants.SegmentTopologyRequiredPlacementKey) == "" && wAnn(pod, rs, constants.SegmentTopologyPreferredPlacementKey) == "")
//@ func getSegmentTopologyConstraints
//@   props C18 C10
//@   requires pod != nil
//@   ensures [none] (result == nil) == segTopoNone(pod, replicaSpecs, topOwner)
//@   ensures [ofTemplates] result != nil ==> fresh(result) && result.Topology == ptTopology(pod, replicaSpecs, topOwner) && result.RequiredTopologyLevel == wAnn(pod, replicaSpecs, constants.SegmentTopologyRequiredPlacementKey) && result.PreferredTopologyLevel == wAnn(pod, replicaSpecs, constants.SegmentTopologyPreferredPlacementKey)
//@ end

// k8s.io/utils/ptr.To (generic library): a new cell holding the value
//@ func k8s.io/utils/ptr.To
//@   fresh
//@   ensures [assumed] result != nil && *result == v
//@   note assumed library model of ptr.To (allocates a copy)
//@ end

// C18 "sub-groups depend only on the owner chain and pod template": no Worker role = no worker sub-groups; without a
// segment size one "worker" sub-group with the remaining minimum; with one, a parent "worker" sub-group plus
// ceil(workers/size) segments. C10: the divisions by the segment size cannot panic (the size is positive on every path).
// NOT DECIDED: names / minimums of the individual segments (loop over an appended slice).
//@ define segFound(pod *v1.Pod, rs map[string]interface{}) bool = podSegSet(pod) || tplSegSet(rs)
//@ func buildWorkerSubGroups
//@   props C18 C10
//@   requires pod != nil
//@   loop 1
//@     invariant len(subGroups) >= 1
//@   ensures [errorNil] result1 != nil ==> result0 == nil
//@   ensures [noWorkerRole] !("Worker" in replicaSpecs) ==> result1 == nil && len(result0) == 0
//@   ensures [segmentSizeError] ("Worker" in replicaSpecs) && defaultgrouper.nI64Err(replicaSpecs, defaultgrouper.pk2("Worker", "replicas")) == nil && segFails(pod, replicaSpecs) ==> result1 != nil
//@   ensures [unsegmented] ("Worker" in replicaSpecs) && result1 == nil && !segFound(pod, replicaSpecs) ==> len(result0) == 1 && result0[0] != nil && result0[0].Name == strings.ToLower("Worker") && result0[0].MinAvailable == workerMinAvailable && result0[0].Parent == nil
//@   ensures [segmentedHasParent] ("Worker" in replicaSpecs) && result1 == nil && segFound(pod, replicaSpecs) ==> len(result0) >= 1
//@ end

//@ func (*PyTorchGrouper).buildSubGroups
//@   props C18 C10
//@   requires ptg != nil && topOwner != nil && pod != nil
//@   ensures [errorNil] result1 != nil ==> result0 == nil
//@   ensures [unreadableSpecsIsError] defaultgrouper.nMapErr(topOwner.Object, defaultgrouper.pk2("spec", "pytorchReplicaSpecs")) != nil || !defaultgrouper.nMapFound(topOwner.Object, defaultgrouper.pk2("spec", "pytorchReplicaSpecs")) ==> result1 != nil
//@ end

// C18: PyTorchJob = Kubeflow metadata; MinAvailable is spec.runPolicy.schedulingPolicy.minAvailable if set, else
// spec.elasticPolicy.minReplicas if set, else the total number of replicas - all functions of the job object.
//@ define ok64(o *unstructured.Unstructured, p int) bool = defaultgrouper.nI64Err(o.Object, p) == nil && defaultgrouper.nI64Found(o.Object, p)
//@ define ptMin(o *unstructured.Unstructured) int = ite(ok64(o, minAvailPath()), defaultgrouper.nI64(o.Object, minAvailPath()), ite(ok64(o, minReplicasPath()), defaultgrouper.nI64(o.Object, minReplicasPath()), kubeflow.kfMinAvailable(o, "pytorchReplicaSpecs")))
//@ func (*PyTorchGrouper).GetPodGroupMetadata
//@   props C18 C10
//@   requires ptg != nil && ptg.KubeflowDistributedGrouper != nil && ptg.KubeflowDistributedGrouper.DefaultGrouper != nil && topOwner != nil && pod != nil
//@   ensures [malformedJobIsError] kubeflow.kfFailsWith(topOwner, "pytorchReplicaSpecs", false) ==> result1 != nil
//@   ensures [errorNoMetadata] result1 != nil ==> result0 == nil
//@   ensures [minAvailableOfOwner] result1 == nil ==> result0.MinAvailable == ptMin(topOwner)
//@   ensures [nameOfOwnerOnly] result1 == nil ==> result0.Name == defaultgrouper.pgName(topOwner)
//@   ensures [ownerRef] result1 == nil ==> defaultgrouper.baseOwnerRef(result0, topOwner)
//@   ensures [common] result1 == nil ==> defaultgrouper.baseCommon(result0, ptg.KubeflowDistributedGrouper.DefaultGrouper, topOwner, pod)
//@ end
