//go:build verif

// Contracts for govc (contract-based deductive verification); comments only.
package runaijob

//@ import constants "github.com/NVIDIA/KAI-scheduler/pkg/podgrouper/podgrouper/plugins/constants"

// ASSUMED model of the API reads this plugin makes: fetching a PodGroup has an outcome that is a function of the
// key (defaultgrouper.pgGetErr) and writes only the object handed in.
//@ define asPG(o ref) *v2alpha2.PodGroup = unbox(o, "*v2alpha2.PodGroup")
//@ func sigs.k8s.io/controller-runtime/pkg/client.Client.Get
//@   props C18
//@   requires obj != nil
//@   modifies fields(asPG(obj))
//@   ensures typeis(obj, "*v2alpha2.PodGroup") ==> result == defaultgrouper.pgGetErr(key.Namespace, key.Name)
//@ end
//@ func k8s.io/apimachinery/pkg/api/errors.IsNotFound
//@   props C18
//@   pure
//@   ensures result == defaultgrouper.isNotFound(err)
//@ end

//@ define parPath() int = defaultgrouper.pk2("spec", "parallelism")
//@ define isParallel(o *unstructured.Unstructured) bool = defaultgrouper.nI64Found(o.Object, parPath()) && defaultgrouper.nI64Err(o.Object, parPath()) == nil && defaultgrouper.nI64(o.Object, parPath()) > 1
// the name older releases gave the group: per pod for parallel jobs, per job otherwise
//@ define legacyName(o *unstructured.Unstructured, pod *v1.Pod) string = fmt.Sprintf("%s-%s-%s", constants.PodGroupNamePrefix, ite(isParallel(o), pod.Name, defaultgrouper.ownerName(o)), defaultgrouper.ownerUID(o))
//@ func calcLegacyName
//@   props C18 C10
//@   requires topOwner != nil && pod != nil
//@   pure
//@   ensures [legacyName] result == legacyName(topOwner, pod)
//@ end

// strings.LastIndex (ASSUMED, library): -1 or a valid position of the separator
//@ declare lastIndexOf(s string, sep string) int
//@ func strings.LastIndex
//@   props C18
//@   trusted
//@   note library function (no body in the loaded program): a deterministic function of its two arguments, -1 or a valid position
//@   pure
//@   ensures result == lastIndexOf(s, substr)
//@   ensures result >= -1 && result + len(substr) <= len(s)
//@ end

// C18: a RunaiJob's pods are <job>-<suffix>; the group name is pg-<pod name up to its last dash>-<job UID>, i.e. the
// pod name enters only through its prefix (the documented input), never through its UID/status.
// ENGINE LIMIT: the spec language has no string slicing (s[:i]), so the closed form can only be written for pod names
// without a dash; for the other names what is proved is the error/legacy behaviour and the absence of panics
// (the slice bound is in range).
//@ define legacyHit(g *RunaiJobGrouper, o *unstructured.Unstructured, pod *v1.Pod) bool = g.searchForLegacyPodGroups && legacyName(o, pod) != "" && defaultgrouper.pgGetErr(pod.Namespace, legacyName(o, pod)) == nil
//@ define legacyFails(g *RunaiJobGrouper, o *unstructured.Unstructured, pod *v1.Pod) bool = g.searchForLegacyPodGroups && legacyName(o, pod) != "" && defaultgrouper.pgGetErr(pod.Namespace, legacyName(o, pod)) != nil && !defaultgrouper.isNotFound(defaultgrouper.pgGetErr(pod.Namespace, legacyName(o, pod)))
//@ define noDash(name string) bool = lastIndexOf(name, "-") == -1
//@ func (*RunaiJobGrouper).calcPodGroupName
//@   props C18 C10
//@   requires rjg != nil && rjg.client != nil && topOwner != nil && pod != nil
//@   ensures [errIffLookupFails] (result1 != nil) == legacyFails(rjg, topOwner, pod)
//@   ensures [legacyKept] legacyHit(rjg, topOwner, pod) ==> result0 == legacyName(topOwner, pod)
//@   ensures [nameNoDash] result1 == nil && !legacyHit(rjg, topOwner, pod) && noDash(pod.Name) ==> result0 == fmt.Sprintf("%s-%s-%s", constants.PodGroupNamePrefix, pod.Name, defaultgrouper.ownerUID(topOwner))
//@ end

//@ func (*RunaiJobGrouper).GetPodGroupMetadata
//@   props C18 C10
//@   requires rjg != nil && rjg.client != nil && rjg.DefaultGrouper != nil && topOwner != nil && pod != nil
//@   ensures [errIffLookupFails] (result1 != nil) == legacyFails(rjg, topOwner, pod)
//@   ensures [errorNoMetadata] result1 != nil ==> result0 == nil
//@   ensures [fresh] result1 == nil ==> result0 != nil && fresh(result0)
//@   ensures [legacyKept] legacyHit(rjg, topOwner, pod) ==> result0.Name == legacyName(topOwner, pod)
//@   ensures [nameNoDash] result1 == nil && !legacyHit(rjg, topOwner, pod) && noDash(pod.Name) ==> result0.Name == fmt.Sprintf("%s-%s-%s", constants.PodGroupNamePrefix, pod.Name, defaultgrouper.ownerUID(topOwner))
//@   ensures [ownerRef] result1 == nil ==> defaultgrouper.baseOwnerRef(result0, topOwner)
//@   ensures [common] result1 == nil ==> defaultgrouper.baseCommon(result0, rjg.DefaultGrouper, topOwner, pod)
//@   ensures [priority] result1 == nil ==> result0.PriorityClassName == defaultgrouper.ownerPrio(rjg.DefaultGrouper, topOwner, pod, constants.TrainPriorityClass)
//@   ensures [minAvailableOne] result1 == nil ==> result0.MinAvailable == 1 && len(result0.SubGroups) == 0
//@ end
