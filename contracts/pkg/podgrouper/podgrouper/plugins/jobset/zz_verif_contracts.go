//go:build verif

// Contracts for govc (contract-based deductive verification); comments only.
package jobset

//@ import constants "github.com/NVIDIA/KAI-scheduler/pkg/podgrouper/podgrouper/plugins/constants"

// ---- one replicatedJob entry (a decoded JSON map) ----
//@ define posOr1(m map[string]interface{}, p int) int = ite(defaultgrouper.nI64Found(m, p) && defaultgrouper.nI64(m, p) > 0, defaultgrouper.nI64(m, p), 1)
//@ define rjReplicas(m map[string]interface{}) int = posOr1(m, defaultgrouper.pk1("replicas"))
//@ define rjParallelism(m map[string]interface{}) int = posOr1(m, defaultgrouper.pk3("template", "spec", "parallelism"))
//@ define rjCompletionsCap(m map[string]interface{}) bool = defaultgrouper.nI64Found(m, defaultgrouper.pk3("template", "spec", "completions")) && defaultgrouper.nI64(m, defaultgrouper.pk3("template", "spec", "completions")) > 0 && defaultgrouper.nI64(m, defaultgrouper.pk3("template", "spec", "completions")) < rjParallelism(m)
//@ define rjPods(m map[string]interface{}) int = rjReplicas(m) * ite(rjCompletionsCap(m), defaultgrouper.nI64(m, defaultgrouper.pk3("template", "spec", "completions")), rjParallelism(m))
//@ define rjReadErr(m map[string]interface{}) bool = defaultgrouper.nI64Err(m, defaultgrouper.pk1("replicas")) != nil || defaultgrouper.nI64Err(m, defaultgrouper.pk3("template", "spec", "parallelism")) != nil || defaultgrouper.nI64Err(m, defaultgrouper.pk3("template", "spec", "completions")) != nil
//@ define rjFails(m map[string]interface{}) bool = rjReadErr(m) || rjPods(m) > math.MaxInt32

// C18 "minimum member count ... depend[s] only on the owner chain": pods of one replicatedJob = replicas x
// min(parallelism, completions), each defaulting to 1 when absent or non-positive - a function of the JobSet entry.
// MinAvailable >= 1 is promised. C10: non-integer fields or a count beyond int32 = error.
//@ func calculateReplicatedJobMinAvailable
//@   props C18 C10
//@   ensures [errIff] (result1 != nil) == rjFails(rjMap)
//@   ensures [replicasTimesParallelism] result1 == nil ==> result0 == rjPods(rjMap)
//@   ensures [atLeastOne] result1 == nil ==> result0 >= 1
//@   ensures [errorZero] result1 != nil ==> result0 == 0
//@ end

// ---- the list spec.replicatedJobs ----
//@ define rjsPath() int = defaultgrouper.pk2("spec", "replicatedJobs")
//@ define rjsLen(o *unstructured.Unstructured) int = ite(defaultgrouper.nSliceFound(o.Object, rjsPath()), defaultgrouper.nSliceLen(o.Object, rjsPath()), 0)
//@ define rjIsMap(o *unstructured.Unstructured, i int) bool = typeis(defaultgrouper.nSliceAt(o.Object, rjsPath(), i), "map[string]interface{}")
//@ define rjAt(o *unstructured.Unstructured, i int) map[string]interface{} = unbox(defaultgrouper.nSliceAt(o.Object, rjsPath(), i), "map[string]interface{}")
//@ define rjNameAt(o *unstructured.Unstructured, i int) string = defaultgrouper.nStr(rjAt(o, i), defaultgrouper.pk1("name"))
//@ define rjMatches(o *unstructured.Unstructured, i int, name string) bool = 0 <= i && i < rjsLen(o) && rjIsMap(o, i) && rjNameAt(o, i) == name
//@ define rjsErr(o *unstructured.Unstructured) bool = defaultgrouper.nSliceErr(o.Object, rjsPath()) != nil

// InOrder start-up: one PodGroup per replicatedJob; its minimum is that of the FIRST list entry carrying the name.
//@ func getReplicatedJobMinAvailable
//@   props C18 C10
//@   requires jobSet != nil
//@   loop 1
//@     invariant rangeindex >= -1
//@     invariant forall j int :: 0 <= j && j <= rangeindex ==> !rjMatches(jobSet, j, replicatedJobName)
//@   ensures [listUnreadable] rjsErr(jobSet) ==> result1 != nil && result0 == 0
//@   ensures [noSuchJobIsOne] !rjsErr(jobSet) && (forall j int :: !rjMatches(jobSet, j, replicatedJobName)) ==> result1 == nil && result0 == 1
//@   ensures [firstMatch] !rjsErr(jobSet) ==> (forall i int :: rjMatches(jobSet, i, replicatedJobName) && (forall j int :: 0 <= j && j < i ==> !rjMatches(jobSet, j, replicatedJobName)) ==> (result1 != nil) == rjFails(rjAt(jobSet, i)) && (result1 == nil ==> result0 == rjPods(rjAt(jobSet, i))))
//@   ensures [atLeastOne] result1 == nil ==> result0 >= 1
//@ end

//@ define orderPath() int = defaultgrouper.pk3("spec", "startupPolicy", "startupPolicyOrder")
//@ define startupOrder(o *unstructured.Unstructured) string = ite(defaultgrouper.nStrFound(o.Object, orderPath()), defaultgrouper.nStr(o.Object, orderPath()), "InOrder")
//@ func getStartupPolicyOrder
//@   props C18 C10
//@   requires jobSet != nil
//@   ensures [errIff] (result1 != nil) == (defaultgrouper.nStrErr(jobSet.Object, orderPath()) != nil)
//@   ensures [orderOfOwner] result1 == nil ==> result0 == startupOrder(jobSet)
//@ end

// AnyOrder start-up: one PodGroup for the JobSet; its minimum is the SUM over the named entries of the list.
//@ define rjCounted(o *unstructured.Unstructured, i int) bool = rjIsMap(o, i) && rjNameAt(o, i) != ""
//@ define rjsTotal(o *unstructured.Unstructured) int = sum i in range(0, rjsLen(o)) :: ite(rjCounted(o, i), rjPods(rjAt(o, i)), 0)
//@ define rjsSomeFails(o *unstructured.Unstructured) bool = exists i int :: 0 <= i && i < rjsLen(o) && rjCounted(o, i) && rjFails(rjAt(o, i))
//@ func getJobSetMinAvailable
//@   props C18 C10
//@   requires jobSet != nil
//@   loop 1
//@     invariant rangeindex >= -1 && rangeindex + 1 <= len(replicatedJobs)
//@     invariant forall j int :: 0 <= j && j <= rangeindex ==> !(rjCounted(jobSet, j) && rjFails(rjAt(jobSet, j)))
//@     invariant totalMinAvailable == sum i in range(0, rangeindex + 1) :: ite(rjCounted(jobSet, i), rjPods(rjAt(jobSet, i)), 0)
//@   ensures [errIff] (result1 != nil) == (rjsErr(jobSet) || rjsSomeFails(jobSet) || rjsTotal(jobSet) > math.MaxInt32)
//@   ensures [sumOfReplicatedJobs] result1 == nil ==> result0 == ite(rjsLen(jobSet) == 0 || rjsTotal(jobSet) <= 0, 1, rjsTotal(jobSet))
//@   ensures [atLeastOne] result1 == nil ==> result0 >= 1
//@   ensures [errorZero] result1 != nil ==> result0 == 0
//@ end

// C18: "all pods with the same top-level owner are assigned to the same PodGroup ... whose name, minimum member count ...
// depend only on the owner chain and pod template": InOrder JobSets get one group per replicatedJob (name suffix = the
// pod template's replicatedjob-name label), others one group; the minimum is read off the JobSet object. The pod's name,
// index, UID and status do not occur. C10: missing name/UID/label or unreadable spec = error.
//@ define rjLabel(pod *v1.Pod) string = pod.Labels[jobSetLabelReplicatedJobName]
//@ define jsBadIdentity(o *unstructured.Unstructured, pod *v1.Pod) bool = defaultgrouper.ownerName(o) == "" || len(defaultgrouper.ownerUID(o)) == 0 || !(jobSetLabelReplicatedJobName in pod.Labels) || rjLabel(pod) == ""
//@ define jsInOrder(o *unstructured.Unstructured) bool = startupOrder(o) == "InOrder"
//@ func (*JobSetGrouper).GetPodGroupMetadata
//@   props C18 C10
//@   requires g != nil && g.DefaultGrouper != nil && topOwner != nil && pod != nil
//@   ensures [badIdentityIsError] jsBadIdentity(topOwner, pod) || defaultgrouper.nStrErr(topOwner.Object, orderPath()) != nil || rjsErr(topOwner) ==> result1 != nil
//@   ensures [errorNoMetadata] result1 != nil ==> result0 == nil
//@   ensures [fresh] result1 == nil ==> result0 != nil && fresh(result0)
//@   ensures [namePerReplicatedJob] result1 == nil && jsInOrder(topOwner) ==> result0.Name == fmt.Sprintf("%s-%s-%s-%s", "pg", defaultgrouper.ownerName(topOwner), string(defaultgrouper.ownerUID(topOwner)), rjLabel(pod))
//@   ensures [nameOfOwnerOnly] result1 == nil && !jsInOrder(topOwner) ==> result0.Name == fmt.Sprintf("%s-%s-%s", "pg", defaultgrouper.ownerName(topOwner), string(defaultgrouper.ownerUID(topOwner)))
//@   ensures [minOfFirstMatchingJob] result1 == nil && jsInOrder(topOwner) ==> (forall i int :: rjMatches(topOwner, i, rjLabel(pod)) && (forall j int :: 0 <= j && j < i ==> !rjMatches(topOwner, j, rjLabel(pod))) ==> result0.MinAvailable == rjPods(rjAt(topOwner, i)))
//@   ensures [minNoSuchJobIsOne] result1 == nil && jsInOrder(topOwner) && (forall j int :: !rjMatches(topOwner, j, rjLabel(pod))) ==> result0.MinAvailable == 1
//@   ensures [minSumOfJobs] result1 == nil && !jsInOrder(topOwner) ==> result0.MinAvailable == ite(rjsLen(topOwner) == 0 || rjsTotal(topOwner) <= 0, 1, rjsTotal(topOwner))
//@   ensures [minAvailableAtLeastOne] result1 == nil ==> result0.MinAvailable >= 1
//@   ensures [ownerRef] result1 == nil ==> defaultgrouper.baseOwnerRef(result0, topOwner)
//@   ensures [common] result1 == nil ==> defaultgrouper.baseCommon(result0, g.DefaultGrouper, topOwner, pod)
//@   ensures [priority] result1 == nil ==> result0.PriorityClassName == defaultgrouper.ownerPrio(g.DefaultGrouper, topOwner, pod, constants.TrainPriorityClass)
//@   ensures [noSubGroups] result1 == nil ==> len(result0.SubGroups) == 0
//@ end
