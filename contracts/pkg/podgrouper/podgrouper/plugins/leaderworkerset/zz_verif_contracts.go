//go:build verif

// Contracts for govc (contract-based deductive verification); comments only.
package leader_worker_set

// ---- reading the LeaderWorkerSet object ----
//@ define sizePath() int = defaultgrouper.pk3("spec", "leaderWorkerTemplate", "size")
//@ define lwsSize(o *unstructured.Unstructured) int = defaultgrouper.nI64(o.Object, sizePath())
//@ define lwsSizeBad(o *unstructured.Unstructured) bool = defaultgrouper.nI64Err(o.Object, sizePath()) != nil || !defaultgrouper.nI64Found(o.Object, sizePath()) || lwsSize(o) <= 0
// C18 "minimum member count ... depend[s] only on the owner chain"; C10: absent, non-integer or non-positive size = error.
//@ func getGroupSize
//@   props C18 C10
//@   requires lwsJob != nil
//@   ensures [errIff] (result1 != nil) == lwsSizeBad(lwsJob)
//@   ensures [sizeOfOwner] result1 == nil ==> result0 == lwsSize(lwsJob) && result0 >= 1
//@   ensures [errorZero] result1 != nil ==> result0 == 0
//@ end

//@ define policyPath() int = defaultgrouper.pk2("spec", "startupPolicy")
//@ define lwsPolicy(o *unstructured.Unstructured) string = ite(defaultgrouper.nStrFound(o.Object, policyPath()), defaultgrouper.nStr(o.Object, policyPath()), "LeaderCreated")
//@ func getStartupPolicy
//@   props C18 C10
//@   requires lwsJob != nil
//@   ensures [errIff] (result1 != nil) == (defaultgrouper.nStrErr(lwsJob.Object, policyPath()) != nil)
//@   ensures [policyOfOwner] result1 == nil ==> result0 == lwsPolicy(lwsJob)
//@ end

//@ define podIsLeader(pod *v1.Pod) bool = (lwsWorkerIndexLabel in pod.Labels) && pod.Labels[lwsWorkerIndexLabel] == "0"
//@ func isLeaderPod
//@   props C18
//@   requires pod != nil
//@   pure
//@   ensures [leaderIffIndexZero] result == podIsLeader(pod)
//@ end

// C18 - DEVIATION FROM THE LITERAL PROPERTY, BY DESIGN: with startupPolicy LeaderReady the minimum depends on the
// reconciled pod: 1 while it is the leader and has no node yet, else the group size (the pod template's size annotation
// if it parses, else the owner's size). Inputs: worker-index label, size annotation (pod template) AND spec.nodeName
// (scheduling state of the reconciled pod). Stated exactly as the code computes it; see the report.
//@ define podSize(pod *v1.Pod, fallback int) int = ite((lwsSizeAnnotation in pod.Annotations) && tuple1(strconv.Atoi(pod.Annotations[lwsSizeAnnotation])) == nil, tuple0(strconv.Atoi(pod.Annotations[lwsSizeAnnotation])), fallback)
//@ define leaderReadyMin(pod *v1.Pod, fallback int) int = ite(podIsLeader(pod) && pod.Spec.NodeName == "", 1, podSize(pod, fallback))
//@ func calcLeaderReadyMinAvailable
//@   props C18 C10
//@   requires pod != nil
//@   pure
//@   ensures [leaderFirst] result == leaderReadyMin(pod, fallbackSize)
//@ end

// ---- segment arithmetic ----
//@ define divisible(replicas int, seg int) bool = (replicas - 1) % seg == 0
//@ func isReplicasSizeDivisibleBySubGroupSize
//@   props C18 C10
//@   requires subGroupSize != 0
//@   pure
//@   ensures result == divisible(replicasSize, subGroupSize)
//@ end
//@ define segIndex(w int, replicas int, seg int) int = ite(w == 0, 0, ite(divisible(replicas, seg), (w - 1) / seg, w / seg))
//@ func getSegmentIndex
//@   props C18 C10
//@   requires subGroupSize != 0
//@   pure
//@   ensures [index] result == segIndex(workerIndex, replicasSize, subGroupSize)
//@ end

// the segment size: spec.leaderWorkerTemplate.subGroupPolicy.subGroupSize, else the LWS annotation, else the worker
// template annotation; must be in 2..replicasSize. C10: non-numeric / out-of-range values = error.
//@ define segSpecPath() int = defaultgrouper.pk4("spec", "leaderWorkerTemplate", "subGroupPolicy", "subGroupSize")
//@ define segTplPath() int = defaultgrouper.pk6("spec", "leaderWorkerTemplate", "workerTemplate", "metadata", "annotations", constants.SegmentSizeKey)
//@ define segFromSpec(o *unstructured.Unstructured) bool = defaultgrouper.nI64Found(o.Object, segSpecPath())
//@ define segFromAnn(o *unstructured.Unstructured) bool = !segFromSpec(o) && (constants.SegmentSizeKey in defaultgrouper.ownerAnnotations(o))
//@ define segFromTpl(o *unstructured.Unstructured) bool = !segFromSpec(o) && !segFromAnn(o) && defaultgrouper.nStrFound(o.Object, segTplPath())
//@ define segDefined(o *unstructured.Unstructured) bool = segFromSpec(o) || segFromAnn(o) || segFromTpl(o)
//@ define segText(o *unstructured.Unstructured) string = ite(segFromAnn(o), defaultgrouper.ownerAnnotations(o)[constants.SegmentSizeKey], defaultgrouper.nStr(o.Object, segTplPath()))
//@ define segValue(o *unstructured.Unstructured) int = ite(segFromSpec(o), defaultgrouper.nI64(o.Object, segSpecPath()), tuple0(strconv.Atoi(segText(o))))
//@ define segFails(o *unstructured.Unstructured, replicas int) bool = defaultgrouper.nI64Err(o.Object, segSpecPath()) != nil || ((segFromAnn(o) || segFromTpl(o)) && tuple1(strconv.Atoi(segText(o))) != nil) || (segDefined(o) && (segValue(o) <= 1 || segValue(o) > replicas))
//@ func getSegmentSize
//@   props C18 C10
//@   requires lwsJob != nil
//@   ensures [errIff] (result1 != nil) == segFails(lwsJob, replicasSize)
//@   ensures [errorNil] result1 != nil ==> result0 == nil
//@   ensures [noneDefined] result1 == nil ==> (result0 == nil) == !segDefined(lwsJob)
//@   ensures [sizeOfOwner] result1 == nil && result0 != nil ==> *result0 == segValue(lwsJob) && 2 <= *result0 && *result0 <= replicasSize
//@ end

// C18 "sub-groups depend only on the owner chain and pod template": without segmentation there is a leader sub-group of
// 1 and, if the group has workers, a workers sub-group of size-1. The pod enters only as the member reference of the
// sub-group it belongs to (leader iff worker-index 0).
//@ func buildSubGroupsWithoutSegmentation
//@   props C18 C10
//@   requires pod != nil
//@   fresh
//@   ensures [count] len(result) == ite(replicasSize - 1 > 0, 2, 1)
//@   ensures [leader] result[0] != nil && result[0].Name == "leader" && result[0].MinAvailable == 1 && result[0].Parent == nil
//@   ensures [leaderMember] len(result[0].PodsReferences) == ite(podIsLeader(pod), 1, 0) && (podIsLeader(pod) ==> result[0].PodsReferences[0] == pod.Name)
//@   ensures [workers] replicasSize - 1 > 0 ==> result[1] != nil && result[1].Name == "workers" && result[1].MinAvailable == replicasSize - 1 && result[1].Parent == nil
//@   ensures [workerMember] replicasSize - 1 > 0 ==> len(result[1].PodsReferences) == ite(podIsLeader(pod), 0, 1) && (!podIsLeader(pod) ==> result[1].PodsReferences[0] == pod.Name)
//@ end

// ---- topology constraints of the segments: pod-template annotation, else worker template, else the LWS object ----
//@ define tplAnn(wt map[string]interface{}, key string) string = defaultgrouper.nStr(wt, defaultgrouper.pk3("metadata", "annotations", key))
//@ define lwsAnn(pod *v1.Pod, wt map[string]interface{}, key string) string = ite((key in pod.Annotations) && pod.Annotations[key] != "", pod.Annotations[key], tplAnn(wt, key))
//@ func getWorkerAnnotationValue
//@   props C18 C10
//@   requires pod != nil
//@   pure
//@   ensures [podTemplateThenWorkerTemplate] result == lwsAnn(pod, workerTemplate, key)
//@ end
//@ define lwsTopology(pod *v1.Pod, wt map[string]interface{}, o *unstructured.Unstructured) string = ite(lwsAnn(pod, wt, constants.TopologyKey) != "", lwsAnn(pod, wt, constants.TopologyKey), ite(constants.TopologyKey in defaultgrouper.ownerAnnotations(o), defaultgrouper.ownerAnnotations(o)[constants.TopologyKey], ""))
//@ func getTopology
//@   props C18 C10
//@   requires pod != nil && lwsJob != nil
//@   pure
//@   ensures [topologyOfTemplateThenOwner] result == lwsTopology(pod, workerTemplate, lwsJob)
//@ end
//@ define wtPath() int = defaultgrouper.pk3("spec", "leaderWorkerTemplate", "workerTemplate")
//@ define wtOf(o *unstructured.Unstructured) map[string]interface{} = defaultgrouper.nMap(o.Object, wtPath())
//@ define segTopoNone(pod *v1.Pod, o *unstructured.Unstructured) bool = !defaultgrouper.nMapFound(o.Object, wtPath()) || lwsTopology(pod, wtOf(o), o) == "" || (lwsAnn(pod, wtOf(o), constants.SegmentTopologyRequiredPlacementKey) == "" && lwsAnn(pod, wtOf(o), constants.SegmentTopologyPreferredPlacementKey) == "")
//@ func getSegmentTopologyConstraints
//@   props C18 C10
//@   requires pod != nil && lwsJob != nil
//@   ensures [errIff] (result1 != nil) == (defaultgrouper.nMapErr(lwsJob.Object, wtPath()) != nil)
//@   ensures [none] result1 == nil ==> (result0 == nil) == segTopoNone(pod, lwsJob)
//@   ensures [errorNil] result1 != nil ==> result0 == nil
//@   ensures [ofTemplates] result0 != nil ==> fresh(result0) && result0.Topology == lwsTopology(pod, wtOf(lwsJob), lwsJob) && result0.RequiredTopologyLevel == lwsAnn(pod, wtOf(lwsJob), constants.SegmentTopologyRequiredPlacementKey) && result0.PreferredTopologyLevel == lwsAnn(pod, wtOf(lwsJob), constants.SegmentTopologyPreferredPlacementKey)
//@ end

// the segment of a pod is derived from its worker-index label (the documented per-pod input)
//@ func getPodSegment
//@   props C18 C10
//@   requires pod != nil && segmentSize != 0
//@   ensures [errIff] (result1 != nil) == (tuple1(strconv.Atoi(pod.Labels[lwsWorkerIndexLabel])) != nil)
//@   ensures [segmentOfIndex] result1 == nil ==> result0 == segIndex(tuple0(strconv.Atoi(pod.Labels[lwsWorkerIndexLabel])), replicasSize, segmentSize)
//@ end

// ---- the segmented sub-group construction ----
// slices.Insert (generic library, ASSUMED): a new slice with v inserted at position i
//@ func slices.Insert
//@   fresh
//@   requires 0 <= i && i <= len(s)
//@   ensures [assumed] len(result) == len(s) + len(v)
//@   ensures [assumed] forall j int :: 0 <= j && j < len(result) ==> result[j] == ite(j < i, s[j], ite(j < i + len(v), v[j - i], s[j - len(v)]))
//@   note assumed library model of slices.Insert
//@ end

//@ define allSG(s []*podgroup.SubGroupMetadata) bool = forall j int :: 0 <= j && j < len(s) ==> s[j] != nil && allocated(s[j])
//@ func createSegmentSubgroups
//@   props C18 C10
//@   requires segmentSize >= 2 && replicasSize >= segmentSize
//@   loop 1
//@     invariant segmentIndex >= 0 && len(subGroups) == segmentIndex && segmentIndex <= numOfSegmentSubgroups && numOfSegmentSubgroups >= 1
//@     invariant forall j int :: 0 <= j && j < len(subGroups) ==> subGroups[j] != nil && fresh(subGroups[j])
//@   ensures [atLeastOneSegment] len(result) >= 1
//@   ensures [nonNil] forall j int :: 0 <= j && j < len(result) ==> result[j] != nil
//@   ensures [freshSegments] forall j int :: 0 <= j && j < len(result) ==> fresh(result[j])
//@ end
//@ func fixLastSegmentSize
//@   props C18 C10
//@   requires segmentSize != 0 && len(subGroups) >= 1 && subGroups[len(subGroups) - 1] != nil
//@   modifies subGroups[len(subGroups) - 1].MinAvailable
//@   loop 1
//@     invariant true
//@ end
//@ func addLeaderAndWorkersSubgroupsForSegment
//@   props C18 C10
//@   requires pod != nil
//@   ensures [two] len(result0) == 2 && result0[0] != nil && result0[1] != nil && fresh(result0[0]) && fresh(result0[1])
//@ end
//@ func handleLeaderInFirstSegment
//@   props C18 C10
//@   requires segmentSize != 0 && pod != nil && len(subGroups) >= 1 && (forall j int :: 0 <= j && j < len(subGroups) ==> subGroups[j] != nil)
//@   modifies subGroups[0].MinAvailable
//@   ensures [twoMore] len(result0) == len(subGroups) + 2
//@   ensures [nonNil] forall j int :: 0 <= j && j < len(result0) ==> result0[j] != nil
//@ end
//@ func addExcludedLeaderSegments
//@   props C18 C10
//@   requires segmentSize != 0 && (forall j int :: 0 <= j && j < len(subGroups) ==> subGroups[j] != nil)
//@   ensures [errIffNotDivisible] (result1 != nil) == !divisible(replicasSize, segmentSize)
//@   ensures [errorNil] result1 != nil ==> result0 == nil
//@   ensures [oneMore] result1 == nil ==> len(result0) == len(subGroups) + 1 && result0[0] != nil && fresh(result0[0])
//@   ensures [nonNil] result1 == nil ==> (forall j int :: 0 <= j && j < len(result0) ==> result0[j] != nil)
//@   ensures [segmentsShifted] result1 == nil ==> (forall j int :: 0 <= j && j < len(subGroups) ==> result0[j + 1] == subGroups[j])
//@ end

// typed handle used only to name field families of podgroup.SubGroupMetadata in frame clauses
//@ declare someSG() *podgroup.SubGroupMetadata
// C10 (FINDING, fixed in /repo 1a2d1e4): the pod's segment comes from its worker-index LABEL; it used to index the
// sub-group slice unchecked ("9" in a group of 4 => index out of range panic). The no-panic obligations of this unit are
// the check: they fail again if the range test is removed. C18: only freshly built sub-groups are written.
//@ func buildSubGroupsWithSegmentation
//@   props C18 C10
//@   requires pod != nil && segmentationPolicy != nil && segmentationPolicy.SubGroupSize != nil && segmentationPolicy.Type != nil
//@   requires *segmentationPolicy.SubGroupSize >= 2 && *segmentationPolicy.SubGroupSize <= replicasSize
//@   modifies family(someSG().PodsReferences), family(someSG().MinAvailable)
//@   note frame: only MinAvailable / PodsReferences of sub-group objects are written (they are the ones built by this very call; the frame clause names the two field families through a typed handle)
//@   ensures [errorNil] result1 != nil ==> result0 == nil
//@   ensures [badIndexIsError] tuple1(strconv.Atoi(pod.Labels[lwsWorkerIndexLabel])) != nil ==> result1 != nil
//@ end

//@ func getSegmentationPolicy
//@   props C18 C10
//@   requires lwsJob != nil
//@   ensures [errorNil] result1 != nil ==> result0 == nil
//@   ensures [noneIffNoSegmentSize] result1 == nil ==> (result0 == nil) == !segDefined(lwsJob)
//@   ensures [policyWellFormed] result0 != nil ==> result0.SubGroupSize != nil && result0.Type != nil && *result0.SubGroupSize == segValue(lwsJob) && 2 <= *result0.SubGroupSize && *result0.SubGroupSize <= replicasSize
//@ end

//@ func (*LwsGrouper).buildSubGroups
//@   props C18 C10
//@   requires lwsg != nil && lwsJob != nil && pod != nil
//@   modifies family(someSG().PodsReferences), family(someSG().MinAvailable)
//@   ensures [errorNil] result1 != nil ==> result0 == nil
//@ end

// C18: "all pods with the same top-level owner are assigned to the same PodGroup ... whose name, minimum member count ...
// depend only on the owner chain and pod template": one PodGroup per LWS GROUP: the name is the default name of the LWS
// plus "-group-<group-index label of the pod template>"; MinAvailable is the owner's size (LeaderCreated) or the
// leader-first rule above (LeaderReady). C10: unknown start-up policy / unreadable size = error.
//@ define groupIdxOK(pod *v1.Pod) bool = (lwsGroupIndexLabel in pod.Labels) && tuple1(strconv.Atoi(pod.Labels[lwsGroupIndexLabel])) == nil
//@ define lwsMin(o *unstructured.Unstructured, pod *v1.Pod) int = ite(lwsPolicy(o) == "LeaderReady", leaderReadyMin(pod, lwsSize(o)), lwsSize(o))
//@ func (*LwsGrouper).GetPodGroupMetadata
//@   props C18 C10
//@   requires lwsg != nil && lwsg.DefaultGrouper != nil && lwsJob != nil && pod != nil
//@   modifies family(someSG().PodsReferences), family(someSG().MinAvailable)
//@   ensures [badOwnerIsError] lwsSizeBad(lwsJob) || defaultgrouper.nStrErr(lwsJob.Object, policyPath()) != nil || (lwsPolicy(lwsJob) != "LeaderReady" && lwsPolicy(lwsJob) != "LeaderCreated") ==> result1 != nil
//@   ensures [errorNoMetadata] result1 != nil ==> result0 == nil
//@   ensures [fresh] result1 == nil ==> result0 != nil && fresh(result0)
//@   ensures [minAvailable] result1 == nil ==> result0.MinAvailable == lwsMin(lwsJob, pod)
//@   ensures [minAvailableLeaderCreatedAtLeastOne] result1 == nil && lwsPolicy(lwsJob) == "LeaderCreated" ==> result0.MinAvailable >= 1
//@   ensures [namePerGroup] result1 == nil ==> result0.Name == ite(groupIdxOK(pod), fmt.Sprintf("%s-group-%d", defaultgrouper.pgName(lwsJob), tuple0(strconv.Atoi(pod.Labels[lwsGroupIndexLabel]))), defaultgrouper.pgName(lwsJob))
//@   ensures [ownerRef] result1 == nil ==> defaultgrouper.baseOwnerRef(result0, lwsJob)
//@   ensures [common] result1 == nil ==> defaultgrouper.baseCommon(result0, lwsg.DefaultGrouper, lwsJob, pod)
//@   ensures [priority] result1 == nil ==> result0.PriorityClassName == defaultgrouper.ownerPrio(lwsg.DefaultGrouper, lwsJob, pod, constants.TrainPriorityClass)
//@ end
