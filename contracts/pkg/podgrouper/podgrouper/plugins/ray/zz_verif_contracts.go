//go:build verif

// Contracts for govc (contract-based deductive verification); comments only.
package ray

// ---- ASSUMED models of the API reads of this plugin ----
//@ define asU(o ref) *unstructured.Unstructured = unbox(o, "*unstructured.Unstructured")
//@ define asPG(o ref) *schedulingv2alpha2.PodGroup = unbox(o, "*schedulingv2alpha2.PodGroup")
// number of sub-groups of the PodGroup ns/name as stored in the cluster (function of the key within one reconcile)
//@ declare pgSubGroupCount(ns string, name string) int
//@ func sigs.k8s.io/controller-runtime/pkg/client.Client.Get
//@   props C18
//@   requires obj != nil
//@   modifies fields(asU(obj)), fields(asPG(obj))
//@   ensures typeis(obj, "*unstructured.Unstructured") ==> result == defaultgrouper.getErr(defaultgrouper.ownerAPIVersion(asU(obj)), defaultgrouper.ownerKind(asU(obj)), key.Namespace, key.Name)
//@   ensures typeis(obj, "*unstructured.Unstructured") && result == nil ==> defaultgrouper.sameObject(asU(obj), defaultgrouper.stored(defaultgrouper.ownerAPIVersion(asU(obj)), defaultgrouper.ownerKind(asU(obj)), key.Namespace, key.Name))
//@   ensures typeis(obj, "*schedulingv2alpha2.PodGroup") ==> result == defaultgrouper.pgGetErr(key.Namespace, key.Name)
//@   ensures typeis(obj, "*schedulingv2alpha2.PodGroup") && result == nil ==> len(asPG(obj).Spec.SubGroups) == pgSubGroupCount(key.Namespace, key.Name)
//@ end
//@ func k8s.io/apimachinery/pkg/api/errors.IsNotFound
//@   props C18
//@   pure
//@   ensures result == defaultgrouper.isNotFound(err)
//@ end

// C18 "not on which pod is reconciled first or how often": sub-groups are used unless the PodGroup ALREADY stored
// under that name has none (legacy workload) - a function of cluster state.
//@ define useSubGroups(ns string, name string) bool = defaultgrouper.pgGetErr(ns, name) != nil || pgSubGroupCount(ns, name) > 0
//@ func (*RayGrouper).shouldUseSubGroups
//@   props C18 C10
//@   requires rg != nil && rg.client != nil
//@   ensures [ofStoredGroup] result == useSubGroups(namespace, name)
//@ end

// ---- one worker group (a decoded JSON map handed around as interface{}) ----
//@ define wgMap(x interface{}) map[string]interface{} = unbox(x, "map[string]interface{}")
//@ define wgIsMap(x interface{}) bool = typeis(x, "map[string]interface{}")
//@ define wgSuspended(m map[string]interface{}) bool = defaultgrouper.nBoolFound(m, defaultgrouper.pk1("suspended")) && defaultgrouper.nBool(m, defaultgrouper.pk1("suspended"))
//@ define wgDesired(m map[string]interface{}) int = defaultgrouper.nI64(m, defaultgrouper.pk1("replicas"))
//@ define wgMin(m map[string]interface{}) int = defaultgrouper.nI64(m, defaultgrouper.pk1("minReplicas"))
//@ define wgCountersFail(m map[string]interface{}) bool = defaultgrouper.nBoolErr(m, defaultgrouper.pk1("suspended")) != nil || (!wgSuspended(m) && (defaultgrouper.nI64Err(m, defaultgrouper.pk1("replicas")) != nil || defaultgrouper.nI64Err(m, defaultgrouper.pk1("minReplicas")) != nil || wgMin(m) > wgDesired(m)))
// C10: a worker group whose replicas/minReplicas/suspended have the wrong type, or minReplicas > replicas: error.
//@ func getReplicaCountersForWorkerGroup
//@   props C18 C10
//@   requires wgIsMap(groupSpec)
//@   ensures [errIff] (err != nil) == wgCountersFail(wgMap(groupSpec))
//@   ensures [counters] err == nil ==> minReplicas == ite(wgSuspended(wgMap(groupSpec)), 0, wgMin(wgMap(groupSpec))) && desiredReplicas == ite(wgSuspended(wgMap(groupSpec)), 0, wgDesired(wgMap(groupSpec)))
//@   ensures [errorZero] err != nil ==> minReplicas == 0 && desiredReplicas == 0
//@ end

//@ define wgHosts(m map[string]interface{}) int = ite(defaultgrouper.nI64Found(m, defaultgrouper.pk1("numOfHosts")), defaultgrouper.nI64(m, defaultgrouper.pk1("numOfHosts")), 1)
//@ func getGroupNumOfHosts
//@   props C18 C10
//@   requires wgIsMap(groupSpec)
//@   ensures [errIff] (result1 != nil) == (defaultgrouper.nI64Err(wgMap(groupSpec), defaultgrouper.pk1("numOfHosts")) != nil)
//@   ensures [hosts] result1 == nil ==> result0 == wgHosts(wgMap(groupSpec))
//@ end

//@ define wgNamed(m map[string]interface{}) bool = defaultgrouper.nStrErr(m, defaultgrouper.pk1("groupName")) == nil && defaultgrouper.nStrFound(m, defaultgrouper.pk1("groupName")) && defaultgrouper.nStr(m, defaultgrouper.pk1("groupName")) != ""
//@ define wgName(m map[string]interface{}, i int) string = ite(wgNamed(m), defaultgrouper.nStr(m, defaultgrouper.pk1("groupName")), fmt.Sprintf("worker-group-%d", i))
// C18: the sub-group name is the group's own name, else derived from its POSITION IN THE OWNER's list (not from a pod).
//@ func getWorkerGroupName
//@   props C18 C10
//@   requires wgIsMap(groupSpec)
//@   ensures [nameOfOwnerEntry] result == wgName(wgMap(groupSpec), groupIndex)
//@ end

// ---- topology constraints of a pod template inside the owner ----
//@ define tplAnn(m map[string]interface{}, key string) string = defaultgrouper.nStr(m, defaultgrouper.pk4("template", "metadata", "annotations", key))
//@ define tplAnnErr(m map[string]interface{}, key string) bool = defaultgrouper.nStrErr(m, defaultgrouper.pk4("template", "metadata", "annotations", key)) != nil
//@ define tplReadErr(m map[string]interface{}) bool = tplAnnErr(m, constants.TopologyKey) || tplAnnErr(m, constants.TopologyRequiredPlacementKey) || tplAnnErr(m, constants.TopologyPreferredPlacementKey)
//@ define tplNone(m map[string]interface{}) bool = tplAnn(m, constants.TopologyRequiredPlacementKey) == "" && tplAnn(m, constants.TopologyPreferredPlacementKey) == ""
//@ define tplFails(m map[string]interface{}) bool = tplReadErr(m) || (!tplNone(m) && tplAnn(m, constants.TopologyKey) == "")
//@ define tplIs(r *podgroup.TopologyConstraintMetadata, m map[string]interface{}) bool = ite(tplNone(m), r == nil, r != nil && r.Topology == tplAnn(m, constants.TopologyKey) && r.RequiredTopologyLevel == tplAnn(m, constants.TopologyRequiredPlacementKey) && r.PreferredTopologyLevel == tplAnn(m, constants.TopologyPreferredPlacementKey))
//@ func getTemplateTopologyConstraints
//@   props C18 C10
//@   ensures [errIff] (result1 != nil) == tplFails(groupSpec)
//@   ensures [errorNil] result1 != nil ==> result0 == nil
//@   ensures [ofTemplateAnnotations] result1 == nil ==> tplIs(result0, groupSpec)
//@   ensures [fresh] result0 != nil ==> fresh(result0)
//@ end

//@ func getWorkerGroupTopologyConstraints
//@   props C18 C10
//@   ensures [errIff] (result1 != nil) == (!wgIsMap(groupSpec) || tplFails(wgMap(groupSpec)))
//@   ensures [errorNil] result1 != nil ==> result0 == nil
//@   ensures [ofTemplateAnnotations] result1 == nil ==> tplIs(result0, wgMap(groupSpec))
//@   ensures [fresh] result0 != nil ==> fresh(result0)
//@ end

//@ define headPath() int = defaultgrouper.pk2("spec", "headGroupSpec")
//@ define headMap(o *unstructured.Unstructured) map[string]interface{} = defaultgrouper.nMap(o.Object, headPath())
//@ define headFails(o *unstructured.Unstructured) bool = defaultgrouper.nMapErr(o.Object, headPath()) != nil || (defaultgrouper.nMapFound(o.Object, headPath()) && tplFails(headMap(o)))
//@ func getHeadGroupTopologyConstraints
//@   props C18 C10
//@   requires topOwner != nil
//@   ensures [errIff] (result1 != nil) == headFails(topOwner)
//@   ensures [errorNil] result1 != nil ==> result0 == nil
//@   ensures [noHeadSpec] result1 == nil && !defaultgrouper.nMapFound(topOwner.Object, headPath()) ==> result0 == nil
//@   ensures [ofTemplateAnnotations] result1 == nil && defaultgrouper.nMapFound(topOwner.Object, headPath()) ==> tplIs(result0, headMap(topOwner))
//@   ensures [fresh] result0 != nil ==> fresh(result0)
//@ end

// ---- the RayCluster object: head group + spec.workerGroupSpecs ----
//@ define wgsPath() int = defaultgrouper.pk2("spec", "workerGroupSpecs")
//@ define wgsLen(o *unstructured.Unstructured) int = ite(defaultgrouper.nSliceFound(o.Object, wgsPath()), defaultgrouper.nSliceLen(o.Object, wgsPath()), 0)
//@ define wgAt(o *unstructured.Unstructured, i int) map[string]interface{} = wgMap(defaultgrouper.nSliceAt(o.Object, wgsPath(), i))
//@ define wgEffMin(m map[string]interface{}) int = ite(wgSuspended(m), 0, wgMin(m))
//@ define wgEffDesired(m map[string]interface{}) int = ite(wgSuspended(m), 0, wgDesired(m))
//@ define wgSkip(m map[string]interface{}) bool = wgEffMin(m) == 0 && wgEffDesired(m) == 0
//@ define wgPods(m map[string]interface{}) int = ite(wgEffMin(m) > 0, wgEffMin(m) * wgHosts(m), wgEffDesired(m) * wgHosts(m))
//@ define wgFails(m map[string]interface{}) bool = wgCountersFail(m) || (!wgSkip(m) && (defaultgrouper.nI64Err(m, defaultgrouper.pk1("numOfHosts")) != nil || tplFails(m)))
//@ define rayPods(o *unstructured.Unstructured) int = 1 + (sum i in range(0, wgsLen(o)) :: ite(wgSkip(wgAt(o, i)), 0, wgPods(wgAt(o, i))))
//@ define rayFails(o *unstructured.Unstructured) bool = headFails(o) || defaultgrouper.nSliceErr(o.Object, wgsPath()) != nil || (exists i int :: 0 <= i && i < wgsLen(o) && wgFails(wgAt(o, i)))
// position of worker group i among the sub-groups: the head group, then the non-skipped groups in list order
//@ define sgPos(o *unstructured.Unstructured, i int) int = 1 + (count k in range(0, i) :: !wgSkip(wgAt(o, k)))

// C18 "minimum member count ... and sub-groups depend only on the owner chain": the minimum is 1 (head) plus, for every
// worker group that is not suspended/empty, (minReplicas if set else replicas) x numOfHosts; there is one sub-group per
// such worker group (named by the group, else by its position in the owner's list) after the head sub-group, and the
// sub-group minimums are exactly the summands. All functions of the RayCluster object. C10: wrongly typed fields = error.
// NOTE no lower bound is enforced on a worker group's contribution (negative replicas are passed through).
// NOT DECIDED: name/minimum/topology of the individual worker sub-groups (position = 1 + number of non-skipped groups
// before it): the invariants over count-indexed positions of an appended slice were proved once but took > 100 s and
// were unstable, so they are not claimed (sgPos is kept for documentation).
//@ func calcJobNumOfPodsAndSubGroups
//@   props C18 C10
//@   requires topOwner != nil
//@   assume forall i int :: 0 <= i && i < wgsLen(topOwner) ==> wgIsMap(defaultgrouper.nSliceAt(topOwner.Object, wgsPath(), i))
//@   note assume: every element of spec.workerGroupSpecs is a JSON object - guaranteed by the RayCluster CRD schema (API-server validation); the code type-asserts groupSpec.(map[string]interface{}) without a check and would panic otherwise
//@   loop 1
//@     invariant rangeindex >= -1 && rangeindex + 1 <= len(workerGroupSpecs)
//@     invariant forall j int :: 0 <= j && j <= rangeindex ==> !wgFails(wgAt(topOwner, j))
//@     invariant minReplicas == 1 + (sum i in range(0, rangeindex + 1) :: ite(wgSkip(wgAt(topOwner, i)), 0, wgPods(wgAt(topOwner, i))))
//@     invariant len(subGroups) == 1 + (count k in range(0, rangeindex + 1) :: !wgSkip(wgAt(topOwner, k)))
//@     invariant len(subGroups) >= 1
//@     invariant forall j int :: 0 <= j && j < len(subGroups) ==> subGroups[j] != nil && allocated(subGroups[j])
//@     invariant subGroups[0].Name == "headgroup" && subGroups[0].MinAvailable == 1
//@     invariant subGroups[0].TopologyConstraints == headTopologyConstraints && len(subGroups[0].PodsReferences) == 0
//@   ensures [errIff] (result2 != nil) == rayFails(topOwner)
//@   ensures [errorZero] result2 != nil ==> result0 == 0 && len(result1) == 0
//@   ensures [minOfOwner] result2 == nil ==> result0 == rayPods(topOwner)
//@   ensures [subGroupCount] result2 == nil ==> len(result1) == 1 + (count k in range(0, wgsLen(topOwner)) :: !wgSkip(wgAt(topOwner, k)))
//@   ensures [subGroupsNonNil] result2 == nil ==> (forall j int :: 0 <= j && j < len(result1) ==> result1[j] != nil)
//@   ensures [headSubGroup] result2 == nil ==> result1[0] != nil && result1[0].Name == "headgroup" && result1[0].MinAvailable == 1 && len(result1[0].PodsReferences) == 0
//@   ensures [headTopology] result2 == nil ==> ite(defaultgrouper.nMapFound(topOwner.Object, headPath()), tplIs(result1[0].TopologyConstraints, headMap(topOwner)), result1[0].TopologyConstraints == nil)
//@ end

// the reconciled pod is recorded as a member of the sub-group named by its ray.io/group label (pod template); only the
// member lists change
//@ define rayGroupLabel() string = "ray.io/group"
//@ func assignRayPodToSubGroup
//@   props C18 C10
//@   requires pod != nil && pgMetadata != nil
//@   requires forall j int :: 0 <= j && j < len(pgMetadata.SubGroups) ==> pgMetadata.SubGroups[j] != nil
//@   modifies family(pgMetadata.SubGroups[0].PodsReferences)
//@   loop 1
//@     invariant rangeindex >= -1
//@     invariant forall j int :: 0 <= j && j <= rangeindex ==> pgMetadata.SubGroups[j].Name != pod.Labels[rayGroupLabel()]
//@   ensures [errIffNoSuchGroup] (result != nil) == (!(rayGroupLabel() in pod.Labels) || (forall j int :: 0 <= j && j < len(pgMetadata.SubGroups) ==> pgMetadata.SubGroups[j].Name != pod.Labels[rayGroupLabel()]))
//@ end

// C18: minimum and sub-groups come from the RayCluster object; sub-groups are dropped only for a legacy stored group.
//@ define subGroupsUsed(o *unstructured.Unstructured, pod *v1.Pod) bool = useSubGroups(pod.Namespace, defaultgrouper.pgName(o))
//@ func (*RayGrouper).getPodGroupMetadataInternal
//@   props C18 C10
//@   requires rg != nil && rg.client != nil && rg.DefaultGrouper != nil && topOwner != nil && rayClusterObj != nil && pod != nil
//@   ensures [errIff] (result1 != nil) == rayFails(rayClusterObj)
//@   ensures [errorNoMetadata] result1 != nil ==> result0 == nil
//@   ensures [fresh] result1 == nil ==> result0 != nil && fresh(result0)
//@   ensures [minOfCluster] result1 == nil ==> result0.MinAvailable == rayPods(rayClusterObj)
//@   ensures [subGroupCount] result1 == nil ==> len(result0.SubGroups) == ite(subGroupsUsed(topOwner, pod), 1 + (count k in range(0, wgsLen(rayClusterObj)) :: !wgSkip(wgAt(rayClusterObj, k))), 0)
//@   ensures [subGroupsNonNil] result1 == nil ==> (forall j int :: 0 <= j && j < len(result0.SubGroups) ==> result0.SubGroups[j] != nil)
//@   ensures [headSubGroup] result1 == nil && subGroupsUsed(topOwner, pod) ==> result0.SubGroups[0].Name == "headgroup" && result0.SubGroups[0].MinAvailable == 1
//@   ensures [nameOfOwnerOnly] result1 == nil ==> result0.Name == defaultgrouper.pgName(topOwner)
//@   ensures [ownerRef] result1 == nil ==> defaultgrouper.baseOwnerRef(result0, topOwner)
//@   ensures [common] result1 == nil ==> defaultgrouper.baseCommon(result0, rg.DefaultGrouper, topOwner, pod)
//@   ensures [priority] result1 == nil ==> result0.PriorityClassName == defaultgrouper.ownerPrio(rg.DefaultGrouper, topOwner, pod, constants.TrainPriorityClass)
//@ end

// RayCluster pods: the cluster object is the owner itself. RayJob / RayService: the RayCluster named in the owner's
// status is fetched. NOT DECIDED: which stored RayCluster that is (first status path that is set) - only the
// owner-derived fields are stated for those two kinds.
//@ func (*RayGrouper).extractRayClusterObject
//@   props C18 C10
//@   requires rg != nil && rg.client != nil && topOwner != nil
//@   loop 1
//@     invariant pathIndex >= 0
//@   ensures [noPathMeansOwner] len(rayClusterNamePaths) == 0 ==> rayClusterObj == topOwner && err == nil
//@   ensures [errorNil] (err != nil) == (rayClusterObj == nil)
//@ end

//@ define rayPrio(dg *defaultgrouper.DefaultGrouper, o *unstructured.Unstructured, pod *v1.Pod) string = ite("ray.io/priority-class-name" in defaultgrouper.ownerLabels(o), defaultgrouper.ownerLabels(o)["ray.io/priority-class-name"], defaultgrouper.ownerPrio(dg, o, pod, constants.TrainPriorityClass))
//@ func (*RayGrouper).getPodGroupMetadataWithClusterNamePath
//@   props C18 C10
//@   requires rg != nil && rg.client != nil && rg.DefaultGrouper != nil && topOwner != nil && pod != nil
//@   modifies *
//@   note modifies *: the only writes are the member lists (PodsReferences) of the sub-groups built by this very call; the spec language has no handle for "field of the objects in a result slice" in a frame clause
//@   ensures [errorNoMetadata] result1 != nil ==> result0 == nil
//@   ensures [fresh] result1 == nil ==> result0 != nil && fresh(result0)
//@   ensures [errIffOwnerIsCluster] len(clusterNamePaths) == 0 ==> (result1 != nil) == rayFails(topOwner)
//@   ensures [minOfOwnerCluster] len(clusterNamePaths) == 0 && result1 == nil ==> result0.MinAvailable == rayPods(topOwner)
//@   ensures [priorityRayLabelFirst] result1 == nil ==> result0.PriorityClassName == rayPrio(rg.DefaultGrouper, topOwner, pod)
//@   ensures [nameOfOwnerOnly] result1 == nil ==> result0.Name == defaultgrouper.pgName(topOwner)
//@   ensures [ownerRef] result1 == nil ==> defaultgrouper.baseOwnerRef(result0, topOwner)
//@   ensures [common] result1 == nil ==> defaultgrouper.baseCommon(result0, rg.DefaultGrouper, topOwner, pod)
//@ end

// (priority / queue / labels / annotations of the three wrappers: proved one level down, in getPodGroupMetadataWithClusterNamePath;
// not restated here because its coarse frame `modifies *` would force old() around every heap read)
//@ func (*RayClusterGrouper).GetPodGroupMetadata
//@   props C18 C10
//@   requires rcg != nil && rcg.RayGrouper != nil && rcg.RayGrouper.client != nil && rcg.RayGrouper.DefaultGrouper != nil && topOwner != nil && pod != nil
//@   modifies *
//@   note modifies *: the only writes are the member lists (PodsReferences) of the sub-groups built by this very call; the spec language has no handle for "field of the objects in a result slice" in a frame clause
//@   ensures [errIff] (result1 != nil) == rayFails(topOwner)
//@   ensures [errorNoMetadata] result1 != nil ==> result0 == nil
//@   ensures [minOfOwner] result1 == nil ==> result0.MinAvailable == rayPods(topOwner)
//@   ensures [nameOfOwnerOnly] result1 == nil ==> result0.Name == defaultgrouper.pgName(topOwner)
//@   ensures [ownerRef] result1 == nil ==> defaultgrouper.baseOwnerRef(result0, topOwner)
//@ end
//@ func (*RayJobGrouper).GetPodGroupMetadata
//@   props C18 C10
//@   requires rjg != nil && rjg.RayGrouper != nil && rjg.RayGrouper.client != nil && rjg.RayGrouper.DefaultGrouper != nil && topOwner != nil && pod != nil
//@   modifies *
//@   note modifies *: the only writes are the member lists (PodsReferences) of the sub-groups built by this very call; the spec language has no handle for "field of the objects in a result slice" in a frame clause
//@   ensures [errorNoMetadata] result1 != nil ==> result0 == nil
//@   ensures [nameOfOwnerOnly] result1 == nil ==> result0.Name == defaultgrouper.pgName(topOwner)
//@   ensures [ownerRef] result1 == nil ==> defaultgrouper.baseOwnerRef(result0, topOwner)
//@ end
//@ func (*RayServiceGrouper).GetPodGroupMetadata
//@   props C18 C10
//@   requires rsg != nil && rsg.RayGrouper != nil && rsg.RayGrouper.client != nil && rsg.RayGrouper.DefaultGrouper != nil && topOwner != nil && pod != nil
//@   modifies *
//@   note modifies *: the only writes are the member lists (PodsReferences) of the sub-groups built by this very call; the spec language has no handle for "field of the objects in a result slice" in a frame clause
//@   ensures [errorNoMetadata] result1 != nil ==> result0 == nil
//@   ensures [nameOfOwnerOnly] result1 == nil ==> result0.Name == defaultgrouper.pgName(topOwner)
//@   ensures [ownerRef] result1 == nil ==> defaultgrouper.baseOwnerRef(result0, topOwner)
//@ end
