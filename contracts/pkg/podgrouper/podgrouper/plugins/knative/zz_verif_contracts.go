//go:build verif

// Contracts for govc (contract-based deductive verification); comments only.
package knative

// ---- ASSUMED models of the API reads and library calls of this plugin ----
//@ define asU(o ref) *unstructured.Unstructured = unbox(o, "*unstructured.Unstructured")
//@ define asPG(o ref) *v2alpha2.PodGroup = unbox(o, "*v2alpha2.PodGroup")
//@ define asPodList(o ref) *v1.PodList = unbox(o, "*v1.PodList")
//@ define asPod(o ref) *v1.Pod = unbox(o, "*v1.Pod")
//@ func sigs.k8s.io/controller-runtime/pkg/client.Client.Get
//@   props C18
//@   requires obj != nil
//@   modifies fields(asU(obj)), fields(asPG(obj))
//@   ensures typeis(obj, "*unstructured.Unstructured") ==> result == defaultgrouper.getErr(defaultgrouper.ownerAPIVersion(asU(obj)), defaultgrouper.ownerKind(asU(obj)), key.Namespace, key.Name)
//@   ensures typeis(obj, "*unstructured.Unstructured") && result == nil ==> defaultgrouper.sameObject(asU(obj), defaultgrouper.stored(defaultgrouper.ownerAPIVersion(asU(obj)), defaultgrouper.ownerKind(asU(obj)), key.Namespace, key.Name))
//@   ensures typeis(obj, "*v2alpha2.PodGroup") ==> result == defaultgrouper.pgGetErr(key.Namespace, key.Name)
//@ end
//@ func sigs.k8s.io/controller-runtime/pkg/client.Client.List
//@   props C18
//@   requires list != nil
//@   modifies fields(asPodList(list))
//@ end
//@ func k8s.io/apimachinery/pkg/api/errors.IsNotFound
//@   props C18
//@   pure
//@   ensures result == defaultgrouper.isNotFound(err)
//@ end
//@ func golang.org/x/exp/maps.Keys
//@   fresh
//@   ensures [assumed] len(result) == len(m)
//@   note assumed library model of golang.org/x/exp/maps.Keys (reads the map, returns a new slice)
//@ end
// metav1.Object (library interface) as used by calcPodGroupName: the accessors of the two dynamic types it is given
//@ func k8s.io/apimachinery/pkg/apis/meta/v1.Object.GetName
//@   props C18
//@   pure
//@   ensures typeis(recv, "*unstructured.Unstructured") ==> result == defaultgrouper.ownerName(asU(recv))
//@   ensures typeis(recv, "*v1.Pod") ==> result == asPod(recv).Name
//@ end
//@ func k8s.io/apimachinery/pkg/apis/meta/v1.Object.GetUID
//@   props C18
//@   pure
//@   ensures typeis(recv, "*unstructured.Unstructured") ==> result == defaultgrouper.ownerUID(asU(recv))
//@   ensures typeis(recv, "*v1.Pod") ==> result == asPod(recv).UID
//@ end

// cluster state (ASSUMED a function of the revision's namespace/name within one reconcile): does the revision already
// have per-pod groups ("backwards compatible" revision), or does finding that out fail
//@ declare bcRevision(ns string, name string) bool
//@ declare bcFails(ns string, name string) bool
//@ func (*KnativeGrouper).isBCRevision
//@   props C18 C10
//@   requires g != nil && g.client != nil && revision != nil
//@   loop 1
//@     invariant rangeindex >= -1 && podGroups != nil
//@   ensures [errorMeansNo] result1 != nil ==> !result0
//@   trust [listDeterministic] (result1 != nil) == bcFails(defaultgrouper.ownerNamespace(revision), defaultgrouper.ownerName(revision))
//@   trust [bcOfClusterState] result1 == nil ==> result0 == bcRevision(defaultgrouper.ownerNamespace(revision), defaultgrouper.ownerName(revision))
//@   note trust: the pod listing with label selector (opaque client.ListOption values) and the scan of its result are an API read; assumed to be a function of (namespace, revision name) and cluster state
//@ end

// ENGINE LIMIT: strconv.Atoi is an uninterpreted function of the string (Atoi("1") == 1 is not known), so the default is
// written as the code writes it: the annotation value, or the literal "1", parsed; 1 when that does not parse.
//@ define minScaleStr(rev *unstructured.Unstructured) string = ite(knativeMinScaleAnnotation in defaultgrouper.ownerAnnotations(rev), defaultgrouper.ownerAnnotations(rev)[knativeMinScaleAnnotation], "1")
//@ define minScale(rev *unstructured.Unstructured) int = ite(tuple1(strconv.Atoi(minScaleStr(rev))) == nil, tuple0(strconv.Atoi(minScaleStr(rev))), 1)

// C18 (gang-scheduled revision): one PodGroup per Revision, owned by and named after the Revision; the minimum is the
// Revision's min-scale annotation (1 when absent or not a number). Functions of the Revision object and pod template.
// NOTE min-scale "0" (scale to zero) gives MinAvailable 0: the code promises >= 1 only for absent/unparsable values.
//@ func (*KnativeGrouper).getPodGroupFromRevision
//@   props C18 C10
//@   requires g != nil && g.DefaultGrouper != nil && revision != nil && pod != nil
//@   ensures [noError] result1 == nil && result0 != nil && fresh(result0)
//@   ensures [nameOfRevisionOnly] result0.Name == defaultgrouper.pgName(revision)
//@   ensures [ownerRef] defaultgrouper.baseOwnerRef(result0, revision)
//@   ensures [namespaceOfRevision] result0.Namespace == defaultgrouper.ownerNamespace(revision)
//@   ensures [minAvailableIsMinScale] result0.MinAvailable == minScale(revision)
//@   ensures [queue] result0.Queue == defaultgrouper.queueOf(g.DefaultGrouper, revision, pod)
//@   ensures [labels] defaultgrouper.baseLabels(result0, revision, pod)
//@   ensures [annotations] defaultgrouper.baseAnnotations(result0, revision, pod)
//@   ensures [priorityInferenceFallback] result0.PriorityClassName == defaultgrouper.ownerPrio(g.DefaultGrouper, revision, pod, constants.InferencePriorityClass)
//@   ensures [rest] result0.Preemptibility == "" && len(result0.SubGroups) == 0 && result0.Topology == "" && result0.RequiredTopologyLevel == "" && result0.PreferredTopologyLevel == ""
//@ end

// C18 "(one per pod for the kinds documented as per-pod)": without gang scheduling every Knative pod is its own group,
// owned by and named after the POD (documented per-pod inputs: pod name, UID, apiVersion, kind, namespace).
//@ func (*KnativeGrouper).getPodGroupFromPod
//@   props C18 C10
//@   requires g != nil && g.DefaultGrouper != nil && revision != nil && pod != nil
//@   ensures [noError] result1 == nil && result0 != nil && fresh(result0)
//@   ensures [namePerPod] result0.Name == fmt.Sprintf("%s-%s-%s", constants.PodGroupNamePrefix, pod.Name, pod.UID)
//@   ensures [ownerIsPod] result0.Owner.APIVersion == pod.APIVersion && result0.Owner.Kind == pod.Kind && result0.Owner.Name == pod.Name && result0.Owner.UID == pod.UID
//@   ensures [namespaceOfPod] result0.Namespace == pod.Namespace
//@   ensures [minAvailableOne] result0.MinAvailable == 1
//@   ensures [queue] result0.Queue == defaultgrouper.queueOf(g.DefaultGrouper, revision, pod)
//@   ensures [labels] defaultgrouper.baseLabels(result0, revision, pod)
//@   ensures [annotations] defaultgrouper.baseAnnotations(result0, revision, pod)
//@   ensures [priorityInference] result0.PriorityClassName == constants.InferencePriorityClass
//@   ensures [rest] result0.Preemptibility == "" && len(result0.SubGroups) == 0 && result0.Topology == "" && result0.RequiredTopologyLevel == "" && result0.PreferredTopologyLevel == ""
//@ end

// C18: the Knative metadata is a function of the REVISION named by the pod template's serving.knative.dev/revision label
// (as stored in the cluster), of the pod template, of the gang-scheduling switch and - for old revisions - of whether the
// revision already has per-pod groups (cluster state). C10: a missing label / unreadable revision is an error.
//@ define revOf(pod *v1.Pod) *unstructured.Unstructured = defaultgrouper.stored(defaultgrouper.apiVersionOf("serving.knative.dev", "v1"), "Revision", pod.Namespace, pod.Labels[knativeRevisionLabel])
//@ define revErr(pod *v1.Pod) bool = defaultgrouper.getErr(defaultgrouper.apiVersionOf("serving.knative.dev", "v1"), "Revision", pod.Namespace, pod.Labels[knativeRevisionLabel]) != nil
//@ define revBC(pod *v1.Pod) bool = bcRevision(defaultgrouper.ownerNamespace(revOf(pod)), defaultgrouper.ownerName(revOf(pod)))
//@ define revBCFails(pod *v1.Pod) bool = bcFails(defaultgrouper.ownerNamespace(revOf(pod)), defaultgrouper.ownerName(revOf(pod)))
//@ define perPod(g *KnativeGrouper, pod *v1.Pod) bool = !g.gangSchedule || revBC(pod)
//@ func (*KnativeGrouper).GetPodGroupMetadata
//@   props C18 C10
//@   requires g != nil && g.client != nil && g.DefaultGrouper != nil && pod != nil
//@   ensures [errIff] (result1 != nil) == (!(knativeRevisionLabel in pod.Labels) || revErr(pod) || (g.gangSchedule && revBCFails(pod)))
//@   ensures [errorNoMetadata] result1 != nil ==> result0 == nil
//@   ensures [fresh] result1 == nil ==> result0 != nil && fresh(result0)
//@   ensures [name] result1 == nil ==> result0.Name == ite(perPod(g, pod), fmt.Sprintf("%s-%s-%s", constants.PodGroupNamePrefix, pod.Name, pod.UID), defaultgrouper.pgName(revOf(pod)))
//@   ensures [ownerPerPod] result1 == nil && perPod(g, pod) ==> result0.Owner.APIVersion == pod.APIVersion && result0.Owner.Kind == pod.Kind && result0.Owner.Name == pod.Name && result0.Owner.UID == pod.UID
//@   ensures [ownerRevision] result1 == nil && !perPod(g, pod) ==> defaultgrouper.baseOwnerRef(result0, revOf(pod))
//@   ensures [namespace] result1 == nil ==> result0.Namespace == ite(perPod(g, pod), pod.Namespace, defaultgrouper.ownerNamespace(revOf(pod)))
//@   ensures [minAvailable] result1 == nil ==> result0.MinAvailable == ite(perPod(g, pod), 1, minScale(revOf(pod)))
//@   ensures [priority] result1 == nil ==> result0.PriorityClassName == ite(perPod(g, pod), constants.InferencePriorityClass, defaultgrouper.ownerPrio(g.DefaultGrouper, revOf(pod), pod, constants.InferencePriorityClass))
//@   ensures [queue] result1 == nil ==> result0.Queue == defaultgrouper.queueOf(g.DefaultGrouper, revOf(pod), pod)
//@   ensures [labels] result1 == nil ==> defaultgrouper.baseLabels(result0, revOf(pod), pod)
//@   ensures [annotations] result1 == nil ==> defaultgrouper.baseAnnotations(result0, revOf(pod), pod)
//@   ensures [rest] result1 == nil ==> result0.Preemptibility == "" && len(result0.SubGroups) == 0 && result0.Topology == ""
//@ end
