//go:build verif

// Contracts for govc (contract-based deductive verification); comments only.
package cronjobs

//@ import constants "github.com/NVIDIA/KAI-scheduler/pkg/podgrouper/podgrouper/plugins/constants"

// ASSUMED model of the API read this plugin makes (see defaultgrouper.stored)
//@ define asU(o ref) *unstructured.Unstructured = unbox(o, "*unstructured.Unstructured")
//@ func sigs.k8s.io/controller-runtime/pkg/client.Client.Get
//@   props C18
//@   requires obj != nil
//@   modifies fields(asU(obj))
//@   ensures typeis(obj, "*unstructured.Unstructured") ==> result == defaultgrouper.getErr(defaultgrouper.ownerAPIVersion(asU(obj)), defaultgrouper.ownerKind(asU(obj)), key.Namespace, key.Name)
//@   ensures typeis(obj, "*unstructured.Unstructured") && result == nil ==> defaultgrouper.sameObject(asU(obj), defaultgrouper.stored(defaultgrouper.ownerAPIVersion(asU(obj)), defaultgrouper.ownerKind(asU(obj)), key.Namespace, key.Name))
//@ end

// C10 "unknown / malformed owner objects give an error": no owner reference of kind Job = error, never a panic.
//@ define isFirstJobRef(refs []metav1.OwnerReference, i int) bool = 0 <= i && i < len(refs) && refs[i].Kind == "Job" && (forall j int :: 0 <= j && j < i ==> refs[j].Kind != "Job")
//@ func getJobOwnerReference
//@   props C18 C10
//@   loop 1
//@     invariant rangeindex >= -1
//@     invariant forall j int :: 0 <= j && j <= rangeindex ==> references[j].Kind != "Job"
//@   ensures [errIffNoJob] (result1 != nil) == (forall j int :: 0 <= j && j < len(references) ==> references[j].Kind != "Job")
//@   ensures [errorNoRef] (result1 != nil) == (result0 == nil)
//@   ensures [firstJobRef] forall i int :: isFirstJobRef(references, i) ==> result0 != nil && result0.Name == references[i].Name && result0.UID == references[i].UID
//@ end

// C18: a CronJob's pods are grouped per spawned Job: the metadata is the DEFAULT metadata of the Job named by the
// pod's first owner reference of kind Job, as stored in the cluster - a function of that Job object and the pod template.
//@ define jobOf(pod *v1.Pod, i int) *unstructured.Unstructured = defaultgrouper.stored(defaultgrouper.apiVersionOf("batch", "v1"), "Job", pod.Namespace, pod.OwnerReferences[i].Name)
//@ func (*CronJobGrouper).GetPodGroupMetadata
//@   props C18 C10
//@   requires cg != nil && cg.client != nil && cg.DefaultGrouper != nil && pod != nil
//@   ensures [errNoJobOwner] (forall j int :: 0 <= j && j < len(pod.OwnerReferences) ==> pod.OwnerReferences[j].Kind != "Job") ==> result1 != nil && result0 == nil
//@   ensures [errIffJobUnreadable] forall i int :: isFirstJobRef(pod.OwnerReferences, i) ==> (result1 != nil) == (defaultgrouper.getErr(defaultgrouper.apiVersionOf("batch", "v1"), "Job", pod.Namespace, pod.OwnerReferences[i].Name) != nil)
//@   ensures [errorNoMetadata] result1 != nil ==> result0 == nil
//@   ensures [nameOfJobOnly] forall i int :: isFirstJobRef(pod.OwnerReferences, i) && result1 == nil ==> result0.Name == defaultgrouper.pgName(jobOf(pod, i))
//@   ensures [ownerRef] forall i int :: isFirstJobRef(pod.OwnerReferences, i) && result1 == nil ==> defaultgrouper.baseOwnerRef(result0, jobOf(pod, i))
//@   ensures [common] forall i int :: isFirstJobRef(pod.OwnerReferences, i) && result1 == nil ==> defaultgrouper.baseCommon(result0, cg.DefaultGrouper, jobOf(pod, i), pod)
//@   ensures [priority] forall i int :: isFirstJobRef(pod.OwnerReferences, i) && result1 == nil ==> result0.PriorityClassName == defaultgrouper.ownerPrio(cg.DefaultGrouper, jobOf(pod, i), pod, constants.TrainPriorityClass)
//@   ensures [minAvailableOne] result1 == nil ==> result0.MinAvailable == 1 && len(result0.SubGroups) == 0
//@ end
