//go:build verif

// Contracts for govc (contract-based deductive verification); comments only.
package deployment

//@ import constants "github.com/NVIDIA/KAI-scheduler/pkg/podgrouper/podgrouper/plugins/constants"

// C18 "(one per pod for the kinds documented as per-pod)": a Deployment's replicas are independent inference
// servers, each pod gets its own PodGroup, named after and owned by the POD (name, UID, apiVersion, kind of the
// pod are therefore the documented per-pod inputs); everything else is the default metadata of the Deployment
// with the "inference" priority fallback.
//@ func (*DeploymentGrouper).GetPodGroupMetadata
//@   props C18
//@   requires dg != nil && dg.DefaultGrouper != nil && topOwner != nil && pod != nil
//@   ensures [noError] result1 == nil && result0 != nil && fresh(result0)
//@   ensures [namePerPod] result0.Name == fmt.Sprintf("%s-%s-%s", constants.PodGroupNamePrefix, pod.Name, pod.UID)
//@   ensures [ownerIsPod] result0.Owner.APIVersion == pod.APIVersion && result0.Owner.Kind == pod.Kind && result0.Owner.Name == pod.Name && result0.Owner.UID == pod.UID
//@   ensures [common] defaultgrouper.baseCommon(result0, dg.DefaultGrouper, topOwner, pod)
//@   ensures [priorityInferenceFallback] result0.PriorityClassName == defaultgrouper.ownerPrio(dg.DefaultGrouper, topOwner, pod, constants.InferencePriorityClass)
//@   ensures [minAvailableOne] result0.MinAvailable == 1 && len(result0.SubGroups) == 0
//@ end
