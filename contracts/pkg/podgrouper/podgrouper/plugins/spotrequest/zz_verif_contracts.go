//go:build verif

// Contracts for govc (contract-based deductive verification); comments only.
package spotrequest

//@ import constants "github.com/NVIDIA/KAI-scheduler/pkg/podgrouper/podgrouper/plugins/constants"

// C18: SPOTRequest = default metadata, except that the per-plugin priority fallback is "inference".
//@ func (*SpotRequestGrouper).GetPodGroupMetadata
//@   props C18
//@   requires srg != nil && srg.DefaultGrouper != nil && topOwner != nil && pod != nil
//@   ensures [noError] result1 == nil && result0 != nil && fresh(result0)
//@   ensures [nameOfOwnerOnly] result0.Name == defaultgrouper.pgName(topOwner)
//@   ensures [ownerRef] defaultgrouper.baseOwnerRef(result0, topOwner)
//@   ensures [common] defaultgrouper.baseCommon(result0, srg.DefaultGrouper, topOwner, pod)
//@   ensures [priorityInferenceFallback] result0.PriorityClassName == defaultgrouper.ownerPrio(srg.DefaultGrouper, topOwner, pod, constants.InferencePriorityClass)
//@   ensures [minAvailableOne] result0.MinAvailable == 1 && len(result0.SubGroups) == 0
//@ end
