//go:build verif

// Contracts for govc (contract-based deductive verification); comments only.
package podjob

//@ import constants "github.com/NVIDIA/KAI-scheduler/pkg/podgrouper/podgrouper/plugins/constants"
//@ import spark "github.com/NVIDIA/KAI-scheduler/pkg/podgrouper/podgrouper/plugins/spark"

// C18 "(one per pod for the kinds documented as per-pod)": a bare pod is its own top owner (topOwner IS the pod,
// as an unstructured object), so the default name pg-<pod name>-<pod UID> is per pod by construction; Spark pods
// (both spark labels on the pod template) are grouped per application by the selector label instead.
//@ define isSpark(pod *v1.Pod) bool = ("spark-app-name" in pod.Labels) && ("spark-app-selector" in pod.Labels)
//@ func (*PodJobGrouper).GetPodGroupMetadata
//@   props C18
//@   requires pjg != nil && pjg.DefaultGrouper != nil && pjg.SparkGrouper != nil && pjg.SparkGrouper.DefaultGrouper != nil && topOwner != nil && pod != nil
//@   ensures [noError] result1 == nil && result0 != nil && fresh(result0)
//@   ensures [name] result0.Name == ite(isSpark(pod), pod.Labels["spark-app-selector"], defaultgrouper.pgName(topOwner))
//@   ensures [ownerRef] defaultgrouper.baseOwnerRef(result0, topOwner)
//@   ensures [common] defaultgrouper.baseCommon(result0, ite(isSpark(pod), pjg.SparkGrouper.DefaultGrouper, pjg.DefaultGrouper), topOwner, pod)
//@   ensures [priority] result0.PriorityClassName == defaultgrouper.ownerPrio(ite(isSpark(pod), pjg.SparkGrouper.DefaultGrouper, pjg.DefaultGrouper), topOwner, pod, constants.TrainPriorityClass)
//@   ensures [minAvailableOne] result0.MinAvailable == 1 && len(result0.SubGroups) == 0
//@ end
