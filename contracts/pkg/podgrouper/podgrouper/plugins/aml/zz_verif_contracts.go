//go:build verif

// Contracts for govc (contract-based deductive verification); comments only.
package aml

//@ define amlCountPath() int = defaultgrouper.pk5("spec", "job", "options", "envs", "AZUREML_NODE_COUNT")

// C18 "minimum member count ... depend[s] only on the owner chain": the replica count is the node count
// stored in the AmlJob object, nothing else. C10: a missing / non-integer field is an error, not a panic.
//@ func getAmlJobReplicas
//@   props C18 C10
//@   requires amlJob != nil
//@   ensures [errIffMissing] (result1 != nil) == !defaultgrouper.nI64Found(amlJob.Object, amlCountPath())
//@   ensures [countOfOwner] result1 == nil ==> result0 == defaultgrouper.nI64(amlJob.Object, amlCountPath())
//@ end

//@ import constants "github.com/NVIDIA/KAI-scheduler/pkg/podgrouper/podgrouper/plugins/constants"
// C18: AmlJob = default metadata with MinAvailable = the node count of the job object. C10: missing count = error.
// NOTE the code does not promise MinAvailable >= 1 here: a stored count of 0 or less is passed through.
//@ func (*AmlGrouper).GetPodGroupMetadata
//@   props C18 C10
//@   requires amlGrouper != nil && amlGrouper.DefaultGrouper != nil && amlJob != nil && pod != nil
//@   ensures [errIffMissing] (result1 != nil) == !defaultgrouper.nI64Found(amlJob.Object, amlCountPath())
//@   ensures [errorNoMetadata] result1 != nil ==> result0 == nil
//@   ensures [fresh] result1 == nil ==> result0 != nil && fresh(result0)
//@   ensures [minAvailableOfOwner] result1 == nil ==> result0.MinAvailable == defaultgrouper.nI64(amlJob.Object, amlCountPath())
//@   ensures [nameOfOwnerOnly] result1 == nil ==> result0.Name == defaultgrouper.pgName(amlJob)
//@   ensures [ownerRef] result1 == nil ==> defaultgrouper.baseOwnerRef(result0, amlJob)
//@   ensures [common] result1 == nil ==> defaultgrouper.baseCommon(result0, amlGrouper.DefaultGrouper, amlJob, pod)
//@   ensures [priority] result1 == nil ==> result0.PriorityClassName == defaultgrouper.ownerPrio(amlGrouper.DefaultGrouper, amlJob, pod, constants.TrainPriorityClass)
//@   ensures [noSubGroups] result1 == nil ==> len(result0.SubGroups) == 0
//@ end
