//go:build verif

// Contracts for govc (contract-based deductive verification); comments only.
package job

//@ import constants "github.com/NVIDIA/KAI-scheduler/pkg/podgrouper/podgrouper/plugins/constants"

// ASSUMED model of the API reads this plugin makes: fetching a PodGroup has an outcome that is a function of the
// key (defaultgrouper.pgGetErr) and writes only the object handed in.
//@ define asPG(o ref) *v2alpha2.PodGroup = unbox(o, "*v2alpha2.PodGroup")
//@ func sigs.k8s.io/controller-runtime/pkg/client.Client.Get
//@   props C18
//@   requires obj != nil
//@   modifies fields(asPG(obj))
//@   ensures typeis(obj, "*v2alpha2.PodGroup") ==> result == defaultgrouper.pgGetErr(key.Namespace, key.Name)
//@ end
//@ func k8s.io/apimachinery/pkg/api/errors.IsNotFound
//@   props C18
//@   pure
//@   ensures result == defaultgrouper.isNotFound(err)
//@ end

//@ define parPath() int = defaultgrouper.pk2("spec", "parallelism")
//@ define isParallel(o *unstructured.Unstructured) bool = defaultgrouper.nI64Found(o.Object, parPath()) && defaultgrouper.nI64Err(o.Object, parPath()) == nil && defaultgrouper.nI64(o.Object, parPath()) > 1
// the name older releases gave the group: per pod for parallel jobs, per job otherwise
//@ define legacyName(o *unstructured.Unstructured, pod *v1.Pod) string = fmt.Sprintf("%s-%s-%s", constants.PodGroupNamePrefix, ite(isParallel(o), pod.Name, defaultgrouper.ownerName(o)), defaultgrouper.ownerUID(o))
//@ func calcLegacyName
//@   props C18 C10
//@   requires topOwner != nil && pod != nil
//@   pure
//@   ensures [legacyName] result == legacyName(topOwner, pod)
//@ end

// C18 "(one per pod for the kinds documented as per-pod)": every pod of a batch Job is scheduled on its own, so the
// group is per pod: pg-<pod name>-<job UID>; the pod NAME is the documented per-pod input, the pod's UID, index and
// status do not occur. With legacy search on, an existing legacy-named group is kept (cluster state).
//@ define legacyHit(g *K8sJobGrouper, o *unstructured.Unstructured, pod *v1.Pod) bool = g.searchForLegacyPodGroups && legacyName(o, pod) != "" && defaultgrouper.pgGetErr(pod.Namespace, legacyName(o, pod)) == nil
//@ define legacyFails(g *K8sJobGrouper, o *unstructured.Unstructured, pod *v1.Pod) bool = g.searchForLegacyPodGroups && legacyName(o, pod) != "" && defaultgrouper.pgGetErr(pod.Namespace, legacyName(o, pod)) != nil && !defaultgrouper.isNotFound(defaultgrouper.pgGetErr(pod.Namespace, legacyName(o, pod)))
//@ define jobPgName(g *K8sJobGrouper, o *unstructured.Unstructured, pod *v1.Pod) string = ite(legacyHit(g, o, pod), legacyName(o, pod), fmt.Sprintf("%s-%s-%s", constants.PodGroupNamePrefix, pod.Name, defaultgrouper.ownerUID(o)))
//@ func (*K8sJobGrouper).calcPodGroupName
//@   props C18 C10
//@   requires g != nil && g.client != nil && topOwner != nil && pod != nil
//@   ensures [errIffLookupFails] (result1 != nil) == legacyFails(g, topOwner, pod)
//@   ensures [name] result1 == nil ==> result0 == jobPgName(g, topOwner, pod)
//@ end

//@ func (*K8sJobGrouper).GetPodGroupMetadata
//@   props C18 C10
//@   requires g != nil && g.client != nil && g.DefaultGrouper != nil && topOwner != nil && pod != nil
//@   ensures [errIffLookupFails] (result1 != nil) == legacyFails(g, topOwner, pod)
//@   ensures [errorNoMetadata] result1 != nil ==> result0 == nil
//@   ensures [fresh] result1 == nil ==> result0 != nil && fresh(result0)
//@   ensures [namePerPod] result1 == nil ==> result0.Name == jobPgName(g, topOwner, pod)
//@   ensures [ownerRef] result1 == nil ==> defaultgrouper.baseOwnerRef(result0, topOwner)
//@   ensures [common] result1 == nil ==> defaultgrouper.baseCommon(result0, g.DefaultGrouper, topOwner, pod)
//@   ensures [priority] result1 == nil ==> result0.PriorityClassName == defaultgrouper.ownerPrio(g.DefaultGrouper, topOwner, pod, constants.TrainPriorityClass)
//@   ensures [minAvailableOne] result1 == nil ==> result0.MinAvailable == 1 && len(result0.SubGroups) == 0
//@ end
