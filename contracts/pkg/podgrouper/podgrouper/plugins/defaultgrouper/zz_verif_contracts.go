//go:build verif

// Contracts for govc (contract-based deductive verification); comments only.
package defaultgrouper

// ---- assumed models of k8s library accessors (nested map[string]interface{} walk, no body loaded):
// within one reconcile the owner object is not modified, so name and UID are functions of the object.
//@ declare ownerName(o *unstructured.Unstructured) string
//@ import types "k8s.io/apimachinery/pkg/types"
//@ declare ownerUID(o *unstructured.Unstructured) types.UID

//@ func (*k8s.io/apimachinery/pkg/apis/meta/v1/unstructured.Unstructured).GetName
//@   trusted
//@   note library accessor (NestedString over map[string]interface{}), body not loaded; read-only
//@   pure
//@   ensures result == ownerName(u)
//@ end

//@ func (*k8s.io/apimachinery/pkg/apis/meta/v1/unstructured.Unstructured).GetUID
//@   trusted
//@   note library accessor (NestedString over map[string]interface{}), body not loaded; read-only
//@   pure
//@   ensures result == ownerUID(u)
//@ end

// Property C18: "All pods with the same top-level owner are assigned to the same PodGroup ... whose
// name ... depend[s] only on the owner chain": the name is a function of (owner name, owner UID) only -
// not of the grouper instance, the pod, or anything else.
//@ func (*DefaultGrouper).CalcPodGroupName
//@   props C18
//@   requires topOwner != nil
//@   pure
//@   ensures [nameOfOwnerOnly] result == fmt.Sprintf("%s-%s-%s", constants.PodGroupNamePrefix, ownerName(topOwner), ownerUID(topOwner))
//@ end

//@ declare ownerLabels(o *unstructured.Unstructured) map[string]string

//@ func (*k8s.io/apimachinery/pkg/apis/meta/v1/unstructured.Unstructured).GetLabels
//@   trusted
//@   note library accessor (NestedStringMap copy of metadata.labels), body not loaded; the returned map is treated as a function of the object, read-only use
//@   pure
//@   ensures result == ownerLabels(u)
//@ end

//@ func (*k8s.io/apimachinery/pkg/apis/meta/v1.ObjectMeta).GetLabels
//@   trusted
//@   note library accessor, body not loaded: returns the Labels field
//@   pure
//@   ensures result == meta.Labels
//@ end

// Property C18: the pod group's labels "depend only on the owner chain and pod template": they are the
// top owner's labels, plus the pod's user label when the owner has none. Nothing else of the pod matters.
//@ func (*DefaultGrouper).CalcPodGroupLabels
//@   props C18
//@   requires topOwner != nil && pod != nil
//@   fresh
//@   ensures [ownerLabels] forall k string :: k != constants.UserLabelKey ==> ((k in result) == (k in ownerLabels(topOwner))) && result[k] == ownerLabels(topOwner)[k]
//@   ensures [userLabelKey] (constants.UserLabelKey in result) == ((constants.UserLabelKey in ownerLabels(topOwner)) || (constants.UserLabelKey in pod.Labels))
//@   ensures [userLabelValue] result[constants.UserLabelKey] == ite(constants.UserLabelKey in ownerLabels(topOwner), ownerLabels(topOwner)[constants.UserLabelKey], pod.Labels[constants.UserLabelKey])
//@ end

// Property C18: the queue "depend[s] only on the owner chain and pod template": the owner's queue label
// wins, then the pod's queue label, then the project label (owner first, then pod; suffixed with the
// pod's node-pool label if present), else the default queue. No other input.
//@ define projectOf(o *unstructured.Unstructured, pod *v1.Pod) string = ite(constants.ProjectLabelKey in ownerLabels(o), ownerLabels(o)[constants.ProjectLabelKey], pod.Labels[constants.ProjectLabelKey])
//@ define noQueueLabel(dg *DefaultGrouper, o *unstructured.Unstructured, pod *v1.Pod) bool = !(dg.queueLabelKey in ownerLabels(o)) && !(dg.queueLabelKey in pod.Labels)
//@ define projectPool(dg *DefaultGrouper, o *unstructured.Unstructured, pod *v1.Pod) string = fmt.Sprintf("%s-%s", projectOf(o, pod), pod.Labels[dg.nodePoolLabelKey])
//@ func (*DefaultGrouper).CalcPodGroupQueue
//@   props C18
//@   requires dg != nil && topOwner != nil && pod != nil
//@   pure
//@   ensures [ownerQueueLabelWins] (dg.queueLabelKey in ownerLabels(topOwner)) ==> result == ownerLabels(topOwner)[dg.queueLabelKey]
//@   ensures [podQueueLabelNext] !(dg.queueLabelKey in ownerLabels(topOwner)) && (dg.queueLabelKey in pod.Labels) ==> result == pod.Labels[dg.queueLabelKey]
//@   ensures [noProjectDefault] noQueueLabel(dg, topOwner, pod) && projectOf(topOwner, pod) == "" ==> result == constants.DefaultQueueName
//@   ensures [projectAlone] noQueueLabel(dg, topOwner, pod) && projectOf(topOwner, pod) != "" && !(dg.nodePoolLabelKey in pod.Labels) ==> result == projectOf(topOwner, pod)
//@   ensures [projectWithNodePool] noQueueLabel(dg, topOwner, pod) && projectOf(topOwner, pod) != "" && (dg.nodePoolLabelKey in pod.Labels) ==> result == ite(projectPool(dg, topOwner, pod) == "", constants.DefaultQueueName, projectPool(dg, topOwner, pod))
//@ end
