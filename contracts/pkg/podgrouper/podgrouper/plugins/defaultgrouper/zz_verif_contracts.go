//go:build verif

// Contracts for govc (contract-based deductive verification); comments only.
package defaultgrouper

// ---- assumed models of k8s library accessors (nested map[string]interface{} walk, no body loaded):
// within one reconcile the owner object is not modified, so name and UID are functions of the object.
//@ declare ownerName(o *unstructured.Unstructured) string
//@ import types "k8s.io/apimachinery/pkg/types"
//@ declare ownerUID(o *unstructured.Unstructured) types.UID

//@ func (*k8s.io/apimachinery/pkg/apis/meta/v1/unstructured.Unstructured).GetName
//@   trusted
//@   note library accessor (NestedString over map[string]interface{}), body not loaded; read-only
//@   pure
//@   ensures result == ownerName(u)
//@ end

//@ func (*k8s.io/apimachinery/pkg/apis/meta/v1/unstructured.Unstructured).GetUID
//@   trusted
//@   note library accessor (NestedString over map[string]interface{}), body not loaded; read-only
//@   pure
//@   ensures result == ownerUID(u)
//@ end

// Property C18: "All pods with the same top-level owner are assigned to the same PodGroup ... whose
// name ... depend[s] only on the owner chain": the name is a function of (owner name, owner UID) only -
// not of the grouper instance, the pod, or anything else.
//@ func (*DefaultGrouper).CalcPodGroupName
//@   props C18
//@   requires topOwner != nil
//@   pure
//@   ensures [nameOfOwnerOnly] result == fmt.Sprintf("%s-%s-%s", constants.PodGroupNamePrefix, ownerName(topOwner), ownerUID(topOwner))
//@ end

//@ declare ownerLabels(o *unstructured.Unstructured) map[string]string

//@ func (*k8s.io/apimachinery/pkg/apis/meta/v1/unstructured.Unstructured).GetLabels
//@   trusted
//@   note library accessor (NestedStringMap copy of metadata.labels), body not loaded; the returned map is treated as a function of the object, read-only use
//@   pure
//@   ensures result == ownerLabels(u)
//@ end

//@ func (*k8s.io/apimachinery/pkg/apis/meta/v1.ObjectMeta).GetLabels
//@   trusted
//@   note library accessor, body not loaded: returns the Labels field
//@   pure
//@   ensures result == meta.Labels
//@ end

// Property C18: the pod group's labels "depend only on the owner chain and pod template": they are the
// top owner's labels, plus the pod's user label when the owner has none. Nothing else of the pod matters.
//@ func (*DefaultGrouper).CalcPodGroupLabels
//@   props C18
//@   requires topOwner != nil && pod != nil
//@   fresh
//@   ensures [ownerLabels] forall k string :: k != constants.UserLabelKey ==> ((k in result) == (k in ownerLabels(topOwner))) && result[k] == ownerLabels(topOwner)[k]
//@   ensures [userLabelKey] (constants.UserLabelKey in result) == ((constants.UserLabelKey in ownerLabels(topOwner)) || (constants.UserLabelKey in pod.Labels))
//@   ensures [userLabelValue] result[constants.UserLabelKey] == ite(constants.UserLabelKey in ownerLabels(topOwner), ownerLabels(topOwner)[constants.UserLabelKey], pod.Labels[constants.UserLabelKey])
//@ end

// Property C18: the queue "depend[s] only on the owner chain and pod template": the owner's queue label
// wins, then the pod's queue label, then the project label (owner first, then pod; suffixed with the
// pod's node-pool label if present), else the default queue. No other input.
//@ define projectOf(o *unstructured.Unstructured, pod *v1.Pod) string = ite(constants.ProjectLabelKey in ownerLabels(o), ownerLabels(o)[constants.ProjectLabelKey], pod.Labels[constants.ProjectLabelKey])
//@ define noQueueLabel(dg *DefaultGrouper, o *unstructured.Unstructured, pod *v1.Pod) bool = !(dg.queueLabelKey in ownerLabels(o)) && !(dg.queueLabelKey in pod.Labels)
//@ define projectPool(dg *DefaultGrouper, o *unstructured.Unstructured, pod *v1.Pod) string = fmt.Sprintf("%s-%s", projectOf(o, pod), pod.Labels[dg.nodePoolLabelKey])
//@ func (*DefaultGrouper).CalcPodGroupQueue
//@   props C18
//@   requires dg != nil && topOwner != nil && pod != nil
//@   pure
//@   ensures [ownerQueueLabelWins] (dg.queueLabelKey in ownerLabels(topOwner)) ==> result == ownerLabels(topOwner)[dg.queueLabelKey]
//@   ensures [podQueueLabelNext] !(dg.queueLabelKey in ownerLabels(topOwner)) && (dg.queueLabelKey in pod.Labels) ==> result == pod.Labels[dg.queueLabelKey]
//@   ensures [noProjectDefault] noQueueLabel(dg, topOwner, pod) && projectOf(topOwner, pod) == "" ==> result == constants.DefaultQueueName
//@   ensures [projectAlone] noQueueLabel(dg, topOwner, pod) && projectOf(topOwner, pod) != "" && !(dg.nodePoolLabelKey in pod.Labels) ==> result == projectOf(topOwner, pod)
//@   ensures [projectWithNodePool] noQueueLabel(dg, topOwner, pod) && projectOf(topOwner, pod) != "" && (dg.nodePoolLabelKey in pod.Labels) ==> result == ite(projectPool(dg, topOwner, pod) == "", constants.DefaultQueueName, projectPool(dg, topOwner, pod))
//@ end

// =====================================================================================================
// grp2: library model shared by every pod-grouper plugin (referenced from the plugin contract files as
// defaultgrouper.<name>). ASSUMED: the accessors of an unstructured object / of a decoded JSON tree are
// deterministic, read-only functions of (object, constant field path). Within one reconcile the owner
// object is not modified by anybody else, so these are functions of the object reference.
// =====================================================================================================

// ---- field paths: one uninterpreted key per path length (the engine cannot key a declare by a slice) ----
//@ declare pk1(a string) int
//@ declare pk2(a string, b string) int
//@ declare pk3(a string, b string, c string) int
//@ declare pk4(a string, b string, c string, d string) int
//@ declare pk5(a string, b string, c string, d string, e string) int
//@ declare pk6(a string, b string, c string, d string, e string, f string) int
//@ declare pkLong(n int) int
//@ define pathKey(f []string) int = ite(len(f) == 1, pk1(f[0]), ite(len(f) == 2, pk2(f[0], f[1]), ite(len(f) == 3, pk3(f[0], f[1], f[2]), ite(len(f) == 4, pk4(f[0], f[1], f[2], f[3]), ite(len(f) == 5, pk5(f[0], f[1], f[2], f[3], f[4]), ite(len(f) == 6, pk6(f[0], f[1], f[2], f[3], f[4], f[5]), pkLong(len(f))))))))

// ---- unstructured.Nested* : value / found / error as functions of (tree, path) ----
//@ declare nI64(o map[string]interface{}, p int) int
//@ declare nI64Found(o map[string]interface{}, p int) bool
//@ declare nI64Err(o map[string]interface{}, p int) error
//@ func k8s.io/apimachinery/pkg/apis/meta/v1/unstructured.NestedInt64
//@   trusted
//@   note library (apimachinery helpers.go): walks map[string]interface{} along the path; returns (0,false,nil) when absent, (0,false,err) when a step or the leaf has the wrong type
//@   pure
//@   ensures result0 == nI64(obj, pathKey(fields))
//@   ensures result1 == nI64Found(obj, pathKey(fields))
//@   ensures result2 == nI64Err(obj, pathKey(fields))
//@   ensures result2 != nil ==> !result1
//@   ensures !result1 ==> result0 == 0
//@ end

//@ declare nStr(o map[string]interface{}, p int) string
//@ declare nStrFound(o map[string]interface{}, p int) bool
//@ declare nStrErr(o map[string]interface{}, p int) error
//@ func k8s.io/apimachinery/pkg/apis/meta/v1/unstructured.NestedString
//@   trusted
//@   note library (apimachinery helpers.go), as NestedInt64 for a string leaf
//@   pure
//@   ensures result0 == nStr(obj, pathKey(fields))
//@   ensures result1 == nStrFound(obj, pathKey(fields))
//@   ensures result2 == nStrErr(obj, pathKey(fields))
//@   ensures result2 != nil ==> !result1
//@   ensures !result1 ==> result0 == ""
//@ end

//@ declare nBool(o map[string]interface{}, p int) bool
//@ declare nBoolFound(o map[string]interface{}, p int) bool
//@ declare nBoolErr(o map[string]interface{}, p int) error
//@ func k8s.io/apimachinery/pkg/apis/meta/v1/unstructured.NestedBool
//@   trusted
//@   note library (apimachinery helpers.go), as NestedInt64 for a bool leaf
//@   pure
//@   ensures result0 == nBool(obj, pathKey(fields))
//@   ensures result1 == nBoolFound(obj, pathKey(fields))
//@   ensures result2 == nBoolErr(obj, pathKey(fields))
//@   ensures result2 != nil ==> !result1
//@   ensures !result1 ==> !result0
//@ end

// ---- remaining accessors of *unstructured.Unstructured (ASSUMED like GetName/GetUID/GetLabels above) ----
//@ declare ownerAnnotations(o *unstructured.Unstructured) map[string]string
//@ declare ownerAPIVersion(o *unstructured.Unstructured) string
//@ declare ownerKind(o *unstructured.Unstructured) string
//@ declare ownerNamespace(o *unstructured.Unstructured) string
// group / version halves of an apiVersion string ("group/version" or "version"): schema.ParseGroupVersion
//@ declare gvGroup(apiVersion string) string
//@ declare gvVersion(apiVersion string) string
// GroupKind.String(): "Kind.group" or "Kind"
//@ declare gkString(group string, kind string) string

//@ func (*k8s.io/apimachinery/pkg/apis/meta/v1/unstructured.Unstructured).GetAnnotations
//@   trusted
//@   note library accessor (NestedStringMap copy of metadata.annotations), body not loaded; the returned map is treated as a function of the object, read-only use
//@   pure
//@   ensures result == ownerAnnotations(u)
//@ end
//@ func (*k8s.io/apimachinery/pkg/apis/meta/v1/unstructured.Unstructured).GetAPIVersion
//@   trusted
//@   note library accessor, body not loaded; read-only
//@   pure
//@   ensures result == ownerAPIVersion(u)
//@ end
//@ func (*k8s.io/apimachinery/pkg/apis/meta/v1/unstructured.Unstructured).GetKind
//@   trusted
//@   note library accessor, body not loaded; read-only
//@   pure
//@   ensures result == ownerKind(u)
//@ end
//@ func (*k8s.io/apimachinery/pkg/apis/meta/v1/unstructured.Unstructured).GetNamespace
//@   trusted
//@   note library accessor, body not loaded; read-only
//@   pure
//@   ensures result == ownerNamespace(u)
//@ end
//@ func (*k8s.io/apimachinery/pkg/apis/meta/v1/unstructured.Unstructured).GroupVersionKind
//@   trusted
//@   note library: schema.FromAPIVersionAndKind(u.GetAPIVersion(), u.GetKind()); body not loaded
//@   pure
//@   ensures result.Group == gvGroup(ownerAPIVersion(u))
//@   ensures result.Version == gvVersion(ownerAPIVersion(u))
//@   ensures result.Kind == ownerKind(u)
//@ end
//@ func (*k8s.io/apimachinery/pkg/apis/meta/v1.TypeMeta).GroupVersionKind
//@   trusted
//@   note library: schema.FromAPIVersionAndKind(obj.APIVersion, obj.Kind); body not loaded
//@   pure
//@   ensures result.Group == gvGroup(obj.APIVersion)
//@   ensures result.Version == gvVersion(obj.APIVersion)
//@   ensures result.Kind == obj.Kind
//@ end
//@ func (k8s.io/apimachinery/pkg/runtime/schema.GroupVersionKind).GroupKind
//@   trusted
//@   note library: projection, body not loaded
//@   pure
//@   ensures result.Group == gvk.Group
//@   ensures result.Kind == gvk.Kind
//@ end
//@ func (k8s.io/apimachinery/pkg/runtime/schema.GroupKind).String
//@   trusted
//@   note library: "Kind.group" / "Kind"; an uninterpreted function of the two strings
//@   pure
//@   ensures result == gkString(gk.Group, gk.Kind)
//@ end

// ---- ObjectMeta accessors (one-line field getters in the library, body not loaded) ----
//@ func (*k8s.io/apimachinery/pkg/apis/meta/v1.ObjectMeta).GetAnnotations
//@   trusted
//@   note library accessor, body not loaded: returns the Annotations field
//@   pure
//@   ensures result == meta.Annotations
//@ end
//@ func (*k8s.io/apimachinery/pkg/apis/meta/v1.ObjectMeta).GetName
//@   trusted
//@   note library accessor, body not loaded: returns the Name field
//@   pure
//@   ensures result == meta.Name
//@ end
//@ func (*k8s.io/apimachinery/pkg/apis/meta/v1.ObjectMeta).GetNamespace
//@   trusted
//@   note library accessor, body not loaded: returns the Namespace field
//@   pure
//@   ensures result == meta.Namespace
//@ end
//@ func (*k8s.io/apimachinery/pkg/apis/meta/v1.ObjectMeta).GetUID
//@   trusted
//@   note library accessor, body not loaded: returns the UID field
//@   pure
//@   ensures result == meta.UID
//@ end

// ---- cluster reads (ASSUMED): within one reconcile "without external change" the API server's answers
// are functions of the key. pcExists(n): a PriorityClass named n can be fetched. cmExists/cmData: the
// defaults ConfigMap.
//@ declare pcExists(name string) bool
//@ declare cmExists(ns string, name string) bool
//@ declare cmData(ns string, name string) map[string]string
//@ import schedulingv1 "k8s.io/api/scheduling/v1"
//@ define asCM(o ref) *v1.ConfigMap = unbox(o, "*v1.ConfigMap")
//@ func sigs.k8s.io/controller-runtime/pkg/client.Reader.Get
//@   props C18
//@   requires obj != nil
//@   modifies fields(asCM(obj))
//@   ensures typeis(obj, "*schedulingv1.PriorityClass") ==> (result == nil) == pcExists(key.Name)
//@   ensures typeis(obj, "*v1.ConfigMap") ==> (result == nil) == cmExists(key.Namespace, key.Name)
//@   ensures typeis(obj, "*v1.ConfigMap") && result == nil ==> asCM(obj).Data == cmData(key.Namespace, key.Name)
//@ end

// C18 "priority class ... depend[s] only on the owner chain and pod template": the explicitly requested
// class is the owner's priorityClassName label, else the pod's label, else the pod spec's class.
//@ define pcLabelOf(ownerLabels map[string]string, pod *v1.Pod) string = ite(constants.PriorityLabelKey in ownerLabels, ownerLabels[constants.PriorityLabelKey], ite(constants.PriorityLabelKey in pod.Labels, pod.Labels[constants.PriorityLabelKey], ite(len(pod.Spec.PriorityClassName) != 0, pod.Spec.PriorityClassName, "")))
//@ func (*DefaultGrouper).calcPodGroupPriorityClass
//@   props C18
//@   requires owner != nil && pod != nil
//@   pure
//@   ensures [requestedClass] result == pcLabelOf(owner.Labels, pod)
//@ end

// a requested class counts only if it names a PriorityClass that exists in the cluster
//@ define pcValid(dg *DefaultGrouper, name string) bool = name != "" && dg.kubeReader != nil && pcExists(name)
//@ func (*DefaultGrouper).validatePriorityClassExists
//@   props C18
//@   requires dg != nil
//@   pure
//@   ensures [validIffExists] result == pcValid(dg, priorityClassName)
//@ end

// ---- per-kind defaults (ConfigMap) ----
// selectDefaultsForKind: the entry stored under "Kind.group", else the one stored under "Kind".
//@ define dfltUsable(m map[string]workloadTypePriorityConfig, group string, kind string) bool = m != nil && len(m) != 0 && gkString(group, kind) != ""
//@ define dfltFound(m map[string]workloadTypePriorityConfig, group string, kind string) bool = dfltUsable(m, group, kind) && ((gkString(group, kind) in m) || (kind in m))
//@ define dfltPrio(m map[string]workloadTypePriorityConfig, group string, kind string) string = ite(gkString(group, kind) in m, m[gkString(group, kind)].PriorityName, m[kind].PriorityName)
//@ define dfltPreempt(m map[string]workloadTypePriorityConfig, group string, kind string) string = ite(gkString(group, kind) in m, m[gkString(group, kind)].Preemptibility, m[kind].Preemptibility)
//@ func selectDefaultsForKind
//@   props C18
//@   pure
//@   ensures [found] result1 == (groupKind != nil && dfltFound(defaults, groupKind.Group, groupKind.Kind))
//@   ensures [prio] result0.PriorityName == ite(result1, dfltPrio(defaults, groupKind.Group, groupKind.Kind), "")
//@   ensures [preempt] result0.Preemptibility == ite(result1, dfltPreempt(defaults, groupKind.Group, groupKind.Kind), "")
//@ end

//@ define dfltPrioName(m map[string]workloadTypePriorityConfig, group string, kind string) string = ite(dfltFound(m, group, kind) && kind != "", dfltPrio(m, group, kind), "")
//@ func (*DefaultGrouper).getDefaultPriorityClassNameForKind
//@   props C18
//@   pure
//@   ensures [defaultOfKind] result == ite(groupKind != nil, dfltPrioName(defaultConfigs, groupKind.Group, groupKind.Kind), "")
//@ end

// json.Unmarshal (ASSUMED): writes only the decoded value behind v; for the defaults ConfigMap v is the
// address of the local []workloadTypePriorityConfig. The decoded content is a function of the text: see the
// `trust` clauses of parseConfigMapDataToDefaultConfigs.
//@ define asCfgs(v ref) *[]workloadTypePriorityConfig = unbox(v, "*[]workloadTypePriorityConfig")
//@ func encoding/json.Unmarshal
//@   props C18
//@   requires v != nil
//@   modifies *asCfgs(v)
//@ end

//@ func configsToMapPerGroupKind
//@   props C18 C10
//@   requires configs != nil
//@   fresh
//@   loop 1
//@     invariant res != nil && rangeindex >= -1
//@   ensures [nonNil] result != nil
//@ end

// content of the decoded defaults table as a function of the ConfigMap text
//@ declare cfgBad(data string) bool
//@ declare cfgLen(data string) int
//@ declare cfgHas(data string, k string) bool
//@ declare cfgPrioOf(data string, k string) string
//@ declare cfgPreemptOf(data string, k string) string
//@ define cfgIs(m map[string]workloadTypePriorityConfig, data string) bool = m != nil && len(m) == cfgLen(data) && (forall k string :: ((k in m) == cfgHas(data, k)) && m[k].PriorityName == cfgPrioOf(data, k) && m[k].Preemptibility == cfgPreemptOf(data, k))
// C10 "completes on any API state": a missing ConfigMap payload is an error result, never a panic.
//@ func parseConfigMapDataToDefaultConfigs
//@   props C18 C10
//@   fresh
//@   ensures [emptyIsError] (cm == nil || cm.Data == nil || !(constants.DefaultPrioritiesConfigMapTypesKey in cm.Data)) ==> result1 != nil && result0 == nil
//@   ensures [errorNoMap] result1 != nil ==> result0 == nil
//@   trust [decodeError] !(cm == nil || cm.Data == nil || !(constants.DefaultPrioritiesConfigMapTypesKey in cm.Data)) ==> (result1 != nil) == cfgBad(cm.Data[constants.DefaultPrioritiesConfigMapTypesKey])
//@   trust [decodeDeterministic] result1 == nil ==> cfgIs(result0, cm.Data[constants.DefaultPrioritiesConfigMapTypesKey])
//@   note trust: encoding/json decoding (reflection) is outside the subset; assumed to be a deterministic function of the text
//@ end

// C18 "without external change": the defaults table is a function of the grouper's configuration and the
// ConfigMap stored in the cluster. Not configured = empty table, no error.
//@ define cfgConfigured(dg *DefaultGrouper) bool = dg.defaultConfigPerTypeConfigMapName != "" && dg.defaultConfigPerTypeConfigMapNamespace != "" && dg.kubeReader != nil
//@ define cfgText(dg *DefaultGrouper) string = cmData(dg.defaultConfigPerTypeConfigMapNamespace, dg.defaultConfigPerTypeConfigMapName)[constants.DefaultPrioritiesConfigMapTypesKey]
//@ define cfgFails(dg *DefaultGrouper) bool = cfgConfigured(dg) && (!cmExists(dg.defaultConfigPerTypeConfigMapNamespace, dg.defaultConfigPerTypeConfigMapName) || cmData(dg.defaultConfigPerTypeConfigMapNamespace, dg.defaultConfigPerTypeConfigMapName) == nil || !(constants.DefaultPrioritiesConfigMapTypesKey in cmData(dg.defaultConfigPerTypeConfigMapNamespace, dg.defaultConfigPerTypeConfigMapName)) || cfgBad(cfgText(dg)))
//@ func (*DefaultGrouper).getDefaultConfigsPerTypeMapping
//@   props C18 C10
//@   requires dg != nil
//@   fresh
//@   ensures [errIff] (result1 != nil) == cfgFails(dg)
//@   ensures [unconfiguredEmpty] !cfgConfigured(dg) ==> result0 != nil && len(result0) == 0
//@   ensures [tableOfConfigMap] cfgConfigured(dg) && result1 == nil ==> cfgIs(result0, cfgText(dg))
//@   ensures [errorNoMap] result1 != nil ==> result0 == nil
//@ end

// ---- priority class of a workload -------------------------------------------------------------------
// the per-kind default, read off the ConfigMap text (no table object involved: a function of cluster state)
//@ define tFound(data string, group string, kind string) bool = cfgLen(data) != 0 && gkString(group, kind) != "" && (cfgHas(data, gkString(group, kind)) || cfgHas(data, kind))
//@ define tPrioName(data string, group string, kind string) string = ite(tFound(data, group, kind) && kind != "", ite(cfgHas(data, gkString(group, kind)), cfgPrioOf(data, gkString(group, kind)), cfgPrioOf(data, kind)), "")
//@ define tPreempt(data string, group string, kind string) string = ite(tFound(data, group, kind), ite(cfgHas(data, gkString(group, kind)), cfgPreemptOf(data, gkString(group, kind)), cfgPreemptOf(data, kind)), "")
//@ define dgPrioDefault(dg *DefaultGrouper, group string, kind string) string = ite(cfgConfigured(dg), tPrioName(cfgText(dg), group, kind), "")
//@ define dgPreemptDefault(dg *DefaultGrouper, group string, kind string) string = ite(cfgConfigured(dg), tPreempt(cfgText(dg), group, kind), "")
// m is the defaults table of dg (as produced by getDefaultConfigsPerTypeMapping)
//@ define tableOf(dg *DefaultGrouper, m map[string]workloadTypePriorityConfig) bool = ite(cfgConfigured(dg), cfgIs(m, cfgText(dg)), m != nil && len(m) == 0)

//@ define ownerPc(o *metav1.PartialObjectMetadata, pod *v1.Pod) string = pcLabelOf(o.Labels, pod)
//@ define ownerDfltPc(dg *DefaultGrouper, o *metav1.PartialObjectMetadata) string = dgPrioDefault(dg, gvGroup(o.APIVersion), o.Kind)
//@ define noExplicitPc(dg *DefaultGrouper, owners []*metav1.PartialObjectMetadata, pod *v1.Pod) bool = forall i int :: 0 <= i && i < len(owners) ==> !pcValid(dg, ownerPc(owners[i], pod))
//@ define noDefaultPc(dg *DefaultGrouper, owners []*metav1.PartialObjectMetadata) bool = forall i int :: 0 <= i && i < len(owners) ==> !pcValid(dg, ownerDfltPc(dg, owners[i]))

// C18 "priority class ... depend[s] only on the owner chain and pod template, not on which pod is reconciled
// first or how often": the class is (1) the explicitly requested class of the FIRST owner in the chain whose
// request names an existing PriorityClass, else (2) on a broken defaults ConfigMap the per-plugin fallback,
// else (3) the per-kind default of the FIRST owner whose default exists, else (4) the per-plugin fallback.
// Every input is an owner label / kind, a pod-template field (labels, spec.priorityClassName) or cluster state.
//@ func (*DefaultGrouper).calcPriorityClassWithDefaults
//@   props C18
//@   requires dg != nil && pod != nil
//@   requires forall i int :: 0 <= i && i < len(allOwners) ==> allOwners[i] != nil
//@   loop 1
//@     invariant rangeindex >= -1
//@     invariant forall i int :: 0 <= i && i <= rangeindex ==> !pcValid(dg, ownerPc(allOwners[i], pod))
//@   loop 2
//@     invariant rangeindex >= -1
//@     invariant forall i int :: 0 <= i && i <= rangeindex ==> !pcValid(dg, ownerDfltPc(dg, allOwners[i]))
//@   ensures [explicitFirst] forall i int :: 0 <= i && i < len(allOwners) && pcValid(dg, ownerPc(allOwners[i], pod)) && (forall j int :: 0 <= j && j < i ==> !pcValid(dg, ownerPc(allOwners[j], pod))) ==> result0 == ownerPc(allOwners[i], pod) && result1 == nil
//@   ensures [configError] noExplicitPc(dg, allOwners, pod) && cfgFails(dg) ==> result0 == defaultPriorityClassForJob && result1 == nil
//@   ensures [defaultFirst] noExplicitPc(dg, allOwners, pod) && !cfgFails(dg) ==> (forall i int :: 0 <= i && i < len(allOwners) && pcValid(dg, ownerDfltPc(dg, allOwners[i])) && (forall j int :: 0 <= j && j < i ==> !pcValid(dg, ownerDfltPc(dg, allOwners[j]))) ==> result0 == ownerDfltPc(dg, allOwners[i]))
//@   ensures [fallback] noExplicitPc(dg, allOwners, pod) && !cfgFails(dg) && noDefaultPc(dg, allOwners) ==> result0 == defaultPriorityClassForJob
//@   ensures [table] result1 == nil || (tableOf(dg, result1) && !cfgFails(dg))
//@   ensures [tableWhenSearched] noExplicitPc(dg, allOwners, pod) && !cfgFails(dg) ==> result1 != nil
//@ end

// ---- preemptibility of a workload ---------------------------------------------------------------------
//@ define prValid(s string) bool = s == "preemptible" || s == "non-preemptible" || s == ""
//@ define ownerPrOK(o *metav1.PartialObjectMetadata) bool = (constants.PreemptibilityLabelKey in o.Labels) && prValid(o.Labels[constants.PreemptibilityLabelKey])
//@ define podPrOK(pod *v1.Pod) bool = (constants.PreemptibilityLabelKey in pod.Labels) && prValid(pod.Labels[constants.PreemptibilityLabelKey])
//@ define noExplicitPr(owners []*metav1.PartialObjectMetadata, pod *v1.Pod) bool = (forall i int :: 0 <= i && i < len(owners) ==> !ownerPrOK(owners[i])) && !podPrOK(pod)
//@ define ownerDfltPr(dg *DefaultGrouper, o *metav1.PartialObjectMetadata) string = strings.ToLower(dgPreemptDefault(dg, gvGroup(o.APIVersion), o.Kind))
//@ define ownerDfltPrOK(dg *DefaultGrouper, o *metav1.PartialObjectMetadata) bool = dgPreemptDefault(dg, gvGroup(o.APIVersion), o.Kind) != "" && prValid(ownerDfltPr(dg, o))

// C18 "preemptibility ... depend[s] only on the owner chain and pod template": (1) the first owner in the chain
// carrying a well-formed kai.scheduler/preemptibility label, else (2) the pod's label, else (3) the per-kind default
// of the first owner that has a well-formed one, else "" (priority-derived). A broken defaults ConfigMap gives "".
//@ func (*DefaultGrouper).calcPodGroupPreemptibilityWithDefaults
//@   props C18
//@   requires dg != nil && pod != nil
//@   requires forall i int :: 0 <= i && i < len(allOwners) ==> allOwners[i] != nil
//@   requires defaults == nil || (tableOf(dg, defaults) && !cfgFails(dg))
//@   loop 1
//@     invariant rangeindex >= -1
//@     invariant forall i int :: 0 <= i && i <= rangeindex ==> !ownerPrOK(allOwners[i])
//@   loop 2
//@     invariant rangeindex >= -1
//@     invariant forall i int :: 0 <= i && i <= rangeindex ==> !ownerDfltPrOK(dg, allOwners[i])
//@   ensures [explicitFirst] forall i int :: 0 <= i && i < len(allOwners) && ownerPrOK(allOwners[i]) && (forall j int :: 0 <= j && j < i ==> !ownerPrOK(allOwners[j])) ==> result == allOwners[i].Labels[constants.PreemptibilityLabelKey]
//@   ensures [podLabel] (forall i int :: 0 <= i && i < len(allOwners) ==> !ownerPrOK(allOwners[i])) && podPrOK(pod) ==> result == pod.Labels[constants.PreemptibilityLabelKey]
//@   ensures [configError] noExplicitPr(allOwners, pod) && cfgFails(dg) ==> result == ""
//@   ensures [defaultFirst] noExplicitPr(allOwners, pod) && !cfgFails(dg) ==> (forall i int :: 0 <= i && i < len(allOwners) && ownerDfltPrOK(dg, allOwners[i]) && (forall j int :: 0 <= j && j < i ==> !ownerDfltPrOK(dg, allOwners[j])) ==> result == ownerDfltPr(dg, allOwners[i]))
//@   ensures [none] noExplicitPr(allOwners, pod) && !cfgFails(dg) && (forall i int :: 0 <= i && i < len(allOwners) ==> !ownerDfltPrOK(dg, allOwners[i])) ==> result == ""
//@   ensures [wellFormed] prValid(result)
//@ end

// closed form of the priority class for a chain of ONE owner (labels, apiVersion, kind) - what every per-kind
// plugin gets when it calls the default grouper without the owner chain
//@ define prio1(dg *DefaultGrouper, labels map[string]string, apiVersion string, kind string, pod *v1.Pod, dflt string) string = ite(pcValid(dg, pcLabelOf(labels, pod)), pcLabelOf(labels, pod), ite(cfgFails(dg), dflt, ite(pcValid(dg, dgPrioDefault(dg, gvGroup(apiVersion), kind)), dgPrioDefault(dg, gvGroup(apiVersion), kind), dflt)))
//@ define ownerPrio(dg *DefaultGrouper, o *unstructured.Unstructured, pod *v1.Pod, dflt string) string = prio1(dg, ownerLabels(o), ownerAPIVersion(o), ownerKind(o), pod, dflt)

// C18: the priority class computed from the top owner alone is a function of the owner's labels and kind, the
// pod-template fields (priorityClassName label / spec) and cluster state; the fallback is the caller's constant.
//@ func (*DefaultGrouper).CalcPodGroupPriorityClass
//@   props C18
//@   requires dg != nil && pod != nil && topOwner != nil
//@   ensures [ofOwnerAndTemplate] result == ownerPrio(dg, topOwner, pod, defaultPriorityClassForJob)
//@ end

//@ func unstructuredToPartialObjectMetadata
//@   props C18
//@   requires topOwner != nil
//@   fresh
//@   ensures [typeMeta] result.APIVersion == ownerAPIVersion(topOwner) && result.Kind == ownerKind(topOwner)
//@   ensures [objectMeta] result.Name == ownerName(topOwner) && result.Namespace == ownerNamespace(topOwner) && result.Labels == ownerLabels(topOwner) && result.Annotations == ownerAnnotations(topOwner)
//@ end

// C18 "reconciling again without external change writes nothing": the annotations are the owner's annotations,
// plus the pod's "user" annotation and the marshalled top-owner record where the owner does not set those keys.
//@ import commonconsts "github.com/NVIDIA/KAI-scheduler/pkg/common/constants"
//@ define topYaml(o *unstructured.Unstructured) string = topowner.yamlOf(ownerName(o), ownerUID(o), gvGroup(ownerAPIVersion(o)), gvVersion(ownerAPIVersion(o)), ownerKind(o))
//@ define topYamlFails(o *unstructured.Unstructured) bool = topowner.yamlFails(ownerName(o), ownerUID(o), gvGroup(ownerAPIVersion(o)), gvVersion(ownerAPIVersion(o)), ownerKind(o))
//@ func (*DefaultGrouper).CalcPodGroupAnnotations
//@   props C18
//@   requires topOwner != nil && pod != nil
//@   fresh
//@   ensures [nonNil] result != nil
//@   ensures [keys] forall k string :: (k in result) == ((k in ownerAnnotations(topOwner)) || (k == constants.UserLabelKey && (constants.UserLabelKey in pod.Annotations)) || (k == commonconsts.TopOwnerMetadataKey && !topYamlFails(topOwner)))
//@   ensures [values] forall k string :: (k in result) ==> result[k] == ite(k in ownerAnnotations(topOwner), ownerAnnotations(topOwner)[k], ite(k == constants.UserLabelKey, pod.Annotations[constants.UserLabelKey], topYaml(topOwner)))
//@ end

// ---- the default PodGroup metadata -------------------------------------------------------------------------
// closed forms (functions of the top owner, the named pod-template fields, the grouper configuration, cluster state)
//@ define pgName(o *unstructured.Unstructured) string = fmt.Sprintf("%s-%s-%s", constants.PodGroupNamePrefix, ownerName(o), ownerUID(o))
//@ define queueOf(dg *DefaultGrouper, o *unstructured.Unstructured, pod *v1.Pod) string = ite(dg.queueLabelKey in ownerLabels(o), ownerLabels(o)[dg.queueLabelKey], ite(dg.queueLabelKey in pod.Labels, pod.Labels[dg.queueLabelKey], ite(projectOf(o, pod) == "", constants.DefaultQueueName, ite(dg.nodePoolLabelKey in pod.Labels, ite(projectPool(dg, o, pod) == "", constants.DefaultQueueName, projectPool(dg, o, pod)), projectOf(o, pod)))))
//@ define preempt1(dg *DefaultGrouper, labels map[string]string, apiVersion string, kind string, pod *v1.Pod) string = ite((constants.PreemptibilityLabelKey in labels) && prValid(labels[constants.PreemptibilityLabelKey]), labels[constants.PreemptibilityLabelKey], ite(podPrOK(pod), pod.Labels[constants.PreemptibilityLabelKey], ite(cfgFails(dg), "", ite(dgPreemptDefault(dg, gvGroup(apiVersion), kind) != "" && prValid(strings.ToLower(dgPreemptDefault(dg, gvGroup(apiVersion), kind))), strings.ToLower(dgPreemptDefault(dg, gvGroup(apiVersion), kind)), ""))))
//@ define ownerPreempt(dg *DefaultGrouper, o *unstructured.Unstructured, pod *v1.Pod) string = preempt1(dg, ownerLabels(o), ownerAPIVersion(o), ownerKind(o), pod)

// bundles used by the per-kind plugin contracts (defaultgrouper.baseXxx(result, ...)): "this part of the metadata is
// the default one", each a function of the top owner and of named pod-template fields only
//@ import podgroup "github.com/NVIDIA/KAI-scheduler/pkg/podgrouper/podgroup"
//@ define baseOwnerRef(m *podgroup.Metadata, o *unstructured.Unstructured) bool = m.Owner.APIVersion == ownerAPIVersion(o) && m.Owner.Kind == ownerKind(o) && m.Owner.Name == ownerName(o) && m.Owner.UID == ownerUID(o)
//@ define baseLabels(m *podgroup.Metadata, o *unstructured.Unstructured, pod *v1.Pod) bool = m.Labels != nil && (forall k string :: k != constants.UserLabelKey ==> ((k in m.Labels) == (k in ownerLabels(o))) && m.Labels[k] == ownerLabels(o)[k]) && ((constants.UserLabelKey in m.Labels) == ((constants.UserLabelKey in ownerLabels(o)) || (constants.UserLabelKey in pod.Labels))) && m.Labels[constants.UserLabelKey] == ite(constants.UserLabelKey in ownerLabels(o), ownerLabels(o)[constants.UserLabelKey], pod.Labels[constants.UserLabelKey])
//@ define baseAnnotations(m *podgroup.Metadata, o *unstructured.Unstructured, pod *v1.Pod) bool = m.Annotations != nil && (forall k string :: ((k in m.Annotations) == ((k in ownerAnnotations(o)) || (k == constants.UserLabelKey && (constants.UserLabelKey in pod.Annotations)) || (k == commonconsts.TopOwnerMetadataKey && !topYamlFails(o)))) && ((k in m.Annotations) ==> m.Annotations[k] == ite(k in ownerAnnotations(o), ownerAnnotations(o)[k], ite(k == constants.UserLabelKey, pod.Annotations[constants.UserLabelKey], topYaml(o)))))
//@ define baseTopology(m *podgroup.Metadata, o *unstructured.Unstructured) bool = m.PreferredTopologyLevel == ownerAnnotations(o)[constants.TopologyPreferredPlacementKey] && m.RequiredTopologyLevel == ownerAnnotations(o)[constants.TopologyRequiredPlacementKey] && m.Topology == ownerAnnotations(o)[constants.TopologyKey]

// Property C18: "[the PodGroup's] name, minimum member count, queue, priority class, preemptibility and sub-groups depend
// only on the owner chain and pod template, not on which pod is reconciled first or how often": every field of the
// default metadata is stated as a closed function of the top owner (name, UID, apiVersion, kind, labels, annotations),
// of the pod-template fields namespace / labels[user, queue, project, node-pool, priorityClassName, preemptibility] /
// annotations[user] / spec.priorityClassName, of the grouper configuration and of cluster state. The pod's name, UID,
// index, node and status do not occur.
//@ func (*DefaultGrouper).GetPodGroupMetadata
//@   props C18
//@   requires dg != nil && topOwner != nil && pod != nil
//@   requires forall i int :: 0 <= i && i < len(allOwners) ==> allOwners[i] != nil
//@   ensures [noError] result1 == nil && result0 != nil && fresh(result0)
//@   ensures [ownerRef] baseOwnerRef(result0, topOwner)
//@   ensures [namespace] result0.Namespace == pod.Namespace
//@   ensures [nameOfOwnerOnly] result0.Name == pgName(topOwner)
//@   ensures [queue] result0.Queue == queueOf(dg, topOwner, pod)
//@   ensures [labels] baseLabels(result0, topOwner, pod) && fresh(result0.Labels)
//@   ensures [annotations] baseAnnotations(result0, topOwner, pod) && fresh(result0.Annotations)
//@   ensures [minAvailableOne] result0.MinAvailable == 1
//@   ensures [noSubGroups] len(result0.SubGroups) == 0
//@   ensures [topology] baseTopology(result0, topOwner)
//@   ensures [priorityTopOwnerOnly] len(allOwners) == 0 ==> result0.PriorityClassName == ownerPrio(dg, topOwner, pod, constants.TrainPriorityClass)
//@   ensures [preemptibilityTopOwnerOnly] len(allOwners) == 0 ==> result0.Preemptibility == ownerPreempt(dg, topOwner, pod)
//@   ensures [preemptibilityWellFormed] prValid(result0.Preemptibility)
//@   # with an owner chain: first match along the chain (same four-step rule as calcPriorityClassWithDefaults)
//@   ensures [chainPriorityExplicitFirst] len(allOwners) > 0 ==> (forall i int :: 0 <= i && i < len(allOwners) && pcValid(dg, ownerPc(allOwners[i], pod)) && (forall j int :: 0 <= j && j < i ==> !pcValid(dg, ownerPc(allOwners[j], pod))) ==> result0.PriorityClassName == ownerPc(allOwners[i], pod))
//@   ensures [chainPriorityConfigError] len(allOwners) > 0 && noExplicitPc(dg, allOwners, pod) && cfgFails(dg) ==> result0.PriorityClassName == constants.TrainPriorityClass
//@   ensures [chainPriorityDefaultFirst] len(allOwners) > 0 && noExplicitPc(dg, allOwners, pod) && !cfgFails(dg) ==> (forall i int :: 0 <= i && i < len(allOwners) && pcValid(dg, ownerDfltPc(dg, allOwners[i])) && (forall j int :: 0 <= j && j < i ==> !pcValid(dg, ownerDfltPc(dg, allOwners[j]))) ==> result0.PriorityClassName == ownerDfltPc(dg, allOwners[i]))
//@   ensures [chainPriorityFallback] len(allOwners) > 0 && noExplicitPc(dg, allOwners, pod) && !cfgFails(dg) && noDefaultPc(dg, allOwners) ==> result0.PriorityClassName == constants.TrainPriorityClass
//@   ensures [chainPreemptExplicitFirst] len(allOwners) > 0 ==> (forall i int :: 0 <= i && i < len(allOwners) && ownerPrOK(allOwners[i]) && (forall j int :: 0 <= j && j < i ==> !ownerPrOK(allOwners[j])) ==> result0.Preemptibility == allOwners[i].Labels[constants.PreemptibilityLabelKey])
//@   ensures [chainPreemptPodLabel] len(allOwners) > 0 && (forall i int :: 0 <= i && i < len(allOwners) ==> !ownerPrOK(allOwners[i])) && podPrOK(pod) ==> result0.Preemptibility == pod.Labels[constants.PreemptibilityLabelKey]
//@   ensures [chainPreemptConfigError] len(allOwners) > 0 && noExplicitPr(allOwners, pod) && cfgFails(dg) ==> result0.Preemptibility == ""
//@   ensures [chainPreemptDefaultFirst] len(allOwners) > 0 && noExplicitPr(allOwners, pod) && !cfgFails(dg) ==> (forall i int :: 0 <= i && i < len(allOwners) && ownerDfltPrOK(dg, allOwners[i]) && (forall j int :: 0 <= j && j < i ==> !ownerDfltPrOK(dg, allOwners[j])) ==> result0.Preemptibility == ownerDfltPr(dg, allOwners[i]))
//@   ensures [chainPreemptNone] len(allOwners) > 0 && noExplicitPr(allOwners, pod) && !cfgFails(dg) && (forall i int :: 0 <= i && i < len(allOwners) ==> !ownerDfltPrOK(dg, allOwners[i])) ==> result0.Preemptibility == ""
//@ end
// the part of the default metadata that no per-kind plugin (except grove) overrides
//@ define baseCommon(m *podgroup.Metadata, dg *DefaultGrouper, o *unstructured.Unstructured, pod *v1.Pod) bool = m.Namespace == pod.Namespace && m.Queue == queueOf(dg, o, pod) && baseLabels(m, o, pod) && baseAnnotations(m, o, pod) && baseTopology(m, o) && m.Preemptibility == ownerPreempt(dg, o, pod)

// ---- cluster reads used by the per-kind plugins (ASSUMED functions of the key within one reconcile) ----
// outcome of fetching the PodGroup ns/name (nil = it exists); isNotFound classifies an error value
//@ declare pgGetErr(ns string, name string) error
//@ declare isNotFound(e error) bool
//@ axiom !isNotFound(nil)
// fetching an object as *unstructured.Unstructured: the outcome and the content are functions of (apiVersion, kind,
// namespace, name). stored(...) names "the object as stored in the cluster"; a successful Get makes the fetched object
// indistinguishable from it for every accessor the groupers use. (Accessors are rigid functions of the object
// reference: an unstructured object is configured (SetGroupVersionKind / SetAPIVersion / SetKind), fetched once and
// then only read. The one place that rewrites labels of a fetched object, skiptopowner.propagateMetadataDownChain, is
// handled separately.)
//@ declare stored(apiVersion string, kind string, ns string, name string) *unstructured.Unstructured
//@ declare getErr(apiVersion string, kind string, ns string, name string) error
//@ declare apiVersionOf(group string, version string) string
//@ define sameObject(a *unstructured.Unstructured, b *unstructured.Unstructured) bool = ownerName(a) == ownerName(b) && ownerUID(a) == ownerUID(b) && ownerLabels(a) == ownerLabels(b) && ownerAnnotations(a) == ownerAnnotations(b) && ownerAPIVersion(a) == ownerAPIVersion(b) && ownerKind(a) == ownerKind(b) && ownerNamespace(a) == ownerNamespace(b) && a.Object == b.Object
//@ func (*k8s.io/apimachinery/pkg/apis/meta/v1/unstructured.Unstructured).SetGroupVersionKind
//@   trusted
//@   note library: SetAPIVersion(gvk.GroupVersion().String()); SetKind(gvk.Kind) on an object nobody has read yet; rigid-accessor model (see stored)
//@   pure
//@   ensures ownerAPIVersion(u) == apiVersionOf(gvk.Group, gvk.Version) && ownerKind(u) == gvk.Kind
//@ end
//@ func (*k8s.io/apimachinery/pkg/apis/meta/v1/unstructured.Unstructured).SetAPIVersion
//@   trusted
//@   note library setter on an object nobody has read yet; rigid-accessor model (see stored)
//@   pure
//@   ensures ownerAPIVersion(u) == version
//@ end
//@ func (*k8s.io/apimachinery/pkg/apis/meta/v1/unstructured.Unstructured).SetKind
//@   trusted
//@   note library setter on an object nobody has read yet; rigid-accessor model (see stored)
//@   pure
//@   ensures ownerKind(u) == kind
//@ end

// NestedMap / NestedSlice / NestedStringSlice return deep copies; the copy is treated as a function of (tree, path)
// (read-only use by the groupers), its elements are opaque interface values (nested trees keep their identity, so the
// Nested* functions above apply to them again).
//@ declare nMap(o map[string]interface{}, p int) map[string]interface{}
//@ declare nMapFound(o map[string]interface{}, p int) bool
//@ declare nMapErr(o map[string]interface{}, p int) error
//@ func k8s.io/apimachinery/pkg/apis/meta/v1/unstructured.NestedMap
//@   trusted
//@   note library (apimachinery helpers.go), returns a deep copy: modelled as a function of (tree, path), read-only use
//@   pure
//@   ensures result0 == nMap(obj, pathKey(fields))
//@   ensures result1 == nMapFound(obj, pathKey(fields))
//@   ensures result2 == nMapErr(obj, pathKey(fields))
//@   ensures result2 != nil ==> !result1
//@   ensures !result1 ==> result0 == nil
//@   ensures result1 ==> result0 != nil
//@ end

//@ declare nSliceLen(o map[string]interface{}, p int) int
//@ declare nSliceAt(o map[string]interface{}, p int, i int) interface{}
//@ declare nSliceFound(o map[string]interface{}, p int) bool
//@ declare nSliceErr(o map[string]interface{}, p int) error
//@ axiom forall o map[string]interface{}, p int :: nSliceLen(o, p) >= 0
//@ func k8s.io/apimachinery/pkg/apis/meta/v1/unstructured.NestedSlice
//@   trusted
//@   note library (apimachinery helpers.go), returns a deep copy: length and elements modelled as functions of (tree, path), read-only use
//@   pure
//@   ensures len(result0) == ite(result1, nSliceLen(obj, pathKey(fields)), 0)
//@   ensures forall i int :: 0 <= i && i < len(result0) ==> result0[i] == nSliceAt(obj, pathKey(fields), i)
//@   ensures result1 == nSliceFound(obj, pathKey(fields))
//@   ensures result2 == nSliceErr(obj, pathKey(fields))
//@   ensures result2 != nil ==> !result1
//@ end

//@ declare nStrsLen(o map[string]interface{}, p int) int
//@ declare nStrsAt(o map[string]interface{}, p int, i int) string
//@ declare nStrsFound(o map[string]interface{}, p int) bool
//@ declare nStrsErr(o map[string]interface{}, p int) error
//@ axiom forall o map[string]interface{}, p int :: nStrsLen(o, p) >= 0
//@ func k8s.io/apimachinery/pkg/apis/meta/v1/unstructured.NestedStringSlice
//@   trusted
//@   note library (apimachinery helpers.go), returns a copy: length and elements modelled as functions of (tree, path)
//@   pure
//@   ensures len(result0) == ite(result1, nStrsLen(obj, pathKey(fields)), 0)
//@   ensures forall i int :: 0 <= i && i < len(result0) ==> result0[i] == nStrsAt(obj, pathKey(fields), i)
//@   ensures result1 == nStrsFound(obj, pathKey(fields))
//@   ensures result2 == nStrsErr(obj, pathKey(fields))
//@   ensures result2 != nil ==> !result1
//@ end
