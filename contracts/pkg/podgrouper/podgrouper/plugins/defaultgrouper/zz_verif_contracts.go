//go:build verif

// Contracts for govc (contract-based deductive verification); comments only.
package defaultgrouper

// ---- assumed models of k8s library accessors (nested map[string]interface{} walk, no body loaded):
// within one reconcile the owner object is not modified, so name and UID are functions of the object.
//@ declare ownerName(o *unstructured.Unstructured) string
//@ declare ownerUID(o *unstructured.Unstructured) string
//@ declare pgNameOf(name string, uid string) string

//@ func (*k8s.io/apimachinery/pkg/apis/meta/v1/unstructured.Unstructured).GetName
//@   trusted
//@   note library accessor (NestedString over map[string]interface{}), body not loaded; read-only
//@   pure
//@   ensures result == ownerName(u)
//@ end

//@ func (*k8s.io/apimachinery/pkg/apis/meta/v1/unstructured.Unstructured).GetUID
//@   trusted
//@   note library accessor (NestedString over map[string]interface{}), body not loaded; read-only
//@   pure
//@   ensures result == ownerUID(u)
//@ end

// Property C18: "All pods with the same top-level owner are assigned to the same PodGroup ... whose
// name ... depend[s] only on the owner chain": the name is a function of (owner name, owner UID) only -
// not of the grouper instance, the pod, or anything else.
//@ func (*DefaultGrouper).CalcPodGroupName
//@   props C18
//@   requires topOwner != nil
//@   pure
//@   ensures [nameOfOwnerOnly] result == pgNameOf(ownerName(topOwner), ownerUID(topOwner))
//@ end
