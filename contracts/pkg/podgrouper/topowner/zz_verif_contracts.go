//go:build verif

// Contracts for govc (contract-based deductive verification); comments only.
package topowner

// yaml.Marshal (reflection) is outside the subset: ASSUMED to be a deterministic function of the five fields.
//@ declare yamlOf(name string, uid types.UID, group string, version string, kind string) string
//@ declare yamlFails(name string, uid types.UID, group string, version string, kind string) bool
//@ func (*Metadata).MarshalYAML
//@   props C18
//@   trusted
//@   note gopkg.in/yaml.v3 Marshal works by reflection; assumed deterministic in the marshalled fields, read-only
//@   requires md != nil
//@   pure
//@   ensures result0 == yamlOf(md.Name, md.UID, md.Group, md.Version, md.Kind)
//@   ensures (result1 != nil) == yamlFails(md.Name, md.UID, md.Group, md.Version, md.Kind)
//@ end
