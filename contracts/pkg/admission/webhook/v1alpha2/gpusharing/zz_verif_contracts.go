//go:build verif

// Contracts for govc (contract-based deductive verification); comments only.
package gpusharing

// C19: "Anything the scheduler would treat as a GPU-sharing request is rejected by admission when
// malformed or when GPU sharing is disabled".  The scheduler treats a pod as a sharing request only if it
// carries a gpu-fraction or gpu-memory annotation (pod_info.updatePodAdditionalFields
// [sharing-implies-annotation]).
//@ define sharingRequested(pod *v1.Pod) bool = resources.hasFrac(pod) || resources.hasMem(pod)

// Admission verdict = sharing gate + the validator shared with the binder plugin (same function, so
// admission and binder validate identically by construction).
//@ func (*GPUSharing).Validate
//@   props C19
//@   ieee
//@   requires p != nil && pod != nil
//@   pure
//@   ensures [sharing-disabled] !p.gpuSharingEnabled && sharingRequested(pod) ==> result != nil
//@   ensures [accepts-iff] (result == nil) == ((p.gpuSharingEnabled || !sharingRequested(pod)) && !gpurequesthandler.badCombination(pod) && gpurequesthandler.valuesWellFormed(pod))
//@   ensures [accepted-is-wellformed] result == nil ==> gpurequesthandler.valuesWellFormed(pod) && !gpurequesthandler.badCombination(pod)
//@ end

// C19 "admission's mutation is idempotent": Mutate itself is only claimed for its guards (the config map
// name generator uses a random suffix and lives in gpusharingconfigmap, which has no contracts; the
// idempotence of the env / envFrom / volume edits is proved on the functions of pkg/binder/common).
// The call of common.GetFractionContainerRef is guarded: its precondition len(Containers) > 0 is proved here.
// assumed library contract: the decimal representation of an int has 1..20 characters (needed for the
// string slice bound in gpusharingconfigmap.generateConfigMapNamePrefix, inlined into Mutate)
//@ func strconv.Itoa
//@   trusted
//@   note library function: len(strconv.Itoa(i)) is between 1 and 20 for every int (64-bit)
//@   pure
//@   ensures len(result) >= 1 && len(result) <= 20
//@ end

//@ func (*GPUSharing).Mutate
//@   props C19
//@   requires p != nil && pod != nil
//@   modifies *
//@   ensures [no-containers-noop] old(len(pod.Spec.Containers)) == 0 ==> result == nil
//@   ensures [not-sharing-noop] !old(sharingRequested(pod)) ==> result == nil
//@ end
