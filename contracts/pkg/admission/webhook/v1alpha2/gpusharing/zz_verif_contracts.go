//go:build verif

// Contracts for govc (contract-based deductive verification); comments only.
package gpusharing

//@ import constants "github.com/NVIDIA/KAI-scheduler/pkg/common/constants"

// C19: "Anything the scheduler would treat as a GPU-sharing request is rejected by admission ...
// when GPU sharing is disabled".
//@ define sharingRequested(pod *v1.Pod) bool = constants.GpuFraction in pod.Annotations || constants.GpuMemory in pod.Annotations

//@ func (*GPUSharing).Validate
//@   props C19
//@   requires p != nil && pod != nil
//@   pure
//@   ensures [sharing-disabled] !p.gpuSharingEnabled && sharingRequested(pod) ==> result != nil
//@ end
