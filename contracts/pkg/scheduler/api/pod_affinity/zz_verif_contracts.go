//go:build verif

// Contracts for govc (contract-based deductive verification); comments only.
package pod_affinity

//@ func NodePodAffinityInfo.AddPod
//@   props C01 C02 C14 C13
//@   pure
//@   note assumed: the pod-affinity bookkeeping (a copy of the k8s scheduler framework NodeInfo) is outside the scheduler's resource model; no effect on any object the contracts mention
//@ end

//@ func NodePodAffinityInfo.RemovePod
//@   props C01 C02 C14 C13
//@   pure
//@   note assumed: as AddPod; the returned error is unconstrained
//@ end
