//go:build verif

// Contracts for govc (contract-based deductive verification); comments only.
package bindrequest_info

// C12: "The binder retries a failing request at most BackoffLimit times with the attempt count
// persisted, after which the request is observably failed to the scheduler."
// A request is terminally failed iff its phase is Failed and either no backoff limit is set or the
// persisted attempt counter has reached the limit.
//@ define brFailed(br *schedulingv1alpha2.BindRequest) bool = br.Status.Phase == "Failed" && (br.Spec.BackoffLimit == nil || br.Status.FailedAttempts >= *br.Spec.BackoffLimit)

//@ func (*BindRequestInfo).IsFailed
//@   props C12
//@   requires bri != nil && bri.BindRequest != nil
//@   pure
//@   ensures result == brFailed(bri.BindRequest)
//@ end

// Map key of a pod / request: a DETERMINISTIC function of (namespace, name). common_info.NewObjectKey
// builds it with fmt.Sprintf; the engine does not identify the results of two Sprintf calls with equal
// string arguments (the arguments are boxed into fresh interface values), and the only fact needed here
// is that equal arguments give equal keys.
//@ declare objKey(ns string, name string) string

//@ func NewKey
//@   props C12
//@   trusted
//@   note fmt.Sprintf (inside common_info.NewObjectKey): assumed to be a deterministic function of its two string arguments
//@   pure
//@   ensures result == objKey(namespace, name)
//@ end

//@ func NewKeyFromPod
//@   props C12
//@   requires pod != nil
//@   pure
//@   ensures result == objKey(pod.Namespace, pod.Name)
//@ end

//@ func NewKeyFromRequest
//@   props C12
//@   requires request != nil
//@   pure
//@   ensures result == objKey(request.Namespace, request.Spec.PodName)
//@ end

// C12: "terminally failed requests are deleted and their pods become schedulable again": the
// scheduler sees no bind request for the pod iff none is stored under the pod's key or the stored
// one is terminally failed; otherwise it sees exactly the stored one.
//@ func (BindRequestMap).GetBindRequestForPod
//@   props C12
//@   requires pod != nil
//@   requires forall k in brm :: brm[k] != nil && brm[k].BindRequest != nil
//@   pure
//@   ensures (result == nil) <==> (!(objKey(pod.Namespace, pod.Name) in brm) || brFailed(brm[objKey(pod.Namespace, pod.Name)].BindRequest))
//@   ensures result != nil ==> result == brm[objKey(pod.Namespace, pod.Name)]
//@ end
