//go:build verif

// Contracts for govc (contract-based deductive verification); comments only.
package bindrequest_info

// C12: "The binder retries a failing request at most BackoffLimit times with the attempt count
// persisted, after which the request is observably failed to the scheduler."
// A request is terminally failed iff its phase is Failed and either no backoff limit is set or the
// persisted attempt counter has reached the limit.
//@ define brFailed(br *schedulingv1alpha2.BindRequest) bool = br.Status.Phase == "Failed" && (br.Spec.BackoffLimit == nil || br.Status.FailedAttempts >= *br.Spec.BackoffLimit)

//@ func (*BindRequestInfo).IsFailed
//@   props C12
//@   requires bri != nil && bri.BindRequest != nil
//@   pure
//@   ensures result == brFailed(bri.BindRequest)
//@ end

// Map key of a pod / request: a DETERMINISTIC function of (namespace, name). common_info.NewObjectKey
// builds it with fmt.Sprintf; the engine does not identify the results of two Sprintf calls with equal
// string arguments (the arguments are boxed into fresh interface values), and the only fact needed here
// is that equal arguments give equal keys.
//@ declare objKey(ns string, name string) string

//@ func NewKey
//@   props C12
//@   trusted
//@   note fmt.Sprintf (inside common_info.NewObjectKey): assumed to be a deterministic function of its two string arguments
//@   pure
//@   ensures result == objKey(namespace, name)
//@ end

//@ func NewKeyFromPod
//@   props C12
//@   requires pod != nil
//@   pure
//@   ensures result == objKey(pod.Namespace, pod.Name)
//@ end

//@ func NewKeyFromRequest
//@   props C12
//@   requires request != nil
//@   pure
//@   ensures result == objKey(request.Namespace, request.Spec.PodName)
//@ end

// C12: "terminally failed requests are deleted and their pods become schedulable again": the
// scheduler sees no bind request for the pod iff none is stored under the pod's key or the stored
// one is terminally failed; otherwise it sees exactly the stored one.
//@ func (BindRequestMap).GetBindRequestForPod
//@   props C12
//@   requires pod != nil
//@   requires forall k in brm :: brm[k] != nil && brm[k].BindRequest != nil
//@   pure
//@   ensures (result == nil) <==> (!(objKey(pod.Namespace, pod.Name) in brm) || brFailed(brm[objKey(pod.Namespace, pod.Name)].BindRequest))
//@   ensures result != nil ==> result == brm[objKey(pod.Namespace, pod.Name)]
//@ end

// C13: "... leaves the scheduler's view of ... resource claims ... exactly as it was at that point": the
// snapshots kept in the undo log (Statement.Evict / Pipeline) are taken with Clone, and the DRA plugin's
// handlers write the live entries in place, so the copy must share neither the map nor any entry object
// with the original, while holding the same keys and claim names.
//@ define rciEntriesOK(rci ResourceClaimInfo) bool = forall k in rci :: rci[k] != nil
// c is a deep copy of the map m as it was in the pre-state: nil iff m is nil, same key set, every entry a
// new object with the same claim name
//@ define rciSameKeys(c ResourceClaimInfo, m ResourceClaimInfo) bool = forall k string :: (k in c) == old(k in m)
//@ define rciFreshEntries(c ResourceClaimInfo, m ResourceClaimInfo) bool = forall k in c :: c[k] != nil && fresh(c[k]) && c[k].Name == old(m[k].Name)

//@ func (ResourceClaimInfo).Clone
//@   props C13
//@   assume rciEntriesOK(rci)
//@   note assume rciEntriesOK: data invariant of the type - entries are only ever stored as `&ResourceClaimAllocation{...}` (here and in dynamicresources.allocateResourceClaim). It is an `assume`, not a `requires`, because (*pod_info.PodInfo).Clone and its many callers (owned by other contract files) would all have to carry it
//@   assume forall k in rci :: allocated(rci[k])
//@   note assume allocated: heap closure (a map cell of the pre-state cannot hold an object that is only allocated later); the engine knows it for a loaded value only relative to the allocation frontier at the load, not relative to the entry state
//@   loop 1
//@     invariant newrci != nil && fresh(newrci) && newrci != rci
//@     invariant forall k string :: (k in newrci) == (k in visited)
//@     invariant forall k in visited :: k in rci
//@     invariant forall k in visited :: newrci[k] != nil
//@     invariant forall k in visited :: fresh(newrci[k])
//@     invariant forall k in visited :: newrci[k].Name == old(rci[k].Name)
//@     invariant forall k in visited :: newrci[k].Allocation != nil ==> fresh(newrci[k].Allocation)
//@   ensures [nilIffNil] (result == nil) == (rci == nil)
//@   ensures [newMap] result != nil ==> fresh(result)
//@   ensures [sameKeys] rciSameKeys(result, rci)
//@   ensures [newEntries] rciFreshEntries(result, rci)
//@   ensures [newAllocations] forall k in result :: result[k].Allocation != nil ==> fresh(result[k].Allocation)
//@ end
