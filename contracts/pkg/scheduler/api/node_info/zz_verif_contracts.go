//go:build verif

// Contracts for govc (contract-based deductive verification); comments only.
package node_info

//@ import ri "github.com/NVIDIA/KAI-scheduler/pkg/scheduler/api/resource_info"

// ---- per-GPU memory arithmetic (C02) ----------------------------------------------------------
// GPU memory (MiB) a request needs on one device of this node: the explicit gpu-memory request, else the
// fraction of the device memory (truncated towards zero by the int64 conversion).
//@ define needMem(ni *NodeInfo, res *ri.ResourceRequirements) int = ite(res.gpuMemory > 0, res.gpuMemory, trunc(res.portion * real(ni.MemoryOfEveryGpuOnNode)))
// a memory amount as a fraction of one device, rounded up to 2 decimals
//@ define memFraction(ni *NodeInfo, memory int) real = real(ceil(real(memory) / real(ni.MemoryOfEveryGpuOnNode) * 100.0)) / 100.0
// portion of one device a request needs on this node
//@ define gpuPortion(ni *NodeInfo, res *ri.ResourceRequirements) real = ite(res.gpuMemory > 0, memFraction(ni, res.gpuMemory), res.portion)
// a portion is valid if it is at most one device or a whole number of devices
//@ define validPortion(ni *NodeInfo, res *ri.ResourceRequirements) bool = gpuPortion(ni, res) <= 1.0 || gpuPortion(ni, res) == real(trunc(gpuPortion(ni, res)))

//@ func (*NodeInfo).GetResourceGpuMemory
//@   props C01 C02 C14
//@   requires ni != nil && res != nil
//@   pure
//@   ensures result == needMem(ni, res)
//@ end

//@ func (*NodeInfo).getGpuMemoryFractionalOnNode
//@   props C01 C02 C14
//@   requires ni != nil && ni.MemoryOfEveryGpuOnNode > 0
//@   pure
//@   ensures result == memFraction(ni, memory)
//@ end

//@ func (*NodeInfo).getResourceGpuPortion
//@   props C01 C02 C14
//@   requires ni != nil && res != nil && ni.MemoryOfEveryGpuOnNode > 0
//@   pure
//@   ensures result == gpuPortion(ni, res)
//@ end

//@ func (*NodeInfo).isValidGpuPortion
//@   props C01 C02
//@   requires ni != nil && res != nil && ni.MemoryOfEveryGpuOnNode > 0
//@   pure
//@   ensures result == validPortion(ni, res)
//@ end

// ---- per-GPU-group fit checks (C02) ----------------------------------------------------------
// C02 (top-level): "the GPU-memory or fraction requests of the pods bound to [a GPU group] never add up to more than
// the device": a bind on an existing group needs room in what is allocated now (memory of terminating sharers
// is NOT counted as free), and a group unknown to the allocated map (only pipelined sharers) is never bindable.
//@ define idleRoomOnGpu(ni *NodeInfo, res *ri.ResourceRequirements, g string) bool = g in ni.AllocatedSharedGPUsMemory && ni.AllocatedSharedGPUsMemory[g] + needMem(ni, res) <= ni.MemoryOfEveryGpuOnNode
// room once the releasing sharers are gone (used for pipelining)
//@ define roomOnGpu(ni *NodeInfo, res *ri.ResourceRequirements, g string) bool = ni.AllocatedSharedGPUsMemory[g] - ni.ReleasingSharedGPUsMemory[g] + needMem(ni, res) <= ni.MemoryOfEveryGpuOnNode
//@ define allGpuReleased(ni *NodeInfo, g string) bool = ni.AllocatedSharedGPUsMemory[g] == ni.ReleasingSharedGPUsMemory[g]
//@ define fitsGpuGroup(ni *NodeInfo, res *ri.ResourceRequirements, g string) bool = ni.UsedSharedGPUsMemory[g] != 0 && roomOnGpu(ni, res, g) && !allGpuReleased(ni, g)
//@ define markedReleasing(ni *NodeInfo, g string) bool = g in ni.ReleasingSharedGPUs && ni.ReleasingSharedGPUs[g]
// every sharer of the group is terminating
//@ define gpuReleasingFromShared(ni *NodeInfo, g string) bool = g in ni.UsedSharedGPUsMemory && ni.UsedSharedGPUsMemory[g] != 0 && g in ni.ReleasingSharedGPUsMemory && ni.ReleasingSharedGPUsMemory[g] == ni.UsedSharedGPUsMemory[g]

//@ func (*NodeInfo).EnoughIdleResourcesOnGpu
//@   props C02
//@   requires ni != nil && resources != nil
//@   pure
//@   ensures result == idleRoomOnGpu(ni, resources, gpuGroup)
//@   ensures [top] result ==> ni.AllocatedSharedGPUsMemory[gpuGroup] + needMem(ni, resources) <= ni.MemoryOfEveryGpuOnNode
//@ end

//@ func (*NodeInfo).enoughResourcesOnGpu
//@   props C02 C01
//@   requires ni != nil && resources != nil
//@   pure
//@   ensures result == roomOnGpu(ni, resources, gpuGroup)
//@ end

//@ func (*NodeInfo).isAllGpuReleased
//@   props C02 C01
//@   requires ni != nil
//@   pure
//@   ensures result == allGpuReleased(ni, gpuGroup)
//@ end

//@ func (*NodeInfo).IsTaskFitOnGpuGroup
//@   props C02 C01
//@   requires ni != nil && resourceRequest != nil
//@   pure
//@   ensures result == fitsGpuGroup(ni, resourceRequest, gpuGroup)
//@ end

//@ func (*NodeInfo).isSharedGpuMarkedAsReleasing
//@   props C02 C14
//@   requires ni != nil
//@   pure
//@   ensures result == markedReleasing(ni, gpuGroup)
//@ end

//@ func (*NodeInfo).isGpuReleasingFromSharedTasks
//@   props C02 C14
//@   requires ni != nil
//@   pure
//@   ensures result == gpuReleasingFromShared(ni, gpuGroup)
//@ end

// Number of existing GPU groups the fractional request fits on, counted up to the number of devices asked for.
// (A count of a filtered key set has no closed form in the spec language: bounds and the exact zero/non-zero case.)
//@ func (*NodeInfo).fractionTaskGpusAllocatableDeviceCount
//@   props C02 C01
//@   requires ni != nil && pod != nil && pod.ResReq != nil
//@   pure
//@   loop 1
//@     invariant 0 <= matchingGpuGroupsCount && (matchingGpuGroupsCount > 0 ==> matchingGpuGroupsCount < pod.ResReq.count)
//@     invariant (matchingGpuGroupsCount == 0) == (forall g in visited :: !fitsGpuGroup(ni, pod.ResReq, g))
//@     invariant forall g in visited :: g in ni.UsedSharedGPUsMemory
//@   ensures 0 <= result && result <= max(pod.ResReq.count, 1)
//@   ensures (result == 0) == (forall g in ni.UsedSharedGPUsMemory :: !fitsGpuGroup(ni, pod.ResReq, g))
//@ end

// ---- C01: does a task fit an amount of node resources -------------------------------------------
// node object well-formed enough to be read (code-derived: nil-ness, and the per-GPU memory size is positive -
// `getNodeGpuMemory` yields 0 for a gpu.memory label below 100, see report)
//@ define nodeReadable(ni *NodeInfo) bool = ni != nil && ni.Idle != nil && ni.Releasing != nil && ni.Used != nil && ni.MemoryOfEveryGpuOnNode > 0
//@ define taskReadable(task *pod_info.PodInfo) bool = task != nil && task.ResReq != nil

// whole-GPU / MIG / cpu-only request: the complete request fits the amount
//@ define fitsNodeRes(ni *NodeInfo, res *ri.ResourceRequirements, avail *ri.Resource) bool = validPortion(ni, res) && ri.fitsReq(res, avail)

//@ func (*NodeInfo).lessEqualTaskToNodeResources
//@   props C01
//@   requires ni != nil && taskResources != nil && nodeResources != nil && ni.MemoryOfEveryGpuOnNode > 0
//@   pure
//@   ensures result == fitsNodeRes(ni, taskResources, nodeResources)
//@ end

// C01: "the CPU, memory, pod slots, whole GPUs and MIG/extended-resource instances requested ... never exceed":
// a regular or MIG request must fit the amount completely; a fractional / gpu-memory request must fit cpu, memory and
// scalars, have a valid portion, and find its devices among the whole GPUs of the amount plus existing groups with room.
//@ func (*NodeInfo).isTaskAllocatableOnNonAllocatedResources
//@   props C01 C02
//@   requires nodeReadable(ni) && taskReadable(task) && nodeNonAllocatedResources != nil
//@   pure
//@   ensures (task.ResourceRequestType == "Regular" || task.ResourceRequestType == "MigInstance") ==> result == fitsNodeRes(ni, task.ResReq, nodeNonAllocatedResources)
//@   ensures !(task.ResourceRequestType == "Regular" || task.ResourceRequestType == "MigInstance") && result ==> ri.fitsBase(task.ResReq.BaseResource, nodeNonAllocatedResources.BaseResource) && validPortion(ni, task.ResReq)
//@   ensures !(task.ResourceRequestType == "Regular" || task.ResourceRequestType == "MigInstance") && result && floor(nodeNonAllocatedResources.gpus) < task.ResReq.count ==> exists g in ni.UsedSharedGPUsMemory :: fitsGpuGroup(ni, task.ResReq, g)
//@   ensures !(task.ResourceRequestType == "Regular" || task.ResourceRequestType == "MigInstance") && ri.fitsBase(task.ResReq.BaseResource, nodeNonAllocatedResources.BaseResource) && validPortion(ni, task.ResReq) && floor(nodeNonAllocatedResources.gpus) >= task.ResReq.count ==> result
//@   ensures !(task.ResourceRequestType == "Regular" || task.ResourceRequestType == "MigInstance") && task.ResReq.count == 1 ==> result == (ri.fitsBase(task.ResReq.BaseResource, nodeNonAllocatedResources.BaseResource) && validPortion(ni, task.ResReq) && floor(nodeNonAllocatedResources.gpus) + ite(exists g in ni.UsedSharedGPUsMemory :: fitsGpuGroup(ni, task.ResReq, g), 1, 0) >= 1)
//@ end
