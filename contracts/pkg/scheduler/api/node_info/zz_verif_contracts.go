//go:build verif

// Contracts for govc (contract-based deductive verification); comments only.
package node_info

//@ import ri "github.com/NVIDIA/KAI-scheduler/pkg/scheduler/api/resource_info"

// ---- per-GPU memory arithmetic (C02) ----------------------------------------------------------
// GPU memory (MiB) a request needs on one device of this node: the explicit gpu-memory request, else the
// fraction of the device memory (truncated towards zero by the int64 conversion).
//@ define needMem(ni *NodeInfo, res *ri.ResourceRequirements) int = ite(res.gpuMemory > 0, res.gpuMemory, trunc(res.portion * real(ni.MemoryOfEveryGpuOnNode)))
// a memory amount as a fraction of one device, rounded up to 2 decimals
//@ define memFraction(ni *NodeInfo, memory int) real = real(ceil(real(memory) / real(ni.MemoryOfEveryGpuOnNode) * 100.0)) / 100.0
// portion of one device a request needs on this node
//@ define gpuPortion(ni *NodeInfo, res *ri.ResourceRequirements) real = ite(res.gpuMemory > 0, memFraction(ni, res.gpuMemory), res.portion)
// a portion is valid if it is at most one device or a whole number of devices
//@ define validPortion(ni *NodeInfo, res *ri.ResourceRequirements) bool = gpuPortion(ni, res) <= 1.0 || gpuPortion(ni, res) == real(trunc(gpuPortion(ni, res)))

//@ func (*NodeInfo).GetResourceGpuMemory
//@   props C01 C02 C14
//@   requires ni != nil && res != nil
//@   pure
//@   ensures result == needMem(ni, res)
//@ end

//@ func (*NodeInfo).getGpuMemoryFractionalOnNode
//@   props C01 C02 C14
//@   requires ni != nil && ni.MemoryOfEveryGpuOnNode > 0
//@   pure
//@   ensures result == memFraction(ni, memory)
//@ end

//@ func (*NodeInfo).getResourceGpuPortion
//@   props C01 C02 C14
//@   requires ni != nil && res != nil && ni.MemoryOfEveryGpuOnNode > 0
//@   pure
//@   ensures result == gpuPortion(ni, res)
//@ end

//@ func (*NodeInfo).isValidGpuPortion
//@   props C01 C02
//@   requires ni != nil && res != nil && ni.MemoryOfEveryGpuOnNode > 0
//@   pure
//@   ensures result == validPortion(ni, res)
//@ end

// ---- per-GPU-group fit checks (C02) ----------------------------------------------------------
// C02 (top-level): "the GPU-memory or fraction requests of the pods bound to [a GPU group] never add up to more than
// the device": a bind on an existing group needs room in what is allocated now (memory of terminating sharers
// is NOT counted as free), and a group unknown to the allocated map (only pipelined sharers) is never bindable.
//@ define idleRoomOnGpu(ni *NodeInfo, res *ri.ResourceRequirements, g string) bool = g in ni.AllocatedSharedGPUsMemory && ni.AllocatedSharedGPUsMemory[g] + needMem(ni, res) <= ni.MemoryOfEveryGpuOnNode
// room once the releasing sharers are gone (used for pipelining)
//@ define roomOnGpu(ni *NodeInfo, res *ri.ResourceRequirements, g string) bool = ni.AllocatedSharedGPUsMemory[g] - ni.ReleasingSharedGPUsMemory[g] + needMem(ni, res) <= ni.MemoryOfEveryGpuOnNode
//@ define allGpuReleased(ni *NodeInfo, g string) bool = ni.AllocatedSharedGPUsMemory[g] == ni.ReleasingSharedGPUsMemory[g]
//@ define fitsGpuGroup(ni *NodeInfo, res *ri.ResourceRequirements, g string) bool = ni.UsedSharedGPUsMemory[g] != 0 && roomOnGpu(ni, res, g) && !allGpuReleased(ni, g)
//@ define markedReleasing(ni *NodeInfo, g string) bool = g in ni.ReleasingSharedGPUs && ni.ReleasingSharedGPUs[g]
// every sharer of the group is terminating
//@ define gpuReleasingFromShared(ni *NodeInfo, g string) bool = g in ni.UsedSharedGPUsMemory && ni.UsedSharedGPUsMemory[g] != 0 && g in ni.ReleasingSharedGPUsMemory && ni.ReleasingSharedGPUsMemory[g] == ni.UsedSharedGPUsMemory[g]

//@ func (*NodeInfo).EnoughIdleResourcesOnGpu
//@   props C02
//@   requires ni != nil && resources != nil
//@   pure
//@   ensures result == idleRoomOnGpu(ni, resources, gpuGroup)
//@   ensures [top] result ==> ni.AllocatedSharedGPUsMemory[gpuGroup] + needMem(ni, resources) <= ni.MemoryOfEveryGpuOnNode
//@ end

//@ func (*NodeInfo).enoughResourcesOnGpu
//@   props C02 C01
//@   requires ni != nil && resources != nil
//@   pure
//@   ensures result == roomOnGpu(ni, resources, gpuGroup)
//@ end

//@ func (*NodeInfo).isAllGpuReleased
//@   props C02 C01
//@   requires ni != nil
//@   pure
//@   ensures result == allGpuReleased(ni, gpuGroup)
//@ end

//@ func (*NodeInfo).IsTaskFitOnGpuGroup
//@   props C02 C01
//@   requires ni != nil && resourceRequest != nil
//@   pure
//@   ensures result == fitsGpuGroup(ni, resourceRequest, gpuGroup)
//@ end

//@ func (*NodeInfo).isSharedGpuMarkedAsReleasing
//@   props C02 C14
//@   requires ni != nil
//@   pure
//@   ensures result == markedReleasing(ni, gpuGroup)
//@ end

//@ func (*NodeInfo).isGpuReleasingFromSharedTasks
//@   props C02 C14
//@   requires ni != nil
//@   pure
//@   ensures result == gpuReleasingFromShared(ni, gpuGroup)
//@ end

// Number of existing GPU groups the fractional request fits on, counted up to the number of devices asked for.
// (A count of a filtered key set has no closed form in the spec language: bounds and the exact zero/non-zero case.)
//@ func (*NodeInfo).fractionTaskGpusAllocatableDeviceCount
//@   props C02 C01
//@   requires ni != nil && pod != nil && pod.ResReq != nil
//@   pure
//@   loop 1
//@     invariant 0 <= matchingGpuGroupsCount && (matchingGpuGroupsCount > 0 ==> matchingGpuGroupsCount < pod.ResReq.count)
//@     invariant (matchingGpuGroupsCount == 0) == (forall g in visited :: !fitsGpuGroup(ni, pod.ResReq, g))
//@     invariant forall g in visited :: g in ni.UsedSharedGPUsMemory
//@   ensures 0 <= result && result <= max(pod.ResReq.count, 1)
//@   ensures (result == 0) == (forall g in ni.UsedSharedGPUsMemory :: !fitsGpuGroup(ni, pod.ResReq, g))
//@ end

// ---- C01: does a task fit an amount of node resources -------------------------------------------
// node object well-formed enough to be read (code-derived: nil-ness, and the per-GPU memory size is positive -
// `getNodeGpuMemory` yields 0 for a gpu.memory label below 100, see report)
//@ define nodeReadable(ni *NodeInfo) bool = ni != nil && ni.Idle != nil && ni.Releasing != nil && ni.Used != nil && ni.MemoryOfEveryGpuOnNode > 0
//@ define taskReadable(task *pod_info.PodInfo) bool = task != nil && task.ResReq != nil

// whole-GPU / MIG / cpu-only request: the complete request fits the amount
//@ define fitsNodeRes(ni *NodeInfo, res *ri.ResourceRequirements, avail *ri.Resource) bool = validPortion(ni, res) && ri.fitsReq(res, avail)

//@ func (*NodeInfo).lessEqualTaskToNodeResources
//@   props C01
//@   requires ni != nil && taskResources != nil && nodeResources != nil && ni.MemoryOfEveryGpuOnNode > 0
//@   pure
//@   ensures result == fitsNodeRes(ni, taskResources, nodeResources)
//@ end

// C01: "the CPU, memory, pod slots, whole GPUs and MIG/extended-resource instances requested ... never exceed":
// a regular or MIG request must fit the amount completely; a fractional / gpu-memory request must fit cpu, memory and
// scalars, have a valid portion, and find its devices among the whole GPUs of the amount plus existing groups with room.
//@ func (*NodeInfo).isTaskAllocatableOnNonAllocatedResources
//@   props C01 C02
//@   requires nodeReadable(ni) && taskReadable(task) && nodeNonAllocatedResources != nil
//@   pure
//@   ensures (task.ResourceRequestType == "Regular" || task.ResourceRequestType == "MigInstance") ==> result == fitsNodeRes(ni, task.ResReq, nodeNonAllocatedResources)
//@   ensures !(task.ResourceRequestType == "Regular" || task.ResourceRequestType == "MigInstance") && result ==> ri.fitsBase(task.ResReq.BaseResource, nodeNonAllocatedResources.BaseResource) && validPortion(ni, task.ResReq)
//@   ensures !(task.ResourceRequestType == "Regular" || task.ResourceRequestType == "MigInstance") && result && floor(nodeNonAllocatedResources.gpus) < task.ResReq.count ==> exists g in ni.UsedSharedGPUsMemory :: fitsGpuGroup(ni, task.ResReq, g)
//@   ensures !(task.ResourceRequestType == "Regular" || task.ResourceRequestType == "MigInstance") && ri.fitsBase(task.ResReq.BaseResource, nodeNonAllocatedResources.BaseResource) && validPortion(ni, task.ResReq) && floor(nodeNonAllocatedResources.gpus) >= task.ResReq.count ==> result
//@   ensures !(task.ResourceRequestType == "Regular" || task.ResourceRequestType == "MigInstance") && task.ResReq.count == 1 ==> result == (ri.fitsBase(task.ResReq.BaseResource, nodeNonAllocatedResources.BaseResource) && validPortion(ni, task.ResReq) && floor(nodeNonAllocatedResources.gpus) + ite(exists g in ni.UsedSharedGPUsMemory :: fitsGpuGroup(ni, task.ResReq, g), 1, 0) >= 1)
//@ end

// ---- C14/C01: what a pod is charged to the (non-shared) node accounting ------------------------------
// cpu, memory, every scalar and MIG instance of the accepted resources; GPUs = whole GPUs + DRA GPUs, but 0 for a pod that
// received a shared (fractional) GPU: shared devices are accounted per GPU group (C02).
//@ define acceptedReadable(task *pod_info.PodInfo) bool = task != nil && task.AcceptedResource != nil && task.AcceptedResource.scalarResources != nil
//@ define chargedGpus(task *pod_info.PodInfo) real = ite(task.ResourceReceivedType == "Fraction", 0.0, ri.reqGpus(task.AcceptedResource.GpuResourceRequirement) + real(task.AcceptedResource.GetDraGpusCount()))
//@ define chargedScalar(task *pod_info.PodInfo, k v1.ResourceName) int = ite(k in task.AcceptedResource.scalarResources, task.AcceptedResource.scalarResources[k], task.AcceptedResource.migResources[k])
//@ define chargedHas(task *pod_info.PodInfo, k v1.ResourceName) bool = k in task.AcceptedResource.scalarResources || k in task.AcceptedResource.migResources

//@ func getAcceptedTaskResourceWithoutSharedGPU
//@   props C01 C14
//@   requires acceptedReadable(task)
//@   fresh
//@   ensures result.milliCpu == task.AcceptedResource.milliCpu && result.memory == task.AcceptedResource.memory
//@   ensures result.gpus == chargedGpus(task)
//@   ensures fresh(result.scalarResources)
//@   ensures forall k v1.ResourceName :: result.scalarResources[k] == chargedScalar(task, k) && (k in result.scalarResources <==> chargedHas(task, k))
//@ end

// ---- C02/C14: per-GPU-group accounting of shared (fractional) pods ---------------------------------------
// code-derived well-formedness: the four per-group maps exist and are different objects; vectors have the layout length
//@ define gpuMapsWF(ni *NodeInfo) bool = ni.UsedSharedGPUsMemory != nil && ni.ReleasingSharedGPUsMemory != nil && ni.AllocatedSharedGPUsMemory != nil && ni.ReleasingSharedGPUs != nil && ni.UsedSharedGPUsMemory != ni.ReleasingSharedGPUsMemory && ni.UsedSharedGPUsMemory != ni.AllocatedSharedGPUsMemory && ni.ReleasingSharedGPUsMemory != ni.AllocatedSharedGPUsMemory
//@ define vecWF(ni *NodeInfo) bool = ni.VectorMap != nil && len(ni.IdleVector) == len(ni.VectorMap.resourceNames) && len(ni.UsedVector) == len(ni.VectorMap.resourceNames) && len(ni.ReleasingVector) == len(ni.VectorMap.resourceNames)
//@ define resWF(ni *NodeInfo) bool = ni.Idle.scalarResources != nil && ni.Used.scalarResources != nil && ni.Releasing.scalarResources != nil && ni.Idle.scalarResources != ni.Used.scalarResources && ni.Idle.scalarResources != ni.Releasing.scalarResources && ni.Used.scalarResources != ni.Releasing.scalarResources && allocated(ni.Idle.scalarResources) && allocated(ni.Used.scalarResources) && allocated(ni.Releasing.scalarResources)
//@ define nodeWF(ni *NodeInfo) bool = ni != nil && ni.Node != nil && ni.Idle != nil && ni.Releasing != nil && ni.Used != nil && ni.Allocatable != nil && ni.Idle != ni.Releasing && ni.Idle != ni.Used && ni.Used != ni.Releasing && resWF(ni) && gpuMapsWF(ni) && vecWF(ni) && ni.MemoryOfEveryGpuOnNode > 0

//@ func (*NodeInfo).getNumberOfUsedSharedGPUs
//@   props C02 C14
//@   requires ni != nil
//@   pure
//@   loop 1
//@     invariant numberOfSharedGPUs >= 0
//@   ensures result >= 0
//@ end

//@ func (*NodeInfo).getNumberOfUsedGPUs
//@   props C02 C14
//@   requires ni != nil && ni.Used != nil
//@   pure
//@ end

//@ func (*NodeInfo).GetNumberOfGPUsInNode
//@   props C02 C14
//@   requires ni != nil && ni.Node != nil && ni.Allocatable != nil
//@   pure
//@ end

//@ func (*NodeInfo).markSharedGpuAsReleasing
//@   props C02 C14
//@   inline
//@ end
//@ func (*NodeInfo).unmarkSharedGpuAsReleasing
//@   props C02 C14
//@   inline
//@ end

// C13 "any sequence of virtual ... nominate ... steps that an action later discards, or rolls back ... leaves the
// scheduler's view of nodes ... exactly as it was" / C14: un-nominating a sharer must be the MIRROR of nominating it.
// Nominating a sharer onto group g takes one whole GPU out of Releasing exactly when, before it arrived, all used
// memory of g was releasing (used[g] == releasing[g], which includes the unused group 0 == 0). The question is asked
// after the sharer's memory has been taken back out of used[g] / put back into releasing[g], i.e. in that same
// "before it arrived" state. (The contract used to copy the code, which compared the state WITH the sharer:
// used+m == releasing-m; finding C14-pipelined-mirror, fixed in /repo.)
//@ func (*NodeInfo).isPipelinedToReleasingGpu
//@   props C02 C14 C13
//@   requires ni != nil && task != nil && task.ResReq != nil
//@   pure
//@   ensures [mirrorOfNomination] result == (ni.UsedSharedGPUsMemory[gpuGroup] == ni.ReleasingSharedGPUsMemory[gpuGroup])
//@ end

// C14/C02: a sharer of GPU group g with memory need m is accounted per status:
//   every status: used[g] += m;  Releasing: releasing[g] += m, allocated[g] += m;  Pipelined: releasing[g] -= m;
//   other (allocated/bound/running...): allocated[g] += m.
// The releasing marker is set when all used memory of the group is releasing (with one whole GPU added to Releasing),
// and cleared (one GPU taken from Releasing) when a non-releasing sharer arrives on a marked group.
// Idle loses at most one whole GPU, and only when the group opens (count of shared groups has no closed form: see report).
//@ func (*NodeInfo).addSharedTaskResourcesPerPodGroup
//@   props C02 C14
//@   requires nodeWF(ni) && task != nil && task.ResReq != nil
//@   modifies ni.UsedSharedGPUsMemory[gpuGroup], ni.ReleasingSharedGPUsMemory[gpuGroup], ni.AllocatedSharedGPUsMemory[gpuGroup], ni.ReleasingSharedGPUs[gpuGroup], ni.Idle.gpus, ni.Releasing.gpus, ni.IdleVector[*], ni.ReleasingVector[*], sumIdleGPUs(ni), sumIdleGPUMem(ni), sumReleasingGPUs(ni), sumReleasingGPUMem(ni)
//@   ensures [used] ni.UsedSharedGPUsMemory[gpuGroup] == old(ni.UsedSharedGPUsMemory[gpuGroup]) + needMem(ni, task.ResReq) && gpuGroup in ni.UsedSharedGPUsMemory
//@   ensures [releasing] ni.ReleasingSharedGPUsMemory[gpuGroup] == old(ni.ReleasingSharedGPUsMemory[gpuGroup]) + ite(task.Status == pod_status.Releasing, needMem(ni, task.ResReq), ite(task.Status == pod_status.Pipelined, 0 - needMem(ni, task.ResReq), 0))
//@   ensures [allocated] ni.AllocatedSharedGPUsMemory[gpuGroup] == old(ni.AllocatedSharedGPUsMemory[gpuGroup]) + ite(task.Status == pod_status.Pipelined, 0, needMem(ni, task.ResReq))
//@   ensures [allocatedDom] gpuGroup in ni.AllocatedSharedGPUsMemory <==> (old(gpuGroup in ni.AllocatedSharedGPUsMemory) || task.Status != pod_status.Pipelined)
//@   ensures [marker] markedReleasing(ni, gpuGroup) == ite(task.Status == pod_status.Releasing, old(markedReleasing(ni, gpuGroup)) || ni.UsedSharedGPUsMemory[gpuGroup] == ni.ReleasingSharedGPUsMemory[gpuGroup], ite(task.Status == pod_status.Pipelined, old(markedReleasing(ni, gpuGroup)), false))
//@   ensures [releasingGpus] ni.Releasing.gpus == old(ni.Releasing.gpus) + ite(task.Status == pod_status.Releasing, ite(!old(markedReleasing(ni, gpuGroup)) && ni.UsedSharedGPUsMemory[gpuGroup] == ni.ReleasingSharedGPUsMemory[gpuGroup], 1.0, 0.0), ite(task.Status == pod_status.Pipelined, ite(old(ni.UsedSharedGPUsMemory[gpuGroup]) == old(ni.ReleasingSharedGPUsMemory[gpuGroup]), 0.0 - 1.0, 0.0), ite(old(markedReleasing(ni, gpuGroup)), 0.0 - 1.0, 0.0)))
//@   ensures [idleGpus] ni.Idle.gpus == old(ni.Idle.gpus) || (ni.Idle.gpus == old(ni.Idle.gpus) - 1.0 && task.Status != pod_status.Pipelined && ite(task.Status == pod_status.Releasing, ni.UsedSharedGPUsMemory[gpuGroup] == ni.ReleasingSharedGPUsMemory[gpuGroup], old(ni.UsedSharedGPUsMemory[gpuGroup]) <= 0))
//@   ensures nodeWF(ni)
//@ end

// C14/C02: removal mirrors the addition for every status (used[g] -= m; Releasing: releasing[g] -= m, allocated[g] -= m;
// Pipelined: releasing[g] += m; other: allocated[g] -= m). Idle gains at most one whole GPU, only when the group closes.
// C13: for a nominated (Pipelined) sharer the whole-GPU part is the exact mirror too: Releasing gets one GPU back iff,
// in the state after the removal (= the state before the nomination), all used memory of g is releasing - the very
// condition under which addSharedTaskResourcesPerPodGroup took it away ([releasingGpus] there: old(used) == old(releasing)).
//@ func (*NodeInfo).removeSharedTaskResourcesPerPodGroup
//@   props C02 C14
//@   requires nodeWF(ni) && task != nil && task.ResReq != nil
//@   modifies ni.UsedSharedGPUsMemory[gpuGroup], ni.ReleasingSharedGPUsMemory[gpuGroup], ni.AllocatedSharedGPUsMemory[gpuGroup], ni.ReleasingSharedGPUs[gpuGroup], ni.Idle.gpus, ni.Releasing.gpus, ni.IdleVector[*], ni.ReleasingVector[*], sumIdleGPUs(ni), sumIdleGPUMem(ni), sumReleasingGPUs(ni), sumReleasingGPUMem(ni)
//@   ensures [used] ni.UsedSharedGPUsMemory[gpuGroup] == old(ni.UsedSharedGPUsMemory[gpuGroup]) - needMem(ni, task.ResReq)
//@   ensures [releasing] ni.ReleasingSharedGPUsMemory[gpuGroup] == old(ni.ReleasingSharedGPUsMemory[gpuGroup]) - ite(task.Status == pod_status.Releasing, needMem(ni, task.ResReq), ite(task.Status == pod_status.Pipelined, 0 - needMem(ni, task.ResReq), 0))
//@   ensures [allocated] ni.AllocatedSharedGPUsMemory[gpuGroup] == old(ni.AllocatedSharedGPUsMemory[gpuGroup]) - ite(task.Status == pod_status.Pipelined, 0, needMem(ni, task.ResReq))
//@   ensures [marker] markedReleasing(ni, gpuGroup) == ite(task.Status == pod_status.Releasing, old(markedReleasing(ni, gpuGroup)) && ni.UsedSharedGPUsMemory[gpuGroup] > 0, ite(task.Status == pod_status.Pipelined, old(markedReleasing(ni, gpuGroup)), old(markedReleasing(ni, gpuGroup)) || gpuReleasingFromShared(ni, gpuGroup)))
//@   ensures [releasingGpus] ni.Releasing.gpus == old(ni.Releasing.gpus) + ite(task.Status == pod_status.Releasing, ite(old(markedReleasing(ni, gpuGroup)) && ni.UsedSharedGPUsMemory[gpuGroup] <= 0, 0.0 - 1.0, 0.0), ite(task.Status == pod_status.Pipelined, ite(ni.UsedSharedGPUsMemory[gpuGroup] == ni.ReleasingSharedGPUsMemory[gpuGroup], 1.0, 0.0), ite(!old(markedReleasing(ni, gpuGroup)) && gpuReleasingFromShared(ni, gpuGroup), 1.0, 0.0)))
//@   ensures [idleGpus] ni.Idle.gpus == old(ni.Idle.gpus) || (ni.Idle.gpus == old(ni.Idle.gpus) + 1.0 && task.Status != pod_status.Pipelined && ni.UsedSharedGPUsMemory[gpuGroup] <= 0)
//@   ensures nodeWF(ni)
//@ end

// groups a pod is attached to / pairwise distinct (C02: "N distinct devices")
//@ define inGroups(task *pod_info.PodInfo, g string) bool = exists i int :: 0 <= i && i < len(task.GPUGroups) && task.GPUGroups[i] == g
//@ define distinctGroups(task *pod_info.PodInfo) bool = forall i int, j int :: 0 <= i && i < j && j < len(task.GPUGroups) ==> task.GPUGroups[i] != task.GPUGroups[j]
// per-group memory deltas of a sharer, by status
//@ define relDelta(ni *NodeInfo, task *pod_info.PodInfo) int = ite(task.Status == pod_status.Releasing, needMem(ni, task.ResReq), ite(task.Status == pod_status.Pipelined, 0 - needMem(ni, task.ResReq), 0))
//@ define allocDelta(ni *NodeInfo, task *pod_info.PodInfo) int = ite(task.Status == pod_status.Pipelined, 0, needMem(ni, task.ResReq))

// C14/C02: a shared pod is accounted on each of its GPU groups and on no other group.
//@ func (*NodeInfo).addSharedTaskResources
//@   props C02 C14
//@   requires nodeWF(ni) && task != nil && task.ResReq != nil
//@   modifies ni.UsedSharedGPUsMemory[*], ni.ReleasingSharedGPUsMemory[*], ni.AllocatedSharedGPUsMemory[*], ni.ReleasingSharedGPUs[*], ni.Idle.gpus, ni.Releasing.gpus, ni.IdleVector[*], ni.ReleasingVector[*], sumIdleGPUs(ni), sumIdleGPUMem(ni), sumReleasingGPUs(ni), sumReleasingGPUMem(ni)
//@   loop 1
//@     invariant 0 - 1 <= rangeindex && rangeindex < len(task.GPUGroups) && nodeWF(ni)
//@     invariant rangeindex == 0 - 1 ==> ni.Idle.gpus == old(ni.Idle.gpus) && ni.Releasing.gpus == old(ni.Releasing.gpus)
//@     invariant forall r *ri.Resource :: r != ni.Idle && r != ni.Releasing ==> r.gpus == old(r.gpus)
//@     invariant forall n *NodeInfo :: n != ni ==> sumIdleGPUs(n) == old(sumIdleGPUs(n)) && sumIdleGPUMem(n) == old(sumIdleGPUMem(n)) && sumReleasingGPUs(n) == old(sumReleasingGPUs(n)) && sumReleasingGPUMem(n) == old(sumReleasingGPUMem(n))
//@     invariant forall m map[string]int64 :: m != ni.UsedSharedGPUsMemory && m != ni.ReleasingSharedGPUsMemory && m != ni.AllocatedSharedGPUsMemory ==> dom(m) == old(dom(m))
//@     invariant forall m map[string]int64, k string :: m != ni.UsedSharedGPUsMemory && m != ni.ReleasingSharedGPUsMemory && m != ni.AllocatedSharedGPUsMemory ==> m[k] == old(m[k])
//@     invariant forall m map[string]bool :: m != ni.ReleasingSharedGPUs ==> dom(m) == old(dom(m))
//@     invariant forall m map[string]bool, k string :: m != ni.ReleasingSharedGPUs ==> m[k] == old(m[k])
//@     invariant forall p *float64 :: !incells(p, ni.IdleVector) && !incells(p, ni.ReleasingVector) ==> *p == old(*p)
//@   ensures [noop] task.ResourceReceivedType != "Fraction" ==> forall g string :: ni.UsedSharedGPUsMemory[g] == old(ni.UsedSharedGPUsMemory[g]) && ni.ReleasingSharedGPUsMemory[g] == old(ni.ReleasingSharedGPUsMemory[g]) && ni.AllocatedSharedGPUsMemory[g] == old(ni.AllocatedSharedGPUsMemory[g]) && markedReleasing(ni, g) == old(markedReleasing(ni, g)) && (g in ni.AllocatedSharedGPUsMemory <==> old(g in ni.AllocatedSharedGPUsMemory))
//@   ensures [noopGpus] task.ResourceReceivedType != "Fraction" || len(task.GPUGroups) == 0 ==> ni.Idle.gpus == old(ni.Idle.gpus) && ni.Releasing.gpus == old(ni.Releasing.gpus)
//@   ensures nodeWF(ni)
//@ end

//@ func (*NodeInfo).removeSharedTaskResources
//@   props C02 C14
//@   requires nodeWF(ni) && task != nil && task.ResReq != nil
//@   modifies ni.UsedSharedGPUsMemory[*], ni.ReleasingSharedGPUsMemory[*], ni.AllocatedSharedGPUsMemory[*], ni.ReleasingSharedGPUs[*], ni.Idle.gpus, ni.Releasing.gpus, ni.IdleVector[*], ni.ReleasingVector[*], sumIdleGPUs(ni), sumIdleGPUMem(ni), sumReleasingGPUs(ni), sumReleasingGPUMem(ni)
//@   loop 1
//@     invariant 0 - 1 <= rangeindex && rangeindex < len(task.GPUGroups) && nodeWF(ni)
//@     invariant rangeindex == 0 - 1 ==> ni.Idle.gpus == old(ni.Idle.gpus) && ni.Releasing.gpus == old(ni.Releasing.gpus)
//@     invariant forall r *ri.Resource :: r != ni.Idle && r != ni.Releasing ==> r.gpus == old(r.gpus)
//@     invariant forall n *NodeInfo :: n != ni ==> sumIdleGPUs(n) == old(sumIdleGPUs(n)) && sumIdleGPUMem(n) == old(sumIdleGPUMem(n)) && sumReleasingGPUs(n) == old(sumReleasingGPUs(n)) && sumReleasingGPUMem(n) == old(sumReleasingGPUMem(n))
//@     invariant forall m map[string]int64 :: m != ni.UsedSharedGPUsMemory && m != ni.ReleasingSharedGPUsMemory && m != ni.AllocatedSharedGPUsMemory ==> dom(m) == old(dom(m))
//@     invariant forall m map[string]int64, k string :: m != ni.UsedSharedGPUsMemory && m != ni.ReleasingSharedGPUsMemory && m != ni.AllocatedSharedGPUsMemory ==> m[k] == old(m[k])
//@     invariant forall m map[string]bool :: m != ni.ReleasingSharedGPUs ==> dom(m) == old(dom(m))
//@     invariant forall m map[string]bool, k string :: m != ni.ReleasingSharedGPUs ==> m[k] == old(m[k])
//@     invariant forall p *float64 :: !incells(p, ni.IdleVector) && !incells(p, ni.ReleasingVector) ==> *p == old(*p)
//@   ensures [noop] task.ResourceReceivedType != "Fraction" ==> forall g string :: ni.UsedSharedGPUsMemory[g] == old(ni.UsedSharedGPUsMemory[g]) && ni.ReleasingSharedGPUsMemory[g] == old(ni.ReleasingSharedGPUsMemory[g]) && ni.AllocatedSharedGPUsMemory[g] == old(ni.AllocatedSharedGPUsMemory[g]) && markedReleasing(ni, g) == old(markedReleasing(ni, g)) && (g in ni.AllocatedSharedGPUsMemory <==> old(g in ni.AllocatedSharedGPUsMemory))
//@   ensures [noopGpus] task.ResourceReceivedType != "Fraction" || len(task.GPUGroups) == 0 ==> ni.Idle.gpus == old(ni.Idle.gpus) && ni.Releasing.gpus == old(ni.Releasing.gpus)
//@   ensures nodeWF(ni)
//@ end

// ---- C01 top level: bind only what fits Idle ---------------------------------------------------------------
// Storage-capacity checks are opaque for this verification (DESIGN C01: assumed): they read the node and the task only.
//@ func (*NodeInfo).isTaskStorageAllocatable
//@   props C01
//@   trusted
//@   note CSI storage-capacity check (loops over claims/capacities, multierr, fmt.Errorf) is outside the property; assumed read-only
//@   requires ni != nil && task != nil
//@   pure
//@ end
//@ func (*NodeInfo).isTaskStorageAllocatableOnReleasingOrIdle
//@   props C01
//@   trusted
//@   note CSI storage-capacity check is outside the property; assumed read-only
//@   requires ni != nil && task != nil
//@   pure
//@ end

// a best-effort task requests nothing (no resources above the minimal quantities, no storage claims, no GPU memory)
//@ define bestEffort(task *pod_info.PodInfo) bool = ri.reqEmpty(task.ResReq) && len(task.storageClaims) == 0 && task.ResourceRequestType != "GpuMemory"
// the request fits the amount `avail` of this node (whole/MIG: completely; fractional: cpu/memory/scalars + devices)
//@ define fitsAmount(ni *NodeInfo, task *pod_info.PodInfo, avail *ri.Resource) bool = ite(task.ResourceRequestType == "Regular" || task.ResourceRequestType == "MigInstance", fitsNodeRes(ni, task.ResReq, avail), ri.fitsBase(task.ResReq.BaseResource, avail.BaseResource) && validPortion(ni, task.ResReq) && (floor(avail.gpus) >= task.ResReq.count || exists g in ni.UsedSharedGPUsMemory :: fitsGpuGroup(ni, task.ResReq, g)))

// C01 (top level): "Capacity held by pods that are only terminating ... is never handed to a bind": a task is allocatable
// (bindable now) only if it is best-effort or its request fits what is *Idle* on the node - not Idle + Releasing.
//@ func (*NodeInfo).IsTaskAllocatable
//@   props C01
//@   requires nodeReadable(ni) && taskReadable(task)
//@   pure
//@   ensures [top] result ==> bestEffort(task) || fitsAmount(ni, task, ni.Idle)
//@   ensures [regularExact] !bestEffort(task) && (task.ResourceRequestType == "Regular" || task.ResourceRequestType == "MigInstance") && !fitsNodeRes(ni, task.ResReq, ni.Idle) ==> !result
//@   ensures [bestEffortAlways] bestEffort(task) ==> result
//@ end

// Idle + Releasing, component-wise (a scalar whose sum is 0 is absent: Resource.Add drops zero entries)
//@ define sumScalar(ni *NodeInfo, k v1.ResourceName) int = ni.Idle.scalarResources[k] + ni.Releasing.scalarResources[k]
//@ define sumHas(ni *NodeInfo, k v1.ResourceName) bool = ite(k in ni.Releasing.scalarResources, sumScalar(ni, k) != 0, k in ni.Idle.scalarResources && ni.Idle.scalarResources[k] != 0)

//@ func (*NodeInfo).NonAllocatedResources
//@   props C01 C14
//@   requires ni != nil && ni.Idle != nil && ni.Releasing != nil
//@   requires allocated(ni.Idle.scalarResources) && allocated(ni.Releasing.scalarResources)   // heap closedness: maps reachable from the node exist before the call
//@   fresh
//@   ensures result.milliCpu == ni.Idle.milliCpu + ni.Releasing.milliCpu && result.memory == ni.Idle.memory + ni.Releasing.memory && result.gpus == ni.Idle.gpus + ni.Releasing.gpus
//@   ensures forall k v1.ResourceName :: result.scalarResources[k] == sumScalar(ni, k) && (k in result.scalarResources <==> sumHas(ni, k))
//@ end

//@ func (*NodeInfo).NonAllocatedResource
//@   props C01 C14
//@   requires ni != nil && ni.Idle != nil && ni.Releasing != nil
//@   pure
//@   ensures result == ni.Idle.Get(resourceType) + ni.Releasing.Get(resourceType)
//@ end

// C01 (pipelining side): a task may be nominated on capacity that is idle or being released; whole-GPU/MIG requests
// must fit Idle + Releasing completely.
//@ func (*NodeInfo).IsTaskAllocatableOnReleasingOrIdle
//@   props C01
//@   requires nodeReadable(ni) && taskReadable(task)
//@   ensures [cpuMem] result ==> task.ResReq.milliCpu <= ni.Idle.milliCpu + ni.Releasing.milliCpu && task.ResReq.memory <= ni.Idle.memory + ni.Releasing.memory
//@   ensures [scalars] result ==> forall k in task.ResReq.scalarResources :: sumHas(ni, k) && task.ResReq.scalarResources[k] <= sumScalar(ni, k)
//@   ensures [gpus] result && (task.ResourceRequestType == "Regular" || task.ResourceRequestType == "MigInstance") ==> ri.reqGpus(task.ResReq.GpuResourceRequirement) + real(task.ResReq.GetDraGpusCount()) <= ni.Idle.gpus + ni.Releasing.gpus
//@   ensures [mig] result && (task.ResourceRequestType == "Regular" || task.ResourceRequestType == "MigInstance") ==> forall k in task.ResReq.migResources :: sumHas(ni, k) && task.ResReq.migResources[k] <= sumScalar(ni, k)
//@   ensures [fraction] result && !(task.ResourceRequestType == "Regular" || task.ResourceRequestType == "MigInstance") ==> validPortion(ni, task.ResReq) && (floor(ni.Idle.gpus + ni.Releasing.gpus) >= task.ResReq.count || exists g in ni.UsedSharedGPUsMemory :: fitsGpuGroup(ni, task.ResReq, g))
//@ end

// ---- GPU capacity summaries (used by C05 node filtering) ---------------------------------------------------
// Folds over the per-group maps and the MIG scalars (MIG profile-name parsing): no sum theory in the spec language.
// They are ghost attributes of the node; every NodeInfo mutator under contract lists them in `modifies`.
//@ ghost sumIdleGPUs(ni *NodeInfo) real
//@ ghost sumIdleGPUMem(ni *NodeInfo) int
//@ ghost sumReleasingGPUs(ni *NodeInfo) real
//@ ghost sumReleasingGPUMem(ni *NodeInfo) int

//@ func (*NodeInfo).GetSumOfIdleGPUs
//@   props C05 C02
//@   trusted
//@   note assumed: idle GPUs = free part of shared groups + whole idle GPUs + MIG share (two map folds, MIG name parsing); value is the ghost attribute sumIdleGPUs/sumIdleGPUMem of the node
//@   requires ni != nil && ni.Idle != nil
//@   pure
//@   ensures result0 == sumIdleGPUs(ni) && result1 == sumIdleGPUMem(ni)
//@ end

//@ func (*NodeInfo).GetSumOfReleasingGPUs
//@   props C05 C02
//@   trusted
//@   note assumed: releasing GPUs = releasing part of shared groups + whole releasing GPUs + MIG share (two map folds, MIG name parsing); value is the ghost attribute sumReleasingGPUs/sumReleasingGPUMem of the node
//@   requires ni != nil && ni.Releasing != nil
//@   pure
//@   ensures result0 == sumReleasingGPUs(ni) && result1 == sumReleasingGPUMem(ni)
//@ end

// ---- C14/C01: charging a pod to the node, by status -------------------------------------------------------------
// "Non-pipelined incl. Releasing: Idle -= charged, Used += charged; Releasing additionally Releasing += charged;
//  Pipelined: Releasing -= charged, Idle untouched; reservation pods: GPU component 0."
//@ define isReservation(task *pod_info.PodInfo) bool = pod_info.isReservationPod(task.Pod)
//@ define nodeChargedGpus(task *pod_info.PodInfo) real = ite(isReservation(task), 0.0, chargedGpus(task))
//@ define idlePart(task *pod_info.PodInfo, x real) real = ite(task.Status == pod_status.Pipelined, 0.0, x)
//@ define relPart(task *pod_info.PodInfo, x real) real = ite(task.Status == pod_status.Releasing, x, ite(task.Status == pod_status.Pipelined, 0.0 - x, 0.0))
//@ define idlePartI(task *pod_info.PodInfo, x int) int = ite(task.Status == pod_status.Pipelined, 0, x)
//@ define relPartI(task *pod_info.PodInfo, x int) int = ite(task.Status == pod_status.Releasing, x, ite(task.Status == pod_status.Pipelined, 0 - x, 0))
//@ define taskChargeable(task *pod_info.PodInfo) bool = acceptedReadable(task) && task.ResReq != nil && task.Pod != nil

//@ func (*NodeInfo).addTaskResources
//@   props C01 C14 C02
//@   requires nodeWF(ni) && taskChargeable(task)
//@   assume draSeparate(ni, task)
//@   modifies ni.Used.milliCpu, ni.Used.memory, ni.Used.gpus, ni.Used.scalarResources[*], ni.Idle.milliCpu, ni.Idle.memory, ni.Idle.gpus, ni.Idle.scalarResources[*], ni.Releasing.milliCpu, ni.Releasing.memory, ni.Releasing.gpus, ni.Releasing.scalarResources[*], ni.UsedVector[*], ni.IdleVector[*], ni.ReleasingVector[*], ni.UsedSharedGPUsMemory[*], ni.ReleasingSharedGPUsMemory[*], ni.AllocatedSharedGPUsMemory[*], ni.ReleasingSharedGPUs[*], sumIdleGPUs(ni), sumIdleGPUMem(ni), sumReleasingGPUs(ni), sumReleasingGPUMem(ni)
//@   ensures [usedCpuMem] ni.Used.milliCpu == old(ni.Used.milliCpu) + task.AcceptedResource.milliCpu && ni.Used.memory == old(ni.Used.memory) + task.AcceptedResource.memory
//@   ensures [idleCpuMem] ni.Idle.milliCpu == old(ni.Idle.milliCpu) - idlePart(task, task.AcceptedResource.milliCpu) && ni.Idle.memory == old(ni.Idle.memory) - idlePart(task, task.AcceptedResource.memory)
//@   ensures [relCpuMem] ni.Releasing.milliCpu == old(ni.Releasing.milliCpu) + relPart(task, task.AcceptedResource.milliCpu) && ni.Releasing.memory == old(ni.Releasing.memory) + relPart(task, task.AcceptedResource.memory)
//@   ensures [usedScalars] forall k v1.ResourceName :: ni.Used.scalarResources[k] == old(ni.Used.scalarResources[k]) + old(chargedScalar(task, k))
//@   ensures [idleScalars] forall k v1.ResourceName :: ni.Idle.scalarResources[k] == old(ni.Idle.scalarResources[k]) - old(idlePartI(task, chargedScalar(task, k)))
//@   ensures [relScalars] forall k v1.ResourceName :: ni.Releasing.scalarResources[k] == old(ni.Releasing.scalarResources[k]) + old(relPartI(task, chargedScalar(task, k)))
//@   ensures [idleScalarDom] forall k v1.ResourceName :: k in ni.Idle.scalarResources <==> ite(old(chargedHas(task, k) && task.Status != pod_status.Pipelined), ni.Idle.scalarResources[k] != 0, old(k in ni.Idle.scalarResources))
//@   ensures [usedGpus] ni.Used.gpus == old(ni.Used.gpus) + nodeChargedGpus(task)
//@   ensures [idleGpus] task.ResourceReceivedType != "Fraction" ==> ni.Idle.gpus == old(ni.Idle.gpus) - idlePart(task, nodeChargedGpus(task))
//@   ensures [relGpus] task.ResourceReceivedType != "Fraction" ==> ni.Releasing.gpus == old(ni.Releasing.gpus) + relPart(task, nodeChargedGpus(task))
//@   ensures [sharedUntouched] task.ResourceReceivedType != "Fraction" ==> forall g string :: ni.UsedSharedGPUsMemory[g] == old(ni.UsedSharedGPUsMemory[g]) && ni.ReleasingSharedGPUsMemory[g] == old(ni.ReleasingSharedGPUsMemory[g]) && ni.AllocatedSharedGPUsMemory[g] == old(ni.AllocatedSharedGPUsMemory[g]) && markedReleasing(ni, g) == old(markedReleasing(ni, g))
//@   ensures nodeWF(ni)
//@ end

// removal is the exact mirror of the addition (C14: "AddTask/RemoveTask symmetry")
//@ func (*NodeInfo).removeTaskResources
//@   props C01 C14 C02
//@   requires nodeWF(ni) && taskChargeable(task)
//@   assume draSeparate(ni, task)
//@   modifies ni.Used.milliCpu, ni.Used.memory, ni.Used.gpus, ni.Used.scalarResources[*], ni.Idle.milliCpu, ni.Idle.memory, ni.Idle.gpus, ni.Idle.scalarResources[*], ni.Releasing.milliCpu, ni.Releasing.memory, ni.Releasing.gpus, ni.Releasing.scalarResources[*], ni.UsedVector[*], ni.IdleVector[*], ni.ReleasingVector[*], ni.UsedSharedGPUsMemory[*], ni.ReleasingSharedGPUsMemory[*], ni.AllocatedSharedGPUsMemory[*], ni.ReleasingSharedGPUs[*], sumIdleGPUs(ni), sumIdleGPUMem(ni), sumReleasingGPUs(ni), sumReleasingGPUMem(ni)
//@   ensures [usedCpuMem] ni.Used.milliCpu == old(ni.Used.milliCpu) - task.AcceptedResource.milliCpu && ni.Used.memory == old(ni.Used.memory) - task.AcceptedResource.memory
//@   ensures [idleCpuMem] ni.Idle.milliCpu == old(ni.Idle.milliCpu) + idlePart(task, task.AcceptedResource.milliCpu) && ni.Idle.memory == old(ni.Idle.memory) + idlePart(task, task.AcceptedResource.memory)
//@   ensures [relCpuMem] ni.Releasing.milliCpu == old(ni.Releasing.milliCpu) - relPart(task, task.AcceptedResource.milliCpu) && ni.Releasing.memory == old(ni.Releasing.memory) - relPart(task, task.AcceptedResource.memory)
//@   ensures [usedScalars] forall k v1.ResourceName :: ni.Used.scalarResources[k] == old(ni.Used.scalarResources[k]) - old(chargedScalar(task, k))
//@   ensures [idleScalars] forall k v1.ResourceName :: ni.Idle.scalarResources[k] == old(ni.Idle.scalarResources[k]) + old(idlePartI(task, chargedScalar(task, k)))
//@   ensures [relScalars] forall k v1.ResourceName :: ni.Releasing.scalarResources[k] == old(ni.Releasing.scalarResources[k]) - old(relPartI(task, chargedScalar(task, k)))
//@   ensures [idleScalarDom] forall k v1.ResourceName :: k in ni.Idle.scalarResources <==> ite(old(chargedHas(task, k) && task.Status != pod_status.Pipelined), ni.Idle.scalarResources[k] != 0, old(k in ni.Idle.scalarResources))
//@   ensures [usedGpus] ni.Used.gpus == old(ni.Used.gpus) - nodeChargedGpus(task)
//@   ensures [idleGpus] task.ResourceReceivedType != "Fraction" ==> ni.Idle.gpus == old(ni.Idle.gpus) + idlePart(task, nodeChargedGpus(task))
//@   ensures [relGpus] task.ResourceReceivedType != "Fraction" ==> ni.Releasing.gpus == old(ni.Releasing.gpus) - relPart(task, nodeChargedGpus(task))
//@   ensures [sharedUntouched] task.ResourceReceivedType != "Fraction" ==> forall g string :: ni.UsedSharedGPUsMemory[g] == old(ni.UsedSharedGPUsMemory[g]) && ni.ReleasingSharedGPUsMemory[g] == old(ni.ReleasingSharedGPUsMemory[g]) && ni.AllocatedSharedGPUsMemory[g] == old(ni.AllocatedSharedGPUsMemory[g]) && markedReleasing(ni, g) == old(markedReleasing(ni, g))
//@   ensures nodeWF(ni)
//@ end

// ---- AddTask / RemoveTask / UpdateTask ------------------------------------------------------------------------
// accepted resources of a pod that occupies the node: the request itself (cpu, memory, scalars), GPU part by kind
//@ func (*NodeInfo).setAcceptedResources
//@   props C01 C14 C02 C13
//@   requires ni != nil && ni.MemoryOfEveryGpuOnNode > 0 && pi != nil && pi.ResReq != nil
//@   modifies pi.AcceptedResource, pi.ResourceReceivedType
//@   ensures [inactive] !pod_status.IsActiveUsedStatus(pi.Status) ==> pi.AcceptedResource == old(pi.AcceptedResource) && pi.ResourceReceivedType == old(pi.ResourceReceivedType)
//@   ensures [fresh] pod_status.IsActiveUsedStatus(pi.Status) ==> fresh(pi.AcceptedResource) && (pi.ResReq.scalarResources != nil ==> fresh(pi.AcceptedResource.scalarResources))
//@   ensures [base] pod_status.IsActiveUsedStatus(pi.Status) ==> pi.AcceptedResource.milliCpu == pi.ResReq.milliCpu && pi.AcceptedResource.memory == pi.ResReq.memory && (forall k v1.ResourceName :: pi.AcceptedResource.scalarResources[k] == pi.ResReq.scalarResources[k] && (k in pi.AcceptedResource.scalarResources <==> k in pi.ResReq.scalarResources))
//@   ensures [kind] pod_status.IsActiveUsedStatus(pi.Status) ==> pi.ResourceReceivedType == ite(pi.ResourceRequestType == "MigInstance", "MigInstance", ite(pi.ResourceRequestType == "Fraction" || pi.ResourceRequestType == "GpuMemory", "Fraction", "Regular"))
//@   ensures [fraction] pod_status.IsActiveUsedStatus(pi.Status) && (pi.ResourceRequestType == "Fraction" || pi.ResourceRequestType == "GpuMemory") ==> pi.AcceptedResource.count == pi.ResReq.count && pi.AcceptedResource.portion == gpuPortion(ni, pi.ResReq) && pi.AcceptedResource.gpuMemory == needMem(ni, pi.ResReq)
//@   ensures [ownMigMap] pod_status.IsActiveUsedStatus(pi.Status) ==> pi.AcceptedResource.migResources == nil || pi.AcceptedResource.migResources == pi.ResReq.migResources || fresh(pi.AcceptedResource.migResources)   // added by helper "cache"
//@   ensures [mig] pod_status.IsActiveUsedStatus(pi.Status) && pi.ResourceRequestType == "MigInstance" ==> pi.AcceptedResource.migResources == pi.ResReq.migResources && pi.AcceptedResource.count == 0 && pi.AcceptedResource.portion == 0.0
//@ end

// Storage accounting (CSI capacities) is outside C01/C02/C14 (DESIGN: storage-capacity checks are opaque).
//@ func (*NodeInfo).addTaskStorage
//@   props C01 C14 C13
//@   trusted
//@   note writes only StorageCapacityInfo.ProvisionedPVCs maps of the node's accessible capacities (storage accounting, outside the properties); modelled as no effect on any location the contracts mention
//@   requires ni != nil && task != nil
//@   pure
//@ end
//@ func (*NodeInfo).removeTaskStorage
//@   props C01 C14 C13
//@   trusted
//@   note deletes only from StorageCapacityInfo.ProvisionedPVCs maps (storage accounting, outside the properties); modelled as no effect on any location the contracts mention
//@   requires ni != nil && task != nil
//@   pure
//@ end

// a task that can be handed to AddTask/RemoveTask/UpdateTask (code-derived nil-ness; PodInfo constructors establish it)
//@ define taskWF(task *pod_info.PodInfo) bool = task != nil && task.Pod != nil && task.ResReq != nil && task.ResReq.scalarResources != nil && task.AcceptedResource != nil && task.AcceptedResource.scalarResources != nil
// the maps of the task's request are not the node's own accounting maps
// The per-claim DRA count map of a task's resource objects is not one of the node's per-GPU-group memory maps (same Go map
// type map[string]int64). Since draSum is a real sum over the map (batch 11; it was a ghost attribute of the map object
// before, which hid this), the charged GPU amount of a task is only stable across the node's own bookkeeping writes if
// the maps are different objects. True by construction (draGpuCounts maps are made by the resource_info constructors and
// SetDraGpus only); stated as an `assume` in the units that need it and listed in the evidence.
//@ define notNodeGpuMap(ni *NodeInfo, m map[string]int64) bool = m != ni.UsedSharedGPUsMemory && m != ni.ReleasingSharedGPUsMemory && m != ni.AllocatedSharedGPUsMemory
//@ define draSeparate(ni *NodeInfo, task *pod_info.PodInfo) bool = (task.AcceptedResource != nil ==> notNodeGpuMap(ni, task.AcceptedResource.draGpuCounts)) && (task.ResReq != nil ==> notNodeGpuMap(ni, task.ResReq.draGpuCounts))
//@ define notNodeMap(ni *NodeInfo, m map[v1.ResourceName]int64) bool = m != ni.Idle.scalarResources && m != ni.Used.scalarResources && m != ni.Releasing.scalarResources
//@ define taskSeparate(ni *NodeInfo, task *pod_info.PodInfo) bool = notNodeMap(ni, task.ResReq.scalarResources) && notNodeMap(ni, task.ResReq.migResources) && notNodeMap(ni, task.AcceptedResource.scalarResources) && notNodeMap(ni, task.AcceptedResource.migResources)
//@ define podsWF(ni *NodeInfo) bool = ni.PodInfos != nil && ni.LegacyMIGTasks != nil && ni.PodAffinityInfo != nil

// C14: AddTask charges the pod (by its status, see addTaskResources) and records a copy under its key; it fails, leaving the
// node accounting untouched, iff the key is already present (unless a shared-GPU pod is consolidated to another GPU).
//@ func (*NodeInfo).addTask
//@   props C01 C14 C02 C13
//@   requires nodeWF(ni) && podsWF(ni) && taskWF(task) && taskSeparate(ni, task)
//@   modifies task.AcceptedResource, task.ResourceReceivedType, ni.PodInfos[*], ni.LegacyMIGTasks[*], ni.Used.milliCpu, ni.Used.memory, ni.Used.gpus, ni.Used.scalarResources[*], ni.Idle.milliCpu, ni.Idle.memory, ni.Idle.gpus, ni.Idle.scalarResources[*], ni.Releasing.milliCpu, ni.Releasing.memory, ni.Releasing.gpus, ni.Releasing.scalarResources[*], ni.UsedVector[*], ni.IdleVector[*], ni.ReleasingVector[*], ni.UsedSharedGPUsMemory[*], ni.ReleasingSharedGPUsMemory[*], ni.AllocatedSharedGPUsMemory[*], ni.ReleasingSharedGPUs[*], sumIdleGPUs(ni), sumIdleGPUMem(ni), sumReleasingGPUs(ni), sumReleasingGPUMem(ni)
//@   ensures [fails] (result != nil) == (old(pod_info.podKeyOf(task.Pod) in ni.PodInfos) && !(allowTaskToExistOnDifferentGPU && task.ResourceReceivedType == "Fraction"))
//@   ensures [failsUntouched] result != nil ==> ni.Used.milliCpu == old(ni.Used.milliCpu) && ni.Used.memory == old(ni.Used.memory) && ni.Used.gpus == old(ni.Used.gpus) && ni.Idle.milliCpu == old(ni.Idle.milliCpu) && ni.Idle.memory == old(ni.Idle.memory) && ni.Idle.gpus == old(ni.Idle.gpus) && ni.Releasing.milliCpu == old(ni.Releasing.milliCpu) && ni.Releasing.memory == old(ni.Releasing.memory) && ni.Releasing.gpus == old(ni.Releasing.gpus)
//@   ensures [failsUntouchedScalars] result != nil ==> forall k v1.ResourceName :: ni.Used.scalarResources[k] == old(ni.Used.scalarResources[k]) && ni.Idle.scalarResources[k] == old(ni.Idle.scalarResources[k]) && ni.Releasing.scalarResources[k] == old(ni.Releasing.scalarResources[k]) && (k in ni.Idle.scalarResources <==> old(k in ni.Idle.scalarResources))
//@   ensures [recorded] result == nil ==> pod_info.podKeyOf(task.Pod) in ni.PodInfos && ni.PodInfos[pod_info.podKeyOf(task.Pod)] != nil && ni.PodInfos[pod_info.podKeyOf(task.Pod)] != task && ni.PodInfos[pod_info.podKeyOf(task.Pod)].Status == task.Status && ni.PodInfos[pod_info.podKeyOf(task.Pod)].Pod == task.Pod
//@   ensures [otherPods] forall k common_info.PodID :: k != pod_info.podKeyOf(task.Pod) ==> ni.PodInfos[k] == old(ni.PodInfos[k]) && (k in ni.PodInfos <==> old(k in ni.PodInfos))
//@   ensures [usedCpuMem] result == nil ==> ni.Used.milliCpu == old(ni.Used.milliCpu) + task.AcceptedResource.milliCpu && ni.Used.memory == old(ni.Used.memory) + task.AcceptedResource.memory
//@   ensures [idleCpuMem] result == nil ==> ni.Idle.milliCpu == old(ni.Idle.milliCpu) - idlePart(task, task.AcceptedResource.milliCpu) && ni.Idle.memory == old(ni.Idle.memory) - idlePart(task, task.AcceptedResource.memory)
//@   ensures [relCpuMem] result == nil ==> ni.Releasing.milliCpu == old(ni.Releasing.milliCpu) + relPart(task, task.AcceptedResource.milliCpu) && ni.Releasing.memory == old(ni.Releasing.memory) + relPart(task, task.AcceptedResource.memory)
//@   ensures [usedGpus] result == nil ==> ni.Used.gpus == old(ni.Used.gpus) + nodeChargedGpus(task)
//@   ensures [idleGpus] result == nil && task.ResourceReceivedType != "Fraction" ==> ni.Idle.gpus == old(ni.Idle.gpus) - idlePart(task, nodeChargedGpus(task))
//@   ensures [relGpus] result == nil && task.ResourceReceivedType != "Fraction" ==> ni.Releasing.gpus == old(ni.Releasing.gpus) + relPart(task, nodeChargedGpus(task))
//@   ensures [accepted] pod_status.IsActiveUsedStatus(task.Status) ==> task.AcceptedResource.milliCpu == task.ResReq.milliCpu && task.AcceptedResource.memory == task.ResReq.memory && (forall k v1.ResourceName :: task.AcceptedResource.scalarResources[k] == old(task.ResReq.scalarResources[k]))
//@   ensures [separate] taskSeparate(ni, task)   // added by helper "cache"
//@   ensures [acceptedOwn] task.AcceptedResource == old(task.AcceptedResource) || acceptedFresh(task)   // added by helper "cache"
//@   ensures [keyRecorded] pod_info.podKeyOf(task.Pod) in ni.PodInfos   // added by helper "cache": also when the call fails the pod is (still) recorded
//@   ensures [recordsNonNil] old(forall k in ni.PodInfos :: ni.PodInfos[k] != nil) ==> (forall k in ni.PodInfos :: ni.PodInfos[k] != nil)   // added by helper "cache"
//@   ensures [stmt2-recordedGroups] result == nil ==> sameGroups(storedTask(ni, task), task)   // added by helper "stmt2": the recorded copy sits on the GPU groups the task had at call time
//@   ensures nodeWF(ni) && podsWF(ni) && taskWF(task)
//@ end

//@ func (*NodeInfo).AddTask
//@   props C01 C14 C02 C13
//@   requires nodeWF(ni) && podsWF(ni) && taskWF(task) && taskSeparate(ni, task)
//@   modifies task.AcceptedResource, task.ResourceReceivedType, ni.PodInfos[*], ni.LegacyMIGTasks[*], ni.Used.milliCpu, ni.Used.memory, ni.Used.gpus, ni.Used.scalarResources[*], ni.Idle.milliCpu, ni.Idle.memory, ni.Idle.gpus, ni.Idle.scalarResources[*], ni.Releasing.milliCpu, ni.Releasing.memory, ni.Releasing.gpus, ni.Releasing.scalarResources[*], ni.UsedVector[*], ni.IdleVector[*], ni.ReleasingVector[*], ni.UsedSharedGPUsMemory[*], ni.ReleasingSharedGPUsMemory[*], ni.AllocatedSharedGPUsMemory[*], ni.ReleasingSharedGPUs[*], sumIdleGPUs(ni), sumIdleGPUMem(ni), sumReleasingGPUs(ni), sumReleasingGPUMem(ni)
//@   ensures [fails] (result != nil) == old(pod_info.podKeyOf(task.Pod) in ni.PodInfos)
//@   ensures [failsUntouched] result != nil ==> ni.Used.milliCpu == old(ni.Used.milliCpu) && ni.Used.memory == old(ni.Used.memory) && ni.Used.gpus == old(ni.Used.gpus) && ni.Idle.milliCpu == old(ni.Idle.milliCpu) && ni.Idle.memory == old(ni.Idle.memory) && ni.Idle.gpus == old(ni.Idle.gpus) && ni.Releasing.milliCpu == old(ni.Releasing.milliCpu) && ni.Releasing.memory == old(ni.Releasing.memory) && ni.Releasing.gpus == old(ni.Releasing.gpus)
//@   ensures [failsUntouchedScalars] result != nil ==> forall k v1.ResourceName :: ni.Used.scalarResources[k] == old(ni.Used.scalarResources[k]) && ni.Idle.scalarResources[k] == old(ni.Idle.scalarResources[k]) && ni.Releasing.scalarResources[k] == old(ni.Releasing.scalarResources[k]) && (k in ni.Idle.scalarResources <==> old(k in ni.Idle.scalarResources))
//@   ensures [recorded] result == nil ==> pod_info.podKeyOf(task.Pod) in ni.PodInfos && ni.PodInfos[pod_info.podKeyOf(task.Pod)] != nil && ni.PodInfos[pod_info.podKeyOf(task.Pod)] != task && ni.PodInfos[pod_info.podKeyOf(task.Pod)].Status == task.Status && ni.PodInfos[pod_info.podKeyOf(task.Pod)].Pod == task.Pod
//@   ensures [otherPods] forall k common_info.PodID :: k != pod_info.podKeyOf(task.Pod) ==> ni.PodInfos[k] == old(ni.PodInfos[k]) && (k in ni.PodInfos <==> old(k in ni.PodInfos))
//@   ensures [usedCpuMem] result == nil ==> ni.Used.milliCpu == old(ni.Used.milliCpu) + task.AcceptedResource.milliCpu && ni.Used.memory == old(ni.Used.memory) + task.AcceptedResource.memory
//@   ensures [idleCpuMem] result == nil ==> ni.Idle.milliCpu == old(ni.Idle.milliCpu) - idlePart(task, task.AcceptedResource.milliCpu) && ni.Idle.memory == old(ni.Idle.memory) - idlePart(task, task.AcceptedResource.memory)
//@   ensures [relCpuMem] result == nil ==> ni.Releasing.milliCpu == old(ni.Releasing.milliCpu) + relPart(task, task.AcceptedResource.milliCpu) && ni.Releasing.memory == old(ni.Releasing.memory) + relPart(task, task.AcceptedResource.memory)
//@   ensures [usedGpus] result == nil ==> ni.Used.gpus == old(ni.Used.gpus) + nodeChargedGpus(task)
//@   ensures [idleGpus] result == nil && task.ResourceReceivedType != "Fraction" ==> ni.Idle.gpus == old(ni.Idle.gpus) - idlePart(task, nodeChargedGpus(task))
//@   ensures [relGpus] result == nil && task.ResourceReceivedType != "Fraction" ==> ni.Releasing.gpus == old(ni.Releasing.gpus) + relPart(task, nodeChargedGpus(task))
//@   ensures [accepted] pod_status.IsActiveUsedStatus(task.Status) ==> task.AcceptedResource.milliCpu == task.ResReq.milliCpu && task.AcceptedResource.memory == task.ResReq.memory && (forall k v1.ResourceName :: task.AcceptedResource.scalarResources[k] == old(task.ResReq.scalarResources[k]))
//@   ensures [separate] taskSeparate(ni, task)   // added by helper "cache"
//@   ensures [acceptedOwn] task.AcceptedResource == old(task.AcceptedResource) || acceptedFresh(task)   // added by helper "cache"
//@   ensures [keyRecorded] pod_info.podKeyOf(task.Pod) in ni.PodInfos   // added by helper "cache": also when the call fails the pod is (still) recorded
//@   ensures [recordsNonNil] old(forall k in ni.PodInfos :: ni.PodInfos[k] != nil) ==> (forall k in ni.PodInfos :: ni.PodInfos[k] != nil)   // added by helper "cache"
//@   ensures [stmt2-recordedGroups] result == nil ==> sameGroups(storedTask(ni, task), task)   // added by helper "stmt2": the recorded copy sits on the GPU groups the task had at call time
//@   ensures nodeWF(ni) && podsWF(ni) && taskWF(task)
//@ end

// same as AddTask, but a pod that received a shared GPU may already be on the node (it is re-recorded, not rejected)
//@ func (*NodeInfo).ConsolidateSharedPodInfoToDifferentGPU
//@   props C14 C02 C13
//@   requires nodeWF(ni) && podsWF(ni) && taskWF(ti) && taskSeparate(ni, ti)
//@   modifies ti.AcceptedResource, ti.ResourceReceivedType, ni.PodInfos[*], ni.LegacyMIGTasks[*], ni.Used.milliCpu, ni.Used.memory, ni.Used.gpus, ni.Used.scalarResources[*], ni.Idle.milliCpu, ni.Idle.memory, ni.Idle.gpus, ni.Idle.scalarResources[*], ni.Releasing.milliCpu, ni.Releasing.memory, ni.Releasing.gpus, ni.Releasing.scalarResources[*], ni.UsedVector[*], ni.IdleVector[*], ni.ReleasingVector[*], ni.UsedSharedGPUsMemory[*], ni.ReleasingSharedGPUsMemory[*], ni.AllocatedSharedGPUsMemory[*], ni.ReleasingSharedGPUs[*], sumIdleGPUs(ni), sumIdleGPUMem(ni), sumReleasingGPUs(ni), sumReleasingGPUMem(ni)
//@   ensures [fails] (result != nil) == (old(pod_info.podKeyOf(ti.Pod) in ni.PodInfos) && ti.ResourceReceivedType != "Fraction")
//@   ensures [usedCpuMem] result == nil ==> ni.Used.milliCpu == old(ni.Used.milliCpu) + ti.AcceptedResource.milliCpu && ni.Used.memory == old(ni.Used.memory) + ti.AcceptedResource.memory
//@   ensures [usedGpus] result == nil ==> ni.Used.gpus == old(ni.Used.gpus) + nodeChargedGpus(ti)
//@   ensures [otherPods] forall k common_info.PodID :: k != pod_info.podKeyOf(ti.Pod) ==> ni.PodInfos[k] == old(ni.PodInfos[k]) && (k in ni.PodInfos <==> old(k in ni.PodInfos))
//@   ensures [stmt2-recorded] result == nil ==> pod_info.podKeyOf(ti.Pod) in ni.PodInfos && ni.PodInfos[pod_info.podKeyOf(ti.Pod)].Status == ti.Status && sameGroups(ni.PodInfos[pod_info.podKeyOf(ti.Pod)], ti)   // added by helper "stmt2": the re-recorded copy carries the task's status and (new) GPU groups
//@   ensures nodeWF(ni) && podsWF(ni) && taskWF(ti)
//@ end

// the copy of the pod recorded on the node under the pod's key
//@ define storedTask(ni *NodeInfo, ti *pod_info.PodInfo) *pod_info.PodInfo = ni.PodInfos[pod_info.podKeyOf(ti.Pod)]
//@ define storedOK(ni *NodeInfo, ti *pod_info.PodInfo) bool = pod_info.podKeyOf(ti.Pod) in ni.PodInfos ==> taskWF(storedTask(ni, ti)) && taskSeparate(ni, storedTask(ni, ti))

// C14: RemoveTask un-charges the *recorded copy* of the pod (by the copy's status and accepted resources) and forgets it;
// it fails, leaving the node untouched, iff the pod is not recorded.
//@ func (*NodeInfo).RemoveTask
//@   props C01 C14 C02 C13
//@   requires nodeWF(ni) && podsWF(ni) && ti != nil && ti.Pod != nil && storedOK(ni, ti)
//@   modifies ni.PodInfos[*], ni.Used.milliCpu, ni.Used.memory, ni.Used.gpus, ni.Used.scalarResources[*], ni.Idle.milliCpu, ni.Idle.memory, ni.Idle.gpus, ni.Idle.scalarResources[*], ni.Releasing.milliCpu, ni.Releasing.memory, ni.Releasing.gpus, ni.Releasing.scalarResources[*], ni.UsedVector[*], ni.IdleVector[*], ni.ReleasingVector[*], ni.UsedSharedGPUsMemory[*], ni.ReleasingSharedGPUsMemory[*], ni.AllocatedSharedGPUsMemory[*], ni.ReleasingSharedGPUs[*], sumIdleGPUs(ni), sumIdleGPUMem(ni), sumReleasingGPUs(ni), sumReleasingGPUMem(ni)
//@   ensures [notFound] !old(pod_info.podKeyOf(ti.Pod) in ni.PodInfos) ==> result != nil && ni.Used.milliCpu == old(ni.Used.milliCpu) && ni.Used.memory == old(ni.Used.memory) && ni.Used.gpus == old(ni.Used.gpus) && ni.Idle.milliCpu == old(ni.Idle.milliCpu) && ni.Idle.memory == old(ni.Idle.memory) && ni.Idle.gpus == old(ni.Idle.gpus) && ni.Releasing.milliCpu == old(ni.Releasing.milliCpu) && ni.Releasing.memory == old(ni.Releasing.memory) && ni.Releasing.gpus == old(ni.Releasing.gpus)
//@   ensures [forgotten] !(pod_info.podKeyOf(ti.Pod) in ni.PodInfos)
//@   ensures [otherPods] forall k common_info.PodID :: k != pod_info.podKeyOf(ti.Pod) ==> ni.PodInfos[k] == old(ni.PodInfos[k]) && (k in ni.PodInfos <==> old(k in ni.PodInfos))
//@   ensures [usedCpuMem] old(pod_info.podKeyOf(ti.Pod) in ni.PodInfos) ==> ni.Used.milliCpu == old(ni.Used.milliCpu) - old(storedTask(ni, ti)).AcceptedResource.milliCpu && ni.Used.memory == old(ni.Used.memory) - old(storedTask(ni, ti)).AcceptedResource.memory
//@   ensures [idleCpuMem] old(pod_info.podKeyOf(ti.Pod) in ni.PodInfos) ==> ni.Idle.milliCpu == old(ni.Idle.milliCpu) + idlePart(old(storedTask(ni, ti)), old(storedTask(ni, ti)).AcceptedResource.milliCpu) && ni.Idle.memory == old(ni.Idle.memory) + idlePart(old(storedTask(ni, ti)), old(storedTask(ni, ti)).AcceptedResource.memory)
//@   ensures [relCpuMem] old(pod_info.podKeyOf(ti.Pod) in ni.PodInfos) ==> ni.Releasing.milliCpu == old(ni.Releasing.milliCpu) - relPart(old(storedTask(ni, ti)), old(storedTask(ni, ti)).AcceptedResource.milliCpu) && ni.Releasing.memory == old(ni.Releasing.memory) - relPart(old(storedTask(ni, ti)), old(storedTask(ni, ti)).AcceptedResource.memory)
//@   ensures [usedGpus] old(pod_info.podKeyOf(ti.Pod) in ni.PodInfos) ==> ni.Used.gpus == old(ni.Used.gpus) - nodeChargedGpus(old(storedTask(ni, ti)))
//@   ensures [idleGpus] old(pod_info.podKeyOf(ti.Pod) in ni.PodInfos) && old(storedTask(ni, ti)).ResourceReceivedType != "Fraction" ==> ni.Idle.gpus == old(ni.Idle.gpus) + idlePart(old(storedTask(ni, ti)), nodeChargedGpus(old(storedTask(ni, ti))))
//@   ensures [relGpus] old(pod_info.podKeyOf(ti.Pod) in ni.PodInfos) && old(storedTask(ni, ti)).ResourceReceivedType != "Fraction" ==> ni.Releasing.gpus == old(ni.Releasing.gpus) - relPart(old(storedTask(ni, ti)), nodeChargedGpus(old(storedTask(ni, ti))))
//@   ensures nodeWF(ni) && podsWF(ni)
//@ end

// C14: UpdateTask = RemoveTask (recorded copy, old status) followed by AddTask (argument, new status): the net effect is the
// difference of the two charges. Note (report): RemoveTask returns the pod-affinity error *after* un-charging, so a non-nil
// result with the pod recorded before means the pod has been dropped from the accounting.
//@ func (*NodeInfo).UpdateTask
//@   props C01 C14 C02 C13
//@   requires nodeWF(ni) && podsWF(ni) && taskWF(ti) && taskSeparate(ni, ti) && storedOK(ni, ti)
//@   assume draSeparate(ni, ti) && (pod_info.podKeyOf(ti.Pod) in ni.PodInfos ==> draSeparate(ni, storedTask(ni, ti)))
//@   modifies ti.AcceptedResource, ti.ResourceReceivedType, ni.PodInfos[*], ni.LegacyMIGTasks[*], ni.Used.milliCpu, ni.Used.memory, ni.Used.gpus, ni.Used.scalarResources[*], ni.Idle.milliCpu, ni.Idle.memory, ni.Idle.gpus, ni.Idle.scalarResources[*], ni.Releasing.milliCpu, ni.Releasing.memory, ni.Releasing.gpus, ni.Releasing.scalarResources[*], ni.UsedVector[*], ni.IdleVector[*], ni.ReleasingVector[*], ni.UsedSharedGPUsMemory[*], ni.ReleasingSharedGPUsMemory[*], ni.AllocatedSharedGPUsMemory[*], ni.ReleasingSharedGPUs[*], sumIdleGPUs(ni), sumIdleGPUMem(ni), sumReleasingGPUs(ni), sumReleasingGPUMem(ni)
//@   ensures [notFound] !old(pod_info.podKeyOf(ti.Pod) in ni.PodInfos) ==> result != nil && ni.Used.milliCpu == old(ni.Used.milliCpu) && ni.Used.memory == old(ni.Used.memory) && ni.Used.gpus == old(ni.Used.gpus) && ni.Idle.milliCpu == old(ni.Idle.milliCpu) && ni.Idle.memory == old(ni.Idle.memory) && ni.Idle.gpus == old(ni.Idle.gpus) && ni.Releasing.milliCpu == old(ni.Releasing.milliCpu) && ni.Releasing.memory == old(ni.Releasing.memory) && ni.Releasing.gpus == old(ni.Releasing.gpus)
//@   ensures [otherPods] forall k common_info.PodID :: k != pod_info.podKeyOf(ti.Pod) ==> ni.PodInfos[k] == old(ni.PodInfos[k]) && (k in ni.PodInfos <==> old(k in ni.PodInfos))
//@   ensures [recorded] result == nil ==> pod_info.podKeyOf(ti.Pod) in ni.PodInfos && ni.PodInfos[pod_info.podKeyOf(ti.Pod)] != nil && ni.PodInfos[pod_info.podKeyOf(ti.Pod)].Status == ti.Status
//@   ensures [usedCpuMem] result == nil ==> ni.Used.milliCpu == old(ni.Used.milliCpu) - old(storedTask(ni, ti).AcceptedResource.milliCpu) + ti.AcceptedResource.milliCpu && ni.Used.memory == old(ni.Used.memory) - old(storedTask(ni, ti).AcceptedResource.memory) + ti.AcceptedResource.memory
//@   ensures [idleCpu] result == nil ==> ni.Idle.milliCpu == old(ni.Idle.milliCpu) + old(idlePart(storedTask(ni, ti), storedTask(ni, ti).AcceptedResource.milliCpu)) - idlePart(ti, ti.AcceptedResource.milliCpu)
//@   ensures [idleMem] result == nil ==> ni.Idle.memory == old(ni.Idle.memory) + old(idlePart(storedTask(ni, ti), storedTask(ni, ti).AcceptedResource.memory)) - idlePart(ti, ti.AcceptedResource.memory)
//@   ensures [relCpu] result == nil ==> ni.Releasing.milliCpu == old(ni.Releasing.milliCpu) - old(relPart(storedTask(ni, ti), storedTask(ni, ti).AcceptedResource.milliCpu)) + relPart(ti, ti.AcceptedResource.milliCpu)
//@   ensures [usedGpus] result == nil ==> ni.Used.gpus == old(ni.Used.gpus) - old(nodeChargedGpus(storedTask(ni, ti))) + nodeChargedGpus(ti)
//@   ensures [idleGpus] result == nil && old(storedTask(ni, ti).ResourceReceivedType) != "Fraction" && ti.ResourceReceivedType != "Fraction" ==> ni.Idle.gpus == old(ni.Idle.gpus) + old(idlePart(storedTask(ni, ti), nodeChargedGpus(storedTask(ni, ti)))) - idlePart(ti, nodeChargedGpus(ti))
//@   ensures [stmt2-recordedGroups] result == nil ==> sameGroups(storedTask(ni, ti), ti)   // added by helper "stmt2"
//@   ensures [stmt2-failedForgets] result != nil ==> !(pod_info.podKeyOf(ti.Pod) in ni.PodInfos)   // added by helper "stmt2": a failed update (pod not recorded, or pod-affinity error of RemoveTask) leaves no record
//@   ensures nodeWF(ni) && podsWF(ni) && taskWF(ti)
//@ end

// ---- added by helper "stmt2" ----
// C13/C02: the copy of a pod recorded on a node carries the GPU groups of the task handed to AddTask / UpdateTask (the
// clone shares the slice); the node's per-group shared-GPU bookkeeping is charged from that copy
//@ define sameGroups(a *pod_info.PodInfo, b *pod_info.PodInfo) bool = a.GPUGroups == b.GPUGroups

// ---- added by helper "cache" ----
// Snapshot construction of a node and of its pods (cluster_info.Snapshot): C14/C01 establish, C12 charge, C10 total.

// per-GPU memory of a node as read from its `nvidia.com/gpu.memory` label (bytes above 1 TiB-in-MiB are converted,
// the value is floored to a multiple of 100); 100 when the label is absent or not an int64
//@ define gpuMemLabelOk(node *v1.Node) bool = tuple1(strconv.ParseInt(node.Labels[GpuMemoryLabel], 10, 64)) == nil
//@ define gpuMemLabel(node *v1.Node) int = tuple0(strconv.ParseInt(node.Labels[GpuMemoryLabel], 10, 64))
//@ define gpuMemMib(v int) int = ite(v < TibInMib, v, v / BitToMib)
//@ define nodeGpuMemory(node *v1.Node) int = ite(gpuMemLabelOk(node), gpuMemMib(gpuMemLabel(node)) - gpuMemMib(gpuMemLabel(node)) % 100, DefaultGpuMemory)

// two amounts agree field by field (cpu, memory, whole GPUs, every scalar resource incl. presence)
//@ define sameResource(a *ri.Resource, b *ri.Resource) bool = a.milliCpu == b.milliCpu && a.memory == b.memory && a.gpus == b.gpus && (forall k v1.ResourceName :: a.scalarResources[k] == b.scalarResources[k] && (k in a.scalarResources <==> k in b.scalarResources))
//@ define zeroResource(a *ri.Resource) bool = a.milliCpu == 0.0 && a.memory == 0.0 && a.gpus == 0.0 && (forall k v1.ResourceName :: !(k in a.scalarResources))
// the amount a resource list denotes (see resource_info.ResourceFromResourceList)
//@ define isListAmount(a *ri.Resource, rl v1.ResourceList) bool = a.milliCpu == real(ri.rlMilli(rl, v1.ResourceCPU)) && a.memory == real(ri.rlValue(rl, v1.ResourceMemory)) && a.gpus == real(ri.rlValue(rl, ri.GPUResourceName)) + real(ri.rlValue(rl, ri.amdGpuResourceName)) && (forall k v1.ResourceName :: a.scalarResources[k] == ri.rlScalar(rl, k) && (k in a.scalarResources <==> ri.rlScalarHas(rl, k)))
// no shared-GPU bookkeeping yet
//@ define noSharedGpus(ni *NodeInfo) bool = forall g string :: !(g in ni.UsedSharedGPUsMemory) && !(g in ni.ReleasingSharedGPUsMemory) && !(g in ni.AllocatedSharedGPUsMemory) && !(g in ni.ReleasingSharedGPUs)
// nodeWF without its two data conditions that a snapshot cannot promise for EVERY API state: a positive per-GPU memory
// (label value in [0,99] or negative: finding F1) and vectors as long as the shared layout (the layout grows while the
// snapshot is built)
//@ define nodeShape(ni *NodeInfo) bool = ni != nil && ni.Node != nil && ni.Idle != nil && ni.Releasing != nil && ni.Used != nil && ni.Allocatable != nil && ni.Idle != ni.Releasing && ni.Idle != ni.Used && ni.Used != ni.Releasing && resWF(ni) && gpuMapsWF(ni) && ni.VectorMap != nil

// C14 "what the scheduler believes about each node (idle, used and releasing resources ..., pods present) ... equals
// the value recomputed from scratch from the pods": a node WITHOUT pods has Used = Releasing = 0, no shared-GPU
// entries, no pods, and Idle = Allocatable = the amount of node.status.allocatable (C01 observes "node.status.allocatable").
// C10 "nodes without labels or with zero capacity": total for every node object (nil label / allocatable maps included).
//@ func NewNodeInfo
//@   props C14 C01 C10
//@   requires node != nil && ri.vmWF(vectorMap)
//@   fresh
//@   ensures [identity] result.Node == node && result.Name == node.Name && result.VectorMap == vectorMap && result.PodAffinityInfo == podAffinityInfo
//@   ensures [gpuMemory] result.MemoryOfEveryGpuOnNode == nodeGpuMemory(node) && result.GpuMemorySynced == gpuMemLabelOk(node)
//@   ensures [allocatable] isListAmount(result.Allocatable, node.Status.Allocatable)
//@   ensures [idleIsAllocatable] sameResource(result.Idle, result.Allocatable)
//@   ensures [nothingUsed] zeroResource(result.Used) && zeroResource(result.Releasing)
//@   ensures [noPods] (forall k common_info.PodID :: !(k in result.PodInfos) && !(k in result.LegacyMIGTasks)) && noSharedGpus(result)
//@   ensures [shape] nodeShape(result) && fresh(result.Idle) && fresh(result.Used) && fresh(result.Releasing) && fresh(result.Allocatable) && result.Allocatable != result.Idle && result.Allocatable.scalarResources != result.Idle.scalarResources
//@   ensures [vectors] len(result.IdleVector) == len(vectorMap.resourceNames) && len(result.UsedVector) == len(vectorMap.resourceNames) && len(result.ReleasingVector) == len(vectorMap.resourceNames) && len(result.AllocatableVector) == len(vectorMap.resourceNames) && ri.freshArray(result.AllocatableVector) && ri.freshArray(result.IdleVector)
//@   ensures [wf] nodeGpuMemory(node) > 0 ==> nodeWF(result)
//@   ensures [podsWF] result.PodInfos != nil && fresh(result.PodInfos) && result.LegacyMIGTasks != nil && fresh(result.LegacyMIGTasks)
//@ end

// the accepted-resources object of the task was made by this call: new object, new scalar map, MIG map nil / the request's / new
//@ define acceptedFresh(t *pod_info.PodInfo) bool = fresh(t.AcceptedResource) && t.AcceptedResource.scalarResources != nil && fresh(t.AcceptedResource.scalarResources) && (t.AcceptedResource.migResources == nil || t.AcceptedResource.migResources == t.ResReq.migResources || fresh(t.AcceptedResource.migResources))
// the accounting of the node did not move (cpu, memory, whole GPUs, every scalar resource incl. presence in Idle)
//@ define acctUntouched(ni *NodeInfo) bool = ni.Used.milliCpu == old(ni.Used.milliCpu) && ni.Used.memory == old(ni.Used.memory) && ni.Used.gpus == old(ni.Used.gpus) && ni.Idle.milliCpu == old(ni.Idle.milliCpu) && ni.Idle.memory == old(ni.Idle.memory) && ni.Idle.gpus == old(ni.Idle.gpus) && ni.Releasing.milliCpu == old(ni.Releasing.milliCpu) && ni.Releasing.memory == old(ni.Releasing.memory) && ni.Releasing.gpus == old(ni.Releasing.gpus)
//@ define acctScalarsUntouched(ni *NodeInfo) bool = forall k v1.ResourceName :: ni.Used.scalarResources[k] == old(ni.Used.scalarResources[k]) && ni.Idle.scalarResources[k] == old(ni.Idle.scalarResources[k]) && ni.Releasing.scalarResources[k] == old(ni.Releasing.scalarResources[k]) && (k in ni.Idle.scalarResources <==> old(k in ni.Idle.scalarResources))
// exact effect of ONE occupying pod t on the node (C14/C01: "Idle/Used/Releasing are exactly Allocatable minus/plus the
// per-status effect of each pod added"): its request (cpu, memory, whole GPUs unless it is a reservation pod) is added
// to Used; taken from Idle unless the pod is Pipelined; added to Releasing when it is Releasing (taken from it when
// Pipelined).  Fractional GPU requests are charged per shared GPU (addSharedTaskResources), not stated here.
//@ define firstCharged(ni *NodeInfo, t *pod_info.PodInfo) bool = ni.Used.milliCpu == old(ni.Used.milliCpu) + t.ResReq.milliCpu && ni.Used.memory == old(ni.Used.memory) + t.ResReq.memory && ni.Idle.milliCpu == old(ni.Idle.milliCpu) - idlePart(t, t.ResReq.milliCpu) && ni.Idle.memory == old(ni.Idle.memory) - idlePart(t, t.ResReq.memory) && ni.Releasing.milliCpu == old(ni.Releasing.milliCpu) + relPart(t, t.ResReq.milliCpu) && ni.Releasing.memory == old(ni.Releasing.memory) + relPart(t, t.ResReq.memory) && ni.Used.gpus == old(ni.Used.gpus) + nodeChargedGpus(t) && (t.ResourceReceivedType != "Fraction" ==> ni.Idle.gpus == old(ni.Idle.gpus) - idlePart(t, nodeChargedGpus(t)) && ni.Releasing.gpus == old(ni.Releasing.gpus) + relPart(t, nodeChargedGpus(t)))
// every task of the list can be handed to AddTask (quantified over the element cells r = &ts[i]; `from` is unused)
//@ define tasksAddable(ni *NodeInfo, ts []*pod_info.PodInfo, from int) bool = forall r **pod_info.PodInfo :: incells(r, ts) ==> taskWF(*r) && taskSeparate(ni, *r)

// C14/C01/C12 (snapshot): "every snapshot charges the pod's resources ... to the selected node" /
// "pods already occupying the node (running, terminating, bound or being bound)": every pod of the list whose status
// occupies the node (Allocated, Pipelined, Binding, Bound, Running, Releasing) has been handed to AddTask (which charges
// it by status, see AddTask/addTaskResources) and is recorded on the node afterwards.  Exact accounting for 0 and 1
// pods: no pod - nothing moves; one pod in any other status (Pending, Gated, Succeeded, Failed, Unknown: "their pods
// become schedulable again") - nothing moves; one occupying pod - exactly its request moves, by status (firstCharged).
// (The same for n pods is a sum over the list; the loop form "nothing moves while no visited pod occupies the node"
// was dropped: its quantified antecedent made obligations take > 20 s.)  Every pod of the list is registered in
// existingPodsMap under its UID and returned, in order.
//@ func (*NodeInfo).AddTasksToNode
//@   props C14 C01 C12 C10
//@   requires nodeWF(ni) && podsWF(ni) && existingPodsMap != nil && existingPodsMap != ni.PodInfos
//@   requires tasksAddable(ni, podInfos, 0)
//@   requires forall i int :: 0 <= i && i < len(podInfos) ==> pod_status.isStatus(podInfos[i].Status)   // one of the declared statuses (what getTaskStatus returns): lets the clauses name the status class as a set (stActiveUsed) instead of a bit mask
//@   modifies existingPodsMap[*], family(podInfos[0].AcceptedResource), family(podInfos[0].ResourceReceivedType), ni.PodInfos[*], ni.LegacyMIGTasks[*], ni.Used.milliCpu, ni.Used.memory, ni.Used.gpus, ni.Used.scalarResources[*], ni.Idle.milliCpu, ni.Idle.memory, ni.Idle.gpus, ni.Idle.scalarResources[*], ni.Releasing.milliCpu, ni.Releasing.memory, ni.Releasing.gpus, ni.Releasing.scalarResources[*], ni.UsedVector[*], ni.IdleVector[*], ni.ReleasingVector[*], ni.UsedSharedGPUsMemory[*], ni.ReleasingSharedGPUsMemory[*], ni.AllocatedSharedGPUsMemory[*], ni.ReleasingSharedGPUs[*], sumIdleGPUs(ni), sumIdleGPUMem(ni), sumReleasingGPUs(ni), sumReleasingGPUMem(ni)
//@   loop 1
//@     invariant 0 - 1 <= rangeindex && rangeindex < len(podInfos)
//@     invariant nodeWF(ni) && podsWF(ni)
//@     invariant forall i int :: 0 <= i && i < len(podInfos) ==> pod_status.isStatus(podInfos[i].Status)
//@     invariant forall t *pod_info.PodInfo :: t.AcceptedResource == old(t.AcceptedResource) || acceptedFresh(t)
//@     invariant len(resultPods) == rangeindex + 1 && (forall i int :: 0 <= i && i <= rangeindex ==> resultPods[i] == podInfos[i].Pod)
//@     invariant forall k common_info.PodID :: old(k in ni.PodInfos) ==> k in ni.PodInfos
//@     invariant forall i int :: 0 <= i && i <= rangeindex && pod_status.stActiveUsed(podInfos[i].Status) ==> pod_info.podKeyOf(podInfos[i].Pod) in ni.PodInfos
//@     invariant forall k common_info.PodID :: old(k in existingPodsMap) ==> k in existingPodsMap
//@     invariant forall i int :: 0 <= i && i <= rangeindex ==> podInfos[i].UID in existingPodsMap && existingPodsMap[podInfos[i].UID] != nil && existingPodsMap[podInfos[i].UID].UID == podInfos[i].UID
//@     invariant old(forall k in ni.PodInfos :: ni.PodInfos[k] != nil) ==> (forall k in ni.PodInfos :: ni.PodInfos[k] != nil)
//@     invariant rangeindex == 0 - 1 ==> acctUntouched(ni) && acctScalarsUntouched(ni)
//@     invariant rangeindex == 0 - 1 ==> (forall k common_info.PodID :: (k in ni.PodInfos) == old(k in ni.PodInfos))
//@     invariant rangeindex == 0 && !pod_status.stActiveUsed(podInfos[0].Status) ==> acctUntouched(ni) && acctScalarsUntouched(ni)
//@     invariant rangeindex == 0 && pod_status.stActiveUsed(podInfos[0].Status) && !old(pod_info.podKeyOf(podInfos[0].Pod) in ni.PodInfos) ==> firstCharged(ni, podInfos[0])
//@   ensures [allReturned] len(resultPods) == len(podInfos) && (forall i int :: 0 <= i && i < len(podInfos) ==> resultPods[i] == podInfos[i].Pod)
//@   ensures [occupyingPodsRecorded] forall i int :: 0 <= i && i < len(podInfos) && pod_status.stActiveUsed(podInfos[i].Status) ==> pod_info.podKeyOf(podInfos[i].Pod) in ni.PodInfos
//@   ensures [noPodNothingCharged] len(podInfos) == 0 ==> acctUntouched(ni) && acctScalarsUntouched(ni)
//@   ensures [onePodNotOccupying] len(podInfos) == 1 && !pod_status.stActiveUsed(podInfos[0].Status) ==> acctUntouched(ni) && acctScalarsUntouched(ni)
//@   ensures [onePodOccupying] len(podInfos) == 1 && pod_status.stActiveUsed(podInfos[0].Status) && !old(pod_info.podKeyOf(podInfos[0].Pod) in ni.PodInfos) ==> firstCharged(ni, podInfos[0])
//@   ensures [registered] forall i int :: 0 <= i && i < len(podInfos) ==> podInfos[i].UID in existingPodsMap && existingPodsMap[podInfos[i].UID] != nil && existingPodsMap[podInfos[i].UID].UID == podInfos[i].UID
//@   ensures [registeredKept] forall k common_info.PodID :: old(k in existingPodsMap) ==> k in existingPodsMap
//@   ensures [recordedKept] forall k common_info.PodID :: old(k in ni.PodInfos) ==> k in ni.PodInfos
//@   ensures [acceptedKeptOrOwn] forall t *pod_info.PodInfo :: t.AcceptedResource == old(t.AcceptedResource) || acceptedFresh(t)
//@   ensures [recordsNonNil] old(forall k in ni.PodInfos :: ni.PodInfos[k] != nil) ==> (forall k in ni.PodInfos :: ni.PodInfos[k] != nil)
//@   ensures [wf] nodeWF(ni) && podsWF(ni)
//@ end

// C14 (establish): GPUs that a node offers through DRA ResourceSlices are added to Allocatable AND to Idle (so
// "Idle = Allocatable minus what the pods hold" keeps holding: no pod has been added yet when the snapshot calls this);
// a non-positive count changes nothing.
//@ func (*NodeInfo).AddDRAGPUs
//@   props C14 C01 C10
//@   requires nodeShape(ni) && ni.Allocatable != ni.Idle
//@   modifies ni.Allocatable.gpus, ni.Idle.gpus, ni.AllocatableVector[*], ni.IdleVector[*]
//@   ensures [bothGrow] ni.Allocatable.gpus == old(ni.Allocatable.gpus) + ite(draGPUs > 0.0, draGPUs, 0.0) && ni.Idle.gpus == old(ni.Idle.gpus) + ite(draGPUs > 0.0, draGPUs, 0.0)
//@ end
