//go:build verif

// Contracts for govc (contract-based deductive verification); comments only.
package pod_status

// A PodStatus value is one of the twelve declared constants (single bits).
//@ define isStatus(s int) bool = s == Pending || s == Gated || s == Allocated || s == Pipelined || s == Binding || s == Bound || s == Running || s == Releasing || s == Succeeded || s == Failed || s == Unknown || s == Deleted

// Status classes, written out as sets (C14: "pod counts per status"; DESIGN C14: "an edit of a mask is
// seen by every invariant that mentions the class").
// alive: the pod still counts towards the workload (not finished / failed / deleted / releasing)
//@ define stAlive(s int) bool = s == Pending || s == Gated || s == Allocated || s == Pipelined || s == Binding || s == Bound || s == Running
// active used: occupies (or is about to occupy) node resources, terminating pods included
//@ define stActiveUsed(s int) bool = s == Allocated || s == Pipelined || s == Binding || s == Bound || s == Running || s == Releasing
// active allocated: counts towards the gang minimum
//@ define stActiveAllocated(s int) bool = s == Allocated || s == Pipelined || s == Binding || s == Bound || s == Running
// bound: holds resources on its node now
//@ define stBound(s int) bool = s == Allocated || s == Bound || s == Running || s == Releasing
// allocated: charged to the workload's Allocated resources
//@ define stAllocated(s int) bool = s == Allocated || s == Binding || s == Bound || s == Running

// The same classes as computed by the code's masks, for use inside quantifiers of other packages' specs
// (a call to Is*Status cannot be used under a quantifier). The contracts below tie them to the status sets above.
//@ define inAlive(s int) bool = bitand(aliveStatuses, s) != 0
//@ define inActiveUsed(s int) bool = bitand(activeUsedStatuses, s) != 0
//@ define inActiveAllocated(s int) bool = bitand(activeAllocatedStatuses, s) != 0
//@ define inBound(s int) bool = bitand(boundStatuses, s) != 0
//@ define inAllocated(s int) bool = bitand(allocatedStatuses, s) != 0

// Named copy of inActiveAllocated (definitional axiom of a new symbol, conservative): keeps the mask arithmetic out of
// quantified invariants over queue contents (podgroup_info.getTasksToEvictPriorityQueue), where it made one obligation slow.
//@ declare aaClass(s int) bool
//@ axiom forall s int :: aaClass(s) == (bitand(activeAllocatedStatuses, s) != 0)

//@ func IsAliveStatus
//@   props C14 C03 C06
//@   pure
//@   ensures isStatus(statusInput) ==> result == stAlive(statusInput)
//@   ensures [det] result == (bitand(aliveStatuses, statusInput) != 0)   // for callers: a deterministic function of the argument, also outside the twelve constants
//@ end

//@ func IsActiveUsedStatus
//@   props C14 C03 C06
//@   pure
//@   ensures isStatus(statusInput) ==> result == stActiveUsed(statusInput)
//@   ensures [det] result == (bitand(activeUsedStatuses, statusInput) != 0)   // for callers: a deterministic function of the argument, also outside the twelve constants
//@ end

//@ func IsActiveAllocatedStatus
//@   props C14 C03 C06
//@   pure
//@   ensures isStatus(statusInput) ==> result == stActiveAllocated(statusInput)
//@   ensures [det] result == (bitand(activeAllocatedStatuses, statusInput) != 0)   // for callers: a deterministic function of the argument, also outside the twelve constants
//@   ensures [named] result == aaClass(statusInput)   // exports the named class to callers (the axiom itself is local to this package)
//@ end

//@ func IsPodBound
//@   props C14 C03 C06
//@   pure
//@   ensures isStatus(statusInput) ==> result == stBound(statusInput)
//@   ensures [det] result == (bitand(boundStatuses, statusInput) != 0)   // for callers: a deterministic function of the argument, also outside the twelve constants
//@ end

//@ func AllocatedStatus
//@   props C14 C03 C06
//@   pure
//@   ensures isStatus(status) ==> result == stAllocated(status)
//@   ensures [det] result == (bitand(allocatedStatuses, status) != 0)   // for callers: a deterministic function of the argument, also outside the twelve constants
//@ end
