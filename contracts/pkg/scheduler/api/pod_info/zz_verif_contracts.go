//go:build verif

// Contracts for govc (contract-based deductive verification); comments only.
package pod_info

// C10 (pods bullet): the scheduler's view of a pod's status is total on every API state: every
// phase string (also unknown / empty ones) maps to one of the declared statuses, without panic.
//@ define taskStatusOf(pod *v1.Pod, hasBR bool) int = ite(pod.Status.Phase == v1.PodRunning, ite(pod.DeletionTimestamp != nil, pod_status.Releasing, pod_status.Running),
//@      ite(pod.Status.Phase == v1.PodPending, ite(pod.DeletionTimestamp != nil, pod_status.Releasing, ite(len(pod.Spec.NodeName) != 0, pod_status.Bound, ite(hasBR, pod_status.Binding, ite(len(pod.Spec.SchedulingGates) > 0, pod_status.Gated, pod_status.Pending)))),
//@      ite(pod.Status.Phase == v1.PodSucceeded, pod_status.Succeeded, ite(pod.Status.Phase == v1.PodFailed, pod_status.Failed, pod_status.Unknown))))

//@ func getTaskStatus
//@   props C10 C19
//@   requires pod != nil
//@   pure
//@   ensures result == taskStatusOf(pod, bindRequest != nil)
//@   ensures [total] pod_status.isStatus(result)
//@ end

//@ import gr "github.com/NVIDIA/KAI-scheduler/pkg/binder/plugins/gpusharing/gpu-request"

// the GPU part of the pod's request as the scheduler sees it
//@ define gpuUnchanged(pi *PodInfo) bool = pi.ResReq.portion == old(pi.ResReq.portion) && pi.ResReq.count == old(pi.ResReq.count) && pi.ResReq.gpuMemory == old(pi.ResReq.gpuMemory) && pi.ResReq.migResources == old(pi.ResReq.migResources) && pi.ResReq.draGpuCounts == old(pi.ResReq.draGpuCounts)

//@ define gpuUnchanged0(pi *PodInfo) bool = pi.ResReq.portion == old(pi.ResReq.portion) && pi.ResReq.count == old(pi.ResReq.count) && pi.ResReq.gpuMemory == old(pi.ResReq.gpuMemory) && pi.ResReq.migResources == old(pi.ResReq.migResources)

// legacy MIG pods: an annotation named like a MIG resource replaces the GPU request.  Needed by
// updatePodAdditionalFields: when no such annotation is applied the GPU request is untouched.
//@ func (*PodInfo).updateLegacyMigResourceRequestFromAnnotations
//@   props C19 C10
//@   ieee
//@   requires pi != nil && pi.Pod != nil && pi.ResReq != nil
//@   modifies pi.ResReq.GpuResourceRequirement, pi.IsLegacyMIGtask
//@   loop 1
//@     invariant old(pi.IsLegacyMIGtask) ==> pi.IsLegacyMIGtask
//@     invariant !pi.IsLegacyMIGtask ==> gpuUnchanged(pi)
//@   ensures old(pi.IsLegacyMIGtask) ==> pi.IsLegacyMIGtask
//@   ensures [untouched-without-mig-annotation] !pi.IsLegacyMIGtask ==> gpuUnchanged(pi)
//@ end

// ---- C19 agreement: scheduler's reading of the annotations -----------------------------------------
//@ define sFracOk(pod *v1.Pod) bool = resources.pfOk(resources.fracStr(pod)) && !(resources.pfVal(resources.fracStr(pod)) <= 0.0) && !(resources.pfVal(resources.fracStr(pod)) > 1.0)
//@ define sMemOk(pod *v1.Pod) bool = resources.piOk(resources.memStr(pod)) && resources.piVal(resources.memStr(pod)) > 0
//@ define sCountUsed(pod *v1.Pod) bool = resources.hasCount(pod) && resources.countStr(pod) != "" && resources.piOk(resources.countStr(pod))
// what admission / the binder plugin accept: gr.ValidateGpuRequests(pod) == nil, by its [exact] postcondition
//@ define admitted(pod *v1.Pod) bool = !gr.badCombination(pod) && gr.valuesOkCode(pod)

//@ func (*PodInfo).updatePodAdditionalFields
//@   props C19 C10
//@   ieee
//@   requires pi != nil && pi.Pod != nil && pi.ResReq != nil
//@   requires !pi.IsLegacyMIGtask
//@   modifies pi.GPUGroups, pi.ResourceReceivedType, pi.ResReq.GpuResourceRequirement, pi.ResourceRequestType, pi.ResReqVector, pi.IsLegacyMIGtask
// functional description of the scheduler's interpretation (helper level, from the code)
//@   ensures [sched-fraction] !pi.IsLegacyMIGtask && sFracOk(pi.Pod) ==> pi.ResReq.portion == ite(resources.pfVal(resources.fracStr(pi.Pod)) >= 1.0, 1.0, resources.pfVal(resources.fracStr(pi.Pod))) && pi.ResReq.gpuMemory == ite(sCountUsed(pi.Pod) && sMemOk(pi.Pod), resources.piVal(resources.memStr(pi.Pod)), 0)
//@   ensures [sched-type-fraction] !pi.IsLegacyMIGtask && sFracOk(pi.Pod) ==> pi.ResourceRequestType == RequestTypeFraction
//@   ensures [sched-type-memory] !pi.IsLegacyMIGtask && !sFracOk(pi.Pod) && sMemOk(pi.Pod) ==> pi.ResourceRequestType == RequestTypeGpuMemory
//@   ensures [sched-not-sharing] !pi.IsLegacyMIGtask && !sFracOk(pi.Pod) && !sMemOk(pi.Pod) ==> gpuUnchanged0(pi) && (pi.ResourceRequestType == old(pi.ResourceRequestType) || pi.ResourceRequestType == RequestTypeMigInstance)
//@ end
