//go:build verif

// Contracts for govc (contract-based deductive verification); comments only.
package pod_info

// C10 (pods bullet): the scheduler's view of a pod's status is total on every API state: every
// phase string (also unknown / empty ones) maps to one of the declared statuses, without panic.
//@ define taskStatusOf(pod *v1.Pod, hasBR bool) int = ite(pod.Status.Phase == v1.PodRunning, ite(pod.DeletionTimestamp != nil, pod_status.Releasing, pod_status.Running),
//@      ite(pod.Status.Phase == v1.PodPending, ite(pod.DeletionTimestamp != nil, pod_status.Releasing, ite(len(pod.Spec.NodeName) != 0, pod_status.Bound, ite(hasBR, pod_status.Binding, ite(len(pod.Spec.SchedulingGates) > 0, pod_status.Gated, pod_status.Pending)))),
//@      ite(pod.Status.Phase == v1.PodSucceeded, pod_status.Succeeded, ite(pod.Status.Phase == v1.PodFailed, pod_status.Failed, pod_status.Unknown))))

//@ func getTaskStatus
//@   props C10 C19
//@   requires pod != nil
//@   pure
//@   ensures result == taskStatusOf(pod, bindRequest != nil)
//@   ensures [total] pod_status.isStatus(result)
//@ end
