//go:build verif

// Contracts for govc (contract-based deductive verification); comments only.
package pod_info

// C10 (pods bullet): the scheduler's view of a pod's status is total on every API state: every
// phase string (also unknown / empty ones) maps to one of the declared statuses, without panic.
//@ define taskStatusOf(pod *v1.Pod, hasBR bool) int = ite(pod.Status.Phase == v1.PodRunning, ite(pod.DeletionTimestamp != nil, pod_status.Releasing, pod_status.Running),
//@      ite(pod.Status.Phase == v1.PodPending, ite(pod.DeletionTimestamp != nil, pod_status.Releasing, ite(len(pod.Spec.NodeName) != 0, pod_status.Bound, ite(hasBR, pod_status.Binding, ite(len(pod.Spec.SchedulingGates) > 0, pod_status.Gated, pod_status.Pending)))),
//@      ite(pod.Status.Phase == v1.PodSucceeded, pod_status.Succeeded, ite(pod.Status.Phase == v1.PodFailed, pod_status.Failed, pod_status.Unknown))))

//@ func getTaskStatus
//@   props C10 C19
//@   requires pod != nil
//@   pure
//@   ensures result == taskStatusOf(pod, bindRequest != nil)
//@   ensures [total] pod_status.isStatus(result)
//@ end

//@ import gr "github.com/NVIDIA/KAI-scheduler/pkg/binder/plugins/gpusharing/gpu-request"
//@ import resource "k8s.io/apimachinery/pkg/api/resource"

// the GPU part of the pod's request as the scheduler sees it
// same float, NaN included (IEEE == is false on NaN)
//@ define sameF(a real, b real) bool = a == b || (isnan(a) && isnan(b))
//@ define gpuUnchanged(pi *PodInfo) bool = sameF(pi.ResReq.portion, old(pi.ResReq.portion)) && pi.ResReq.count == old(pi.ResReq.count) && pi.ResReq.gpuMemory == old(pi.ResReq.gpuMemory) && pi.ResReq.migResources == old(pi.ResReq.migResources) && pi.ResReq.draGpuCounts == old(pi.ResReq.draGpuCounts)

//@ define gpuUnchanged0(pi *PodInfo) bool = sameF(pi.ResReq.portion, old(pi.ResReq.portion)) && pi.ResReq.count == old(pi.ResReq.count) && pi.ResReq.gpuMemory == old(pi.ResReq.gpuMemory) && pi.ResReq.migResources == old(pi.ResReq.migResources)

// legacy MIG pods: an annotation named like a MIG resource replaces the GPU request.  Needed by
// updatePodAdditionalFields: when no such annotation is applied the GPU request is untouched.
//@ func (*PodInfo).updateLegacyMigResourceRequestFromAnnotations
//@   props C19 C10
//@   ieee
//@   requires pi != nil && pi.Pod != nil && pi.ResReq != nil
//@   modifies pi.ResReq.GpuResourceRequirement, pi.IsLegacyMIGtask
//@   loop 1
//@     invariant old(pi.IsLegacyMIGtask) ==> pi.IsLegacyMIGtask
//@     invariant !pi.IsLegacyMIGtask ==> gpuUnchanged(pi)
//@     invariant pi.ResReq.migResources == old(pi.ResReq.migResources) || fresh(pi.ResReq.migResources)   // added by helper "cache"
//@   ensures old(pi.IsLegacyMIGtask) ==> pi.IsLegacyMIGtask
//@   ensures [migMapOwn] pi.ResReq.migResources == old(pi.ResReq.migResources) || fresh(pi.ResReq.migResources)   // added by helper "cache"
//@   ensures [untouched-without-mig-annotation] !pi.IsLegacyMIGtask ==> gpuUnchanged(pi)
//@ end

// ---- C19 agreement: scheduler's reading of the annotations -----------------------------------------
//@ define sFracOk(pod *v1.Pod) bool = resources.pfOk(resources.fracStr(pod)) && !(resources.pfVal(resources.fracStr(pod)) <= 0.0) && !(resources.pfVal(resources.fracStr(pod)) > 1.0)
//@ define sMemOk(pod *v1.Pod) bool = resources.piOk(resources.memStr(pod)) && resources.piVal(resources.memStr(pod)) > 0
//@ define sCountUsed(pod *v1.Pod) bool = resources.hasCount(pod) && resources.countStr(pod) != "" && resources.piOk(resources.countStr(pod))
// what admission / the binder plugin accept: gr.ValidateGpuRequests(pod) == nil is, by its proved
// postcondition [exact], exactly this predicate
//@ define admitted(pod *v1.Pod) bool = !gr.badCombination(pod) && gr.valuesWellFormed(pod)
// the device count admission accepted (default 1)
//@ define admittedCount(pod *v1.Pod) int = ite(resources.hasCount(pod), resources.piVal(resources.countStr(pod)), 1)

//@ func (*PodInfo).updatePodAdditionalFields
//@   props C19 C10 C12
//@   ieee
//@   requires pi != nil && pi.Pod != nil && pi.ResReq != nil
//@   requires !pi.IsLegacyMIGtask && pi.VectorMap != nil && pi.ResourceRequestType == RequestTypeRegular   // as set by the constructor, its only caller
//@   requires bindRequest != nil ==> bindRequest.BindRequest != nil
//@   assume resources.piVal("") == 0 && resources.pfVal("") == 0.0
//@   note strconv: ParseInt("")/ParseFloat("") return value 0 with ErrSyntax (documented); an absent annotation is read as ""
//@   modifies pi.GPUGroups, pi.ResourceReceivedType, pi.ResReq.GpuResourceRequirement, pi.ResourceRequestType, pi.ResReqVector, pi.IsLegacyMIGtask
// C19 (top level, agreement): "Every GPU request that admission accepts ... denotes a finite positive
// quantity which the scheduler interprets as exactly that request".  (Legacy MIG annotations replace the
// request altogether and are outside the property: clauses are stated for pods without one.)
// Before fix 1c0b67c: red for "NaN" (portion NaN, count 0), for gpu-memory above MaxInt64 (scheduler saw no
// GPU request) and for a device count above MaxInt64 (scheduler used 1).
// C12 "charge GPU groups in every snapshot": while a BindRequest that selected GPU groups is alive, the
// snapshot charges exactly those groups - whatever gpu-group labels the pod carries at that moment (the
// binder labels one group per ReserveGpuDevice call, and a failed attempt may leave a stale label).
//@   ensures [migMapOwn] pi.ResReq.migResources == old(pi.ResReq.migResources) || fresh(pi.ResReq.migResources)   // added by helper "cache"
//@   ensures [live-bindrequest-groups-win] bindRequest != nil && len(bindRequest.BindRequest.Spec.SelectedGPUGroups) > 0 ==> pi.GPUGroups == bindRequest.BindRequest.Spec.SelectedGPUGroups
//@   ensures [agree-fraction] admitted(pi.Pod) && resources.hasFrac(pi.Pod) && !pi.IsLegacyMIGtask ==> pi.ResourceRequestType == RequestTypeFraction && isfinite(pi.ResReq.portion) && pi.ResReq.portion == resources.pfVal(resources.fracStr(pi.Pod)) && fval(pi.ResReq.portion) > 0.0 && fval(pi.ResReq.portion) < 1.0 && pi.ResReq.gpuMemory == 0
//@   ensures [agree-memory] admitted(pi.Pod) && resources.hasMem(pi.Pod) && !pi.IsLegacyMIGtask ==> pi.ResourceRequestType == RequestTypeGpuMemory && pi.ResReq.gpuMemory == resources.piVal(resources.memStr(pi.Pod)) && pi.ResReq.gpuMemory >= 1 && pi.ResReq.portion == 0.0
//@   ensures [agree-count] admitted(pi.Pod) && (resources.hasFrac(pi.Pod) || resources.hasMem(pi.Pod)) && !pi.IsLegacyMIGtask ==> pi.ResReq.count == admittedCount(pi.Pod) && pi.ResReq.count >= 1
//@   ensures [agree-no-sharing] admitted(pi.Pod) && !resources.hasFrac(pi.Pod) && !resources.hasMem(pi.Pod) && !pi.IsLegacyMIGtask ==> gpuUnchanged0(pi) && pi.ResourceRequestType != RequestTypeFraction && pi.ResourceRequestType != RequestTypeGpuMemory
// C19 (converse): what the scheduler treats as a sharing request carries a sharing annotation, hence is
// subject to admission's checks (rejected when malformed: ValidateGpuRequests [exact]; rejected when GPU
// sharing is disabled: (*GPUSharing).Validate [sharing-disabled]).
//@   ensures [sharing-implies-annotation] pi.ResourceRequestType == RequestTypeFraction || pi.ResourceRequestType == RequestTypeGpuMemory ==> resources.hasFrac(pi.Pod) || resources.hasMem(pi.Pod)
//@   ensures [sharing-type-fraction-wf] !pi.IsLegacyMIGtask && pi.ResourceRequestType == RequestTypeFraction && !admitted(pi.Pod) ==> gr.badCombination(pi.Pod) || !gr.valuesWellFormed(pi.Pod)
// functional description of the scheduler's interpretation (helper level, from the code)
//@   ensures [sched-fraction-single] !pi.IsLegacyMIGtask && sFracOk(pi.Pod) && !sCountUsed(pi.Pod) ==> sameF(pi.ResReq.portion, resources.pfVal(resources.fracStr(pi.Pod))) && pi.ResReq.count == ite(resources.pfVal(resources.fracStr(pi.Pod)) > 0.0, 1, 0) && pi.ResReq.gpuMemory == 0
//@   ensures [sched-memory-single] !pi.IsLegacyMIGtask && !sFracOk(pi.Pod) && sMemOk(pi.Pod) && !sCountUsed(pi.Pod) ==> pi.ResReq.portion == 0.0 && pi.ResReq.count == 1 && pi.ResReq.gpuMemory == resources.piVal(resources.memStr(pi.Pod))
// with a usable device count the raw parse results are taken, whatever they are
//@   ensures [sched-multi] !pi.IsLegacyMIGtask && (sFracOk(pi.Pod) || sMemOk(pi.Pod)) && sCountUsed(pi.Pod) ==> sameF(pi.ResReq.portion, resources.pfVal(resources.fracStr(pi.Pod))) && pi.ResReq.count == resources.piVal(resources.countStr(pi.Pod)) && pi.ResReq.gpuMemory == resources.piVal(resources.memStr(pi.Pod))
//@   ensures [sched-type-fraction] !pi.IsLegacyMIGtask && sFracOk(pi.Pod) ==> pi.ResourceRequestType == RequestTypeFraction
//@   ensures [sched-type-memory] !pi.IsLegacyMIGtask && !sFracOk(pi.Pod) && sMemOk(pi.Pod) ==> pi.ResourceRequestType == RequestTypeGpuMemory
//@   ensures [sched-not-sharing] !pi.IsLegacyMIGtask && !sFracOk(pi.Pod) && !sMemOk(pi.Pod) ==> gpuUnchanged0(pi) && (pi.ResourceRequestType == old(pi.ResourceRequestType) || pi.ResourceRequestType == RequestTypeMigInstance)
//@ end

// ---- requested by helper node (NodeInfo.AddTask/RemoveTask, C13) ---------------------------------------
//@ declare isReservationPod(pod *v1.Pod) bool
//@ func IsResourceReservationTask
//@   props C01 C02 C14 C13
//@   trusted
//@   note reads pod.Labels and the process-wide config (conf.GetConfig takes a sync.Mutex: outside the subset); assumed a pure, deterministic function of the pod
//@   requires pod != nil
//@   pure
//@   ensures result == isReservationPod(pod)
//@ end

//@ declare podKeyOf(pod *v1.Pod) string
//@ func PodKey
//@   props C01 C02 C14 C13
//@   trusted
//@   note clientcache.MetaNamespaceKeyFunc is external; assumed a pure, deterministic function of the pod (namespace/name)
//@   requires pod != nil
//@   pure
//@   ensures result == podKeyOf(pod)
//@ end

//@ func (*PodInfo).Clone
//@   props C01 C02 C14 C13
//@   requires pi != nil && pi.ResReq != nil && pi.AcceptedResource != nil
//@   fresh
//@   ensures result != pi
//@   ensures result.UID == pi.UID && result.Job == pi.Job && result.Name == pi.Name && result.Namespace == pi.Namespace && result.SubGroupName == pi.SubGroupName
//@   ensures result.Status == pi.Status && result.Pod == pi.Pod && result.NodeName == pi.NodeName
//@   ensures result.ResourceRequestType == pi.ResourceRequestType && result.ResourceReceivedType == pi.ResourceReceivedType && result.IsVirtualStatus == pi.IsVirtualStatus && result.IsLegacyMIGtask == pi.IsLegacyMIGtask
//@   ensures len(result.GPUGroups) == len(pi.GPUGroups) && (forall i int :: 0 <= i && i < len(pi.GPUGroups) ==> result.GPUGroups[i] == pi.GPUGroups[i])
//@   ensures [stmt2-groupsShared] result.GPUGroups == pi.GPUGroups   // added by helper "stmt2": the clone shares the GPU-group slice (same array, offset, length)
//@   ensures result.ResReq != nil && result.AcceptedResource != nil && result.ResReq != pi.ResReq && result.AcceptedResource != pi.AcceptedResource
//@   ensures result.VectorMap == pi.VectorMap
//@   ensures [resreq-copied] result.ResReq.milliCpu == pi.ResReq.milliCpu && result.ResReq.memory == pi.ResReq.memory && result.ResReq.count == pi.ResReq.count && result.ResReq.portion == pi.ResReq.portion && result.ResReq.gpuMemory == pi.ResReq.gpuMemory
//@   ensures [resreq-scalars-copied] forall k v1.ResourceName :: result.ResReq.scalarResources[k] == pi.ResReq.scalarResources[k] && (k in result.ResReq.scalarResources <==> k in pi.ResReq.scalarResources)
//@   ensures [resreq-mig-copied] forall k v1.ResourceName :: result.ResReq.migResources[k] == pi.ResReq.migResources[k] && (k in result.ResReq.migResources <==> k in pi.ResReq.migResources)
//@   ensures [resreq-dra-copied] forall k string :: result.ResReq.draGpuCounts[k] == pi.ResReq.draGpuCounts[k] && (k in result.ResReq.draGpuCounts <==> k in pi.ResReq.draGpuCounts)
//@   ensures [accepted-copied] result.AcceptedResource.milliCpu == pi.AcceptedResource.milliCpu && result.AcceptedResource.memory == pi.AcceptedResource.memory && result.AcceptedResource.count == pi.AcceptedResource.count && result.AcceptedResource.portion == pi.AcceptedResource.portion && result.AcceptedResource.gpuMemory == pi.AcceptedResource.gpuMemory
//@ end

// ---- C10 (pods bullet): the constructor pieces are total on every pod -----------------------------------
//@ func getPodResourceWithoutInitContainers
//@   props C10 C19
//@   requires pod != nil
//@   fresh
//@   loop 1
//@     invariant -1 <= rangeindex && rangeindex < len(pod.Spec.Containers)
//@     invariant podResourcesList != nil && fresh(podResourcesList)
//@     invariant forall p *resource.Quantity :: old(allocated(p)) ==> *p == old(*p)
//@   loop 2
//@     invariant podResourcesList != nil && fresh(podResourcesList)
//@     invariant forall p *resource.Quantity :: old(allocated(p)) ==> *p == old(*p)
//@   ensures fresh(result.scalarResources) && fresh(result.migResources) && fresh(result.draGpuCounts)
//@   trust [containersTotal] result.milliCpu == containersCpu(pod) && result.memory == containersMem(pod)
//@   note containersTotal NAMES the sum over the regular containers (the per-key sums are k8s Quantity arithmetic, outside reach); nothing else is assumed about it
//@ end

// C01 "the CPU, memory ... requested by the pods": what a pod requests is the Kubernetes pod request:
//   max(sum of the regular containers, every init container) + the RuntimeClass overhead (the overhead on top of BOTH).
//@ declare containersCpu(pod *v1.Pod) real
//@ declare containersMem(pod *v1.Pod) real
//@ define ovhCpu(pod *v1.Pod) real = ite(pod.Spec.Overhead != nil, resource_info.rlCpu(pod.Spec.Overhead), 0.0)
//@ define ovhMem(pod *v1.Pod) real = ite(pod.Spec.Overhead != nil, resource_info.rlMem(pod.Spec.Overhead), 0.0)
//@ func getPodResourceRequest
//@   props C10 C19 C01
//@   requires pod != nil
//@   fresh
//@   loop 1
//@     invariant -1 <= rangeindex && rangeindex < len(pod.Spec.InitContainers)
//@     invariant result != nil && fresh(result) && fresh(result.scalarResources) && fresh(result.migResources) && fresh(result.draGpuCounts)
//@     invariant result.milliCpu >= containersCpu(pod) && result.memory >= containersMem(pod)
//@     invariant forall j int :: 0 <= j && j <= rangeindex ==> result.milliCpu >= resource_info.rlCpu(pod.Spec.InitContainers[j].Resources.Requests) && result.memory >= resource_info.rlMem(pod.Spec.InitContainers[j].Resources.Requests)
//@     invariant result.milliCpu == containersCpu(pod) || (exists j int :: 0 <= j && j <= rangeindex && result.milliCpu == resource_info.rlCpu(pod.Spec.InitContainers[j].Resources.Requests))
//@     invariant result.memory == containersMem(pod) || (exists j int :: 0 <= j && j <= rangeindex && result.memory == resource_info.rlMem(pod.Spec.InitContainers[j].Resources.Requests))
//@   ensures fresh(result.scalarResources) && fresh(result.migResources) && fresh(result.draGpuCounts)
//@   ensures [one-pod] result.scalarResources[resource_info.PodsResourceName] == 1
//@   ensures [overheadOnTopOfContainers] result.milliCpu >= containersCpu(pod) + ovhCpu(pod) && result.memory >= containersMem(pod) + ovhMem(pod)
//@   ensures [overheadOnTopOfEveryInitContainer] forall j int :: 0 <= j && j < len(pod.Spec.InitContainers) ==> result.milliCpu >= resource_info.rlCpu(pod.Spec.InitContainers[j].Resources.Requests) + ovhCpu(pod) && result.memory >= resource_info.rlMem(pod.Spec.InitContainers[j].Resources.Requests) + ovhMem(pod)
//@   ensures [cpuRequestExact] result.milliCpu == containersCpu(pod) + ovhCpu(pod) || (exists j int :: 0 <= j && j < len(pod.Spec.InitContainers) && result.milliCpu == resource_info.rlCpu(pod.Spec.InitContainers[j].Resources.Requests) + ovhCpu(pod))
//@   ensures [memRequestExact] result.memory == containersMem(pod) + ovhMem(pod) || (exists j int :: 0 <= j && j < len(pod.Spec.InitContainers) && result.memory == resource_info.rlMem(pod.Spec.InitContainers[j].Resources.Requests) + ovhMem(pod))
//@ end

// NewTaskInfoWithBindRequest / resourceClaimInfoFromPodClaims: not under contract.  Blockers (reported):
// resource_info.ResourceClaimSliceToMap has no contract and (types.NamespacedName).String is an unmodelled
// external; both havoc the heap, also inside loop 2 of resourceClaimInfoFromPodClaims.

// (added by helper "alloc"; opt-in via `usestable`) the request type of a task is fixed by its constructor; task
// slices handed around by the allocate path are not rewritten in place
//@ stable PodInfo.ResourceRequestType
//@ stable slicetype []*PodInfo

// ---- added by helper "cache" ----
// Snapshot construction of a task (C12 C10 C14).

//@ func (k8s.io/apimachinery/pkg/types.NamespacedName).String
//@   props C12 C10
//@   trusted
//@   note external (k8s.io/apimachinery/pkg/types): returns Namespace + "/" + Name; assumed read-only
//@   pure
//@ end

// the pod-group annotation of the pod ("" when absent or empty)
//@ define podGroupOf(pod *v1.Pod) string = ite(commonconstants.PodGroupAnnotationForPod in pod.Annotations && len(pod.Annotations[commonconstants.PodGroupAnnotationForPod]) != 0, pod.Annotations[commonconstants.PodGroupAnnotationForPod], "")

//@ func getPodGroupID
//@   props C10 C14
//@   requires pod != nil
//@   pure
//@   ensures result == podGroupOf(pod)
//@ end

// copy relation of the generated deep copy of an allocation: copiedFrom(c) names the object c was copied from
//@ ghost copiedFrom(a *resourceapi.AllocationResult) *resourceapi.AllocationResult
//@ func (*k8s.io/api/resource/v1.AllocationResult).DeepCopy
//@   props C12 C10
//@   trusted
//@   note generated deepcopy (k8s.io/api, no body loaded): nil for nil, otherwise a new object; the ghost copiedFrom records its source (the content of the copy is not modelled)
//@   ensures (result == nil) == (recv == nil)
//@   ensures result != nil ==> fresh(result) && copiedFrom(result) == recv
//@ end

// a is the snapshot's copy of allocation b of the bind request: both nil, or a is a deep copy of b
//@ define allocCopy(a *resourceapi.AllocationResult, b *resourceapi.AllocationResult) bool = (a == nil && b == nil) || (a != nil && b != nil && copiedFrom(a) == b)
// the bind request names an allocation for pod claim k
//@ define brAllocates(br *bindrequest_info.BindRequestInfo, k string) bool = br != nil && (exists i int :: 0 <= i && i < len(br.BindRequest.Spec.ResourceClaimAllocations) && br.BindRequest.Spec.ResourceClaimAllocations[i].Name == k)
// x is a copy of one of the allocations the bind request names for pod claim k
//@ define brAllocationOf(br *bindrequest_info.BindRequestInfo, k string, x *resourceapi.AllocationResult) bool = exists i int :: 0 <= i && i < len(br.BindRequest.Spec.ResourceClaimAllocations) && br.BindRequest.Spec.ResourceClaimAllocations[i].Name == k && allocCopy(x, br.BindRequest.Spec.ResourceClaimAllocations[i].Allocation)

// C12 "every snapshot charges the pod's resources (including GPU groups and claimed devices) to the selected node":
// DRA claims of the pod as the snapshot sees them.  For every claim reference of the pod that made it into the
// result (key = podClaim.Name): when the live BindRequest names an allocation for that reference (ResourceClaimAllocation.
// Name "corresponds to the podResourceClaim.Name"), the snapshot entry carries (a copy of) THAT allocation - the
// devices promised by the bind request - and not the claim's current status.  Result: a new map with new entries;
// nothing that existed before is written.
//@ func resourceClaimInfoFromPodClaims
//@   props C10 C12
//@   requires pod != nil && resource_info.claimsNonNil(draPodClaims)
//@   requires bindRequest != nil ==> bindRequest.BindRequest != nil
//@   loop 1
//@     invariant 0 - 1 <= rangeindex && rangeindex < len(bindRequest.BindRequest.Spec.ResourceClaimAllocations)
//@     invariant bindingRequestClaimUpdates != nil && fresh(bindingRequestClaimUpdates)
//@     invariant resourceClaimInfo != nil && fresh(resourceClaimInfo) && resourceClaimInfo != bindingRequestClaimUpdates
//@     invariant forall k in bindingRequestClaimUpdates :: bindingRequestClaimUpdates[k] != nil && fresh(bindingRequestClaimUpdates[k])
//@     invariant forall k in bindingRequestClaimUpdates :: brAllocationOf(bindRequest, k, bindingRequestClaimUpdates[k].Allocation)
//@     invariant forall i int :: 0 <= i && i <= rangeindex ==> bindRequest.BindRequest.Spec.ResourceClaimAllocations[i].Name in bindingRequestClaimUpdates
//@     invariant forall k string :: !(k in resourceClaimInfo)
//@   loop 2
//@     invariant 0 - 1 <= rangeindex && rangeindex < len(pod.Spec.ResourceClaims)
//@     invariant resourceClaimInfo != nil && fresh(resourceClaimInfo) && resourceClaimInfo != bindingRequestClaimUpdates
//@     invariant forall k in bindingRequestClaimUpdates :: bindingRequestClaimUpdates[k] != nil && fresh(bindingRequestClaimUpdates[k])
//@     invariant forall k in resourceClaimInfo :: resourceClaimInfo[k] != nil && fresh(resourceClaimInfo[k])
//@     invariant forall k1 in resourceClaimInfo :: forall k2 in bindingRequestClaimUpdates :: resourceClaimInfo[k1] != bindingRequestClaimUpdates[k2]
//@     invariant forall a *schedulingv1alpha2.ResourceClaimAllocation :: a != nil && old(allocated(a)) ==> a.Allocation == old(a.Allocation)
//@     invariant forall k in bindingRequestClaimUpdates :: brAllocationOf(bindRequest, k, bindingRequestClaimUpdates[k].Allocation)
//@     invariant bindRequest != nil ==> (forall i int :: 0 <= i && i < len(bindRequest.BindRequest.Spec.ResourceClaimAllocations) ==> bindRequest.BindRequest.Spec.ResourceClaimAllocations[i].Name in bindingRequestClaimUpdates)
//@     invariant forall k in resourceClaimInfo :: k in bindingRequestClaimUpdates ==> resourceClaimInfo[k].Allocation == bindingRequestClaimUpdates[k].Allocation
//@   ensures [newMap] result0 != nil && fresh(result0)
//@   ensures [newEntries] forall k in result0 :: result0[k] != nil && fresh(result0[k])
//@   ensures [claimedDevices] forall k in result0 :: brAllocates(bindRequest, k) ==> brAllocationOf(bindRequest, k, result0[k].Allocation)
//@ end

// C12 "From the moment the scheduler creates a BindRequest until it reaches a terminal outcome, every snapshot charges
// the pod's resources (including GPU groups and claimed devices) to the selected node": the task the snapshot builds
// for a pod with a live (= passed in, see GetBindRequestForPod) BindRequest has the status of getTaskStatus (Binding
// for a pending, unbound, undeleted pod), is placed on the request's SelectedNode when the pod has no node yet, and
// carries the request's SelectedGPUGroups.  "...terminally failed requests are deleted and their pods become
// schedulable again": without a request (bindRequest == nil) the same pod is Pending/Gated on no node.
// The result is a NEW task whose request objects are new as well (taskWF of node_info: what AddTask needs).
//@ func NewTaskInfoWithBindRequest
//@   props C12 C10 C14 C01
//@   ieee
//@   requires pod != nil && vectorMap != nil && resource_info.claimsNonNil(draPodClaims)
//@   requires bindRequest != nil ==> bindRequest.BindRequest != nil
//@   assume resources.piVal("") == 0 && resources.pfVal("") == 0.0
//@   note strconv: ParseInt("")/ParseFloat("") return value 0 with ErrSyntax (documented); needed to use the contract of updatePodAdditionalFields, which carries the same assumption
//@   fresh
//@   ensures [identity] result.Pod == pod && result.UID == pod.UID && result.Name == pod.Name && result.Namespace == pod.Namespace && result.Job == podGroupOf(pod)
//@   ensures [status] result.Status == taskStatusOf(pod, bindRequest != nil)
//@   ensures [selectedNode] result.NodeName == ite(pod.Spec.NodeName == "" && bindRequest != nil, bindRequest.BindRequest.Spec.SelectedNode, pod.Spec.NodeName)
//@   ensures [selectedGroups] bindRequest != nil && len(bindRequest.BindRequest.Spec.SelectedGPUGroups) > 0 ==> result.GPUGroups == bindRequest.BindRequest.Spec.SelectedGPUGroups
//@   ensures [request] result.BindRequest == bindRequest
//@   ensures [realStatus] !result.IsVirtualStatus
//@   ensures [wf] result.ResReq != nil && fresh(result.ResReq) && result.ResReq.scalarResources != nil && fresh(result.ResReq.scalarResources) && result.AcceptedResource != nil && fresh(result.AcceptedResource) && result.AcceptedResource.scalarResources != nil && fresh(result.AcceptedResource.scalarResources) && result.VectorMap == vectorMap
//@   ensures [wfMig] (result.ResReq.migResources == nil || fresh(result.ResReq.migResources)) && fresh(result.AcceptedResource.migResources)
//@   ensures [onePod] result.ResReq.scalarResources[resource_info.PodsResourceName] == 1
//@ end
