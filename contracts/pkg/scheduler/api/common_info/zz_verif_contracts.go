//go:build verif

// Contracts for govc (contract-based deductive verification); comments only.
package common_info

// Abstract verdict of a registered comparator (plugin function value f) on (l, r): <0 l first,
// >0 r first, 0 undecided. Assumed: a comparator is a deterministic, side-effect free function of its
// two arguments while the compared objects are not modified (the concrete comparators - priority,
// elastic, ... - are characterised by their own contracts).
//@ declare cmpVerdict(f ref, l ref, r ref) int

//@ func type:CompareFn
//@   pure
//@   ensures result == cmpVerdict(fn, arg0, arg1)
//@   note assumed: registered comparators are pure and deterministic
//@ end
