//go:build verif

// Contracts for govc (contract-based deductive verification); comments only.
package common_info

// Abstract verdict of a registered comparator (plugin function value f) on (l, r): <0 l first,
// >0 r first, 0 undecided. Assumed: a comparator is a deterministic, side-effect free function of its
// two arguments while the compared objects are not modified (the concrete comparators - priority,
// elastic, ... - are characterised by their own contracts).
//@ declare cmpVerdict(f ref, l ref, r ref) int

//@ func type:CompareFn
//@   pure
//@   ensures result == cmpVerdict(fn, arg0, arg1)
//@   note assumed: registered comparators are pure and deterministic
//@ end

// (added by helper "alloc", with main's permission) Error() only formats a message; it is called by
// actions/common.handleFailedTaskAllocation on the failure path of the gang protocol, right before Rollback.
//@ func (*TasksFitErrors).Error
//@   trusted
//@   note message formatting (a closure building a reason histogram + sort.Strings + fmt): closure call outside the subset; reads f only (a nil receiver is the caller's no-panic matter)
//@   pure
//@ end

// (added by helper "alloc") merge of two per-node error maps: executed in the caller (no assumption introduced);
// callers: podgroup_info.(*PodGroupInfo).AddTaskFitErrors <- framework.(*Session).FittingNode, common.allocateTask.
//@ func (*TasksFitErrors).AddNodeErrors
//@   inline
//@   loop 1
//@     invariant true
//@ end
