//go:build verif

// Contracts for govc (contract-based deductive verification); comments only.
package resources

// MIG profile names ("nvidia.com/mig-<g>g.<m>gb") are parsed with a regular expression (library code,
// outside the subset). ASSUMED: the parser is a deterministic, side-effect free function of the string;
// migNameOK / migNameGpus / migNameMem name its verdict and its two numbers. Nothing else is assumed
// (in particular not that the numbers are positive).
//@ declare migNameOK(s string) bool
//@ declare migNameGpus(s string) int
//@ declare migNameMem(s string) int

//@ func ExtractGpuAndMemoryFromMigResourceName
//@   props C07 C08 C14
//@   trusted
//@   note regular-expression parser of a resource name (regexp + strconv.Atoi): assumed deterministic and pure; verdict and numbers are named by migNameOK/migNameGpus/migNameMem
//@   pure
//@   ensures (result2 == nil) == migNameOK(migResourceName)
//@   ensures result2 == nil ==> result0 == migNameGpus(migResourceName) && result1 == migNameMem(migResourceName)
//@ end
