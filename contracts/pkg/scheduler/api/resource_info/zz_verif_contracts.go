//go:build verif

// Contracts for govc (contract-based deductive verification); comments only.
package resource_info

// GPU share contributed by MIG instances of a Resource: a fold over the scalar
// resources that parses MIG profile names (ExtractGpuAndMemoryFromMigResourceName).
// Kept abstract: a non-negative function of the object.
//@ declare migGpus(r *Resource) real

//@ func (*Resource).GetTotalGPURequest
//@   props C07 C08
//@   trusted
//@   note assumed contract: total = whole GPUs + MIG share; the MIG fold (string parsing of profile names) is not verified
//@   requires r != nil
//@   pure
//@   ensures result == r.gpus + migGpus(r)
//@ end
