//go:build verif

// Contracts for govc (contract-based deductive verification); comments only.
package resource_info

//@ import cires "github.com/NVIDIA/KAI-scheduler/pkg/scheduler/api/common_info/resources"

// v1.ResourceName.String() is `return string(rn)` (library method, no body in the loaded program).
//@ func (k8s.io/api/core/v1.ResourceName).String
//@   trusted
//@   note library method `func (rn ResourceName) String() string { return string(rn) }`: the conversion is the identity on the string
//@   pure
//@   ensures result == string(rn)
//@ end

// GPU share of one map entry (name -> instance count) when the name is a well-formed MIG profile name:
// (GPU slices named by the profile) x (instances). cires.migNameOK/migNameGpus name the verdict and the number of
// the regular-expression parser (assumed deterministic, see that package's contract file).
//@ define migEntry(name v1.ResourceName, n int64) real = ite(cires.migNameOK(string(name)), real(cires.migNameGpus(string(name))) * real(n), 0.0)
// C08/C07 "GPU quantities": GPU share contributed by MIG instances of a Resource = the SUM over its scalar resources
// that are MIG profiles ("nvidia.com/mig-" prefix) of slices x instances.  (Was an abstract `declare` with the fold
// trusted; now a finite sum proved against the loop.)
//@ define migGpus(r *Resource) real = sum k in r.scalarResources :: ite(IsMigResource(k), migEntry(k, r.scalarResources[k]), 0.0)

//@ func (*Resource).GetTotalGPURequest
//@   props C07 C08
//@   requires r != nil
//@   pure
//@   loop 1
//@     invariant forall k in visited :: k in r.scalarResources
//@     invariant totalGpusQuota == sum k in visited :: ite(IsMigResource(k), migEntry(k, r.scalarResources[k]), 0.0)
//@   ensures [total] result == r.gpus + migGpus(r)
//@ end

// Total GPU quota of a request = MIG share (sum over migResources of slices x instances) + DRA claim counts (sum over
// draGpuCounts) + whole/fractional GPUs (portion x devices, 2-decimal fixed point).  The name `gpusQuota` is used by
// other packages (C08).
//@ define migQuota(g *GpuResourceRequirement) real = sum k in g.migResources :: migEntry(k, g.migResources[k])
//@ define gpusQuota(g *GpuResourceRequirement) real = migQuota(g) + real(draSum(g.draGpuCounts)) + getExtendedResourceGpus(g.portion, g.count)

//@ func (*GpuResourceRequirement).GetGpusQuota
//@   props C08 C14
//@   requires g != nil
//@   pure
//@   loop 1
//@     invariant forall k in visited :: k in g.migResources
//@     invariant totalGpusQuota == sum k in visited :: migEntry(k, g.migResources[k])
//@   loop 2
//@     invariant forall k in visited :: k in g.draGpuCounts
//@     invariant totalGpusQuota == migQuota(g) + real(sum k in visited :: g.draGpuCounts[k])
//@   ensures [quota] result == gpusQuota(g)
//@ end

// ---- BaseResource -----------------------------------------------------------
// C01: a request "fits" an amount iff cpu and memory are within it and every scalar resource the
// request names is present in the amount with at least the requested quantity.
//@ define fitsScalars(a map[v1.ResourceName]int64, b map[v1.ResourceName]int64) bool = forall k in a :: k in b && a[k] <= b[k]
//@ define fitsBase(r *BaseResource, rr *BaseResource) bool = r.milliCpu <= rr.milliCpu && r.memory <= rr.memory && fitsScalars(r.scalarResources, rr.scalarResources)

//@ func (*BaseResource).LessEqual
//@   props C01 C14
//@   requires r != nil && rr != nil
//@   pure
//@   loop 1
//@     invariant forall k in visited :: k in rr.scalarResources && r.scalarResources[k] <= rr.scalarResources[k]
//@   ensures result == fitsBase(r, rr)
//@ end

// C14: Add/Sub are exact, component-wise; a scalar whose sum becomes 0 is dropped from the map,
// every other key named by `other` is present afterwards, keys not named by `other` are untouched.
//@ func (*BaseResource).Add
//@   props C01 C14
//@   requires r != nil && other != nil && r.scalarResources != nil && r.scalarResources != other.scalarResources
//@   modifies r.milliCpu, r.memory, r.scalarResources[*]
//@   loop 1
//@     invariant forall k in visited :: k in other.scalarResources
//@     invariant forall k in visited :: r.scalarResources[k] == old(r.scalarResources[k]) + other.scalarResources[k] && (k in r.scalarResources <==> r.scalarResources[k] != 0)
//@     invariant forall k v1.ResourceName :: !(k in visited) ==> r.scalarResources[k] == old(r.scalarResources[k]) && (k in r.scalarResources <==> old(k in r.scalarResources))
//@   ensures r.milliCpu == old(r.milliCpu) + other.milliCpu
//@   ensures r.memory == old(r.memory) + other.memory
//@   ensures forall k v1.ResourceName :: r.scalarResources[k] == old(r.scalarResources[k]) + other.scalarResources[k]
//@   ensures forall k v1.ResourceName :: k in r.scalarResources <==> ite(k in other.scalarResources, r.scalarResources[k] != 0, old(k in r.scalarResources))
//@ end

//@ func (*BaseResource).Sub
//@   props C01 C14
//@   requires r != nil && other != nil && r.scalarResources != nil && r.scalarResources != other.scalarResources
//@   modifies r.milliCpu, r.memory, r.scalarResources[*]
//@   loop 1
//@     invariant forall k in visited :: k in other.scalarResources
//@     invariant forall k in visited :: r.scalarResources[k] == old(r.scalarResources[k]) - other.scalarResources[k] && (k in r.scalarResources <==> r.scalarResources[k] != 0)
//@     invariant forall k v1.ResourceName :: !(k in visited) ==> r.scalarResources[k] == old(r.scalarResources[k]) && (k in r.scalarResources <==> old(k in r.scalarResources))
//@   ensures r.milliCpu == old(r.milliCpu) - other.milliCpu
//@   ensures r.memory == old(r.memory) - other.memory
//@   ensures forall k v1.ResourceName :: r.scalarResources[k] == old(r.scalarResources[k]) - other.scalarResources[k]
//@   ensures forall k v1.ResourceName :: k in r.scalarResources <==> ite(k in other.scalarResources, r.scalarResources[k] != 0, old(k in r.scalarResources))
//@ end

//@ func (*BaseResource).Get
//@   props C01 C14
//@   requires r != nil
//@   pure
//@   ensures result == ite(rn == "cpu", r.milliCpu, ite(rn == "memory", r.memory, real(r.scalarResources[rn])))
//@ end

//@ func (*BaseResource).Clone
//@   props C01 C14
//@   requires r != nil
//@   fresh
//@   ensures result.milliCpu == r.milliCpu && result.memory == r.memory
//@   ensures forall k v1.ResourceName :: result.scalarResources[k] == r.scalarResources[k] && (k in result.scalarResources <==> k in r.scalarResources)
//@   ensures r.scalarResources != nil ==> fresh(result.scalarResources)
//@ end

// ---- Resource -----------------------------------------------------------------
//@ define fitsRes(r *Resource, rr *Resource) bool = r.gpus <= rr.gpus && fitsBase(r.BaseResource, rr.BaseResource)

//@ func EmptyResource
//@   props C01 C14
//@   fresh
//@   ensures result.milliCpu == 0.0 && result.memory == 0.0 && result.gpus == 0.0
//@   ensures fresh(result.scalarResources) && (forall k v1.ResourceName :: !(k in result.scalarResources))
//@ end

//@ func (*Resource).LessEqual
//@   props C01 C14
//@   requires r != nil && rr != nil
//@   pure
//@   ensures result == fitsRes(r, rr)
//@ end

//@ func (*Resource).Add
//@   props C01 C14
//@   requires r != nil && other != nil && r.scalarResources != nil && r.scalarResources != other.scalarResources
//@   modifies r.milliCpu, r.memory, r.gpus, r.scalarResources[*]
//@   ensures r.milliCpu == old(r.milliCpu) + other.milliCpu
//@   ensures r.memory == old(r.memory) + other.memory
//@   ensures r.gpus == old(r.gpus) + old(other.gpus)
//@   ensures forall k v1.ResourceName :: r.scalarResources[k] == old(r.scalarResources[k]) + other.scalarResources[k]
//@   ensures forall k v1.ResourceName :: k in r.scalarResources <==> ite(k in other.scalarResources, r.scalarResources[k] != 0, old(k in r.scalarResources))
//@ end

//@ func (*Resource).Sub
//@   props C01 C14
//@   requires r != nil && other != nil && r.scalarResources != nil && r.scalarResources != other.scalarResources
//@   modifies r.milliCpu, r.memory, r.gpus, r.scalarResources[*]
//@   ensures r.milliCpu == old(r.milliCpu) - other.milliCpu
//@   ensures r.memory == old(r.memory) - other.memory
//@   ensures r.gpus == old(r.gpus) - old(other.gpus)
//@   ensures forall k v1.ResourceName :: r.scalarResources[k] == old(r.scalarResources[k]) - other.scalarResources[k]
//@   ensures forall k v1.ResourceName :: k in r.scalarResources <==> ite(k in other.scalarResources, r.scalarResources[k] != 0, old(k in r.scalarResources))
//@ end

//@ func (*Resource).Get
//@   props C01 C14
//@   requires r != nil
//@   pure
//@   ensures result == ite(rn == "nvidia.com/gpu" || rn == "amd.com/gpu", r.gpus, ite(rn == "cpu", r.milliCpu, ite(rn == "memory", r.memory, real(r.scalarResources[rn]))))
//@ end

//@ func (*Resource).Clone
//@   props C01 C14
//@   requires r != nil
//@   fresh
//@   ensures result.milliCpu == r.milliCpu && result.memory == r.memory && result.gpus == r.gpus
//@   ensures forall k v1.ResourceName :: result.scalarResources[k] == r.scalarResources[k] && (k in result.scalarResources <==> k in r.scalarResources)
//@   ensures r.scalarResources != nil ==> fresh(result.scalarResources)
//@ end

//@ func (*Resource).GPUs
//@   props C01 C02 C14
//@   requires r != nil
//@   inline
//@ end
//@ func (*Resource).SetGPUs
//@   props C01 C02 C14
//@   requires r != nil
//@   inline
//@ end
//@ func (*Resource).AddGPUs
//@   props C01 C02 C14
//@   requires r != nil
//@   inline
//@ end
//@ func (*Resource).SubGPUs
//@   props C01 C02 C14
//@   requires r != nil
//@   inline
//@ end

// ---- GpuResourceRequirement --------------------------------------------------------
// Extended-resource GPUs of a request: portion (fixed point, 2 decimals, math.Round = half away from zero) times device count.
//@ define roundHalfAway(x real) int = ite(x >= 0.0, floor(x + 0.5), 0 - floor(0.5 - x))
//@ define extGpus(portion real, count int) real = real(roundHalfAway(portion * 100.0) * count) / 100.0
//@ define reqGpus(g *GpuResourceRequirement) real = extGpus(g.portion, g.count)
//@ define isFractional(g *GpuResourceRequirement) bool = g.gpuMemory > 0 || (g.count > 0 && g.portion < 1.0)

//@ func getExtendedResourceGpus
//@   props C01 C02 C14
//@   pure
//@   ensures result == extGpus(portion, count)
//@ end

//@ func (*GpuResourceRequirement).GPUs
//@   props C01 C02 C14
//@   requires g != nil
//@   pure
//@   ensures result == reqGpus(g)
//@ end

//@ func (*GpuResourceRequirement).GetNumOfGpuDevices
//@   props C01 C02 C14
//@   requires g != nil
//@   inline
//@ end
//@ func (*GpuResourceRequirement).GpuMemory
//@   props C01 C02 C14
//@   requires g != nil
//@   inline
//@ end
//@ func (*GpuResourceRequirement).GpuFractionalPortion
//@   props C01 C02 C14
//@   requires g != nil
//@   inline
//@ end
//@ func (*GpuResourceRequirement).MigResources
//@   props C01 C02 C14
//@   requires g != nil
//@   inline
//@ end
//@ func (*GpuResourceRequirement).DraGpuCounts
//@   props C01 C14
//@   requires g != nil
//@   inline
//@ end

//@ func (*GpuResourceRequirement).IsFractionalRequest
//@   props C01 C02 C14
//@   requires g != nil
//@   pure
//@   ensures result == isFractional(g)
//@ end

// Number of GPUs requested through DRA claims = the SUM of the per-claim counts in the map draGpuCounts (was a ghost
// attribute of the map with the fold trusted; now a finite sum proved against the loop).
//@ define draSum(m map[string]int64) int = sum k in m :: m[k]

//@ func (*GpuResourceRequirement).GetDraGpusCount
//@   props C01 C14
//@   requires g != nil
//@   pure
//@   loop 1
//@     invariant forall k in visited :: k in g.draGpuCounts
//@     invariant count == sum k in visited :: g.draGpuCounts[k]
//@   ensures [sumOfClaims] result == draSum(g.draGpuCounts)
//@   ensures [emptyIsZero] (forall k string :: !(k in g.draGpuCounts)) ==> result == 0
//@ end

//@ func (*GpuResourceRequirement).SetDraGpus
//@   props C01 C14 C19 C10
//@   requires g != nil
//@   modifies g.draGpuCounts
//@   loop 1
//@     invariant fresh(g.draGpuCounts) && g.draGpuCounts != draGpus
//@     invariant forall k in visited :: k in draGpus && g.draGpuCounts[k] == draGpus[k] && k in g.draGpuCounts
//@     invariant forall k string :: !(k in visited) ==> !(k in g.draGpuCounts)
//@   ensures fresh(g.draGpuCounts)
//@   ensures forall k string :: g.draGpuCounts[k] == draGpus[k] && (k in g.draGpuCounts <==> k in draGpus)
//@ end

// ---- ResourceRequirements --------------------------------------------------------
// C01: a task request fits an amount of node resources iff its cpu/memory/scalars fit, its whole+fractional
// GPUs plus DRA GPUs are within the GPUs of the amount, and every MIG profile it names is present with enough instances.
//@ define fitsReq(r *ResourceRequirements, rr *Resource) bool = fitsBase(r.BaseResource, rr.BaseResource) && reqGpus(r.GpuResourceRequirement) + real(r.GetDraGpusCount()) <= rr.gpus && fitsScalars(r.migResources, rr.scalarResources)

//@ func (*ResourceRequirements).LessEqualResource
//@   props C01 C14
//@   requires r != nil && rr != nil
//@   pure
//@   loop 1
//@     invariant forall k in visited :: k in rr.scalarResources && r.migResources[k] <= rr.scalarResources[k]
//@   ensures result == fitsReq(r, rr)
//@ end

// no GPUs requested through DRA claims (the DRA fold has no closed form in the spec language: exact GPU effects are stated for such requests)
//@ define noDra(req *ResourceRequirements) bool = forall k string :: !(k in req.draGpuCounts)

// C14: charging a request to a Resource is exact and component-wise: cpu, memory, every scalar, GPUs (= extended GPUs of
// the request + DRA GPUs) and every MIG profile (stored among the scalars of the Resource).
//@ func (*Resource).AddResourceRequirements
//@   props C01 C14
//@   requires r != nil && r.scalarResources != nil
//@   requires req != nil ==> r.scalarResources != req.scalarResources && r.scalarResources != req.migResources
//@   modifies r.milliCpu, r.memory, r.gpus, r.scalarResources[*]
//@   loop 1
//@     invariant noDra(req) ==> r.gpus == old(r.gpus) + reqGpus(req.GpuResourceRequirement)
//@   loop 2
//@     invariant forall k in visited :: k in req.migResources
//@     invariant forall m map[v1.ResourceName]int64, k v1.ResourceName :: m != r.scalarResources ==> m[k] == old(m[k]) && (k in m <==> old(k in m))
//@     invariant forall m map[v1.ResourceName]int64 :: m != r.scalarResources ==> dom(m) == old(dom(m))
//@     invariant forall k in visited :: r.scalarResources[k] == old(r.scalarResources[k]) + req.scalarResources[k] + req.migResources[k] && k in r.scalarResources
//@     invariant forall k v1.ResourceName :: !(k in visited) ==> r.scalarResources[k] == old(r.scalarResources[k]) + req.scalarResources[k] && (k in r.scalarResources <==> ite(k in req.scalarResources, r.scalarResources[k] != 0, old(k in r.scalarResources)))
//@   ensures req == nil ==> r.milliCpu == old(r.milliCpu) && r.memory == old(r.memory) && r.gpus == old(r.gpus)
//@   ensures req == nil ==> forall k v1.ResourceName :: r.scalarResources[k] == old(r.scalarResources[k]) && (k in r.scalarResources <==> old(k in r.scalarResources))
//@   ensures req != nil ==> r.milliCpu == old(r.milliCpu) + req.milliCpu
//@   ensures req != nil ==> r.memory == old(r.memory) + req.memory
//@   ensures req != nil && noDra(req) ==> r.gpus == old(r.gpus) + reqGpus(req.GpuResourceRequirement)
//@   ensures req != nil ==> forall k v1.ResourceName :: r.scalarResources[k] == old(r.scalarResources[k]) + req.scalarResources[k] + req.migResources[k]
//@   ensures req != nil ==> forall k v1.ResourceName :: k in r.scalarResources <==> (k in req.migResources || ite(k in req.scalarResources, old(r.scalarResources[k]) + req.scalarResources[k] != 0, old(k in r.scalarResources)))
//@ end

//@ func (*Resource).SubResourceRequirements
//@   props C01 C14
//@   requires r != nil && r.scalarResources != nil && req != nil
//@   requires r.scalarResources != req.scalarResources && r.scalarResources != req.migResources
//@   modifies r.milliCpu, r.memory, r.gpus, r.scalarResources[*]
//@   loop 1
//@     invariant noDra(req) ==> r.gpus == old(r.gpus) - reqGpus(req.GpuResourceRequirement)
//@   loop 2
//@     invariant forall k in visited :: k in req.migResources
//@     invariant forall m map[v1.ResourceName]int64, k v1.ResourceName :: m != r.scalarResources ==> m[k] == old(m[k]) && (k in m <==> old(k in m))
//@     invariant forall m map[v1.ResourceName]int64 :: m != r.scalarResources ==> dom(m) == old(dom(m))
//@     invariant forall k in visited :: r.scalarResources[k] == old(r.scalarResources[k]) - req.scalarResources[k] - req.migResources[k] && k in r.scalarResources
//@     invariant forall k v1.ResourceName :: !(k in visited) ==> r.scalarResources[k] == old(r.scalarResources[k]) - req.scalarResources[k] && (k in r.scalarResources <==> ite(k in req.scalarResources, r.scalarResources[k] != 0, old(k in r.scalarResources)))
//@   ensures r.milliCpu == old(r.milliCpu) - req.milliCpu
//@   ensures r.memory == old(r.memory) - req.memory
//@   ensures noDra(req) ==> r.gpus == old(r.gpus) - reqGpus(req.GpuResourceRequirement)
//@   ensures forall k v1.ResourceName :: r.scalarResources[k] == old(r.scalarResources[k]) - req.scalarResources[k] - req.migResources[k]
//@   ensures forall k v1.ResourceName :: k in r.scalarResources <==> (k in req.migResources || ite(k in req.scalarResources, old(r.scalarResources[k]) - req.scalarResources[k] != 0, old(k in r.scalarResources)))
//@ end

//@ func (*GpuResourceRequirement).Clone
//@   props C01 C14
//@   requires g != nil
//@   fresh
//@   ensures result.count == g.count && result.portion == g.portion && result.gpuMemory == g.gpuMemory
//@   ensures forall k v1.ResourceName :: result.migResources[k] == g.migResources[k] && (k in result.migResources <==> k in g.migResources)
//@   ensures forall k string :: result.draGpuCounts[k] == g.draGpuCounts[k] && (k in result.draGpuCounts <==> k in g.draGpuCounts)
//@   ensures (g.migResources != nil ==> fresh(result.migResources)) && (g.draGpuCounts != nil ==> fresh(result.draGpuCounts))
//@ end

//@ func (*ResourceRequirements).Clone
//@   props C01 C14
//@   requires r != nil
//@   fresh
//@   ensures result.milliCpu == r.milliCpu && result.memory == r.memory
//@   ensures forall k v1.ResourceName :: result.scalarResources[k] == r.scalarResources[k] && (k in result.scalarResources <==> k in r.scalarResources)
//@   ensures r.scalarResources != nil ==> fresh(result.scalarResources)
//@   ensures result.count == r.count && result.portion == r.portion && result.gpuMemory == r.gpuMemory
//@   ensures forall k v1.ResourceName :: result.migResources[k] == r.migResources[k] && (k in result.migResources <==> k in r.migResources)
//@   ensures forall k string :: result.draGpuCounts[k] == r.draGpuCounts[k] && (k in result.draGpuCounts <==> k in r.draGpuCounts)
//@   ensures (r.migResources != nil ==> fresh(result.migResources)) && (r.draGpuCounts != nil ==> fresh(result.draGpuCounts))
//@ end

// ---- ResourceVector ------------------------------------------------------------------
// C14: vector arithmetic is exact and index-wise; a shorter receiver is zero-extended first; reads outside the vector are 0.
//@ define vget(v ResourceVector, i int) real = ite(0 <= i && i < len(v), v[i], 0.0)

//@ func (ResourceVector).Get
//@   props C01 C14
//@   pure
//@   ensures result == vget(v, index)
//@ end

//@ func (ResourceVector).Set
//@   props C01 C14
//@   inline
//@ end

// the two slices do not share a backing array (a slice compared with a reference compares its array)
// the backing array of a slice result is newly allocated (`fresh` is not asserted for slice-typed results at call sites)
//@ define freshArray(a ResourceVector) bool = forall x ref :: a == x ==> fresh(x)
//@ define distinctArrays(a ResourceVector, b ResourceVector) bool = forall x ref :: a == x ==> b != x

//@ func (*ResourceVector).Add
//@   props C01 C14
//@   requires v != nil && (len(other) == 0 || distinctArrays(*v, other))
//@   requires len(*v) >= len(other)   // the zero-extension branch uses copy(), which the engine over-approximates (see report)
//@   modifies (*v)[*]
//@   loop 1
//@     invariant 0 - 1 <= rangeindex && rangeindex < len(other) && len(*v) == old(len(*v)) && *v == old(*v)
//@     invariant forall i int :: rangeindex < i && i < len(*v) ==> (*v)[i] == old((*v)[i])
//@     invariant forall i int :: 0 <= i && i <= rangeindex ==> (*v)[i] == old((*v)[i]) + other[i]
//@     invariant forall i int :: 0 <= i && i < len(other) ==> other[i] == old(other[i])
//@   ensures forall i int :: 0 <= i && i < len(*v) ==> (*v)[i] == old((*v)[i]) + vget(other, i)
//@   ensures forall i int :: 0 <= i && i < len(other) ==> other[i] == old(other[i])
//@ end

//@ func (*ResourceVector).Sub
//@   props C01 C14
//@   requires v != nil && (len(other) == 0 || distinctArrays(*v, other))
//@   requires len(*v) >= len(other)   // see Add
//@   modifies (*v)[*]
//@   loop 1
//@     invariant 0 - 1 <= rangeindex && rangeindex < len(other) && len(*v) == old(len(*v)) && *v == old(*v)
//@     invariant forall i int :: rangeindex < i && i < len(*v) ==> (*v)[i] == old((*v)[i])
//@     invariant forall i int :: 0 <= i && i <= rangeindex ==> (*v)[i] == old((*v)[i]) - other[i]
//@     invariant forall i int :: 0 <= i && i < len(other) ==> other[i] == old(other[i])
//@   ensures forall i int :: 0 <= i && i < len(*v) ==> (*v)[i] == old((*v)[i]) - vget(other, i)
//@   ensures forall i int :: 0 <= i && i < len(other) ==> other[i] == old(other[i])
//@ end

// index of a resource name in the shared vector layout (GPU resource names are normalised to "gpu"); -1 if unknown
//@ func (*ResourceVectorMap).GetIndex
//@   props C01 C14
//@   requires m != nil
//@   pure
//@   ensures result == ite(normalizeResourceName(resourceName) in m.namesToIndex, m.namesToIndex[normalizeResourceName(resourceName)], 0 - 1)
//@ end

//@ func NewResourceVector
//@   props C01 C14
//@   requires indexMap != nil
//@   fresh
//@   ensures len(result) == len(indexMap.resourceNames)
//@   ensures forall i int :: 0 <= i && i < len(result) ==> result[i] == 0.0
//@ end

//@ func NewSingleGpuVector
//@   props C01 C02 C14
//@   requires indexMap != nil
//@   fresh
//@   ensures len(result) == len(indexMap.resourceNames)
//@   ensures forall i int :: 0 <= i && i < len(result) ==> result[i] == ite(i == indexMap.GetIndex("gpu"), 1.0, 0.0)
//@ end

// Vector form of a Resource. Content beyond the length is not specified here: two scalar names may normalise to the
// same index (any name ending in "gpu"), in which case the value depends on the map iteration order.
//@ func (*Resource).ToVector
//@   props C01 C14
//@   requires r != nil && indexMap != nil
//@   fresh
//@   loop 1
//@     invariant len(vec) == len(indexMap.resourceNames) && freshArray(vec)
//@     invariant forall p *float64 :: p != nil && !fresh(p) ==> *p == old(*p)
//@   ensures len(result) == len(indexMap.resourceNames)
//@ end

//@ func (*ResourceRequirements).ToVector
//@   props C01 C14 C19 C10
//@   requires r != nil && indexMap != nil
//@   fresh
//@   loop 1
//@     invariant len(vec) == len(indexMap.resourceNames) && freshArray(vec)
//@     invariant forall p *float64 :: p != nil && !fresh(p) ==> *p == old(*p)
//@   loop 2
//@     invariant len(vec) == len(indexMap.resourceNames) && freshArray(vec)
//@     invariant forall p *float64 :: p != nil && !fresh(p) ==> *p == old(*p)
//@   ensures len(result) == len(indexMap.resourceNames)
//@ end

// ---- emptiness (C01: a best-effort task requests nothing above the minimal quantities) ----------------
//@ define baseEmpty(r *BaseResource) bool = r.milliCpu < 10.0 && r.memory < 10.0 * 1024.0 * 1024.0 && (forall k in r.scalarResources :: r.scalarResources[k] < 10)
//@ define gpuReqEmpty(g *GpuResourceRequirement) bool = reqGpus(g) <= 0.01 && (forall k in g.draGpuCounts :: g.draGpuCounts[k] <= 0) && (forall k in g.migResources :: g.migResources[k] <= 0)
//@ define reqEmpty(r *ResourceRequirements) bool = gpuReqEmpty(r.GpuResourceRequirement) && baseEmpty(r.BaseResource)

//@ func (*BaseResource).IsEmpty
//@   props C01
//@   requires r != nil
//@   pure
//@   loop 1
//@     invariant forall k in visited :: r.scalarResources[k] < 10
//@   ensures result == baseEmpty(r)
//@ end

//@ func (*GpuResourceRequirement).IsEmpty
//@   props C01
//@   requires g != nil
//@   pure
//@   loop 1
//@     invariant forall k in visited :: g.draGpuCounts[k] <= 0
//@   loop 2
//@     invariant forall k in visited :: g.migResources[k] <= 0
//@   ensures result == gpuReqEmpty(g)
//@ end

//@ func (*ResourceRequirements).IsEmpty
//@   props C01
//@   requires r != nil
//@   pure
//@   ensures result == reqEmpty(r)
//@ end

// ---- conversions to k8s resource lists (reporting only) -------------------------------------------
//@ func (*ResourceRequirements).ToResourceList
//@   props C08 C10
//@   trusted
//@   note builds a fresh v1.ResourceList from k8s resource.NewQuantity/NewMilliQuantity (external constructors, havoc-all in the engine); touches no existing object; result content unconstrained
//@   requires r != nil
//@   fresh
//@ end

//@ func (*BaseResource).ToResourceList
//@   props C08 C10
//@   trusted
//@   note builds a fresh v1.ResourceList from k8s resource.NewQuantity/NewMilliQuantity (external constructors, havoc-all in the engine); touches no existing object; result content unconstrained
//@   requires r != nil
//@   fresh
//@ end

// ---- constructors / max (used by pod_info: C10 C19) ---------------------------------------------------------
//@ func (*BaseResource).ScalarResources
//@   props C10 C19 C01 C14
//@   requires r != nil
//@   inline
//@ end

//@ func EmptyResourceRequirements
//@   props C10 C19 C14
//@   fresh
//@   ensures result.milliCpu == 0.0 && result.memory == 0.0 && result.count == 0 && result.portion == 0.0 && result.gpuMemory == 0
//@   ensures fresh(result.scalarResources) && fresh(result.migResources) && fresh(result.draGpuCounts)
//@   ensures (forall k v1.ResourceName :: !(k in result.scalarResources) && !(k in result.migResources)) && (forall k string :: !(k in result.draGpuCounts))
//@ end

//@ func RequirementsFromResourceList
//@   props C10 C19
//@   trusted
//@   note folds a v1.ResourceList through k8s resource.Quantity accessors (Value/MilliValue: external, havoc-all in the engine); assumed: touches no existing object, returns a new requirement with its three maps allocated; content unconstrained
//@   fresh
//@   ensures fresh(result.scalarResources) && fresh(result.migResources) && fresh(result.draGpuCounts)
//@   ensures [cpuMemOfList] result.milliCpu == rlCpu(rl) && result.memory == rlMem(rl)
//@   note cpuMemOfList only NAMES the cpu / memory amounts the list folds to (uninterpreted functions of the list object; lists are not rewritten between the calls compared: pod specs are read-only for the scheduler); it lets callers state how the amounts of several lists are combined (pod request = max(containers, init) + overhead, C01)
//@ end

//@ func (*BaseResource).SetMaxResource
//@   props C10 C19 C14
//@   requires r != nil && rr != nil ==> r.scalarResources != rr.scalarResources || r.scalarResources == nil
//@   modifies r.milliCpu, r.memory, r.scalarResources, r.scalarResources[*]
//@   loop 1
//@     invariant r != nil && rr != nil && r.scalarResources != nil && (old(r.scalarResources) != nil ==> r.scalarResources == old(r.scalarResources)) && (old(r.scalarResources) == nil ==> fresh(r.scalarResources))
//@     invariant forall k in visited :: k in rr.scalarResources
//@     invariant forall k in visited :: k in r.scalarResources && r.scalarResources[k] == ite(old(k in r.scalarResources) && old(r.scalarResources[k]) >= rr.scalarResources[k], old(r.scalarResources[k]), rr.scalarResources[k])
//@     invariant forall k v1.ResourceName :: !(k in visited) ==> r.scalarResources[k] == old(r.scalarResources[k]) && (k in r.scalarResources <==> old(k in r.scalarResources))
//@   ensures r != nil && rr != nil ==> r.milliCpu == max(old(r.milliCpu), rr.milliCpu) && r.memory == max(old(r.memory), rr.memory) && r.scalarResources != nil
//@   ensures [mapKept] r != nil && rr != nil ==> ite(old(r.scalarResources) != nil, r.scalarResources == old(r.scalarResources), fresh(r.scalarResources))
//@   ensures r != nil && rr != nil ==> forall k v1.ResourceName :: (k in r.scalarResources <==> old(k in r.scalarResources) || k in rr.scalarResources) && r.scalarResources[k] == ite(k in rr.scalarResources && !(old(k in r.scalarResources) && old(r.scalarResources[k]) >= rr.scalarResources[k]), rr.scalarResources[k], old(r.scalarResources[k]))
//@ end

// frame-only: the maximum of two GPU requirements (errors for different fractional portions)
//@ func (*GpuResourceRequirement).SetMaxResource
//@   props C10 C19
//@   requires g != nil && gg != nil && g.draGpuCounts != nil && g.migResources != nil && g.draGpuCounts != gg.draGpuCounts && g.migResources != gg.migResources
//@   modifies g.count, g.portion, g.draGpuCounts[*], g.migResources[*]
//@   loop 1
//@     invariant true
//@   loop 2
//@     invariant true
//@ end

//@ func (*ResourceRequirements).SetMaxResource
//@   props C10 C19
//@   requires r != nil && rr != nil ==> r.draGpuCounts != nil && r.migResources != nil && r.draGpuCounts != rr.draGpuCounts && r.migResources != rr.migResources && (r.scalarResources != rr.scalarResources || r.scalarResources == nil)
//@   modifies r.milliCpu, r.memory, r.scalarResources, r.scalarResources[*], r.count, r.portion, r.draGpuCounts[*], r.migResources[*]
//@   ensures r != nil && rr != nil ==> r.milliCpu == max(old(r.milliCpu), rr.milliCpu) && r.memory == max(old(r.memory), rr.memory) && r.scalarResources != nil
//@   ensures [mapKept] r != nil && rr != nil ==> ite(old(r.scalarResources) != nil, r.scalarResources == old(r.scalarResources), fresh(r.scalarResources))
//@ end

//@ func StringResourceArray
//@   props C07
//@   trusted
//@   note log-line formatting (strings.Builder over (*Resource).String()); read-only, result only used as a log argument
//@   pure
//@ end

// ---- added by helper "cache" ----
// Snapshot construction (cluster_info.Snapshot): DRA claim indexing and the shared resource-vector layout.
// Code-derived helper contracts (no property-derived clause here): nil-ness and frames only.

//@ define claimsNonNil(cs []*resourceapi.ResourceClaim) bool = forall i int :: 0 <= i && i < len(cs) ==> cs[i] != nil
//@ define claimMapNonNil(m map[string]*resourceapi.ResourceClaim) bool = forall k in m :: m[k] != nil
//@ define podClaimsNonNil(m map[types.UID]map[types.UID]*resourceapi.ResourceClaim) bool = forall p in m :: forall c in m[p] :: m[p][c] != nil

// frame of the pod->claims index for loops of OTHER packages that call GetDraPodClaims (their files may not import
// k8s.io/apimachinery/pkg/types): every claim map that existed at function entry is unchanged (the index itself and
// its inner maps are allocated after entry). `own` is the index (only there to give the define a parameter).
//@ define draIndexFrame(own map[types.UID]map[types.UID]*resourceapi.ResourceClaim) bool = own != nil && fresh(own) && (forall p in own :: fresh(own[p])) && (forall m map[types.UID]*resourceapi.ResourceClaim :: m != nil && old(allocated(m)) ==> dom(m) == old(dom(m))) && (forall m map[types.UID]*resourceapi.ResourceClaim, k types.UID :: m != nil && old(allocated(m)) && old(k in m) ==> m[k] == old(m[k])) && (forall m map[types.UID]map[types.UID]*resourceapi.ResourceClaim :: m != nil && old(allocated(m)) ==> dom(m) == old(dom(m))) && (forall m map[types.UID]map[types.UID]*resourceapi.ResourceClaim, k types.UID :: m != nil && old(allocated(m)) && old(k in m) ==> m[k] == old(m[k]))

//@ func (k8s.io/apimachinery/pkg/types.NamespacedName).String
//@   props C12 C10
//@   trusted
//@   note external (k8s.io/apimachinery/pkg/types): returns Namespace + "/" + Name; assumed read-only
//@   pure
//@ end

//@ func ResourceClaimSliceToMap
//@   props C10 C12
//@   requires claimsNonNil(draResourceClaims)
//@   fresh
//@   loop 1
//@     invariant 0 - 1 <= rangeindex && rangeindex < len(draResourceClaims)
//@     invariant draClaimMap != nil && fresh(draClaimMap)
//@     invariant claimMapNonNil(draClaimMap)
//@   ensures result != nil && claimMapNonNil(result)
//@ end

//@ func addClaimToPodClaimMap
//@   props C10 C12
//@   requires claim != nil && podsToClaimsMap != nil
//@   modifies podsToClaimsMap[podUid], podsToClaimsMap[podUid][*]
//@   ensures old(podClaimsNonNil(podsToClaimsMap)) ==> podClaimsNonNil(podsToClaimsMap)
//@   ensures podUid in podsToClaimsMap && podsToClaimsMap[podUid] != nil && (podsToClaimsMap[podUid] == old(podsToClaimsMap[podUid]) || fresh(podsToClaimsMap[podUid]))
//@ end

//@ func CalcClaimsToPodsBaseMap
//@   props C10 C12
//@   requires claimMapNonNil(draClaimsMap)
//@   fresh
//@   loop 1
//@     invariant podsToClaimsMap != nil && fresh(podsToClaimsMap)
//@     invariant podClaimsNonNil(podsToClaimsMap)
//@     invariant forall p in podsToClaimsMap :: fresh(podsToClaimsMap[p])
//@     invariant forall m map[types.UID]*resourceapi.ResourceClaim :: m != nil && old(allocated(m)) ==> dom(m) == old(dom(m))
//@     invariant forall m map[types.UID]*resourceapi.ResourceClaim, k types.UID :: m != nil && old(allocated(m)) && old(k in m) ==> m[k] == old(m[k])
//@     invariant forall m map[types.UID]map[types.UID]*resourceapi.ResourceClaim :: m != nil && old(allocated(m)) ==> dom(m) == old(dom(m))
//@     invariant forall m map[types.UID]map[types.UID]*resourceapi.ResourceClaim, k types.UID :: m != nil && old(allocated(m)) && old(k in m) ==> m[k] == old(m[k])
//@   loop 2
//@     invariant 0 - 1 <= rangeindex && rangeindex < len(claim.OwnerReferences)
//@     invariant podsToClaimsMap != nil && fresh(podsToClaimsMap)
//@     invariant podClaimsNonNil(podsToClaimsMap)
//@     invariant forall p in podsToClaimsMap :: fresh(podsToClaimsMap[p])
//@     invariant forall m map[types.UID]*resourceapi.ResourceClaim :: m != nil && old(allocated(m)) ==> dom(m) == old(dom(m))
//@     invariant forall m map[types.UID]*resourceapi.ResourceClaim, k types.UID :: m != nil && old(allocated(m)) && old(k in m) ==> m[k] == old(m[k])
//@     invariant forall m map[types.UID]map[types.UID]*resourceapi.ResourceClaim :: m != nil && old(allocated(m)) ==> dom(m) == old(dom(m))
//@     invariant forall m map[types.UID]map[types.UID]*resourceapi.ResourceClaim, k types.UID :: m != nil && old(allocated(m)) && old(k in m) ==> m[k] == old(m[k])
//@   loop 3
//@     invariant 0 - 1 <= rangeindex && rangeindex < len(claim.Status.ReservedFor)
//@     invariant podsToClaimsMap != nil && fresh(podsToClaimsMap)
//@     invariant podClaimsNonNil(podsToClaimsMap)
//@     invariant forall p in podsToClaimsMap :: fresh(podsToClaimsMap[p])
//@     invariant forall m map[types.UID]*resourceapi.ResourceClaim :: m != nil && old(allocated(m)) ==> dom(m) == old(dom(m))
//@     invariant forall m map[types.UID]*resourceapi.ResourceClaim, k types.UID :: m != nil && old(allocated(m)) && old(k in m) ==> m[k] == old(m[k])
//@     invariant forall m map[types.UID]map[types.UID]*resourceapi.ResourceClaim :: m != nil && old(allocated(m)) ==> dom(m) == old(dom(m))
//@     invariant forall m map[types.UID]map[types.UID]*resourceapi.ResourceClaim, k types.UID :: m != nil && old(allocated(m)) && old(k in m) ==> m[k] == old(m[k])
//@   ensures result != nil && podClaimsNonNil(result)
//@   ensures [ownInnerMaps] forall p in result :: fresh(result[p])
//@ end

//@ func GetDraPodClaims
//@   props C10 C12
//@   requires pod != nil && podsToClaimsMap != nil && claimMapNonNil(draClaimMap) && podClaimsNonNil(podsToClaimsMap)
//@   modifies podsToClaimsMap[pod.UID], podsToClaimsMap[pod.UID][*]
//@   loop 1
//@     invariant 0 - 1 <= rangeindex && rangeindex < len(pod.Spec.ResourceClaims)
//@     invariant podClaimsNonNil(podsToClaimsMap)
//@     invariant forall p in podsToClaimsMap :: (old(p in podsToClaimsMap) && podsToClaimsMap[p] == old(podsToClaimsMap[p])) || fresh(podsToClaimsMap[p])
//@   loop 2
//@     invariant claimsNonNil(draPodClaims)
//@     invariant podClaimsNonNil(podsToClaimsMap)
//@   ensures claimsNonNil(result)
//@   ensures podClaimsNonNil(podsToClaimsMap)
//@   ensures [innerMapsKeptOrNew] forall p in podsToClaimsMap :: (old(p in podsToClaimsMap) && podsToClaimsMap[p] == old(podsToClaimsMap[p])) || fresh(podsToClaimsMap[p])
//@ end

// ---- helper "cache": quantities of a v1.ResourceList (C14 C01 establish: node Idle == Allocatable at construction) ----
// resource.Quantity is an opaque exact real in the engine (A-QTY). Its three accessors have no body in the loaded
// program; they are assumed to be read-only deterministic functions of the quantity (named, not defined).
//@ declare rlCpu(rl v1.ResourceList) real
//@ declare rlMem(rl v1.ResourceList) real
//@ declare qIsZero(q real) bool
//@ declare qValue(q real) int
//@ declare qMilli(q real) int

//@ func (*k8s.io/apimachinery/pkg/api/resource.Quantity).IsZero
//@   props C14 C01 C10
//@   trusted
//@   note library method without body in the loaded program; Quantity modelled as an exact real (A-QTY); assumed read-only and a deterministic function of the quantity
//@   requires recv != nil
//@   pure
//@   ensures result == qIsZero(*recv)
//@ end
//@ func (*k8s.io/apimachinery/pkg/api/resource.Quantity).Value
//@   props C14 C01 C10
//@   trusted
//@   note library method without body in the loaded program (rounds up to an int64); assumed read-only and a deterministic function of the quantity
//@   requires recv != nil
//@   pure
//@   ensures result == qValue(*recv)
//@ end
//@ func (*k8s.io/apimachinery/pkg/api/resource.Quantity).MilliValue
//@   props C14 C01 C10
//@   trusted
//@   note library method without body in the loaded program (value x 1000, rounded up); assumed read-only and a deterministic function of the quantity
//@   requires recv != nil
//@   pure
//@   ensures result == qMilli(*recv)
//@ end

// k8s resource-name classes used by k8s_internal.IsScalarResourceName (library predicates on the name, no body loaded)
//@ declare extendedName(n string) bool
//@ declare hugePageName(n string) bool
//@ declare prefixedNativeName(n string) bool
//@ declare attachableVolumeName(n string) bool
//@ func k8s.io/kubernetes/pkg/apis/core/v1/helper.IsExtendedResourceName
//@   props C14 C01 C10
//@   trusted
//@   note k8s library predicate on the resource name; assumed pure and deterministic
//@   pure
//@   ensures result == extendedName(string(arg0))
//@ end
//@ func k8s.io/kubernetes/pkg/apis/core/v1/helper.IsHugePageResourceName
//@   props C14 C01 C10
//@   trusted
//@   note k8s library predicate on the resource name; assumed pure and deterministic
//@   pure
//@   ensures result == hugePageName(string(arg0))
//@ end
//@ func k8s.io/kubernetes/pkg/apis/core/v1/helper.IsPrefixedNativeResource
//@   props C14 C01 C10
//@   trusted
//@   note k8s library predicate on the resource name; assumed pure and deterministic
//@   pure
//@   ensures result == prefixedNativeName(string(arg0))
//@ end
//@ func k8s.io/kubernetes/pkg/apis/core/v1/helper.IsAttachableVolumeResourceName
//@   props C14 C01 C10
//@   trusted
//@   note k8s library predicate on the resource name; assumed pure and deterministic
//@   pure
//@   ensures result == attachableVolumeName(string(arg0))
//@ end

// How ResourceFromResourceList reads one entry of a resource list (zero quantities are skipped):
//@ define rlHas(rl v1.ResourceList, k v1.ResourceName) bool = k in rl && !qIsZero(rl[k])
//@ define rlValue(rl v1.ResourceList, k v1.ResourceName) int = ite(rlHas(rl, k), qValue(rl[k]), 0)
//@ define rlMilli(rl v1.ResourceList, k v1.ResourceName) int = ite(rlHas(rl, k), qMilli(rl[k]), 0)
// the names that are not scalar resources of a Resource (cpu, memory, the two whole-GPU names)
//@ define rlSpecial(k v1.ResourceName) bool = k == v1.ResourceCPU || k == v1.ResourceMemory || k == GPUResourceName || k == amdGpuResourceName
// scalar resources counted by Value(): pods, MIG profiles, (ephemeral) storage; by MilliValue(): the other k8s scalar names
//@ define rlByValue(k v1.ResourceName) bool = !rlSpecial(k) && (k == v1.ResourcePods || IsMigResource(k) || k == v1.ResourceEphemeralStorage || k == v1.ResourceStorage)
//@ define rlByMilli(k v1.ResourceName) bool = !rlSpecial(k) && !rlByValue(k) && (extendedName(string(k)) || hugePageName(string(k)) || prefixedNativeName(string(k)) || attachableVolumeName(string(k)))
//@ define rlScalar(rl v1.ResourceList, k v1.ResourceName) int = ite(rlByValue(k), rlValue(rl, k), ite(rlByMilli(k), rlMilli(rl, k), 0))
//@ define rlScalarHas(rl v1.ResourceList, k v1.ResourceName) bool = rlHas(rl, k) && (rlByValue(k) || rlByMilli(k))

// C14 "what the scheduler believes about each node (idle, used ... resources) equals the value recomputed from
// scratch": the Resource built from a resource list is a FUNCTION of the list (so two builds from the same list -
// NodeInfo.Idle and NodeInfo.Allocatable - agree field by field), with cpu in milli-units, memory and GPUs in units.
//@ func ResourceFromResourceList
//@   props C14 C01 C10
//@   fresh
//@   loop 1
//@     invariant r != nil && fresh(r) && r.scalarResources != nil && fresh(r.scalarResources)
//@     invariant forall k in visited :: k in rList
//@     invariant r.milliCpu == ite(v1.ResourceCPU in visited, real(rlMilli(rList, v1.ResourceCPU)), 0.0)
//@     invariant r.memory == ite(v1.ResourceMemory in visited, real(rlValue(rList, v1.ResourceMemory)), 0.0)
//@     invariant r.gpus == ite(GPUResourceName in visited, real(rlValue(rList, GPUResourceName)), 0.0) + ite(amdGpuResourceName in visited, real(rlValue(rList, amdGpuResourceName)), 0.0)
//@     invariant forall k v1.ResourceName :: r.scalarResources[k] == ite(k in visited, rlScalar(rList, k), 0)
//@     invariant forall k v1.ResourceName :: k in r.scalarResources <==> k in visited && rlScalarHas(rList, k)
//@   ensures [cpuMem] result.milliCpu == real(rlMilli(rList, v1.ResourceCPU)) && result.memory == real(rlValue(rList, v1.ResourceMemory))
//@   ensures [gpus] result.gpus == real(rlValue(rList, GPUResourceName)) + real(rlValue(rList, amdGpuResourceName))
//@   ensures [scalars] forall k v1.ResourceName :: result.scalarResources[k] == rlScalar(rList, k)
//@   ensures [scalarDom] forall k v1.ResourceName :: k in result.scalarResources <==> rlScalarHas(rList, k)
//@   ensures [ownMap] result.scalarResources != nil && fresh(result.scalarResources)
//@ end

// ---- helper "cache": the shared resource-vector layout while the snapshot is being built ----
// Data invariant of a ResourceVectorMap (needed for no-panic of every `vec[idx]` with idx from GetIndex): the index map
// exists and every index it holds addresses a name of the list.  The layout only ever GROWS (AddResource appends), so
// a vector made earlier may be shorter than the layout (readers use the bounds-checked Get/Set).
//@ define vmWF(m *ResourceVectorMap) bool = m != nil && m.namesToIndex != nil && (forall n in m.namesToIndex :: 0 <= m.namesToIndex[n] && m.namesToIndex[n] < len(m.resourceNames))

//@ func (*ResourceVectorMap).AddResource
//@   props C10 C14
//@   requires vmWF(m)
//@   modifies m.namesToIndex[*], m.resourceNames
//@   ensures [wf] vmWF(m)
//@   ensures [grows] len(m.resourceNames) >= old(len(m.resourceNames)) && (forall n string :: old(n in m.namesToIndex) ==> n in m.namesToIndex && m.namesToIndex[n] == old(m.namesToIndex[n]))
//@   ensures [added] normalizeResourceName(resourceName) in m.namesToIndex
//@ end

//@ func (*ResourceVectorMap).AddResourceList
//@   props C10 C14
//@   requires vmWF(m)
//@   modifies m.namesToIndex[*], m.resourceNames
//@   loop 1
//@     invariant vmWF(m)
//@     invariant len(m.resourceNames) >= old(len(m.resourceNames)) && (forall n string :: old(n in m.namesToIndex) ==> n in m.namesToIndex && m.namesToIndex[n] == old(m.namesToIndex[n]))
//@   ensures [wf] vmWF(m)
//@   ensures [grows] len(m.resourceNames) >= old(len(m.resourceNames)) && (forall n string :: old(n in m.namesToIndex) ==> n in m.namesToIndex && m.namesToIndex[n] == old(m.namesToIndex[n]))
//@ end

//@ func NewResourceVectorMap
//@   props C10 C14
//@   fresh
//@   loop 1 unroll 4
//@   ensures [wf] vmWF(result) && fresh(result.namesToIndex)
//@   ensures [gpuSlot] constants.GpuResource in result.namesToIndex
//@ end

// vector of a resource list in the layout of indexMap: one slot per name of the layout AT THAT MOMENT
//@ func NewResourceVectorFromResourceList
//@   props C10 C14
//@   requires vmWF(indexMap)
//@   fresh
//@   loop 1
//@     invariant len(vec) == len(indexMap.resourceNames) && freshArray(vec)
//@     invariant forall p *float64 :: p != nil && !fresh(p) ==> *p == old(*p)
//@   ensures len(result) == len(indexMap.resourceNames)
//@ end

//@ func (ResourceVector).Clone
//@   props C10 C14
//@   fresh
//@   ensures len(result) == len(v)
//@   ensures forall i int :: 0 <= i && i < len(v) ==> result[i] == v[i]
//@ end

//@ func (*Resource).DetailedString
//@   props C10 C14 C01
//@   trusted
//@   note log-line formatting (strings.Builder + fmt.Sprintf over the resource's own fields: outside the subset); read-only, the result is only used as a log argument
//@   requires r != nil
//@   pure
//@ end
