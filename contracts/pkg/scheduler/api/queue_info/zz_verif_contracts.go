//go:build verif

// Contracts for govc (contract-based deductive verification); comments only.
package queue_info

// c is listed in q.ChildQueues
//@ define isChild(q *QueueInfo, c common_info.QueueID) bool = exists i int :: 0 <= i && i < len(q.ChildQueues) && q.ChildQueues[i] == c

// C10 (queue graph): the child list of a queue is a set of ids; adding an id keeps every other
// member and adds nothing else. Touches nothing but q.ChildQueues.
//@ func (*QueueInfo).AddChildQueue
//@   props C10
//@   trusted
//@   note body calls the generic library function golang.org/x/exp/slices.Contains, which govc has no model for (external call = havoc of the whole heap); the contract is the documented meaning of Contains + append
//@   requires q != nil
//@   modifies q.ChildQueues
//@   ensures [added] isChild(q, queue)
//@   ensures [onlyAdded] forall c common_info.QueueID :: isChild(q, c) == (old(isChild(q, c)) || c == queue)
//@ end

//@ func (*QueueInfo).IsLeafQueue
//@   props C10
//@   requires q != nil
//@   pure
//@   ensures result == (len(q.ChildQueues) == 0)
//@ end
