//go:build verif

// Contracts for govc (contract-based deductive verification); comments only.
package queue_info

// c is listed in q.ChildQueues
//@ define isChild(q *QueueInfo, c common_info.QueueID) bool = exists i int :: 0 <= i && i < len(q.ChildQueues) && q.ChildQueues[i] == c

// C10 (queue graph): the child list of a queue is a set of ids; adding an id keeps every other
// member and adds nothing else (the id is appended iff it was not listed yet). Touches nothing but
// q.ChildQueues.
//@ func (*QueueInfo).AddChildQueue
//@   props C10
//@   requires q != nil
//@   modifies q.ChildQueues
//@   ensures [prefixKept] len(q.ChildQueues) >= old(len(q.ChildQueues)) && (forall i int :: 0 <= i && i < old(len(q.ChildQueues)) ==> q.ChildQueues[i] == old(q.ChildQueues[i]))
//@   ensures [addedOnce] ite(old(isChild(q, queue)), len(q.ChildQueues) == old(len(q.ChildQueues)), len(q.ChildQueues) == old(len(q.ChildQueues)) + 1 && q.ChildQueues[old(len(q.ChildQueues))] == queue)
//@ end

//@ func (*QueueInfo).IsLeafQueue
//@   props C10
//@   requires q != nil
//@   pure
//@   ensures result == (len(q.ChildQueues) == 0)
//@ end

// C10 (queue graph, constructor): the snapshot entry of a Queue object carries the object's name as
// UID, the spec's parentQueue verbatim (no validation: "" = top level, anything else is looked up
// later) and an empty, non-nil child list.
//@ func NewQueueInfo
//@   props C10
//@   requires queue != nil
//@   fresh
//@   ensures [identity] result != nil && result.UID == queue.Name && result.ParentQueue == queue.Spec.ParentQueue
//@   ensures [noChildrenYet] len(result.ChildQueues) == 0
//@   ensures [name] result.Name == ite(queue.Spec.DisplayName != "", queue.Spec.DisplayName, queue.Name)
//@ end
