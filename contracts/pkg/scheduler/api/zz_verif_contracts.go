//go:build verif

// Contracts for govc (contract-based deductive verification); comments only.
package api

// Abstract verdicts of registered plugin callbacks (function value f). Assumed: the callbacks are
// deterministic functions of their arguments and have no effect visible to the scheduler's model
// (the minruntime filters only fill their own memo maps); the concrete plugin functions are
// characterised by their own contracts.
//@ declare victimFilterHolds(f ref, actor ref, victim ref) bool
//@ declare scenarioValid(f ref, scenario ref) bool

//@ func type:VictimFilterFn
//@   pure
//@   ensures result == victimFilterHolds(fn, pendingJob, victim)
//@   note assumed: registered victim filters are pure and deterministic
//@ end

//@ func type:ScenarioValidatorFn
//@   pure
//@   ensures result == scenarioValid(fn, scenario)
//@   note assumed: registered scenario validators are pure and deterministic
//@ end

// The queue comparators also depend on the victim slices and the GPU memory floor; no abstract
// verdict is introduced (slices are not scalar): only purity is assumed.
//@ func type:CompareQueueFn
//@   pure
//@   note assumed: registered queue comparators are pure
//@ end

//@ func type:BindRequestMutateFn
//@   pure
//@   note assumed: bind-request mutators only compute annotations
//@ end

// ---- added by helper "solver" (stable families, ENGINE_NEWS batch 7/8) ------------------------------------
// The snapshot's job and node tables are filled by the cache snapshot only; the scheduling actions read them.
//@ stable ClusterInfo.PodGroupInfos
//@ stable ClusterInfo.Nodes
//@ stable maptype map[common_info.PodGroupID]*podgroup_info.PodGroupInfo
//@ stable maptype map[string]*node_info.NodeInfo

// ---- added by helper "sess": plugin callbacks dispatched by the framework.Session wrappers ----------------------
// Abstract verdict of a registered callback (function value f) on its arguments + ASSUMED frame of plugin code
// (framework.pluginFrame: no statement log / Operation cell is touched, no cache emission, no reverse closure runs,
// Statement.ssn links stay). The verdict symbols name the callback's answer at the state of the call.
//@ import framework "github.com/NVIDIA/KAI-scheduler/pkg/scheduler/framework"
//@ declare predicateOK(f ref, task ref, job ref, node ref) bool
//@ func type:PredicateFn
//@   modifies *
//@   ensures [assumed] (result == nil) == predicateOK(fn, arg0, arg1, arg2)
//@   ensures [assumed] framework.pluginFrame()
//@   note assumed: a registered predicate answers as a function of (task, job, node) at the state of the call and respects the plugin frame
//@ end
