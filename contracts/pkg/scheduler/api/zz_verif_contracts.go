//go:build verif

// Contracts for govc (contract-based deductive verification); comments only.
package api

// Abstract verdicts of registered plugin callbacks (function value f). Assumed: the callbacks are
// deterministic functions of their arguments and have no effect visible to the scheduler's model
// (the minruntime filters only fill their own memo maps); the concrete plugin functions are
// characterised by their own contracts.
//@ declare victimFilterHolds(f ref, actor ref, victim ref) bool
//@ declare scenarioValid(f ref, scenario ref) bool

//@ func type:VictimFilterFn
//@   pure
//@   ensures result == victimFilterHolds(fn, pendingJob, victim)
//@   note assumed: registered victim filters are pure and deterministic
//@ end

//@ func type:ScenarioValidatorFn
//@   pure
//@   ensures result == scenarioValid(fn, scenario)
//@   note assumed: registered scenario validators are pure and deterministic
//@ end

// The queue comparators also depend on the victim slices and the GPU memory floor; no abstract
// verdict is introduced (slices are not scalar): only purity is assumed.
//@ func type:CompareQueueFn
//@   pure
//@   note assumed: registered queue comparators are pure
//@ end

//@ func type:BindRequestMutateFn
//@   pure
//@   note assumed: bind-request mutators only compute annotations
//@ end

// ---- added by helper "solver" (stable families, ENGINE_NEWS batch 7/8) ------------------------------------
// The snapshot's job and node tables are filled by the cache snapshot only; the scheduling actions read them.
//@ stable ClusterInfo.PodGroupInfos
//@ stable ClusterInfo.Nodes
// added by exec2 (allocate.Execute re-pushes the popped job after Commit: PushJob [queueKnown] must survive the havocs)
//@ stable ClusterInfo.Queues
//@ stable maptype map[common_info.QueueID]*queue_info.QueueInfo
//@ stable maptype map[common_info.PodGroupID]*podgroup_info.PodGroupInfo
//@ stable maptype map[string]*node_info.NodeInfo

// ---- added by helper "sess": plugin callbacks dispatched by the framework.Session wrappers ----------------------
// Each `type:` contract below is an ASSUMPTION about plugin code (function values registered with the session):
//  * an abstract verdict: the callback's answer is named by a declared function of (function value, arguments); it is
//    the answer at the state of the call - two calls with the same arguments are only comparable while the objects the
//    plugin looks at are unchanged (the wrappers under contract call each registered function once per dispatch);
//  * the plugin frame framework.pluginFrame(): a callback touches no statement (log, session link), calls none of the
//    cache emission points and runs no reverse closure. Everything else may change (fit errors, plugin-private state,
//    node / job bookkeeping): `modifies *`. That callbacks leave the session skeleton alone is NOT assumed here: the
//    wrappers get it from `stable` declarations, which govc checks against every address-taken function of the
//    callback's signature - except for OnJobSolutionStartFn (signature func(): every closure without parameters is a
//    candidate, the check cannot succeed), where framework.skeletonFrame() is part of the assumption.
//@ import framework "github.com/NVIDIA/KAI-scheduler/pkg/scheduler/framework"

// C04: hard constraints. predicateOK(f, task, job, node): predicate f accepts task on node (returns nil).
//@ declare predicateOK(f ref, task ref, job ref, node ref) bool
//@ func type:PredicateFn
//@   modifies *
//@   ensures [assumed] (result == nil) == predicateOK(fn, arg0, arg1, arg2)
//@   ensures [assumed] framework.pluginFrame()
//@   note assumed: verdict named by predicateOK(fn, task, job, node); plugin frame
//@ end

//@ declare prePredicateOK(f ref, task ref, job ref) bool
//@ func type:PrePredicateFn
//@   modifies *
//@   ensures [assumed] (result == nil) == prePredicateOK(fn, arg0, arg1)
//@   ensures [assumed] framework.pluginFrame()
//@   note assumed: verdict named by prePredicateOK(fn, task, job); plugin frame
//@ end

// C08: capacity gates. jobCapacityOK(f, job): capacity function f reports the job (with the tasks handed in) as
// schedulable; the task list is a slice (no scalar), it is not part of the name.
//@ declare jobCapacityOK(f ref, job ref) bool
//@ func type:IsJobOverCapacityFn
//@   modifies *
//@   ensures [assumed] result != nil && result.IsSchedulable == jobCapacityOK(fn, job)
//@   ensures [assumed] framework.pluginFrame()
//@   note assumed: a registered capacity function (proportion) returns a non-nil result whose IsSchedulable is named by jobCapacityOK(fn, job); plugin frame
//@ end

//@ declare taskCapacityOK(f ref, task ref, job ref, node ref) bool
//@ func type:IsTaskAllocationOverCapacityFn
//@   modifies *
//@   ensures [assumed] result != nil && result.IsSchedulable == taskCapacityOK(fn, task, job, node)
//@   ensures [assumed] framework.pluginFrame()
//@   note assumed: a registered per-task capacity function (proportion) returns a non-nil result whose IsSchedulable is named by taskCapacityOK(fn, task, job, node); plugin frame
//@ end

// C05/C06: "can the reclaimer get more resources at all"
//@ declare canReclaim(f ref, job ref) bool
//@ func type:CanReclaimResourcesFn
//@   modifies *
//@   ensures [assumed] result == canReclaim(fn, pendingJob)
//@   ensures [assumed] framework.pluginFrame()
//@   note assumed: verdict named by canReclaim(fn, job); plugin frame
//@ end

// queue resource getters (deserved / fair share / allocated)
//@ declare queueResourceOf(f ref, queue ref) ref
//@ func type:QueueResource
//@   modifies *
//@   ensures [assumed] result == queueResourceOf(fn, arg0)
//@   ensures [assumed] framework.pluginFrame()
//@   note assumed: the returned object is named by queueResourceOf(fn, queue); plugin frame
//@ end

// scoring callbacks: gpuScore / nodeScore name the score, gpuScoreFails / nodeScoreFails the error verdict
//@ declare gpuScore(f ref, task ref, node ref, gpu string) real
//@ declare gpuScoreFails(f ref, task ref, node ref, gpu string) bool
//@ func type:GpuOrderFn
//@   pure
//@   ensures [assumed] result0 == gpuScore(fn, arg0, arg1, arg2) && (result1 != nil) == gpuScoreFails(fn, arg0, arg1, arg2)
//@   note assumed: registered GPU scoring functions are read-only (as Session.FittingGPUs was assumed to be) and named by gpuScore / gpuScoreFails
//@ end

//@ declare nodeScore(f ref, task ref, node ref) real
//@ declare nodeScoreFails(f ref, task ref, node ref) bool
//@ func type:NodeOrderFn
//@   modifies *
//@   ensures [assumed] result0 == nodeScore(fn, arg0, arg1) && (result1 != nil) == nodeScoreFails(fn, arg0, arg1)
//@   ensures [assumed] framework.pluginFrame()
//@   note assumed: score / error named by nodeScore / nodeScoreFails; plugin frame
//@ end

// pre-ordering hook: may precompute plugin-private state; the node list handed in is not rewritten
//@ func type:NodePreOrderFn
//@   modifies *
//@   ensures [assumed] framework.pluginFrame()
//@   ensures [assumed] forall j int :: 0 <= j && j < len(arg1) ==> arg1[j] == old(arg1[j])
//@   note assumed: plugin frame; the fitting-node slice is read, not permuted
//@ end

// notification hooks: calls are counted (ghost), so that "every registered function is called exactly once, in
// registration order" is observable at the wrapper
//@ ghost preJobAllocationCalls() int
//@ ghost preJobAllocationAt(k int) ref
//@ func type:PreJobAllocationFn
//@   modifies *
//@   ensures [assumed] preJobAllocationCalls() == old(preJobAllocationCalls()) + 1 && preJobAllocationAt(preJobAllocationCalls()) == fn
//@   ensures [assumed] forall k int :: k <= old(preJobAllocationCalls()) ==> preJobAllocationAt(k) == old(preJobAllocationAt(k))
//@   ensures [assumed] framework.pluginFrame()
//@   ensures [assumed] old(podgroup_info.setsOK(job) && podgroup_info.allTasksOK(job)) ==> podgroup_info.setsOK(job) && podgroup_info.allTasksOK(job)
//@   note assumed: call counter / call log (ghost bookkeeping only); plugin frame; the registered PreJobAllocationFns (topology) do not touch the job's pod sets / tasks
//@ end

// snapshotStamp(): the number of decisions emitted to the cache (framework.emitted()) at the moment the last
// job-solution-start hook ran, i.e. the committed state its snapshot describes (ghost bookkeeping only; requested by
// helper exec2 for C07)
//@ ghost snapshotStamp() int
//@ ghost jobSolutionStartCalls() int
//@ ghost jobSolutionStartAt(k int) ref
//@ func type:OnJobSolutionStartFn
//@   modifies *
//@   ensures [assumed] jobSolutionStartCalls() == old(jobSolutionStartCalls()) + 1 && jobSolutionStartAt(jobSolutionStartCalls()) == fn
//@   ensures [assumed] forall k int :: k <= old(jobSolutionStartCalls()) ==> jobSolutionStartAt(k) == old(jobSolutionStartAt(k))
//@   ensures [assumed] framework.pluginFrame() && framework.skeletonFrame() && framework.solutionStartHooksSame()
//@   ensures [assumed] snapshotStamp() == framework.emitted()
//@   note assumed: call counter / call log (ghost bookkeeping only); plugin frame; a job-solution-start hook leaves the session skeleton alone and registers no further hook (for this func() type the `stable` check cannot succeed)
//@ end

// subset functions (topology): only the plugin frame is assumed here; "returns subsets of the node set it is given" is
// the `trust [subsetsOfParent]` clause of framework.(*Session).SubsetNodesFn
//@ func type:SubsetNodesFn
//@   modifies *
//@   ensures [assumed] framework.pluginFrame()
//@   note assumed: plugin frame
//@ end
