//go:build verif

// Contracts for govc (contract-based deductive verification); comments only.
package podgroup_info

//@ import sgi "github.com/NVIDIA/KAI-scheduler/pkg/scheduler/api/podgroup_info/subgroup_info"

// C06: "never evict pods of non-preemptible workloads": the workload-side predicate.
//@ func (*PodGroupInfo).IsPreemptibleJob
//@   props C06
//@   requires pgi != nil
//@   pure
//@   ensures result == (pgi.Preemptibility == enginev2alpha2.Preemptible)
//@ end

// ---- allocation_info.go -------------------------------------------------------
// a task that still has to be placed: Pending, or (simulation only) virtually released
//@ define wantsAlloc(t *pod_info.PodInfo, real bool) bool = t.Status == pod_status.Pending || (!real && t.Status == pod_status.Releasing && t.IsVirtualStatus)
// the pod set holds only real tasks
//@ define tasksOK(ps *sgi.PodSet) bool = ps != nil && (forall k in ps.podInfos :: ps.podInfos[k] != nil)

//@ func getNumAllocatableTasks
//@   props C03
//@   requires tasksOK(subGroup)
//@   pure
//@   loop 1
//@     invariant numTasksToAllocate >= 0
//@     invariant numTasksToAllocate > 0 <==> (exists k in visited :: k in subGroup.podInfos && wantsAlloc(subGroup.podInfos[k], isRealAllocation))
//@   ensures result >= 0
//@   ensures result > 0 <==> (exists k in subGroup.podInfos :: wantsAlloc(subGroup.podInfos[k], isRealAllocation))
//@ end

// C03 top: "the scheduler never binds fewer pods than needed to reach the minimum": a pod set below its minimum
// asks for exactly the missing min - allocated tasks; a satisfied pod set grows by at most one task per attempt
// (exactly one iff it has a task waiting).
//@ func getNumTasksToAllocate
//@   props C03
//@   requires tasksOK(subGroup)
//@   pure
//@   ensures [missingToMin] subGroup.numActiveAllocatedTasks < subGroup.minAvailable ==> result == subGroup.minAvailable - subGroup.numActiveAllocatedTasks
//@   ensures [oneAtATime] subGroup.numActiveAllocatedTasks >= subGroup.minAvailable ==> result == ite(exists k in subGroup.podInfos :: wantsAlloc(subGroup.podInfos[k], isRealAllocation), 1, 0)
//@ end

// no nil pod set in the workload (established by subgroup_info.FromPodGroup / GetAllPodSets, see C10)
//@ define setsOK(pgi *PodGroupInfo) bool = pgi != nil && (forall k in pgi.PodSets :: pgi.PodSets[k] != nil)
// gang threshold of one pod set
//@ define belowMin(ps *sgi.PodSet) bool = ps.numActiveAllocatedTasks < ps.minAvailable
//@ define aboveMin(ps *sgi.PodSet) bool = ps.numActiveAllocatedTasks > ps.minAvailable

// C03 (DESIGN): "all unsatisfied pod sets are included" in one allocation attempt; if none is unsatisfied one pod set
// (elastic growth). The exact number of unsatisfied pod sets is a count over a map (no closed formula in the spec
// language; `len(visited)` is not available): decided here are the bounds and the two cases that fix the branch
// structure: exactly 1 when no pod set is below its minimum, and > 0 unsatisfied ==> the count itself is returned
// (numUnsatisfied, not 1) is visible only through `result >= 1`.
//@ func getMaxNumSubGroupsToAllocate
//@   props C03
//@   requires setsOK(podGroupInfo)
//@   pure
//@   loop 1
//@     invariant 0 <= numUnsatisfied
//@     invariant numUnsatisfied > 0 <==> (exists k in visited :: k in podGroupInfo.PodSets && belowMin(podGroupInfo.PodSets[k]))
//@   ensures [atLeastOne] result >= 1
//@   ensures [elasticOne] (forall k in podGroupInfo.PodSets :: !belowMin(podGroupInfo.PodSets[k])) ==> result == 1
//@ end

// ---- eviction_info.go ---------------------------------------------------------
// C03 top: "when it evicts pods of a workload it either keeps every pod set at or above its minimum (elastic shrink)
// or evicts all of the workload's active pods": from a pod set with surplus exactly one task is taken, otherwise
// all of its active allocated tasks.
//@ func getMaxTasksToEvict
//@   props C03
//@   requires subGroup != nil
//@   pure
//@   ensures result == ite(aboveMin(subGroup), 1, subGroup.numActiveAllocatedTasks)
//@   ensures [keepsMin] aboveMin(subGroup) ==> subGroup.numActiveAllocatedTasks - result >= subGroup.minAvailable
//@   ensures [orAll] !aboveMin(subGroup) ==> subGroup.numActiveAllocatedTasks - result == 0
//@ end

// C03 top: one pod set (the one with surplus) if some pod set is above its minimum, otherwise every pod set.
//@ func getNumOfSubGroupsToEvict
//@   props C03
//@   requires setsOK(podGroupInfo)
//@   pure
//@   loop 1
//@     invariant forall k in visited :: !aboveMin(podGroupInfo.PodSets[k])
//@   ensures result == ite(exists k in podGroupInfo.PodSets :: aboveMin(podGroupInfo.PodSets[k]), 1, len(podGroupInfo.PodSets))
//@ end

// ---- job_info.go: gang predicates ----------------------------------------------
//@ define allTasksOK(pgi *PodGroupInfo) bool = pgi != nil && (forall k in pgi.PodSets :: tasksOK(pgi.PodSets[k]))
//@ define hasPipelined(ps *sgi.PodSet) bool = exists u in ps.podInfos :: ps.podInfos[u].Status == pod_status.Pipelined
// an active allocated task that is really placed (not merely nominated)
//@ define hasPlaced(ps *sgi.PodSet) bool = exists u in ps.podInfos :: ps.podInfos[u].Status != pod_status.Pipelined && pod_status.inActiveAllocated(ps.podInfos[u].Status)

// C03 top: "If only part of a gang can be bound now and the rest must wait for terminating capacity, the whole gang
// is nominated and nothing is bound": result <==> exists pod set with a Pipelined task and fewer placed (non-pipelined
// active allocated) tasks than its minimum. The number of placed tasks is a count over a map; decided here:
// [only]  result ==> some pod set has a Pipelined task and a positive minimum (0 <= placed < min),
// [sure]  a pod set with a Pipelined task, a positive minimum and no placed task ==> result,
// [never] no pod set with a Pipelined task, or every minimum <= 0 ==> !result  (catches `<` -> `<=`).
//@ func (*PodGroupInfo).ShouldPipelineJob
//@   props C03
//@   requires allTasksOK(pgi)
//@   pure
//@   loop 1
//@     invariant forall k in visited :: !(hasPipelined(pgi.PodSets[k]) && !hasPlaced(pgi.PodSets[k]) && pgi.PodSets[k].minAvailable >= 1)
//@   loop 2
//@     invariant activeAllocatedTasksCount >= 0
//@     invariant hasPipelinedTask <==> (exists u in visited :: u in podSet.podInfos && podSet.podInfos[u].Status == pod_status.Pipelined)
//@     invariant activeAllocatedTasksCount > 0 <==> (exists u in visited :: u in podSet.podInfos && podSet.podInfos[u].Status != pod_status.Pipelined && pod_status.inActiveAllocated(podSet.podInfos[u].Status))
//@   ensures [only] result ==> (exists k in pgi.PodSets :: hasPipelined(pgi.PodSets[k]) && pgi.PodSets[k].minAvailable >= 1)
//@   ensures [sure] (exists k in pgi.PodSets :: hasPipelined(pgi.PodSets[k]) && !hasPlaced(pgi.PodSets[k]) && pgi.PodSets[k].minAvailable >= 1) ==> result
//@   ensures [never] (forall k in pgi.PodSets :: !hasPipelined(pgi.PodSets[k]) || pgi.PodSets[k].minAvailable <= 0) ==> !result
//@ end

// C03: "every pod set ... has at least its minimum member count of active pods": gang satisfied <==> every pod set has.
//@ func (*PodGroupInfo).IsGangSatisfied
//@   props C03
//@   requires setsOK(pgi)
//@   pure
//@   loop 1
//@     invariant forall k in visited :: pgi.PodSets[k].numActiveUsedTasks >= pgi.PodSets[k].minAvailable
//@   ensures result == (forall k in pgi.PodSets :: pgi.PodSets[k].numActiveUsedTasks >= pgi.PodSets[k].minAvailable)
//@ end

// C03 (DESIGN): ready <==> in every pod set alive - gated >= min (enough schedulable pods to reach the minimum)
//@ func (*PodGroupInfo).IsReadyForScheduling
//@   props C03
//@   requires setsOK(pgi)
//@   pure
//@   loop 1
//@     invariant forall k in visited :: pgi.PodSets[k].numAliveTasks - len(pgi.PodSets[k].podStatusIndex[pod_status.Gated]) >= pgi.PodSets[k].minAvailable
//@   ensures result == (forall k in pgi.PodSets :: pgi.PodSets[k].numAliveTasks - len(pgi.PodSets[k].podStatusIndex[pod_status.Gated]) >= pgi.PodSets[k].minAvailable)
//@ end

// C06: "elastic workloads only down to their minimum size": elastic <==> some pod set has more pods than its minimum
//@ func (*PodGroupInfo).IsElastic
//@   props C03 C06
//@   requires setsOK(pgi)
//@   pure
//@   loop 1
//@     invariant forall k in visited :: !(pgi.PodSets[k].minAvailable < len(pgi.PodSets[k].podInfos))
//@   ensures result == (exists k in pgi.PodSets :: pgi.PodSets[k].minAvailable < len(pgi.PodSets[k].podInfos))
//@ end
