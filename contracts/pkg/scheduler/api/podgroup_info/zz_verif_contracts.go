//go:build verif

// Contracts for govc (contract-based deductive verification); comments only.
package podgroup_info

//@ import sgi "github.com/NVIDIA/KAI-scheduler/pkg/scheduler/api/podgroup_info/subgroup_info"

// C06: "never evict pods of non-preemptible workloads": the workload-side predicate.
//@ func (*PodGroupInfo).IsPreemptibleJob
//@   props C06
//@   requires pgi != nil
//@   pure
//@   ensures result == (pgi.Preemptibility == enginev2alpha2.Preemptible)
//@ end

// ---- allocation_info.go -------------------------------------------------------
// a task that still has to be placed: Pending, or (simulation only) virtually released
//@ define wantsAlloc(t *pod_info.PodInfo, real bool) bool = t.Status == pod_status.Pending || (!real && t.Status == pod_status.Releasing && t.IsVirtualStatus)
// the pod set holds only real tasks
//@ define tasksOK(ps *sgi.PodSet) bool = ps != nil && (forall k in ps.podInfos :: ps.podInfos[k] != nil)

//@ func getNumAllocatableTasks
//@   props C03
//@   requires tasksOK(subGroup)
//@   pure
//@   loop 1
//@     invariant numTasksToAllocate >= 0
//@     invariant numTasksToAllocate > 0 <==> (exists k in visited :: k in subGroup.podInfos && wantsAlloc(subGroup.podInfos[k], isRealAllocation))
//@   ensures result >= 0
//@   ensures result > 0 <==> (exists k in subGroup.podInfos :: wantsAlloc(subGroup.podInfos[k], isRealAllocation))
//@ end

// C03 top: "the scheduler never binds fewer pods than needed to reach the minimum": a pod set below its minimum
// asks for exactly the missing min - allocated tasks; a satisfied pod set grows by at most one task per attempt
// (exactly one iff it has a task waiting).
//@ func getNumTasksToAllocate
//@   props C03
//@   requires tasksOK(subGroup)
//@   pure
//@   ensures [missingToMin] subGroup.numActiveAllocatedTasks < subGroup.minAvailable ==> result == subGroup.minAvailable - subGroup.numActiveAllocatedTasks
//@   ensures [oneAtATime] subGroup.numActiveAllocatedTasks >= subGroup.minAvailable ==> result == ite(exists k in subGroup.podInfos :: wantsAlloc(subGroup.podInfos[k], isRealAllocation), 1, 0)
//@ end

// no nil pod set in the workload (established by subgroup_info.FromPodGroup / GetAllPodSets, see C10)
//@ define setsOK(pgi *PodGroupInfo) bool = pgi != nil && (forall k in pgi.PodSets :: pgi.PodSets[k] != nil)
// gang threshold of one pod set
//@ define belowMin(ps *sgi.PodSet) bool = ps.numActiveAllocatedTasks < ps.minAvailable
//@ define aboveMin(ps *sgi.PodSet) bool = ps.numActiveAllocatedTasks > ps.minAvailable

// C03 (DESIGN): "all unsatisfied pod sets are included" in one allocation attempt; if none is unsatisfied one pod set
// (elastic growth). The exact number of unsatisfied pod sets is a count over a map (no closed formula in the spec
// language; `len(visited)` is not available): decided here are the bounds and the two cases that fix the branch
// structure: exactly 1 when no pod set is below its minimum, and > 0 unsatisfied ==> the count itself is returned
// (numUnsatisfied, not 1) is visible only through `result >= 1`.
//@ func getMaxNumSubGroupsToAllocate
//@   props C03
//@   requires setsOK(podGroupInfo)
//@   pure
//@   loop 1
//@     invariant 0 <= numUnsatisfied
//@     invariant numUnsatisfied > 0 <==> (exists k in visited :: k in podGroupInfo.PodSets && belowMin(podGroupInfo.PodSets[k]))
//@   ensures [atLeastOne] result >= 1
//@   ensures [elasticOne] (forall k in podGroupInfo.PodSets :: !belowMin(podGroupInfo.PodSets[k])) ==> result == 1
//@ end

// ---- eviction_info.go ---------------------------------------------------------
// C03 top: "when it evicts pods of a workload it either keeps every pod set at or above its minimum (elastic shrink)
// or evicts all of the workload's active pods": from a pod set with surplus exactly one task is taken, otherwise
// all of its active allocated tasks.
//@ func getMaxTasksToEvict
//@   props C03
//@   requires subGroup != nil
//@   pure
//@   ensures result == ite(aboveMin(subGroup), 1, subGroup.numActiveAllocatedTasks)
//@   ensures [keepsMin] aboveMin(subGroup) ==> subGroup.numActiveAllocatedTasks - result >= subGroup.minAvailable
//@   ensures [orAll] !aboveMin(subGroup) ==> subGroup.numActiveAllocatedTasks - result == 0
//@ end

// C03 top: one pod set (the one with surplus) if some pod set is above its minimum, otherwise every pod set.
//@ func getNumOfSubGroupsToEvict
//@   props C03
//@   requires setsOK(podGroupInfo)
//@   pure
//@   loop 1
//@     invariant forall k in visited :: !aboveMin(podGroupInfo.PodSets[k])
//@   ensures result == ite(exists k in podGroupInfo.PodSets :: aboveMin(podGroupInfo.PodSets[k]), 1, len(podGroupInfo.PodSets))
//@ end

// ---- job_info.go: gang predicates ----------------------------------------------
//@ define allTasksOK(pgi *PodGroupInfo) bool = pgi != nil && (forall k in pgi.PodSets :: tasksOK(pgi.PodSets[k]))
//@ define hasPipelined(ps *sgi.PodSet) bool = exists u in ps.podInfos :: ps.podInfos[u].Status == pod_status.Pipelined
// an active allocated task that is really placed (not merely nominated)
//@ define hasPlaced(ps *sgi.PodSet) bool = exists u in ps.podInfos :: ps.podInfos[u].Status != pod_status.Pipelined && pod_status.inActiveAllocated(ps.podInfos[u].Status)

// C03 top: "If only part of a gang can be bound now and the rest must wait for terminating capacity, the whole gang
// is nominated and nothing is bound": result <==> exists pod set with a Pipelined task and fewer placed (non-pipelined
// active allocated) tasks than its minimum. The number of placed tasks is a count over a map; decided here:
// [only]  result ==> some pod set has a Pipelined task and a positive minimum (0 <= placed < min),
// [sure]  a pod set with a Pipelined task, a positive minimum and no placed task ==> result,
// [never] no pod set with a Pipelined task, or every minimum <= 0 ==> !result  (catches `<` -> `<=`).
//@ func (*PodGroupInfo).ShouldPipelineJob
//@   props C03
//@   assume allTasksOK(pgi)
//@   note (changed from `requires` by helper alloc, with main's permission) allTasksOK is the data-structure invariant of PodGroupInfo (pod-set map values non-nil, maintained by the constructors / AssignTask); it cannot be carried across a `modifies *` call (allocate.attemptToAllocateJob calls this right after common.AllocateJob) and is used only for this function's own no-panic obligations
//@   pure
//@   loop 1
//@     invariant forall k in visited :: !(hasPipelined(pgi.PodSets[k]) && !hasPlaced(pgi.PodSets[k]) && pgi.PodSets[k].minAvailable >= 1)
//@   loop 2
//@     invariant activeAllocatedTasksCount >= 0
//@     invariant hasPipelinedTask <==> (exists u in visited :: u in podSet.podInfos && podSet.podInfos[u].Status == pod_status.Pipelined)
//@     invariant activeAllocatedTasksCount > 0 <==> (exists u in visited :: u in podSet.podInfos && podSet.podInfos[u].Status != pod_status.Pipelined && pod_status.inActiveAllocated(podSet.podInfos[u].Status))
//@   ensures [only] result ==> (exists k in pgi.PodSets :: hasPipelined(pgi.PodSets[k]) && pgi.PodSets[k].minAvailable >= 1)
//@   ensures [sure] (exists k in pgi.PodSets :: hasPipelined(pgi.PodSets[k]) && !hasPlaced(pgi.PodSets[k]) && pgi.PodSets[k].minAvailable >= 1) ==> result
//@   ensures [never] (forall k in pgi.PodSets :: !hasPipelined(pgi.PodSets[k]) || pgi.PodSets[k].minAvailable <= 0) ==> !result
//@ end

// C03: "every pod set ... has at least its minimum member count of active pods": gang satisfied <==> every pod set has.
//@ func (*PodGroupInfo).IsGangSatisfied
//@   props C03
//@   requires setsOK(pgi)
//@   pure
//@   loop 1
//@     invariant forall k in visited :: pgi.PodSets[k].numActiveUsedTasks >= pgi.PodSets[k].minAvailable
//@   ensures result == (forall k in pgi.PodSets :: pgi.PodSets[k].numActiveUsedTasks >= pgi.PodSets[k].minAvailable)
//@ end

// C03 (DESIGN): ready <==> in every pod set alive - gated >= min (enough schedulable pods to reach the minimum)
//@ func (*PodGroupInfo).IsReadyForScheduling
//@   props C03
//@   requires setsOK(pgi)
//@   pure
//@   loop 1
//@     invariant forall k in visited :: pgi.PodSets[k].numAliveTasks - len(pgi.PodSets[k].podStatusIndex[pod_status.Gated]) >= pgi.PodSets[k].minAvailable
//@   ensures result == (forall k in pgi.PodSets :: pgi.PodSets[k].numAliveTasks - len(pgi.PodSets[k].podStatusIndex[pod_status.Gated]) >= pgi.PodSets[k].minAvailable)
//@ end

// C06: "elastic workloads only down to their minimum size": elastic <==> some pod set has more pods than its minimum
//@ func (*PodGroupInfo).IsElastic
//@   props C03 C06
//@   requires setsOK(pgi)
//@   pure
//@   loop 1
//@     invariant forall k in visited :: !(pgi.PodSets[k].minAvailable < len(pgi.PodSets[k].podInfos))
//@   ensures result == (exists k in pgi.PodSets :: pgi.PodSets[k].minAvailable < len(pgi.PodSets[k].podInfos))
//@ end

// ---- job_info.go: bookkeeping (C14 JobInv) ----------------------------------------
// Representation invariant of the job-level status index and counter cache.
//@ define idxWF(pgi *PodGroupInfo) bool = pgi != nil && pgi.PodStatusIndex != nil && pgi.activeAllocatedCount != nil && (forall s in pgi.PodStatusIndex :: pgi.PodStatusIndex[s] != nil && allocated(pgi.PodStatusIndex[s])) && (forall s1 in pgi.PodStatusIndex :: forall s2 in pgi.PodStatusIndex :: s1 != s2 ==> pgi.PodStatusIndex[s1] != pgi.PodStatusIndex[s2])
// ti is recorded in the job index under its current status (DESIGN C14: deleteTaskIndex keys on the status of its
// ARGUMENT, so callers must pass a task whose status is the recorded one)
//@ define indexed(pgi *PodGroupInfo, ti *pod_info.PodInfo) bool = ti.Status in pgi.PodStatusIndex && ti.UID in pgi.PodStatusIndex[ti.Status]
//@ define inAA(s int) int = ite(pod_status.IsActiveAllocatedStatus(s), 1, 0)
//@ define cacheCleared(pgi *PodGroupInfo) bool = len(pgi.tasksToAllocate) == 0 && pgi.tasksToAllocateInitResource == nil

// Library model (assumed): k8s.io/utils/ptr.To is `func To[T any](v T) *T { return &v }`.
//@ func k8s.io/utils/ptr.To
//@   trusted
//@   note library model of the generic one-liner ptr.To: a fresh cell holding a copy of the argument
//@   fresh
//@   ensures *result == v
//@ end

// C14: "pod counts per status": the job-level count of active allocated pods moves by the indicator of ti.Status.
//@ func (*PodGroupInfo).addTaskIndex
//@   props C14
//@   requires idxWF(pgi) && ti != nil
//@   modifies pgi.PodStatusIndex[ti.Status][ti.UID], pgi.PodStatusIndex[ti.Status], pgi.activeAllocatedCount, pgi.tasksToAllocate, pgi.tasksToAllocateInitResource
//@   ensures [count] *pgi.activeAllocatedCount == old(*pgi.activeAllocatedCount) + inAA(ti.Status)
//@   ensures [indexed] indexed(pgi, ti) && pgi.PodStatusIndex[ti.Status][ti.UID] == ti
//@   ensures [sameBucket] old(ti.Status in pgi.PodStatusIndex) ==> pgi.PodStatusIndex[ti.Status] == old(pgi.PodStatusIndex[ti.Status])
//@   ensures [newBucket] !old(ti.Status in pgi.PodStatusIndex) ==> fresh(pgi.PodStatusIndex[ti.Status])
//@   ensures [cache] cacheCleared(pgi)
//@   ensures idxWF(pgi)
//@ end

// C14: mirror of addTaskIndex. Precondition from the call sites (DESIGN C14): ti is indexed under ti.Status.
// "PodStatusIndex[s] = {t | status s} with no empty buckets".
//@ func (*PodGroupInfo).deleteTaskIndex
//@   props C14
//@   requires idxWF(pgi) && ti != nil && indexed(pgi, ti)
//@   modifies pgi.PodStatusIndex[ti.Status][ti.UID], pgi.PodStatusIndex[ti.Status], pgi.activeAllocatedCount, pgi.tasksToAllocate, pgi.tasksToAllocateInitResource
//@   ensures [count] *pgi.activeAllocatedCount == old(*pgi.activeAllocatedCount) - inAA(ti.Status)
//@   ensures [removed] !(ti.UID in old(pgi.PodStatusIndex[ti.Status]))
//@   ensures [sameBucket] ti.Status in pgi.PodStatusIndex ==> pgi.PodStatusIndex[ti.Status] == old(pgi.PodStatusIndex[ti.Status])
//@   # the two len() facts are lemmas (proved, not exported): at call sites len(<map lookup>) makes the engine emit a quantifier pattern containing ite, which every solver rejects
//@   lemma [noEmptyBucket] ti.Status in pgi.PodStatusIndex ==> len(pgi.PodStatusIndex[ti.Status]) > 0
//@   lemma [bucketDropped] !(ti.Status in pgi.PodStatusIndex) ==> old(len(pgi.PodStatusIndex[ti.Status])) == 1
//@   ensures [cache] cacheCleared(pgi)
//@   ensures idxWF(pgi)
//@ end

// C14 "gang counters": the cached job-level count. The count over all pods is abstract (no closed formula over maps):
// with a filled cache the cached value is returned unchanged; the recount branch only guarantees a filled cache and
// a non-negative value.
//@ func (*PodGroupInfo).GetActiveAllocatedTasksCount
//@   props C14 C03 C06
//@   requires pgi != nil && (pgi.activeAllocatedCount == nil ==> allTasksOK(pgi))
//@   modifies pgi.activeAllocatedCount
//@   loop 1
//@     invariant taskCount >= 0
//@   ensures [cached] old(pgi.activeAllocatedCount) != nil ==> pgi.activeAllocatedCount == old(pgi.activeAllocatedCount) && result == old(*pgi.activeAllocatedCount)
//@   ensures [filled] pgi.activeAllocatedCount != nil && result == *pgi.activeAllocatedCount
//@   ensures [recount] old(pgi.activeAllocatedCount) == nil ==> result >= 0
//@ end

// All pods of the workload: every entry of the result is the pod of some pod set, the result is a new map.
//@ func (*PodGroupInfo).GetAllPodsMap
//@   props C14 C03 C06 C10
//@   requires setsOK(pgi)
//@   fresh
//@   loop 1
//@     invariant allPods != nil && fresh(allPods)
//@     invariant forall id in allPods :: exists k in pgi.PodSets :: id in pgi.PodSets[k].podInfos && allPods[id] == pgi.PodSets[k].podInfos[id]
//@   loop 2
//@     invariant allPods != nil && fresh(allPods)
//@     invariant exists k in pgi.PodSets :: pgi.PodSets[k] == subGroup
//@     invariant forall id in allPods :: exists k in pgi.PodSets :: id in pgi.PodSets[k].podInfos && allPods[id] == pgi.PodSets[k].podInfos[id]
//@   ensures result != nil
//@   ensures [members] forall id in result :: exists k in pgi.PodSets :: id in pgi.PodSets[k].podInfos && result[id] == pgi.PodSets[k].podInfos[id]
//@ end

// the pod set a task belongs to
//@ define sgName(ti *pod_info.PodInfo) string = ite(ti.SubGroupName != "", ti.SubGroupName, "default")
// every pod set is well formed and shares no map with the job-level index
//@ define sepIdx(pgi *PodGroupInfo, ps *sgi.PodSet) bool = ps.podStatusIndex != pgi.PodStatusIndex && (forall s in pgi.PodStatusIndex :: pgi.PodStatusIndex[s] != ps.podInfos && (forall s2 in ps.podStatusIndex :: pgi.PodStatusIndex[s] != ps.podStatusIndex[s2]))
//@ define allPsWF(pgi *PodGroupInfo) bool = forall k in pgi.PodSets :: sgi.psWF(pgi.PodSets[k]) && sepIdx(pgi, pgi.PodSets[k])
// preconditions of the resource_info arithmetic used for Allocated / AllocatedVector (taken from those contracts)
//@ define accOK(pgi *PodGroupInfo, req *resource_info.ResourceRequirements, vec resource_info.ResourceVector) bool = pgi.Allocated != nil && pgi.Allocated.scalarResources != nil && req != nil && pgi.Allocated.scalarResources != req.scalarResources && pgi.Allocated.scalarResources != req.migResources && (len(pgi.AllocatedVector) > 0 && len(vec) > 0 ==> resource_info.distinctArrays(pgi.AllocatedVector, vec) && len(pgi.AllocatedVector) >= len(vec))
//@ define isAlloc(s int) bool = pod_status.AllocatedStatus(s)

// C14 JobInv, step "add": pod-set counters, job index/count and Allocated all move by the contribution of ti under ti.Status.
// A task naming an unknown sub-group is ignored (C10: no panic) and changes nothing that is counted.
//@ func (*PodGroupInfo).AddTaskInfo
//@   props C14 C10
//@   requires ti != nil
//@   requires idxWF(pgi)
//@   requires allPsWF(pgi)
//@   requires accOK(pgi, ti.ResReq, ti.ResReqVector)
//@   modifies pgi.PodSets[sgName(ti)].podStatusIndex[pgi.PodSets[sgName(ti)].podStatusMap[ti.UID]][ti.UID], pgi.PodSets[sgName(ti)].podStatusIndex[ti.Status][ti.UID], pgi.PodSets[sgName(ti)].podStatusIndex[ti.Status], pgi.PodSets[sgName(ti)].podStatusMap[ti.UID], pgi.PodSets[sgName(ti)].podInfos[ti.UID]
//@   modifies pgi.PodSets[sgName(ti)].schedulingConstraintsSignature, pgi.PodSets[sgName(ti)].numActiveAllocatedTasks, pgi.PodSets[sgName(ti)].numActiveUsedTasks, pgi.PodSets[sgName(ti)].numAliveTasks
//@   modifies pgi.PodStatusIndex[ti.Status][ti.UID], pgi.PodStatusIndex[ti.Status], pgi.activeAllocatedCount, pgi.tasksToAllocate, pgi.tasksToAllocateInitResource
//@   modifies pgi.Allocated.milliCpu, pgi.Allocated.memory, pgi.Allocated.gpus, pgi.Allocated.scalarResources[*], pgi.AllocatedVector[*]
//@   ensures [podsetInfos] sgName(ti) in pgi.PodSets ==> pgi.PodSets[sgName(ti)].podInfos[ti.UID] == ti
//@   ensures [podsetStatus] sgName(ti) in pgi.PodSets ==> ti.UID in pgi.PodSets[sgName(ti)].podStatusMap && pgi.PodSets[sgName(ti)].podStatusMap[ti.UID] == ti.Status
//@   ensures [aa] sgName(ti) in pgi.PodSets ==> pgi.PodSets[sgName(ti)].numActiveAllocatedTasks == old(pgi.PodSets[sgName(ti)].numActiveAllocatedTasks) - old(ite(ti.UID in pgi.PodSets[sgName(ti)].podStatusMap, inAA(pgi.PodSets[sgName(ti)].podStatusMap[ti.UID]), 0)) + inAA(ti.Status)
//@   ensures [count] *pgi.activeAllocatedCount == old(*pgi.activeAllocatedCount) + ite(sgName(ti) in pgi.PodSets, inAA(ti.Status), 0)
//@   ensures [indexed] sgName(ti) in pgi.PodSets ==> indexed(pgi, ti) && pgi.PodStatusIndex[ti.Status][ti.UID] == ti
//@   ensures [allocCpu] pgi.Allocated.milliCpu == old(pgi.Allocated.milliCpu) + ite(sgName(ti) in pgi.PodSets && isAlloc(ti.Status), ti.ResReq.milliCpu, 0.0)
//@   ensures [allocMem] pgi.Allocated.memory == old(pgi.Allocated.memory) + ite(sgName(ti) in pgi.PodSets && isAlloc(ti.Status), ti.ResReq.memory, 0.0)
//@   ensures [allocGpuSame] !(sgName(ti) in pgi.PodSets && isAlloc(ti.Status)) ==> pgi.Allocated.gpus == old(pgi.Allocated.gpus)
//@   ensures idxWF(pgi)
//@ end

// The job's record for ti.UID is the object ti itself (true for every task taken from the job's own maps, as the
// Statement operations do). DESIGN C14: resetTaskState subtracts by the STORED task but un-indexes by the ARGUMENT's
// status, so the bookkeeping is only right when they agree; made a precondition, to be proved at the call sites.
//@ define stored(pgi *PodGroupInfo, ti *pod_info.PodInfo) bool = forall k in pgi.PodSets :: ti.UID in pgi.PodSets[k].podInfos ==> pgi.PodSets[k].podInfos[ti.UID] == ti
//@ define inSomePodSet(pgi *PodGroupInfo, ti *pod_info.PodInfo) bool = exists k in pgi.PodSets :: ti.UID in pgi.PodSets[k].podInfos

// C14 JobInv, step "remove from the job-level accounting" (the pod-set record is replaced later by AssignTask).
//@ func (*PodGroupInfo).resetTaskState
//@   props C14
//@   requires idxWF(pgi) && allPsWF(pgi) && allTasksOK(pgi) && ti != nil && indexed(pgi, ti) && stored(pgi, ti) && accOK(pgi, ti.ResReq, ti.ResReqVector)
//@   modifies pgi.PodStatusIndex[ti.Status][ti.UID], pgi.PodStatusIndex[ti.Status], pgi.activeAllocatedCount, pgi.tasksToAllocate, pgi.tasksToAllocateInitResource
//@   modifies pgi.Allocated.milliCpu, pgi.Allocated.memory, pgi.Allocated.gpus, pgi.Allocated.scalarResources[*], pgi.AllocatedVector[*]
//@   ensures [knownTask] result == nil ==> old(inSomePodSet(pgi, ti))
//@   ensures [errNoChange] result != nil ==> *pgi.activeAllocatedCount == old(*pgi.activeAllocatedCount) && pgi.Allocated.milliCpu == old(pgi.Allocated.milliCpu) && pgi.Allocated.memory == old(pgi.Allocated.memory) && pgi.Allocated.gpus == old(pgi.Allocated.gpus) && indexed(pgi, ti)
//@   ensures [count] result == nil ==> *pgi.activeAllocatedCount == old(*pgi.activeAllocatedCount) - inAA(ti.Status)
//@   ensures [unindexed] result == nil ==> !(ti.UID in old(pgi.PodStatusIndex[ti.Status]))
//@   ensures [sameBucket] ti.Status in pgi.PodStatusIndex ==> pgi.PodStatusIndex[ti.Status] == old(pgi.PodStatusIndex[ti.Status])
//@   ensures [allocCpu] result == nil ==> pgi.Allocated.milliCpu == old(pgi.Allocated.milliCpu) - ite(isAlloc(ti.Status), ti.ResReq.milliCpu, 0.0)
//@   ensures [allocMem] result == nil ==> pgi.Allocated.memory == old(pgi.Allocated.memory) - ite(isAlloc(ti.Status), ti.ResReq.memory, 0.0)
//@   ensures [allocGpuSame] !isAlloc(ti.Status) ==> pgi.Allocated.gpus == old(pgi.Allocated.gpus)
//@   ensures idxWF(pgi)
//@   ensures [sep] allPsWF(pgi)
//@   ensures [acc] accOK(pgi, ti.ResReq, ti.ResReqVector)
//@ end

// C14 mechanism "UpdateTaskStatus = resetTaskState + AddTaskInfo": on success the task carries the new status and every
// counter has moved from the contribution of the old status to that of the new one; on failure nothing counted changed.
// JobInv(pgi) for callers = idxWF(pgi) && allPsWF(pgi) && allTasksOK(pgi); per call: indexed/stored/accOK of the task.
//@ func (*PodGroupInfo).UpdateTaskStatus
//@   props C14 C13
//@   requires idxWF(pgi) && allPsWF(pgi) && allTasksOK(pgi) && task != nil && indexed(pgi, task) && stored(pgi, task) && accOK(pgi, task.ResReq, task.ResReqVector)
//@   modifies task.Status
//@   modifies pgi.PodSets[sgName(task)].podStatusIndex[pgi.PodSets[sgName(task)].podStatusMap[task.UID]][task.UID], pgi.PodSets[sgName(task)].podStatusIndex[status][task.UID], pgi.PodSets[sgName(task)].podStatusIndex[status], pgi.PodSets[sgName(task)].podStatusMap[task.UID], pgi.PodSets[sgName(task)].podInfos[task.UID]
//@   modifies pgi.PodSets[sgName(task)].schedulingConstraintsSignature, pgi.PodSets[sgName(task)].numActiveAllocatedTasks, pgi.PodSets[sgName(task)].numActiveUsedTasks, pgi.PodSets[sgName(task)].numAliveTasks
//@   modifies pgi.PodStatusIndex[task.Status][task.UID], pgi.PodStatusIndex[*], pgi.PodStatusIndex[status][task.UID], pgi.activeAllocatedCount, pgi.tasksToAllocate, pgi.tasksToAllocateInitResource
//@   modifies pgi.Allocated.milliCpu, pgi.Allocated.memory, pgi.Allocated.gpus, pgi.Allocated.scalarResources[*], pgi.AllocatedVector[*]
//@   ensures [status] (result == nil ==> task.Status == status) && (result != nil ==> task.Status == old(task.Status))
//@   ensures [errNoChange] result != nil ==> *pgi.activeAllocatedCount == old(*pgi.activeAllocatedCount) && pgi.Allocated.milliCpu == old(pgi.Allocated.milliCpu) && pgi.Allocated.memory == old(pgi.Allocated.memory)
//@   ensures [count] result == nil ==> *pgi.activeAllocatedCount == old(*pgi.activeAllocatedCount) - inAA(old(task.Status)) + ite(sgName(task) in pgi.PodSets, inAA(status), 0)
//@   ensures [aa] result == nil && sgName(task) in pgi.PodSets ==> pgi.PodSets[sgName(task)].numActiveAllocatedTasks == old(pgi.PodSets[sgName(task)].numActiveAllocatedTasks) - old(ite(task.UID in pgi.PodSets[sgName(task)].podStatusMap, inAA(pgi.PodSets[sgName(task)].podStatusMap[task.UID]), 0)) + inAA(status)
//@   ensures [allocCpu] result == nil ==> pgi.Allocated.milliCpu == old(pgi.Allocated.milliCpu) - ite(isAlloc(old(task.Status)), task.ResReq.milliCpu, 0.0) + ite(sgName(task) in pgi.PodSets && isAlloc(status), task.ResReq.milliCpu, 0.0)
//@   ensures [allocMem] result == nil ==> pgi.Allocated.memory == old(pgi.Allocated.memory) - ite(isAlloc(old(task.Status)), task.ResReq.memory, 0.0) + ite(sgName(task) in pgi.PodSets && isAlloc(status), task.ResReq.memory, 0.0)
//@   ensures [indexed] result == nil && sgName(task) in pgi.PodSets ==> indexed(pgi, task)
//@   # frame of the job-level index is `pgi.PodStatusIndex[*]` + [otherBuckets]: the two-key form `[task.Status], [status]` is true but no solver finishes the frame query
//@   ensures [otherBuckets] forall s int :: s != old(task.Status) && s != status ==> (s in pgi.PodStatusIndex <==> old(s in pgi.PodStatusIndex)) && pgi.PodStatusIndex[s] == old(pgi.PodStatusIndex[s])
//@   ensures idxWF(pgi)
//@ end

// ---- priority-queue consumers (scheduler_util.PriorityQueue: counts and membership only, order external) ----------
//@ define allTasks(q *scheduler_util.PriorityQueue) bool = forall i int :: 0 <= i && i < len(q.queue.items) ==> typeis(q.queue.items[i], "*pod_info.PodInfo")
//@ define allPodSets(q *scheduler_util.PriorityQueue) bool = forall i int :: 0 <= i && i < len(q.queue.items) ==> typeis(q.queue.items[i], "*sgi.PodSet") && unbox(q.queue.items[i], "*sgi.PodSet") != nil

// C03 top (allocation side): from a pod set's queue of waiting tasks exactly the requested number is taken, or all of
// them if fewer are waiting: with getNumTasksToAllocate this is "exactly min - allocated tasks" whenever enough pending.
//@ func getTasksFromQueue
//@   props C03
//@   requires priorityQueue != nil && allTasks(priorityQueue)
//@   modifies priorityQueue.queue.items, priorityQueue.queue.items[*]
//@   loop 1
//@     invariant priorityQueue != nil && allTasks(priorityQueue)
//@     invariant len(tasksToAllocate) >= 0 && len(tasksToAllocate) + len(priorityQueue.queue.items) == old(len(priorityQueue.queue.items))
//@     invariant len(tasksToAllocate) <= max(maxNumTasks, 0)
//@     decreases len(priorityQueue.queue.items)
//@   ensures [exactCount] len(result) == min(max(maxNumTasks, 0), old(len(priorityQueue.queue.items)))
//@   ensures [rest] len(priorityQueue.queue.items) == old(len(priorityQueue.queue.items)) - len(result)
//@ end

// C03 top (eviction side): one surplus task or all active allocated tasks of the pod set (getMaxTasksToEvict) are taken.
//@ func getTasksToEvictFromQueue
//@   props C03
//@   requires priorityQueue != nil && allTasks(priorityQueue)
//@   modifies priorityQueue.queue.items, priorityQueue.queue.items[*]
//@   loop 1
//@     invariant priorityQueue != nil && allTasks(priorityQueue)
//@     invariant numEvictedTasks == len(tasks) && numEvictedTasks >= 0 && numEvictedTasks + len(priorityQueue.queue.items) == old(len(priorityQueue.queue.items))
//@     invariant numEvictedTasks <= max(maxTasksToEvict, 0)
//@     decreases len(priorityQueue.queue.items)
//@   ensures [exactCount] len(result) == min(max(maxTasksToEvict, 0), old(len(priorityQueue.queue.items)))
//@   ensures [rest] len(priorityQueue.queue.items) == old(len(priorityQueue.queue.items)) - len(result)
//@ end

// queue of the tasks of one pod set that still have to be placed: only such tasks, only tasks of this pod set
//@ func getTasksPriorityQueue
//@   props C03
//@   requires tasksOK(subGroup)
//@   fresh
//@   loop 1
//@     invariant forall p *scheduler_util.priorityQueue :: !fresh(p) ==> p.items == old(p.items)   // engine: the loop-head havoc for the Push contract uses an unconstrained receiver (also next line)
//@     invariant (forall c *interface{} :: !fresh(c) ==> *c == old(*c)) && fresh(priorityQueue.queue.items)
//@     invariant priorityQueue != nil && fresh(priorityQueue) && allTasks(priorityQueue) && priorityQueue.maxQueueSize == scheduler_util.QueueCapacityInfinite
//@     invariant forall i int :: 0 <= i && i < len(priorityQueue.queue.items) ==> wantsAlloc(unbox(priorityQueue.queue.items[i], "*pod_info.PodInfo"), isRealAllocation)
//@     invariant len(priorityQueue.queue.items) > 0 <==> (exists k in visited :: k in subGroup.podInfos && wantsAlloc(subGroup.podInfos[k], isRealAllocation))
//@   ensures [freshBacking] fresh(result.queue.items)
//@   ensures result != nil && allTasks(result)
//@   ensures [onlyWaiting] forall i int :: 0 <= i && i < len(result.queue.items) ==> wantsAlloc(unbox(result.queue.items[i], "*pod_info.PodInfo"), isRealAllocation)
//@   ensures [nonEmptyIffWaiting] len(result.queue.items) > 0 <==> (exists k in subGroup.podInfos :: wantsAlloc(subGroup.podInfos[k], isRealAllocation))
//@ end

// queue of the active allocated tasks of one pod set (eviction candidates); pod_status.aaClass is the named class
// "active allocated" exported by the contract of pod_status.IsActiveAllocatedStatus ([named])
//@ func getTasksToEvictPriorityQueue
//@   props C03
//@   requires tasksOK(subGroup)
//@   fresh
//@   loop 1
//@     invariant forall p *scheduler_util.priorityQueue :: !fresh(p) ==> p.items == old(p.items)   // engine: the loop-head havoc for the Push contract uses an unconstrained receiver (also next line)
//@     invariant (forall c *interface{} :: !fresh(c) ==> *c == old(*c)) && fresh(podPriorityQueue.queue.items)
//@     invariant podPriorityQueue != nil && fresh(podPriorityQueue) && allTasks(podPriorityQueue) && podPriorityQueue.maxQueueSize == scheduler_util.QueueCapacityInfinite
//@     invariant forall i int :: 0 <= i && i < len(podPriorityQueue.queue.items) ==> pod_status.aaClass(unbox(podPriorityQueue.queue.items[i], "*pod_info.PodInfo").Status)
//@   ensures [freshBacking] fresh(result.queue.items)
//@   ensures result != nil && allTasks(result)
//@   ensures [onlyActiveAllocated] forall i int :: 0 <= i && i < len(result.queue.items) ==> pod_status.aaClass(unbox(result.queue.items[i], "*pod_info.PodInfo").Status)
//@ end

// queue of all pod sets of the workload
//@ func getSubGroupsPriorityQueue
//@   props C03
//@   requires forall k in subGroups :: subGroups[k] != nil
//@   fresh
//@   loop 1
//@     invariant forall p *scheduler_util.priorityQueue :: !fresh(p) ==> p.items == old(p.items)   // engine: the loop-head havoc for the Push contract uses an unconstrained receiver (also next line)
//@     invariant (forall c *interface{} :: !fresh(c) ==> *c == old(*c)) && fresh(priorityQueue.queue.items)
//@     invariant priorityQueue != nil && fresh(priorityQueue) && allPodSets(priorityQueue) && priorityQueue.maxQueueSize == scheduler_util.QueueCapacityInfinite
//@     invariant forall i int :: 0 <= i && i < len(priorityQueue.queue.items) ==> (exists k in subGroups :: subGroups[k] == unbox(priorityQueue.queue.items[i], "*sgi.PodSet"))
//@     invariant len(priorityQueue.queue.items) > 0 <==> (exists k in visited :: k in subGroups)
//@   ensures [freshBacking] fresh(result.queue.items)
//@   ensures result != nil && allPodSets(result)
//@   ensures [members] forall i int :: 0 <= i && i < len(result.queue.items) ==> (exists k in subGroups :: subGroups[k] == unbox(result.queue.items[i], "*sgi.PodSet"))
//@   ensures [nonEmpty] len(result.queue.items) > 0 <==> (exists k in subGroups :: true)
//@ end

// every queued pod set is one of the workload's pod sets
//@ define queueOf(q *scheduler_util.PriorityQueue, pgi *PodGroupInfo) bool = (forall i int :: 0 <= i && i < len(q.queue.items) ==> (exists k in pgi.PodSets :: pgi.PodSets[k] == unbox(q.queue.items[i], "*sgi.PodSet")))

// C03 top (DESIGN: "with allocated >= min at most one"): a workload whose pod sets all have their minimum grows by at
// most one task per attempt. For a pod set below its minimum the number of tasks taken is decided by
// getNumTasksToAllocate[missingToMin] + getTasksFromQueue[exactCount] (per pod set; a sum over the popped pod sets is
// not expressible for the flat result slice). The result is cached.
//@ func GetTasksToAllocate
//@   props C03
//@   requires setsOK(podGroupInfo) && allTasksOK(podGroupInfo)
//@   modifies podGroupInfo.tasksToAllocate
//@   loop 1
//@     invariant subGroupPriorityQueue != nil && fresh(subGroupPriorityQueue) && fresh(subGroupPriorityQueue.queue.items)
//@     invariant allPodSets(subGroupPriorityQueue)
//@     invariant queueOf(subGroupPriorityQueue, podGroupInfo)
//@     invariant numSubGroupsToAllocate >= 0 && len(tasksToAllocate) >= 0 && numSubGroupsToAllocate <= maxNumSubGroups
//@     invariant (forall k in podGroupInfo.PodSets :: !belowMin(podGroupInfo.PodSets[k])) ==> len(tasksToAllocate) <= numSubGroupsToAllocate
//@     invariant forall p *scheduler_util.priorityQueue :: !fresh(p) ==> p.items == old(p.items)
//@     invariant forall c *interface{} :: !fresh(c) ==> *c == old(*c)
//@     decreases len(subGroupPriorityQueue.queue.items)
//@   ensures [cacheHit] old(len(podGroupInfo.tasksToAllocate)) > 0 ==> len(result) == old(len(podGroupInfo.tasksToAllocate))
//@   ensures [cached] len(podGroupInfo.tasksToAllocate) == len(result)
//@   ensures [elasticAtMostOne] old(len(podGroupInfo.tasksToAllocate)) == 0 && (forall k in podGroupInfo.PodSets :: !belowMin(podGroupInfo.PodSets[k])) ==> len(result) <= 1
//@ end

// C03 top (eviction): "it either keeps every pod set at or above its minimum (elastic shrink) or evicts all":
// decided here without any assumption on the (external) queue order: if every pod set has surplus at most one task is
// returned; the second result says whether the eviction is partial (fewer victims than active allocated pods).
// With mixed pod sets (some with surplus, some without) which pod set is popped first depends on the order function
// (DESIGN: assumption PodSetOrderFns = [subgrouporder], contract subgrouporder.PodSetOrderFn); then the number taken
// from the popped pod set is decided by getMaxTasksToEvict + getTasksToEvictFromQueue[exactCount].
//@ func getTasksToEvictWithSubGroups
//@   props C03
//@   requires setsOK(job) && allTasksOK(job)
//@   modifies job.activeAllocatedCount
//@   loop 1
//@     invariant subGroupPriorityQueue != nil && fresh(subGroupPriorityQueue) && fresh(subGroupPriorityQueue.queue.items)
//@     invariant allPodSets(subGroupPriorityQueue)
//@     invariant queueOf(subGroupPriorityQueue, job)
//@     invariant numEvictedSubGroups >= 0 && len(tasksToEvict) >= 0 && numEvictedSubGroups <= maxNumOfSubGroups
//@     invariant (forall k in job.PodSets :: aboveMin(job.PodSets[k])) ==> len(tasksToEvict) <= numEvictedSubGroups
//@     invariant forall p *scheduler_util.priorityQueue :: !fresh(p) ==> p.items == old(p.items)
//@     invariant forall c *interface{} :: !fresh(c) ==> *c == old(*c)
//@     decreases len(subGroupPriorityQueue.queue.items)
//@   ensures [shrinkAtMostOne] (exists k in job.PodSets :: true) && (forall k in job.PodSets :: aboveMin(job.PodSets[k])) ==> len(result0) <= 1
//@   ensures [partialFlag] result1 == (len(result0) < *job.activeAllocatedCount)
//@   ensures [countKept] old(job.activeAllocatedCount) != nil ==> job.activeAllocatedCount == old(job.activeAllocatedCount) && *job.activeAllocatedCount == old(*job.activeAllocatedCount)
//@ end

//@ func GetTasksToEvict
//@   props C03 C06
//@   requires setsOK(job) && allTasksOK(job)
//@   modifies job.activeAllocatedCount
//@   ensures [shrinkAtMostOne] (exists k in job.PodSets :: true) && (forall k in job.PodSets :: aboveMin(job.PodSets[k])) ==> len(result0) <= 1
//@   ensures [partialFlag] result1 == (len(result0) < *job.activeAllocatedCount)
//@   ensures [countKept] old(job.activeAllocatedCount) != nil ==> job.activeAllocatedCount == old(job.activeAllocatedCount) && *job.activeAllocatedCount == old(*job.activeAllocatedCount)
//@ end

// C10 (pod groups bullet): installing the sub-group tree of ANY PodGroup object never panics; a PodGroup whose
// SubGroups are rejected keeps the previous pod sets; without sub-groups the default pod set gets minAvailable =
// max(Spec.MinMember, 1) >= 1 ("non-positive minimums").
//@ func (*PodGroupInfo).setSubGroups
//@   props C10
//@   requires setsOK(pgi) && podGroup != nil
//@   modifies pgi.RootSubGroupSet, pgi.PodSets, pgi.PodSets["default"].minAvailable, family(pgi.RootSubGroupSet.parent), family(pgi.RootSubGroupSet.groups), family(pgi.RootSubGroupSet.podSets)
//@   ensures [rejectedKeepsOld] result != nil ==> pgi.PodSets == old(pgi.PodSets) && pgi.RootSubGroupSet == old(pgi.RootSubGroupSet)
//@   ensures [rootSet] result == nil ==> pgi.RootSubGroupSet != nil
//@   ensures [defaultMin] result == nil && pgi.PodSets == old(pgi.PodSets) && "default" in pgi.PodSets ==> pgi.PodSets["default"].minAvailable == max(podGroup.Spec.MinMember, 1)
//@   ensures [newSets] result == nil && pgi.PodSets != old(pgi.PodSets) ==> fresh(pgi.PodSets) && len(pgi.PodSets) > 0
//@ end

// Library models (assumed) needed by SetPodGroup: a k8s metadata getter and time.Parse, both without side effects.
//@ func (*k8s.io/apimachinery/pkg/apis/meta/v1.ObjectMeta).GetCreationTimestamp
//@   trusted
//@   note library getter `return meta.CreationTimestamp`: no side effects, never panics on a non-nil receiver
//@   pure
//@ end
//@ func time.Parse
//@   trusted
//@   note standard library: parses a string, no side effects on the program heap, returns an error for bad input
//@   pure
//@ end

// C10: SetPodGroup is total on every PodGroup object (bad sub-groups, unparsable timestamps, missing annotations).
//@ func (*PodGroupInfo).SetPodGroup
//@   props C10
//@   requires setsOK(pgi) && pg != nil
//@   modifies fields(pgi), pgi.PodSets["default"].minAvailable, family(pgi.RootSubGroupSet.parent), family(pgi.RootSubGroupSet.groups), family(pgi.RootSubGroupSet.podSets)
//@   ensures pgi.PodGroup == pg && pgi.Queue == pg.Spec.Queue && pgi.Name == pg.Name && pgi.Namespace == pg.Namespace
//@ end

// ---- added by helper "solver" (stable families, ENGINE_NEWS batch 7) ---------------------------------
// The pod-set skeleton of a job is fixed after the snapshot: needed so that setsOK(job) survives the
// `modifies *` statement operations of the solver layer (JobSolver.Solve: "jobSolved ==> IsGangSatisfied").
//@ stable PodGroupInfo.PodSets
//@ stable PodGroupInfo.UID
//@ stable maptype map[string]*subgroup_info.PodSet

// ---- added by helper "alloc" ---------------------------------------------------------------------------------
// Only used for a log line by allocate.attemptToAllocateJob / common.TryToVirtuallyAllocatePreemptorAndGetVictims,
// but without a contract the call havocs the whole heap (statement logs included). Claimed: the frame - the two
// caches of the job are the only pre-existing locations written (the sum is built in a new Resource object).
//@ func GetTasksToAllocateInitResource
//@   props C03
//@   nopanic off
//@   note nopanic off: the tasks come out of GetTasksToAllocate's priority queues (membership only is assumed there), so their non-nil-ness / ResReq cannot be derived; only the frame is claimed
//@   assume podGroupInfo != nil ==> setsOK(podGroupInfo) && allTasksOK(podGroupInfo)
//@   assume forall t *pod_info.PodInfo :: t.ResReq != nil ==> allocated(t.ResReq.scalarResources) && allocated(t.ResReq.migResources)   // heap closedness: request maps of existing tasks exist before the call
//@   modifies podGroupInfo.tasksToAllocate, podGroupInfo.tasksToAllocateInitResource
//@   loop 1
//@     invariant tasksTotalRequestedResource != nil && fresh(tasksTotalRequestedResource) && tasksTotalRequestedResource.scalarResources != nil && fresh(tasksTotalRequestedResource.scalarResources)
//@     invariant forall r2 *resource_info.Resource :: !fresh(r2) ==> r2.gpus == old(r2.gpus) && r2.milliCpu == old(r2.milliCpu) && r2.memory == old(r2.memory)
//@     invariant forall m map[v1.ResourceName]int64, k v1.ResourceName :: !fresh(m) ==> m[k] == old(m[k]) && (k in m) == old(k in m)
//@     invariant podGroupInfo.tasksToAllocateInitResource == old(podGroupInfo.tasksToAllocateInitResource)
//@ end

// ---- exec (C05: scheduling-signature shortcut of the victim-seeking actions) ---------------------------
// PodGroupInfo.Queue is assigned by SetPodGroup only (cache snapshot); the scheduling actions read it.
//@ stable PodGroupInfo.Queue
// The job-level signature is a SHA-256 over the sorted pod-set signatures (crypto/sha256, fmt, slices.Sort:
// outside the subset). Assumed: the call caches a non-empty value in pgi.schedulingConstraintsSignature and
// returns the cached value; a cached value is never recomputed; besides this cell only the signature caches
// of the job's pod sets / pods / topology constraints are written.
//@ func (*PodGroupInfo).GetSchedulingConstraintsSignature
//@   props C05
//@   trusted
//@   note crypto/sha256 + fmt.Sprintf("%x") + slices.Sort are outside the subset; assumed: returns the (lazily filled, never empty, never recomputed) cache cell pgi.schedulingConstraintsSignature; writes only signature cache cells
//@   requires pgi != nil
//@   modifies pgi.schedulingConstraintsSignature, family(pgi.PodSets[""].schedulingConstraintsSignature), family(pgi.PodSets[""].podInfos[""].schedulingConstraintsSignature), family(pgi.PodSets[""].topologyConstraint.schedulingConstraintsSignature)
//@   ensures result == pgi.schedulingConstraintsSignature && result != ""
//@   ensures old(pgi.schedulingConstraintsSignature) != "" ==> pgi.schedulingConstraintsSignature == old(pgi.schedulingConstraintsSignature)
//@ end
// ---- end exec ----
