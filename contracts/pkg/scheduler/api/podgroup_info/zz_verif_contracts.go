//go:build verif

// Contracts for govc (contract-based deductive verification); comments only.
package podgroup_info

//@ import sgi "github.com/NVIDIA/KAI-scheduler/pkg/scheduler/api/podgroup_info/subgroup_info"

// C06: "never evict pods of non-preemptible workloads": the workload-side predicate.
//@ func (*PodGroupInfo).IsPreemptibleJob
//@   props C06
//@   requires pgi != nil
//@   pure
//@   ensures result == (pgi.Preemptibility == enginev2alpha2.Preemptible)
//@ end

// ---- allocation_info.go -------------------------------------------------------
// a task that still has to be placed: Pending, or (simulation only) virtually released
//@ define wantsAlloc(t *pod_info.PodInfo, real bool) bool = t.Status == pod_status.Pending || (!real && t.Status == pod_status.Releasing && t.IsVirtualStatus)
// the pod set holds only real tasks
//@ define tasksOK(ps *sgi.PodSet) bool = ps != nil && (forall k in ps.podInfos :: ps.podInfos[k] != nil)

//@ func getNumAllocatableTasks
//@   props C03
//@   requires tasksOK(subGroup)
//@   pure
//@   loop 1
//@     invariant numTasksToAllocate >= 0
//@     invariant numTasksToAllocate > 0 <==> (exists k in visited :: wantsAlloc(subGroup.podInfos[k], isRealAllocation))
//@   ensures result >= 0
//@   ensures result > 0 <==> (exists k in subGroup.podInfos :: wantsAlloc(subGroup.podInfos[k], isRealAllocation))
//@ end

// C03 top: "the scheduler never binds fewer pods than needed to reach the minimum": a pod set below its minimum
// asks for exactly the missing min - allocated tasks; a satisfied pod set grows by at most one task per attempt
// (exactly one iff it has a task waiting).
//@ func getNumTasksToAllocate
//@   props C03
//@   requires tasksOK(subGroup)
//@   pure
//@   ensures [missingToMin] subGroup.numActiveAllocatedTasks < subGroup.minAvailable ==> result == subGroup.minAvailable - subGroup.numActiveAllocatedTasks
//@   ensures [oneAtATime] subGroup.numActiveAllocatedTasks >= subGroup.minAvailable ==> result == ite(exists k in subGroup.podInfos :: wantsAlloc(subGroup.podInfos[k], isRealAllocation), 1, 0)
//@ end
