//go:build verif

// Contracts for govc (contract-based deductive verification); comments only.
package subgroup_info

// ---- PodSet: representation invariant ---------------------------------------
// maps exist, every bucket of the status index is a real map, buckets are pairwise distinct objects and distinct from podInfos
//@ define psWF(ps *PodSet) bool = ps != nil && ps.podInfos != nil && ps.podStatusMap != nil && ps.podStatusIndex != nil && (forall s in ps.podStatusIndex :: ps.podStatusIndex[s] != nil && allocated(ps.podStatusIndex[s]) && ps.podStatusIndex[s] != ps.podInfos) && (forall s1 in ps.podStatusIndex :: forall s2 in ps.podStatusIndex :: s1 != s2 ==> ps.podStatusIndex[s1] != ps.podStatusIndex[s2])

// 0/1 indicator of a status class (classes are pinned down by the pod_status contracts)
// C14 "pod counts per status, gang counters ... equal the value recomputed from scratch from the pods and their statuses":
// the three gang counters of a pod set are the RECOUNT over the recorded statuses (closed form, finite sums).
//@ define psCounted(ps *PodSet) bool = ps.numActiveAllocatedTasks == (sum k in ps.podStatusMap :: inAA(ps.podStatusMap[k])) && ps.numActiveUsedTasks == (sum k in ps.podStatusMap :: inAU(ps.podStatusMap[k])) && ps.numAliveTasks == (sum k in ps.podStatusMap :: inAlive(ps.podStatusMap[k]))
//@ define inAA(s int) int = ite(pod_status.IsActiveAllocatedStatus(s), 1, 0)
//@ define inAU(s int) int = ite(pod_status.IsActiveUsedStatus(s), 1, 0)
//@ define inAlive(s int) int = ite(pod_status.IsAliveStatus(s), 1, 0)

// C14 (gang counters "equal the value recomputed from the pods and their statuses"): the recomputed value
// is the number of entries of podStatusMap whose status is in the class; removing the entry of ti.UID
// lowers each counter by exactly the indicator of the recorded status.
//@ func (*PodSet).clearOldStatus
//@   props C14 C03
//@   requires psWF(ps) && ti != nil
//@   modifies ps.numActiveAllocatedTasks, ps.numActiveUsedTasks, ps.numAliveTasks, ps.podStatusIndex[ps.podStatusMap[ti.UID]][ti.UID], ps.podStatusMap[ti.UID], ps.podInfos[ti.UID]
//@   ensures [aa] ps.numActiveAllocatedTasks == old(ps.numActiveAllocatedTasks) - old(ite(ti.UID in ps.podStatusMap, inAA(ps.podStatusMap[ti.UID]), 0))
//@   ensures [au] ps.numActiveUsedTasks == old(ps.numActiveUsedTasks) - old(ite(ti.UID in ps.podStatusMap, inAU(ps.podStatusMap[ti.UID]), 0))
//@   ensures [alive] ps.numAliveTasks == old(ps.numAliveTasks) - old(ite(ti.UID in ps.podStatusMap, inAlive(ps.podStatusMap[ti.UID]), 0))
//@   ensures [gone] !(ti.UID in ps.podStatusMap)
//@   ensures [recount] old(psCounted(ps)) ==> psCounted(ps)
//@   ensures [goneIdx] old(ti.UID in ps.podStatusMap) ==> !(ti.UID in ps.podInfos) && !(ti.UID in ps.podStatusIndex[old(ps.podStatusMap[ti.UID])])
//@   ensures psWF(ps)
//@ end

// C14: AssignTask (re)records ti under ti.Status: every counter moves by
// [ti.Status in class] - [previously recorded status of ti.UID in class], and the three maps record ti.
//@ func (*PodSet).AssignTask
//@   props C14 C03
//@   requires psWF(ps) && ti != nil
//@   modifies ps.schedulingConstraintsSignature, ps.numActiveAllocatedTasks, ps.numActiveUsedTasks, ps.numAliveTasks, ps.podStatusIndex[ps.podStatusMap[ti.UID]][ti.UID], ps.podStatusIndex[ti.Status][ti.UID], ps.podStatusIndex[ti.Status], ps.podStatusMap[ti.UID], ps.podInfos[ti.UID]
//@   ensures [aa] ps.numActiveAllocatedTasks == old(ps.numActiveAllocatedTasks) - old(ite(ti.UID in ps.podStatusMap, inAA(ps.podStatusMap[ti.UID]), 0)) + inAA(ti.Status)
//@   ensures [au] ps.numActiveUsedTasks == old(ps.numActiveUsedTasks) - old(ite(ti.UID in ps.podStatusMap, inAU(ps.podStatusMap[ti.UID]), 0)) + inAU(ti.Status)
//@   ensures [alive] ps.numAliveTasks == old(ps.numAliveTasks) - old(ite(ti.UID in ps.podStatusMap, inAlive(ps.podStatusMap[ti.UID]), 0)) + inAlive(ti.Status)
//@   ensures [statusMap] ti.UID in ps.podStatusMap && ps.podStatusMap[ti.UID] == ti.Status
//@   ensures [infos] ti.UID in ps.podInfos && ps.podInfos[ti.UID] == ti
//@   ensures [index] ti.Status in ps.podStatusIndex && ti.UID in ps.podStatusIndex[ti.Status] && ps.podStatusIndex[ti.Status][ti.UID] == ti
//@   ensures [moved] old(ti.UID in ps.podStatusMap && ps.podStatusMap[ti.UID] != ti.Status) ==> !(ti.UID in ps.podStatusIndex[old(ps.podStatusMap[ti.UID])])
//@   ensures [sig] ps.schedulingConstraintsSignature == ""
//@   ensures [recount] old(psCounted(ps)) ==> psCounted(ps)
//@   ensures psWF(ps)
//@ end

//@ func NewPodSet
//@   props C14 C10
//@   fresh
//@   ensures psWF(result)
//@   ensures result.minAvailable == minAvailable && result.name == name && result.parent == nil && result.topologyConstraint == topologyConstraint
//@   ensures result.numActiveAllocatedTasks == 0 && result.numActiveUsedTasks == 0 && result.numAliveTasks == 0
//@   ensures len(result.podInfos) == 0 && len(result.podStatusMap) == 0 && len(result.podStatusIndex) == 0
//@   ensures [recount] psCounted(result)
//@ end

// C03 (DESIGN): IsReadyForScheduling <==> alive - gated >= min.
//@ func (*PodSet).IsReadyForScheduling
//@   props C03
//@   requires ps != nil
//@   pure
//@   ensures result == (ps.numAliveTasks - len(ps.podStatusIndex[pod_status.Gated]) >= ps.minAvailable)
//@ end

// C03: "every pod set ... has at least its minimum member count of active pods"
//@ func (*PodSet).IsGangSatisfied
//@   props C03
//@   requires ps != nil
//@   pure
//@   ensures result == (ps.numActiveUsedTasks >= ps.minAvailable)
//@ end

// C06/C03: a pod set is elastic iff it has more pods than its minimum
//@ func (*PodSet).IsElastic
//@   props C03 C06
//@   requires ps != nil
//@   pure
//@   ensures result == (ps.minAvailable < len(ps.podInfos))
//@ end

// ---- factory.go: C10 "pod groups with invalid sub-group graphs or non-positive minimums ... terminates
// without panicking"; DESIGN C10: total for every []SubGroup (duplicates, unknown or cyclic parents, empty
// names, MinMember <= 0): returns an error or a tree; every pod set has minAvailable >= 1. -----------------
// No precondition on the content of Spec.SubGroups anywhere below.

//@ func mapSubGroupsAndChildren
//@   props C10
//@   requires podGroup != nil
//@   loop 1
//@     invariant allSubGroups != nil && children != nil && fresh(allSubGroups) && fresh(children)
//@     invariant forall k in allSubGroups :: allSubGroups[k] != nil
//@     invariant rangeindex >= -1
//@     invariant forall q *string :: !fresh(q) ==> *q == old(*q)
//@     decreases len(podGroup.Spec.SubGroups) - rangeindex
//@   ensures result2 == nil ==> result0 != nil && result1 != nil && fresh(result0) && fresh(result1)
//@   ensures result2 == nil ==> (forall k in result0 :: result0[k] != nil)
//@ end

//@ func NewSubGroupSet
//@   props C10
//@   fresh
//@   ensures result != nil && result.name == name && result.parent == nil && result.topologyConstraint == topologyConstraint
//@   ensures len(result.groups) == 0 && len(result.podSets) == 0
//@ end

// the two name->node maps hold no nil entry; every pod set has a positive minimum (DESIGN C10: "minAvailable >= 1")
//@ define setsOK(m map[string]*SubGroupSet) bool = forall k in m :: m[k] != nil
//@ define podSetsOK(m map[string]*PodSet) bool = forall k in m :: m[k] != nil && m[k].minAvailable >= 1

//@ func createSubGroupInfos
//@   props C10
//@   requires subGroupSets != nil && podSets != nil
//@   requires forall k in allSubGroups :: allSubGroups[k] != nil
//@   requires setsOK(subGroupSets) && podSetsOK(podSets)
//@   modifies subGroupSets[*], podSets[*]
//@   loop 1
//@     invariant setsOK(subGroupSets) && podSetsOK(podSets)
//@     invariant forall k in subGroupSets :: k in allSubGroups || old(k in subGroupSets)
//@     invariant forall k in podSets :: k in allSubGroups || old(k in podSets)
//@   ensures setsOK(subGroupSets) && podSetsOK(podSets)
//@   ensures forall k in subGroupSets :: k in allSubGroups || old(k in subGroupSets)
//@   ensures forall k in podSets :: k in allSubGroups || old(k in podSets)
//@ end

//@ func (*SubGroupSet).AddSubGroup
//@   props C10
//@   requires sgs != nil && subGroup != nil
//@   modifies subGroup.parent, sgs.groups
//@   ensures subGroup.parent == sgs
//@   ensures len(sgs.groups) == old(len(sgs.groups)) + 1 && sgs.groups[len(sgs.groups) - 1] == subGroup
//@   ensures forall i int :: 0 <= i && i < old(len(sgs.groups)) ==> sgs.groups[i] == old(sgs.groups[i])
//@ end

//@ func (*SubGroupSet).AddPodSet
//@   props C10 C14
//@   requires sgs != nil && podSet != nil
//@   modifies podSet.parent, sgs.podSets
//@   ensures podSet.parent == sgs
//@   ensures len(sgs.podSets) == old(len(sgs.podSets)) + 1 && sgs.podSets[len(sgs.podSets) - 1] == podSet
//@   ensures forall i int :: 0 <= i && i < old(len(sgs.podSets)) ==> sgs.podSets[i] == old(sgs.podSets[i])
//@ end

// unknown parent -> error, never a nil dereference
//@ func addSubGroupSetToParent
//@   props C10
//@   requires subGroupSet != nil && setsOK(subGroupSets)
//@   modifies subGroupSet.parent, subGroupSets[formatParentName(parentName)].groups
//@   ensures result == nil <==> formatParentName(parentName) in subGroupSets
//@ end

//@ func addPodSetToParent
//@   props C10
//@   requires podSet != nil && setsOK(subGroupSets)
//@   modifies podSet.parent, subGroupSets[formatParentName(parentName)].podSets
//@   ensures result == nil <==> formatParentName(parentName) in subGroupSets
//@ end

// every name in the two maps (except the root "") is a declared sub-group: what createSubGroupInfos establishes
//@ define namesKnown(all map[string]*v2alpha2.SubGroup, sets map[string]*SubGroupSet, pods map[string]*PodSet) bool = (forall k in sets :: k != "" ==> k in all && all[k] != nil) && (forall k in pods :: k in all && all[k] != nil)

// Only the tree links (parent, groups, podSets) of sub-group nodes are written: `family(x.f)` = field f of any object.
//@ func addToParent
//@   props C10
//@   requires setsOK(subGroupSets) && podSetsOK(podSets) && namesKnown(allSubGroups, subGroupSets, podSets)
//@   modifies family(subGroupSets[""].parent), family(subGroupSets[""].groups), family(subGroupSets[""].podSets)
//@   loop 1
//@     invariant true
//@   loop 2
//@     invariant true
//@ end

// placeholder of type *SubGroupSet used only to name field families in `modifies family(...)`
//@ declare anySet() *SubGroupSet

// C10 top: for EVERY content of podGroup.Spec.SubGroups FromPodGroup returns an error or a root node, never panics,
// and touches nothing but tree links of sub-group nodes.
//@ func FromPodGroup
//@   props C10
//@   requires podGroup != nil
//@   modifies family(anySet().parent), family(anySet().groups), family(anySet().podSets)
//@   ensures [errOrTree] (result1 != nil && result0 == nil) || (result1 == nil && result0 != nil && fresh(result0))
//@   ensures [rootIsRoot] result1 == nil ==> result0.name == ""
//@ end

// (helper c04c) C04 ("When a workload or sub-group declares a required topology level, all of its pods placed by a
// decision, together with its already active pods, lie in one domain ... Constraints of nested sub-groups hold
// simultaneously with those of their parents"): the pod sets a sub-group's constraint speaks about are the pod sets AT
// OR BELOW that sub-group in the sub-group tree. belowSG(parent, name, ps): pod set ps lies at or below the node of the
// sub-group tree whose SubGroupInfo has this parent link and this name (a node is identified by its parent link and its
// name: that is all a *SubGroupInfo carries besides the constraint itself; the specification language has no
// address-of for an embedded struct, so the node is keyed by these VALUES). Least fixpoint of: a pod-set node contains
// itself; a sub-group-set node contains its child pod sets and what its child sets contain. The one-level unfolding is
// supplied (as `assume`, definitional) in the units that need it: GetAllPodSets (set node), common.allocatePodSet (leaf).
//@ declare belowSG(parent *SubGroupSet, name string, ps *PodSet) bool
// the pod-set map m names every pod set below the node / holds nothing but pod sets below the node, each under its own name
//@ define podSetsCover(parent *SubGroupSet, name string, m map[string]*PodSet) bool = forall ps *PodSet :: belowSG(parent, name, ps) ==> ps.name in m
//@ define podSetsOnly(parent *SubGroupSet, name string, m map[string]*PodSet) bool = forall k in m :: belowSG(parent, name, m[k]) && m[k].name == k

// GetAllPodSets walks the sub-group tree recursively. Its totality (no nil child, termination) depends on the
// nodes reachable from sgs forming a finite tree of non-nil nodes: a reachability invariant that per-function contracts
// over this heap model cannot state (a quantifier over "all *SubGroupSet" ranges over every address). NOT decided
// here (see report); proved: the result is a new map (whenever the call returns) that names EVERY pod set at or below
// sgs and nothing else (C04: this is the pod-set argument the topology plugin must get for a sub-group set; the
// recursive calls use this contract for the child sets).
//@ func (*SubGroupSet).GetAllPodSets
//@   props C10 C04
//@   nopanic off
//@   note no-panic/termination of the recursive tree walk need a reachability invariant (tree of non-nil nodes below sgs); proved are the freshness of the result and its content relative to belowSG
//@   assume forall ps *PodSet :: belowSG(sgs.parent, sgs.name, ps) <==> ((exists i int :: 0 <= i && i < len(sgs.podSets) && sgs.podSets[i] == ps) || (exists j int :: 0 <= j && j < len(sgs.groups) && belowSG(sgs.groups[j].parent, sgs.groups[j].name, ps)))
//@   note the assume unfolds the definition of belowSG once at the node sgs (definitional; belowSG is constrained nowhere else in this unit)
//@   fresh
//@   loop 1
//@     invariant result != nil && fresh(result)
//@     invariant 0 - 1 <= rangeindex && rangeindex < len(sgs.podSets)
//@     invariant forall i int :: 0 <= i && i <= rangeindex ==> sgs.podSets[i].name in result
//@     invariant forall k in result :: result[k].name == k && (exists i int :: 0 <= i && i <= rangeindex && sgs.podSets[i] == result[k])
//@   loop 2
//@     invariant result != nil && fresh(result)
//@     invariant 0 - 1 <= rangeindex && rangeindex < len(sgs.groups)
//@     invariant forall i int :: 0 <= i && i < len(sgs.podSets) ==> sgs.podSets[i].name in result
//@     invariant forall j int :: 0 <= j && j <= rangeindex ==> podSetsCover(sgs.groups[j].parent, sgs.groups[j].name, result)
//@     invariant podSetsOnly(sgs.parent, sgs.name, result)
//@   loop 3
//@     invariant result != nil && fresh(result)
//@     invariant forall i int :: 0 <= i && i < len(sgs.podSets) ==> sgs.podSets[i].name in result
//@     invariant forall j int :: 0 <= j && j <= rangeindex ==> podSetsCover(sgs.groups[j].parent, sgs.groups[j].name, result)
//@     invariant podSetsOnly(sgs.parent, sgs.name, result)
//@     invariant forall k in visited :: k in result
//@   ensures result != nil
//@   ensures [coversAllBelow] podSetsCover(sgs.parent, sgs.name, result)
//@   ensures [onlyBelow] podSetsOnly(sgs.parent, sgs.name, result)
//@ end
