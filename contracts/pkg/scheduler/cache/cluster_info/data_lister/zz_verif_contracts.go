//go:build verif

// Contracts for govc (contract-based deductive verification); comments only.
package data_lister

// Assumed contracts of the DataLister interface (its implementations are the informer-backed
// k8sLister and a gomock mock: client-go / gomock code outside the subset). What is assumed is
// only what an informer cache guarantees: listing is read-only for the scheduler's heap and a
// successful list never contains a nil object. NOTHING is assumed about the CONTENT of the objects
// (C10 quantifies over every well-typed API state).

//@ func DataLister.ListQueues
//@   props C10
//@   trusted
//@   note interface method implemented by client-go informer listers (external): read-only, no nil element on success; object contents unconstrained
//@   pure
//@   ensures result1 == nil ==> forall i int :: 0 <= i && i < len(result0) ==> result0[i] != nil
//@ end

//@ func DataLister.ListBindRequests
//@   props C12
//@   trusted
//@   note interface method implemented by client-go informer listers (external): read-only, no nil element on success; object contents unconstrained
//@   pure
//@   ensures result1 == nil ==> forall i int :: 0 <= i && i < len(result0) ==> result0[i] != nil
//@ end

// ---- added by helper "cache" ----
// Same assumption as above for the remaining list calls of the snapshot: read-only, and a successful
// list has no nil element. Contents unconstrained (C10 quantifies over every well-typed API state).

//@ func DataLister.ListPods
//@   props C10 C12 C14 C01
//@   trusted
//@   note interface method implemented by client-go informer listers (external): read-only, no nil element on success; object contents unconstrained
//@   pure
//@   ensures result1 == nil ==> forall i int :: 0 <= i && i < len(result0) ==> result0[i] != nil
//@ end

//@ func DataLister.ListNodes
//@   props C10 C14 C01
//@   trusted
//@   note interface method implemented by client-go informer listers (external): read-only, no nil element on success; object contents unconstrained
//@   pure
//@   ensures result1 == nil ==> forall i int :: 0 <= i && i < len(result0) ==> result0[i] != nil
//@ end

//@ func DataLister.ListPodGroups
//@   props C10
//@   trusted
//@   note interface method implemented by client-go informer listers (external): read-only, no nil element on success; object contents unconstrained
//@   pure
//@   ensures result1 == nil ==> forall i int :: 0 <= i && i < len(result0) ==> result0[i] != nil
//@ end

//@ func DataLister.ListResourceClaims
//@   props C10 C12
//@   trusted
//@   note interface method implemented by client-go informer listers (external): read-only, no nil element on success; object contents unconstrained
//@   pure
//@   ensures result1 == nil ==> forall i int :: 0 <= i && i < len(result0) ==> result0[i] != nil
//@ end

//@ func DataLister.ListPriorityClasses
//@   props C10
//@   trusted
//@   note interface method implemented by client-go informer listers (external): read-only, no nil element on success; object contents unconstrained
//@   pure
//@   ensures result1 == nil ==> forall i int :: 0 <= i && i < len(result0) ==> result0[i] != nil
//@ end

//@ func DataLister.GetPriorityClassByName
//@   props C10
//@   trusted
//@   note interface method implemented by a client-go lister Get (external): read-only; returns a non-nil object exactly when the error is nil (NotFound otherwise)
//@   pure
//@   ensures result1 == nil ==> result0 != nil
//@ end

//@ func DataLister.ListPodByIndex
//@   props C10 C14
//@   trusted
//@   note interface method implemented by the pod informer's indexer (external): read-only; the store of the pod informer only holds non-nil *v1.Pod objects, so on success every element is a boxed non-nil *v1.Pod. WHICH pods are returned is not assumed.
//@   pure
//@   ensures result1 == nil ==> forall i int :: 0 <= i && i < len(result0) ==> typeis(result0[i], "*v1.Pod") && unbox(result0[i], "*v1.Pod") != nil
//@ end

//@ func DataLister.ListResourceSlicesByNode
//@   props C10
//@   trusted
//@   note interface method implemented over the ResourceSlice informer (external): read-only; the per-node slices of a successful listing hold no nil element
//@   pure
//@   ensures result1 == nil ==> forall n string, r **resourceapi.ResourceSlice :: n in result0 && incells(r, result0[n]) ==> *r != nil
//@ end

//@ func DataLister.ListConfigMaps
//@   props C10
//@   trusted
//@   note interface method implemented by client-go informer listers (external): read-only, no nil element on success; object contents unconstrained
//@   pure
//@   ensures result1 == nil ==> forall i int :: 0 <= i && i < len(result0) ==> result0[i] != nil
//@ end

//@ func DataLister.ListTopologies
//@   props C10
//@   trusted
//@   note interface method implemented by client-go informer listers (external): read-only, no nil element on success; object contents unconstrained
//@   pure
//@   ensures result1 == nil ==> forall i int :: 0 <= i && i < len(result0) ==> result0[i] != nil
//@ end
