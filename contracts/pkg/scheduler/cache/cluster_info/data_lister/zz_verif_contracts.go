//go:build verif

// Contracts for govc (contract-based deductive verification); comments only.
package data_lister

// Assumed contracts of the DataLister interface (its implementations are the informer-backed
// k8sLister and a gomock mock: client-go / gomock code outside the subset). What is assumed is
// only what an informer cache guarantees: listing is read-only for the scheduler's heap and a
// successful list never contains a nil object. NOTHING is assumed about the CONTENT of the objects
// (C10 quantifies over every well-typed API state).

//@ func DataLister.ListQueues
//@   props C10
//@   trusted
//@   note interface method implemented by client-go informer listers (external): read-only, no nil element on success; object contents unconstrained
//@   pure
//@   ensures result1 == nil ==> forall i int :: 0 <= i && i < len(result0) ==> result0[i] != nil
//@ end

//@ func DataLister.ListBindRequests
//@   props C12
//@   trusted
//@   note interface method implemented by client-go informer listers (external): read-only, no nil element on success; object contents unconstrained
//@   pure
//@   ensures result1 == nil ==> forall i int :: 0 <= i && i < len(result0) ==> result0[i] != nil
//@ end
