//go:build verif

// Contracts for govc (contract-based deductive verification); comments only.
package cluster_info

// ---- C10: queue graph -----------------------------------------------------------------------
// What snapshotQueues hands over: every entry is a non-nil QueueInfo stored under its own UID
// (so distinct keys hold distinct objects).
//@ define nonNil(qs map[common_info.QueueID]*queue_info.QueueInfo) bool = forall k in qs :: qs[k] != nil
//@ define keyed(qs map[common_info.QueueID]*queue_info.QueueInfo) bool = forall k in qs :: qs[k] != nil && qs[k].UID == k
//@ define noChildren(qs map[common_info.QueueID]*queue_info.QueueInfo) bool = forall k in qs :: len(qs[k].ChildQueues) == 0
// C10 "missing parents": every queue's parent is "" or a queue of the map (orphans pruned)
//@ define wfParents(qs map[common_info.QueueID]*queue_info.QueueInfo) bool = forall k in qs :: qs[k].ParentQueue == "" || qs[k].ParentQueue in qs
// every listed child id exists
//@ define childrenExist(qs map[common_info.QueueID]*queue_info.QueueInfo) bool = forall k in qs :: forall i int :: 0 <= i && i < len(qs[k].ChildQueues) ==> qs[k].ChildQueues[i] in qs
// a listed child that exists names the lister (whose id is not "") as its parent (preserved by deletions)
//@ define childPar(qs map[common_info.QueueID]*queue_info.QueueInfo) bool = forall k in qs :: forall i int :: 0 <= i && i < len(qs[k].ChildQueues) && qs[k].ChildQueues[i] in qs ==> qs[qs[k].ChildQueues[i]].ParentQueue == k && k != ""
// a queue whose (non-empty) parent exists is listed by that parent (preserved by deletions)
//@ define childComplete(qs map[common_info.QueueID]*queue_info.QueueInfo) bool = forall c in qs :: qs[c].ParentQueue != "" && qs[c].ParentQueue in qs ==> queue_info.isChild(qs[qs[c].ParentQueue], c)

// Deletes queueID and everything listed (transitively) under it; nothing else. A deleted queue other
// than queueID had a parent that is deleted too; no surviving queue loses an existing parent.
//@ func deleteQueueAndChildren
//@   props C10
//@   note recursion: the recursive call is checked against this contract (partial correctness). Termination of the recursion is NOT claimed: it needs a rank that decreases from a queue to its listed children, i.e. acyclicity of the child lists below queueID. At the only call site queueID is an orphan (its parent is absent), and since ParentQueue is single-valued the queues below an orphan form a tree.
//@   requires nonNil(queues) && childPar(queues) && childComplete(queues)
//@   modifies queues[*]
//@   loop 1
//@     invariant 0 - 1 <= rangeindex && rangeindex < len(queue.ChildQueues)
//@     invariant forall k in queues :: old(k in queues) && queues[k] == old(queues[k])
//@     invariant nonNil(queues) && childPar(queues) && childComplete(queues)
//@     invariant forall m map[common_info.QueueID]*queue_info.QueueInfo :: m != queues && old(allocated(m)) ==> dom(m) == old(dom(m))
//@     invariant forall m map[common_info.QueueID]*queue_info.QueueInfo, k common_info.QueueID :: m != queues && old(allocated(m)) && old(k in m) ==> m[k] == old(m[k])
//@     invariant forall j int :: 0 <= j && j < len(queue.ChildQueues) && queue.ChildQueues[j] in queues ==> queues[queue.ChildQueues[j]].ParentQueue == queueID && queueID != ""
//@     invariant forall j int :: 0 <= j && j <= rangeindex ==> !(queue.ChildQueues[j] in queues)
//@     invariant forall k common_info.QueueID :: old(k in queues) && !(k in queues) ==> old(queues[k]).ParentQueue != "" && (old(queues[k]).ParentQueue == queueID || !(old(queues[k]).ParentQueue in queues))
//@     invariant forall k in queues :: queues[k].ParentQueue != "" && old(queues[k].ParentQueue in queues) && queues[k].ParentQueue != queueID ==> queues[k].ParentQueue in queues
//@     decreases len(queue.ChildQueues) - rangeindex
//@   ensures [deleted] !(queueID in queues)
//@   ensures [onlyDeletes] forall k in queues :: old(k in queues) && queues[k] == old(queues[k])
//@   ensures [deletedHaveDeletedParent] forall k common_info.QueueID :: old(k in queues) && !(k in queues) ==> k == queueID || (old(queues[k]).ParentQueue != "" && !(old(queues[k]).ParentQueue in queues))
//@   ensures [noNewOrphans] forall k in queues :: queues[k].ParentQueue != "" && old(queues[k].ParentQueue in queues) ==> queues[k].ParentQueue in queues
//@   ensures [shape] nonNil(queues) && childPar(queues) && childComplete(queues)
//@ end

// C10: "missing parents or queues": after the pass every remaining queue has parent "" or a parent
// that is still in the map, every listed child still exists, and ONLY orphans and their descendants
// were removed (a removed queue's parent is absent afterwards: "workloads not touched by the
// malformed objects are still scheduled").
//@ func cleanQueueOrphans
//@   props C10
//@   requires nonNil(queues) && childPar(queues) && childComplete(queues) && childrenExist(queues)
//@   modifies queues[*]
//@   loop 1
//@     invariant forall k in queues :: old(k in queues) && queues[k] == old(queues[k])
//@     invariant nonNil(queues) && childPar(queues) && childComplete(queues)
//@     invariant childrenExist(queues)
//@     invariant forall m map[common_info.QueueID]*queue_info.QueueInfo :: m != queues && old(allocated(m)) ==> dom(m) == old(dom(m))
//@     invariant forall m map[common_info.QueueID]*queue_info.QueueInfo, k common_info.QueueID :: m != queues && old(allocated(m)) && old(k in m) ==> m[k] == old(m[k])
//@     invariant forall k in visited :: k in queues ==> queues[k].ParentQueue == "" || queues[k].ParentQueue in queues
//@     invariant forall k common_info.QueueID :: old(k in queues) && !(k in queues) ==> old(queues[k]).ParentQueue != "" && !(old(queues[k]).ParentQueue in queues)
//@   ensures [parentsPresent] wfParents(queues)
//@   ensures [childrenPresent] childrenExist(queues)
//@   ensures [onlyDeletes] forall k in queues :: old(k in queues) && queues[k] == old(queues[k])
//@   ensures [onlyOrphansPruned] forall k common_info.QueueID :: old(k in queues) && !(k in queues) ==> old(queues[k]).ParentQueue != "" && !(old(queues[k]).ParentQueue in queues)
//@   ensures [shape] nonNil(queues) && childPar(queues) && childComplete(queues)
//@ end

// Builds the child lists from the parent references: afterwards a queue is listed by q iff q is its
// (non-empty, existing) parent. Only ChildQueues fields change; the map itself does not.
//@ func updateQueueChildren
//@   props C10
//@   requires keyed(queues) && noChildren(queues)
//@   modifies family(queues[""].ChildQueues)
//@   loop 1
//@     invariant keyed(queues)
//@     invariant forall k in queues :: forall i int :: 0 <= i && i < len(queues[k].ChildQueues) ==> queues[k].ChildQueues[i] in queues && queues[queues[k].ChildQueues[i]].ParentQueue == k && k != ""
//@     invariant forall c in visited :: queues[c].ParentQueue != "" && queues[c].ParentQueue in queues ==> queue_info.isChild(queues[queues[c].ParentQueue], c)
//@   ensures [shape] keyed(queues) && childPar(queues) && childComplete(queues)
//@   ensures [childrenPresent] childrenExist(queues)
//@ end

// C10 top-level for the queue graph: "For any content of the API objects the scheduler reads -
// including ... queue parent cycles or self-parents, missing parents or queues ... - opening a session
// and running all actions terminates without panicking."  What every consumer of snapshot.Queues
// relies on: (1) a non-empty ParentQueue is a key of the map, (2) every listed child is a key of the
// map, (3) child lists and parent references agree, (4) only orphans / unrooted queues and their
// descendants are dropped, (5) the parent relation is acyclic (parent-chain loops terminate).
// Status on the fixed tree (3fa1605: UpdateQueueHierarchy = updateQueueChildren; cleanQueueOrphans;
// cleanQueueCycles), all for the FINAL state: (1) [parentsPresent], (3) [childrenNameParent]
// [parentsListChildren], (5) [rooted] (every remaining queue reaches a top-level queue through
// remaining queues: rank(k) = that number of steps strictly decreases along ParentQueue) and its
// first-order instances [noSelfParent] [noTwoCycle], and [entriesKept] are proved. (2) and (4) are
// proved for the state after cleanQueueOrphans (its contract); that cleanQueueCycles preserves (2)
// needs "a rooted chain has at most len(queues) nodes" (pigeonhole over the abstract map cardinality),
// which is out of reach for the solvers: not claimed for the final state.
// [rooted] and [parentsPresent] are stated under old(ancOK(queues)), the definition of the spec-only
// iterate symbol qanc (see below); the conjunct qanc(k, 0) == k in [parentsPresent] only seeds a term.
//@ func UpdateQueueHierarchy
//@   props C10
//@   requires keyed(queues) && noChildren(queues)
//@   modifies queues[*], family(queues[""].ChildQueues)
//@   ensures [childrenNameParent] childPar(queues)
//@   ensures [parentsListChildren] childComplete(queues)
//@   ensures [entriesKept] forall k in queues :: queues[k] != nil && old(k in queues) && queues[k] == old(queues[k])
//@   ensures [noSelfParent] forall k in queues :: !selfParent(queues, k)
//@   ensures [noTwoCycle] forall k in queues :: !twoCycle(queues, k)
//@   ensures [rooted] old(ancOK(queues)) ==> (forall k in queues :: exists n int :: rootAt(queues, k, n))
//@   ensures [parentsPresent] old(ancOK(queues)) ==> (forall k in queues :: qanc(k, 0) == k && (queues[k].ParentQueue == "" || queues[k].ParentQueue in queues))
//@ end

// ---- parent chains (acyclicity) -----------------------------------------------------------------
// qanc(s, n): the queue id reached from s after n parent steps. ancOK(qs) DEFINES this spec-only
// symbol for the map qs (iterate "go to ParentQueue while inside the map, stay put outside"): it
// holds of exactly one function in every heap, so requiring it excludes no execution (same device as
// proportion/utils.chainOK). The third conjunct (composition) is a property of every iterate.
//@ declare qanc(s common_info.QueueID, n int) common_info.QueueID
//@ define ancOK(qs map[common_info.QueueID]*queue_info.QueueInfo) bool = (forall s common_info.QueueID :: qanc(s, 0) == s) && (forall s common_info.QueueID, n int :: n >= 0 && qanc(s, n) in qs ==> qanc(s, n + 1) == qs[qanc(s, n)].ParentQueue) && (forall s common_info.QueueID, m int, j int :: m >= 0 && j >= 0 ==> qanc(qanc(s, m), j) == qanc(s, m + j))
// s reaches a top-level queue (ParentQueue == "") after exactly n parent steps, all inside the map
//@ define rootAt(qs map[common_info.QueueID]*queue_info.QueueInfo, s common_info.QueueID, n int) bool = 0 <= n && (forall m int :: 0 <= m && m <= n ==> qanc(s, m) in qs) && (forall m int :: 0 <= m && m < n ==> qs[qanc(s, m)].ParentQueue != "") && qs[qanc(s, n)].ParentQueue == ""

// the two smallest parent cycles (first-order): a queue that is its own parent / two queues that are each other's parent
//@ define selfParent(qs map[common_info.QueueID]*queue_info.QueueInfo, k common_info.QueueID) bool = k != "" && k in qs && qs[k].ParentQueue == k
//@ define twoCycle(qs map[common_info.QueueID]*queue_info.QueueInfo, k common_info.QueueID) bool = k != "" && k in qs && qs[k].ParentQueue != "" && qs[k].ParentQueue in qs && qs[qs[k].ParentQueue].ParentQueue == k

// consequence of ancOK (every suffix of a rooted chain is a rooted chain), proved from it by cleanQueueCycles [lemmasHold]
//@ define ancLemmas(qs map[common_info.QueueID]*queue_info.QueueInfo) bool = forall k common_info.QueueID, n int, m int :: rootAt(qs, k, n) && 0 <= m && m <= n ==> rootAt(qs, qanc(k, m), n - m)

// C10 (fix 3fa1605): true iff the parent chain of queueID reaches a top-level queue within
// len(queues) steps without leaving the map. Terminates on every map (bounded by len(queues)+1).
//@ func queueReachesRoot
//@   props C10
//@   requires nonNil(queues)
//@   pure
//@   loop 1
//@     invariant 0 <= steps && steps <= len(queues) + 1
//@     invariant ancOK(queues) ==> cur(queueID) == qanc(queueID, steps)
//@     invariant ancOK(queues) ==> (forall m int :: 0 <= m && m < steps ==> qanc(queueID, m) in queues && queues[qanc(queueID, m)].ParentQueue != "")
//@     invariant queueID in queues && queues[queueID].ParentQueue == queueID ==> cur(queueID) == queueID
//@     invariant queueID in queues && queues[queueID].ParentQueue in queues && queues[queues[queueID].ParentQueue].ParentQueue == queueID ==> cur(queueID) == queueID || cur(queueID) == queues[queueID].ParentQueue
//@     decreases len(queues) + 1 - steps
//@   ensures [selfParentUnrooted] selfParent(queues, queueID) ==> !result
//@   ensures [twoCycleUnrooted] twoCycle(queues, queueID) ==> !result
//@   ensures [rootedWithinBound] ancOK(queues) && result ==> (exists n int :: n <= len(queues) && rootAt(queues, queueID, n))
//@   ensures [exact] ancOK(queues) && !result ==> (forall n int :: n <= len(queues) ==> !rootAt(queues, queueID, n))
//@ end

// the parent chain of s reaches a top-level queue within len(qs) steps, inside the map
//@ define reach(qs map[common_info.QueueID]*queue_info.QueueInfo, s common_info.QueueID) bool = exists n int :: n <= len(qs) && rootAt(qs, s, n)
// s is one of the first cnt elements of l
//@ define listed(l []common_info.QueueID, cnt int, s common_info.QueueID) bool = exists i int :: 0 <= i && i < cnt && l[i] == s

// C10 (fix 3fa1605): "queue parent cycles or self-parents": afterwards EVERY remaining queue reaches a
// top-level queue through remaining queues (so the parent relation restricted to the map is acyclic and
// rank(k) = number of steps to the root strictly decreases along ParentQueue); only queues that do
// not reach a root within len(queues) steps are removed.
//@ declare rch(k common_info.QueueID) bool
//@ func cleanQueueCycles
//@   props C10
//@   assume forall k common_info.QueueID :: rch(k) == reach(queues, k)
//@   note the `assume` is DEFINITIONAL: rch is a spec-only symbol naming reach(queues, .) of the entry state, so that the loop invariants stay quantifier-light; it does not occur in the ensures.
//@   requires nonNil(queues)
//@   modifies queues[*]
//@   loop 1
//@     invariant forall i int :: 0 <= i && i < len(unrooted) ==> unrooted[i] in queues
//@     invariant forall k in visited :: (!selfParent(queues, k) && !twoCycle(queues, k)) || listed(unrooted, len(unrooted), k)
//@     invariant ancOK(queues) ==> (forall i int :: 0 <= i && i < len(unrooted) ==> !reach(queues, unrooted[i]))
//@     invariant ancOK(queues) ==> (forall k in visited :: rch(k) || listed(unrooted, len(unrooted), k))
//@   loop 2
//@     invariant 0 - 1 <= rangeindex && rangeindex < len(unrooted)
//@     invariant forall k in queues :: old(k in queues) && queues[k] == old(queues[k])
//@     invariant forall k common_info.QueueID :: old(k in queues) ==> (!old(selfParent(queues, k)) && !old(twoCycle(queues, k))) || listed(unrooted, len(unrooted), k)
//@     invariant forall i int :: 0 <= i && i <= rangeindex ==> !(unrooted[i] in queues)
//@     invariant old(ancOK(queues)) ==> (forall i int, k common_info.QueueID :: 0 <= i && i < len(unrooted) && unrooted[i] == k ==> !old(reach(queues, k)))
//@     invariant old(ancOK(queues)) ==> (forall k common_info.QueueID :: old(k in queues) ==> rch(k) || listed(unrooted, len(unrooted), k))
//@     invariant forall k common_info.QueueID :: old(k in queues) && !(k in queues) ==> listed(unrooted, rangeindex + 1, k)
//@     decreases len(unrooted) - rangeindex
//@   ensures [onlyDeletes] forall k in queues :: old(k in queues) && queues[k] == old(queues[k])
//@   ensures [noSelfParent] forall k in queues :: !selfParent(queues, k)
//@   ensures [noTwoCycle] forall k in queues :: !twoCycle(queues, k)
//@   ensures [onlyRootedRemain] old(ancOK(queues)) ==> (forall k in queues :: old(reach(queues, k)))
//@   ensures [lemmasHold] old(ancOK(queues)) ==> old(ancLemmas(queues))
//@   ensures [rootedRemain] old(ancOK(queues)) ==> (forall k common_info.QueueID :: old(k in queues) && old(reach(queues, k)) ==> k in queues)
//@ end

// The queue map handed to UpdateQueueHierarchy: every value is a non-nil QueueInfo stored under its
// own UID, with an empty child list (this is UpdateQueueHierarchy's precondition; the call in
// Snapshot passes exactly this map).
//@ func (*ClusterInfo).snapshotQueues
//@   props C10
//@   requires c != nil && c.dataLister != nil
//@   note modifies *: the error path wraps the error with github.com/pkg/errors.WithStack (external, havoc); ProjectLevelFairness mode also overwrites Spec.ParentQueue of the listed (informer-cache) Queue objects
//@   modifies *
//@   loop 1
//@     invariant 0 - 1 <= rangeindex && rangeindex < len(queues)
//@     invariant result != nil && fresh(result)
//@     invariant forall i int :: 0 <= i && i < len(queues) ==> queues[i] != nil
//@     invariant keyed(result) && noChildren(result)
//@   loop 2
//@     invariant 0 - 1 <= rangeindex && rangeindex < len(queues)
//@     invariant result != nil && fresh(result)
//@     invariant forall i int :: 0 <= i && i < len(queues) ==> queues[i] != nil
//@     invariant keyed(result) && noChildren(result)
//@   ensures [establishesHierarchyPre] result1 == nil ==> keyed(result0) && noChildren(result0)
//@ end

// ---- C12: bind requests in the snapshot ---------------------------------------------------------
// "The scheduler ... bind requests whose selected node no longer exists are deleted": every listed
// request goes to exactly one side: selected node present in the snapshot => stored in the map
// under the pod key; node absent and the request belongs to this scheduler's node pool => in the
// list for deleted nodes; node absent and other node pool => dropped (not ours to delete).
// poolMatch: the (external, assumed deterministic) label-selector match of the node-pool selector.
//@ declare poolMatch(sel labels.Selector, ls map[string]string) bool

//@ func k8s.io/apimachinery/pkg/labels.Selector.Matches
//@   props C12
//@   trusted
//@   note external interface (k8s.io/apimachinery labels.Selector): assumed read-only and a deterministic function of the selector and the label set
//@   pure
//@   ensures result == poolMatch(recv, unbox(arg0, "labels.Set"))
//@ end

//@ define brOK(b *bindrequest_info.BindRequestInfo) bool = b != nil && b.BindRequest != nil && b.Name == b.BindRequest.Name && b.Namespace == b.BindRequest.Namespace
//@ define brKey(r *schedulingv1alpha2.BindRequest) bindrequest_info.Key = bindrequest_info.objKey(r.Namespace, r.Spec.PodName)

//@ func (*ClusterInfo).snapshotBindRequests
//@   props C12
//@   requires c != nil && c.dataLister != nil && c.nodePoolSelector != nil
//@   loop 1
//@     invariant 0 - 1 <= rangeindex && rangeindex < len(bindRequests)
//@     invariant forall i int :: 0 <= i && i < len(bindRequests) ==> bindRequests[i] != nil
//@     invariant result != nil && fresh(result)
//@     invariant forall k in result :: allocated(result[k]) && brOK(result[k]) && result[k].BindRequest.Spec.SelectedNode in nodes && k == brKey(result[k].BindRequest)
//@     invariant forall j int :: 0 <= j && j < len(requestsForDeletedNodes) ==> allocated(requestsForDeletedNodes[j]) && brOK(requestsForDeletedNodes[j]) && !(requestsForDeletedNodes[j].BindRequest.Spec.SelectedNode in nodes) && poolMatch(c.nodePoolSelector, requestsForDeletedNodes[j].BindRequest.Labels)
//@     invariant forall i int :: 0 <= i && i <= rangeindex && bindRequests[i].Spec.SelectedNode in nodes ==> brKey(bindRequests[i]) in result
//@     invariant forall i int :: 0 <= i && i <= rangeindex && !(bindRequests[i].Spec.SelectedNode in nodes) && poolMatch(c.nodePoolSelector, bindRequests[i].Labels) ==> (exists j int :: 0 <= j && j < len(requestsForDeletedNodes) && requestsForDeletedNodes[j].BindRequest == bindRequests[i])
//@   ensures [liveNodeRequestsStored] result2 == nil ==> (forall i int :: 0 <= i && i < len(bindRequests) && bindRequests[i].Spec.SelectedNode in nodes ==> brKey(bindRequests[i]) in result0)
//@   ensures [missingNodeRequestsOfPoolListed] result2 == nil ==> (forall i int :: 0 <= i && i < len(bindRequests) && !(bindRequests[i].Spec.SelectedNode in nodes) && poolMatch(c.nodePoolSelector, bindRequests[i].Labels) ==> (exists j int :: 0 <= j && j < len(result1) && result1[j].BindRequest == bindRequests[i]))
//@   ensures [listError] result2 != nil ==> result0 == nil && len(result1) == 0
//@   ensures [mapOnlyLiveNodes] result2 == nil ==> result0 != nil && (forall k in result0 :: brOK(result0[k]) && result0[k].BindRequest.Spec.SelectedNode in nodes && k == brKey(result0[k].BindRequest))
//@   ensures [deletedOnlyMissingNodesOfPool] result2 == nil ==> (forall j int :: 0 <= j && j < len(result1) ==> brOK(result1[j]) && !(result1[j].BindRequest.Spec.SelectedNode in nodes) && poolMatch(c.nodePoolSelector, result1[j].BindRequest.Labels))
//@ end

// ==== added by helper "cache": snapshot construction (C12 C14 C01 C10) ==============================================
// Data invariant of a ClusterInfo built by New (New dereferences nodePoolParams, stores the selector it obtained
// without error and the data lister it created; cache.newSchedulerCache passes &sc.K8sClusterPodAffinityInfo).
// It is the precondition of every snapshot step below.
//@ define ciWF(c *ClusterInfo) bool = c != nil && c.dataLister != nil && c.nodePoolParams != nil && c.nodePoolSelector != nil && c.clusterPodAffinityInfo != nil

// C10 "pod groups with unknown queues": a pod group whose queue is not in the snapshot gets an error (and the job a
// fit error in snapshotPodGroups), never a panic.
//@ func validatePodgroupQueue
//@   props C10
//@   requires podGroup != nil
//@   pure
//@   ensures [unknownQueueReported] (result == nil) == (podGroup.Spec.Queue in existingQueues)
//@ end

// the default priority: the value of the first global-default priority class, else the built-in default
//@ func getDefaultPriority
//@   props C10
//@   requires dataLister != nil
//@   loop 1
//@     invariant 0 - 1 <= rangeindex && rangeindex < len(priorityClasses)
//@     invariant forall i int :: 0 <= i && i < len(priorityClasses) ==> priorityClasses[i] != nil
//@ end

//@ func getPodGroupPriority
//@   props C10
//@   requires podGroup != nil && dataLister != nil
//@   pure
//@ end

// conf.GetConfig guards the process-wide configuration with a sync.Mutex.  Sequential model: taking and releasing
// the lock has no effect on any location a contract mentions (no other goroutine is considered anywhere in this work).
//@ func (*sync.Mutex).Lock
//@   props C10
//@   trusted
//@   note sync.Mutex is outside the subset (DESIGN 1.4); sequential model: no effect on the heap
//@   pure
//@ end
//@ func (*sync.Mutex).Unlock
//@   props C10
//@   trusted
//@   note sync.Mutex is outside the subset (DESIGN 1.4); sequential model: no effect on the heap
//@   pure
//@ end

// node filter of restricted scheduling: only nodes carrying one of the two worker labels (nodes without labels are dropped)
//@ func filterUnmarkedNodes
//@   props C10
//@   requires forall i int :: 0 <= i && i < len(nodes) ==> nodes[i] != nil
//@   note conf.GetConfig lazily creates the process-wide configuration object (package variable conf.config)
//@   loop 1
//@     invariant 0 - 1 <= rangeindex && rangeindex < len(nodes)
//@     invariant forall i int :: 0 <= i && i < len(nodes) ==> nodes[i] != nil
//@     invariant forall i int :: 0 <= i && i < len(markedNodes) ==> markedNodes[i] != nil
//@   ensures [noNil] forall i int :: 0 <= i && i < len(result) ==> result[i] != nil
//@ end

//@ func (*ClusterInfo).isPodGroupUpForScheduler
//@   props C10
//@   requires ciWF(c) && podGroup != nil
//@   pure
//@ end

//@ func (*ClusterInfo).filterUnassignedPodGroups
//@   props C10
//@   requires ciWF(c)
//@   requires forall i int :: 0 <= i && i < len(podGroups) ==> podGroups[i] != nil
//@   loop 1
//@     invariant 0 - 1 <= rangeindex && rangeindex < len(podGroups)
//@     invariant forall i int :: 0 <= i && i < len(assignedPodGroups) ==> assignedPodGroups[i] != nil
//@   ensures [noNil] forall i int :: 0 <= i && i < len(result) ==> result[i] != nil
//@ end

//@ func (*ClusterInfo).snapshotConfigMaps
//@   props C10
//@   requires ciWF(c)
//@   loop 1
//@     invariant 0 - 1 <= rangeindex && rangeindex < len(configMaps)
//@     invariant forall i int :: 0 <= i && i < len(configMaps) ==> configMaps[i] != nil
//@     invariant result != nil && fresh(result)
//@ end

//@ func (*ClusterInfo).snapshotTopologies
//@   props C10
//@   requires ciWF(c)
//@ end

// ---- C12: the tasks of the snapshot ---------------------------------------------------------------------------------
// a LIVE bind request of the pod: one is stored under the pod's key (snapshotBindRequests stores only requests whose
// selected node is in the snapshot) and it is not terminally failed (bindrequest_info.brFailed)
//@ define brLive(brm bindrequest_info.BindRequestMap, pod *v1.Pod) bool = bindrequest_info.objKey(pod.Namespace, pod.Name) in brm && !bindrequest_info.brFailed(brm[bindrequest_info.objKey(pod.Namespace, pod.Name)].BindRequest)
//@ define brOf(brm bindrequest_info.BindRequestMap, pod *v1.Pod) *bindrequest_info.BindRequestInfo = brm[bindrequest_info.objKey(pod.Namespace, pod.Name)]
//@ define brMapOK(brm bindrequest_info.BindRequestMap) bool = forall k in brm :: brm[k] != nil && brm[k].BindRequest != nil

// C12 "From the moment the scheduler creates a BindRequest until it reaches a terminal outcome, every snapshot charges
// the pod's resources (including GPU groups ...) to the selected node ...; requests for deleted nodes and terminally
// failed requests are deleted and their pods become schedulable again": task t was built from its pod and the bind
// request map: with a live request a pending, unbound, undeleted pod is Binding (taskStatusOf), placed on the request's
// SelectedNode and carries its SelectedGPUGroups; without one (none stored: never created, already deleted, selected
// node not in the snapshot; or terminally failed) it is Pending/Gated on no node ("").  Written in two steps: the
// task's BindRequest field is the live request or nil (builtFrom), and status / node / groups follow that field
// (taskOfRequest); brMapOK makes "live" and "t.BindRequest != nil" the same thing.
//@ define taskOfRequest(t *pod_info.PodInfo) bool = t.Status == pod_info.taskStatusOf(t.Pod, t.BindRequest != nil) && t.NodeName == ite(t.Pod.Spec.NodeName == "" && t.BindRequest != nil, t.BindRequest.BindRequest.Spec.SelectedNode, t.Pod.Spec.NodeName) && (t.BindRequest != nil && len(t.BindRequest.BindRequest.Spec.SelectedGPUGroups) > 0 ==> t.GPUGroups == t.BindRequest.BindRequest.Spec.SelectedGPUGroups)
//@ define builtFrom(t *pod_info.PodInfo, brm bindrequest_info.BindRequestMap) bool = t.BindRequest == ite(brLive(brm, t.Pod), brOf(brm, t.Pod), nil) && taskOfRequest(t)
// what node_info.AddTask needs of a task (node_info.taskWF) with request objects that no node accounting can share
//@ define newTask(t *pod_info.PodInfo) bool = t != nil && t.Pod != nil && t.ResReq != nil && t.ResReq.scalarResources != nil && fresh(t.ResReq.scalarResources) && t.AcceptedResource != nil && t.AcceptedResource.scalarResources != nil && fresh(t.AcceptedResource.scalarResources) && (t.ResReq.migResources == nil || fresh(t.ResReq.migResources)) && fresh(t.AcceptedResource.migResources)
// The lists are quantified over their element CELLS (r = &m[n][j], `incells`): the index form m[n][j] puts arithmetic
// into the quantifier patterns and the solvers do not get through `append`.
// every task listed under node name n: is new, is on n, is (not) a reservation pod, and was built from its pod and brm
// heap closure, stated explicitly: the cells of the lists and the tasks in them exist already (so whatever the next
// iteration allocates is different from them); the engine knows this only for values it loaded itself
//@ define listAlloc(m map[string][]*pod_info.PodInfo) bool = forall n string, r **pod_info.PodInfo :: n in m && incells(r, m[n]) ==> allocated(r) && allocated(*r)
//@ define listNew(m map[string][]*pod_info.PodInfo) bool = forall n string, r **pod_info.PodInfo :: n in m && incells(r, m[n]) ==> newTask(*r)
//@ define listKeyed(m map[string][]*pod_info.PodInfo, resv bool) bool = forall n string, r **pod_info.PodInfo :: n in m && incells(r, m[n]) ==> (*r).NodeName == n && pod_info.isReservationPod((*r).Pod) == resv
//@ define listBuilt(m map[string][]*pod_info.PodInfo, brm bindrequest_info.BindRequestMap) bool = forall n string, r **pod_info.PodInfo :: n in m && incells(r, m[n]) ==> builtFrom(*r, brm)
// all of the above in ONE quantifier (loop invariant form: one instantiation per cell instead of four)
//@ define listOK(m map[string][]*pod_info.PodInfo, brm bindrequest_info.BindRequestMap, resv bool) bool = forall n string, r **pod_info.PodInfo :: n in m && incells(r, m[n]) ==> allocated(r) && allocated(*r) && newTask(*r) && (*r).NodeName == n && pod_info.isReservationPod((*r).Pod) == resv && builtFrom(*r, brm)
//@ define listDistinct(m map[string][]*pod_info.PodInfo) bool = forall n string, r1 **pod_info.PodInfo, r2 **pod_info.PodInfo :: n in m && incells(r1, m[n]) && incells(r2, m[n]) && r1 != r2 ==> *r1 != *r2
// pod p has its task in the list of the node it was placed on
//@ define podListed(m map[string][]*pod_info.PodInfo, p *v1.Pod) bool = exists n string, j int :: n in m && 0 <= j && j < len(m[n]) && m[n][j].Pod == p

//@ func (*ClusterInfo).getNodeToPodInfosMap
//@   props C12 C10 C14 C01
//@   requires ciWF(c) && resource_info.vmWF(vectorMap) && brMapOK(bindRequests) && resource_info.claimsNonNil(draResourceClaims)
//@   requires forall i int :: 0 <= i && i < len(allPods) ==> allPods[i] != nil
//@   modifies vectorMap.namesToIndex[*], vectorMap.resourceNames
//@   loop 1
//@     invariant 0 - 1 <= rangeindex && rangeindex < len(allPods)
//@     invariant resource_info.vmWF(vectorMap)
//@     invariant nodePodInfosMap != nil && fresh(nodePodInfosMap) && nodeReservationPodInfosMap != nil && fresh(nodeReservationPodInfosMap) && nodePodInfosMap != nodeReservationPodInfosMap
//@     invariant resource_info.podClaimsNonNil(podsToClaimsMap) && resource_info.claimMapNonNil(draClaimMap)
//@     invariant resource_info.draIndexFrame(podsToClaimsMap)
//@     invariant listOK(nodePodInfosMap, bindRequests, false)
//@     invariant listOK(nodeReservationPodInfosMap, bindRequests, true)
//@   loop 2
//@     invariant 0 - 1 <= rangeindex
//@     invariant resource_info.vmWF(vectorMap)
//@   ensures [noError] result2 == nil && result0 != nil && result1 != nil && result0 != result1
//@   ensures [tasksAreNew] listNew(result0) && listNew(result1)
//@   ensures [listedUnderOwnNode] listKeyed(result0, false) && listKeyed(result1, true)
//@   ensures [bindingPodsOnSelectedNode] listBuilt(result0, bindRequests) && listBuilt(result1, bindRequests)
//@   ensures [layout] resource_info.vmWF(vectorMap)
//@ end

// ---- C14 / C01 / C10: the nodes of the snapshot ---------------------------------------------------------------------
//@ func NewK8sNodePodAffinityInfo
//@   props C10 C14
//@   trusted
//@   note builds a k8s scheduler-framework NodeInfo (k8s.io/kubernetes/pkg/scheduler/framework: external) and registers it in the cluster pod-affinity index (interface pod_affinity.ClusterPodAffinityInfo, implemented in package cache); this bookkeeping is outside the scheduler's resource model (see pod_affinity.NodePodAffinityInfo.AddPod): assumed to touch no object the contracts mention and to return a non-nil value
//@   requires node != nil && clusterPodAffinityInfo != nil
//@   ensures result != nil
//@ end

// what every node of the snapshot map satisfies (pointer level: survives every later step that only moves amounts)
//@ define snapNodeOK(nodes map[string]*node_info.NodeInfo) bool = forall n in nodes :: nodes[n] != nil && nodes[n].Name == n && node_info.nodeShape(nodes[n]) && node_info.podsWF(nodes[n]) && nodes[n].Allocatable != nodes[n].Idle && nodes[n].MemoryOfEveryGpuOnNode == node_info.nodeGpuMemory(nodes[n].Node)
// C14 "pods present": no pod has been put on any node yet, and no amount that only pods move has moved: Used and
// Releasing are zero in cpu, memory and every scalar resource, Idle equals Allocatable in them, no shared-GPU entry
// exists.  (The whole-GPU component is stated per node by NewNodeInfo / AddDRAGPUs; at map level it would need
// pairwise separation of the nodes' Resource objects.)
//@ define snapNodeEmpty(nodes map[string]*node_info.NodeInfo) bool = forall n in nodes :: (forall k common_info.PodID :: !(k in nodes[n].PodInfos)) && node_info.noSharedGpus(nodes[n]) && nodes[n].Used.milliCpu == 0.0 && nodes[n].Used.memory == 0.0 && nodes[n].Releasing.milliCpu == 0.0 && nodes[n].Releasing.memory == 0.0 && nodes[n].Idle.milliCpu == nodes[n].Allocatable.milliCpu && nodes[n].Idle.memory == nodes[n].Allocatable.memory && (forall k v1.ResourceName :: !(k in nodes[n].Used.scalarResources) && !(k in nodes[n].Releasing.scalarResources) && nodes[n].Idle.scalarResources[k] == nodes[n].Allocatable.scalarResources[k] && (k in nodes[n].Idle.scalarResources <==> k in nodes[n].Allocatable.scalarResources))

// GPUs offered through DRA ResourceSlices are added to Allocatable and Idle of the node (AddDRAGPUs); only amounts move.
// frame of that step, per family it writes under a loop-variant node: objects that belong to no node of the map keep their value
//@ define draOnlyNodeGpus(nodes map[string]*node_info.NodeInfo) bool = forall r *resource_info.Resource :: (forall n in nodes :: r != nodes[n].Allocatable && r != nodes[n].Idle) ==> r.gpus == old(r.gpus)
//@ define draOnlyNodeFlags(nodes map[string]*node_info.NodeInfo) bool = forall x *node_info.NodeInfo :: (forall n in nodes :: x != nodes[n]) ==> x.HasDRAGPUs == old(x.HasDRAGPUs)
//@ define draOnlyNodeVectors(nodes map[string]*node_info.NodeInfo) bool = forall p *float64 :: (forall n in nodes :: !incells(p, nodes[n].AllocatableVector) && !incells(p, nodes[n].IdleVector)) ==> *p == old(*p)
//@ define slicesNonNil(m map[string][]*resourceapi.ResourceSlice) bool = forall s string, r **resourceapi.ResourceSlice :: s in m && incells(r, m[s]) ==> *r != nil
//@ func (*ClusterInfo).populateDRAGPUs
//@   props C14 C01 C10
//@   requires ciWF(c) && snapNodeOK(nodes)
//@   modifies family(nodes[""].Allocatable.gpus), family(nodes[""].AllocatableVector[*]), family(nodes[""].HasDRAGPUs)
//@   loop 1
//@     invariant snapNodeOK(nodes)
//@     invariant slicesNonNil(slicesByNode)
//@     invariant draOnlyNodeGpus(nodes) && draOnlyNodeFlags(nodes) && draOnlyNodeVectors(nodes)
//@   loop 2
//@     invariant 0 - 1 <= rangeindex
//@     invariant snapNodeOK(nodes)
//@     invariant slicesNonNil(slicesByNode)
//@     invariant draOnlyNodeGpus(nodes) && draOnlyNodeFlags(nodes) && draOnlyNodeVectors(nodes)
//@   ensures [shapeKept] snapNodeOK(nodes)
//@   ensures [onlyNodeGpus] draOnlyNodeGpus(nodes)
//@   ensures [onlyNodeFlags] draOnlyNodeFlags(nodes)
//@   ensures [onlyNodeVectors] draOnlyNodeVectors(nodes)
//@ end

// C14 / C01 (establish) + C10 "nodes without labels or with zero capacity": one NodeInfo per listed node, stored under
// the node's name, built by NewNodeInfo (Idle = Allocatable = node.status.allocatable, nothing used, no pods), then
// populateDRAGPUs.  The per-GPU memory is whatever the label says (nodeGpuMemory): NOT necessarily positive (F1).
//@ func (*ClusterInfo).snapshotNodes
//@   props C14 C01 C10
//@   requires ciWF(c) && clusterPodAffinityInfo != nil && resource_info.vmWF(vectorMap)
//@   modifies vectorMap.namesToIndex[*], vectorMap.resourceNames
//@   loop 1
//@     invariant 0 - 1 <= rangeindex && rangeindex < len(nodes)
//@     invariant forall i int :: 0 <= i && i < len(nodes) ==> nodes[i] != nil
//@     invariant resource_info.vmWF(vectorMap)
//@     invariant resultNodes != nil && fresh(resultNodes)
//@     invariant forall n in resultNodes :: fresh(resultNodes[n]) && fresh(resultNodes[n].PodInfos) && fresh(resultNodes[n].Used) && fresh(resultNodes[n].Releasing) && fresh(resultNodes[n].Idle) && fresh(resultNodes[n].Allocatable) && resource_info.freshArray(resultNodes[n].AllocatableVector) && resource_info.freshArray(resultNodes[n].IdleVector)
//@     invariant snapNodeOK(resultNodes)
//@     invariant snapNodeEmpty(resultNodes)
//@   ensures [listError] err != nil ==> nodesMap == nil
//@   ensures [nodesKeyedAndShaped] err == nil ==> nodesMap != nil && snapNodeOK(nodesMap)
//@   ensures [noPodsNothingUsed] err == nil ==> snapNodeEmpty(nodesMap)
//@   ensures [layout] resource_info.vmWF(vectorMap)
//@ end

// ---- C12 / C14 / C01: putting the tasks on their nodes ---------------------------------------------------------------
// (*ClusterInfo).addTasksToNodes and (*ClusterInfo).Snapshot are NOT under contract.  addTasksToNodes hands the lists
// of getNodeToPodInfosMap to node.AddTasksToNode(list of node.Name, ...); the precondition of that call (and of
// node_info.AddTask below it) is node_info.nodeWF(node), which contains
//   (1) vecWF: len(node.IdleVector) == len(node.VectorMap.resourceNames) (same for Used/Releasing), and
//   (2) node.MemoryOfEveryGpuOnNode > 0.
// Neither can be established by the snapshot for every API state: (1) all nodes share ONE layout (vectorMap) that
// grows after a node was built - by the allocatable of every later node (snapshotNodes) and by the requests of every
// pod (getNodeToPodInfosMap) - so an earlier node's vectors are shorter than the layout as soon as a later node or a
// pod names a resource the layout did not have (e.g. node A {cpu,memory,pods}, node B {cpu,memory,pods,example.com/foo}:
// len(A.IdleVector) = 4, layout = 5).  The code is fine with that (ResourceVector.Add/Sub extend, Get/Set are bounds
// checked); the CONTRACT of AddTask (owner: node helper) is stronger than what its only production caller provides.
// (2) is finding F1 (label nvidia.com/gpu.memory in [0,99] or negative; see NewNodeInfo [gpuMemory]).
// What IS proved of this step: the three pieces it composes - getNodeToPodInfosMap (tasks built from the live bind
// request and listed under their node), AddTasksToNode (occupying pods recorded, exact effect for 0/1 pods) and
// snapshotNodes (nodes keyed by name, empty) - and, by reading the eight lines of addTasksToNodes, that each node gets
// exactly the two lists stored under ITS name and that lists under other names ("" or a node that is not in the
// snapshot) are handed to no node.

// ---- C14 / C10: the jobs of the snapshot ------------------------------------------------------------------------------
//@ func github.com/pkg/errors.WithStack
//@   props C10
//@   trusted
//@   note external (github.com/pkg/errors): wraps the error with a stack trace; assumed read-only, non-nil for a non-nil argument
//@   pure
//@   ensures (result == nil) == (arg0 == nil)
//@ end

// C14 "pods present ... each workload": the task of a pod is the ONE registered under the pod's UID by the node pass
// (addTasksToNodes), so the job and the node see the same object; a pod that was not registered (its node is not in
// the snapshot) gets a new task without bind request and is registered now.  Either way the result is the registered task.
//@ func (*ClusterInfo).getPodInfo
//@   props C14 C10
//@   requires pod != nil && existingPods != nil && vectorMap != nil
//@   requires forall u in existingPods :: existingPods[u] != nil
//@   modifies existingPods[pod.UID]
//@   ensures [registered] pod.UID in existingPods && existingPods[pod.UID] == result && result != nil
//@   ensures [reused] old(pod.UID in existingPods) ==> result == old(existingPods[pod.UID])
//@   ensures [newWithoutRequest] !old(pod.UID in existingPods) ==> fresh(result) && result.Pod == pod && result.BindRequest == nil && result.Status == pod_info.taskStatusOf(pod, false) && result.NodeName == pod.Spec.NodeName
//@   ensures [registryNonNil] forall u in existingPods :: existingPods[u] != nil
//@ end

//@ func (*ClusterInfo).setPodGroupPriorityAndPreemptibility
//@   props C10
//@   requires ciWF(c) && podGroupInfo != nil && podGroup != nil
//@   modifies podGroupInfo.Priority, podGroupInfo.Preemptibility
//@ end

// snapshotPodGroups is not under contract: after (*PodGroupInfo).SetPodGroup (which replaces the pod sets) the
// preconditions of (*PodGroupInfo).AddTaskInfo (idxWF / allPsWF / accOK of the job helper's file) are not re-established
// by any contract, NewPodGroupInfoWithVectorMap and AddSimpleJobFitError have no contract, and accOK compares vector
// lengths under the growing layout (see the note on addTasksToNodes).  Its no-panic obligations that do not depend on
// those: ListPodByIndex returns non-nil *v1.Pod elements (assumed, data_lister), so the unchecked `pod, ok :=
// rawPod.(*v1.Pod)` followed by getPodInfo(pod) does not dereference nil; GetPriorityClassByName returns a non-nil
// class when err == nil (assumed); isPodGroupUpForScheduler needs c.nodePoolParams != nil (ciWF, established by New).

// ---- C04: the inter-pod (anti-)affinity index follows the pods of the node --------------------------------------------
// C04 "inter-pod affinity/anti-affinity ... hold for every bound pod": the upstream InterPodAffinity PreFilter reads the
// cluster index (nodesWithPodAffinity / nodesWithPodAntiAffinity) that UpdateNodeAffinity refreshes from the node's
// CURRENT pod list. So after AddPod / a successful RemovePod the index must have been refreshed AFTER the pod list
// changed. Ghost versions make the order observable: the k8s NodeInfo bumps podListVersion on every AddPod/RemovePod,
// UpdateNodeAffinity records the version it has seen.
//@ import k8sframework "k8s.io/kubernetes/pkg/scheduler/framework"
//@ ghost podListVersion(n *k8sframework.NodeInfo) int
//@ ghost indexedVersion(n *k8sframework.NodeInfo) int
//@ func (*k8s.io/kubernetes/pkg/scheduler/framework.NodeInfo).AddPod
//@   props C04
//@   trusted
//@   note external (k8s scheduler framework): appends the pod to the node's pod lists; assumed to touch nothing the contracts mention; the ghost version counts the changes of the pod list
//@   modifies podListVersion(n)
//@   ensures podListVersion(n) == old(podListVersion(n)) + 1
//@ end
//@ func (*k8s.io/kubernetes/pkg/scheduler/framework.NodeInfo).RemovePod
//@   props C04
//@   trusted
//@   note external (k8s scheduler framework): removes the pod from the node's pod lists or returns an error and changes nothing
//@   modifies podListVersion(n)
//@   ensures ite(result == nil, podListVersion(n) == old(podListVersion(n)) + 1, podListVersion(n) == old(podListVersion(n)))
//@ end
//@ import pod_affinity "github.com/NVIDIA/KAI-scheduler/pkg/scheduler/api/pod_affinity"
//@ func github.com/NVIDIA/KAI-scheduler/pkg/scheduler/api/pod_affinity.ClusterPodAffinityInfo.UpdateNodeAffinity
//@   modifies indexedVersion(unbox(podAffinityInfo, "*K8sNodePodAffinityInfo").NodeInfo)
//@   ensures [assumed] typeis(podAffinityInfo, "*K8sNodePodAffinityInfo") ==> indexedVersion(unbox(podAffinityInfo, "*K8sNodePodAffinityInfo").NodeInfo) == podListVersion(unbox(podAffinityInfo, "*K8sNodePodAffinityInfo").NodeInfo)
//@   note assumed (interface pod_affinity.ClusterPodAffinityInfo, implemented by the cache's K8sClusterPodAffinityInfo): re-reads HasPodsWithPodAffinity / HasPodsWithPodAntiAffinity of the given node and updates the two node-name sets; ghost: the index now reflects the pod list as it is at the call
//@ end
//@ func (*K8sNodePodAffinityInfo).AddPod
//@   props C04
//@   requires ni != nil && ni.NodeInfo != nil && ni.clusterPodAffinityInfo != nil
//@   modifies podListVersion(ni.NodeInfo), indexedVersion(ni.NodeInfo)
//@   ensures [podListChanged] podListVersion(ni.NodeInfo) == old(podListVersion(ni.NodeInfo)) + 1
//@   ensures [indexRefreshedAfterThePodListChanged] indexedVersion(ni.NodeInfo) == podListVersion(ni.NodeInfo)
//@ end
//@ func (*K8sNodePodAffinityInfo).RemovePod
//@   props C04
//@   requires ni != nil && ni.NodeInfo != nil && ni.clusterPodAffinityInfo != nil
//@   modifies podListVersion(ni.NodeInfo), indexedVersion(ni.NodeInfo)
//@   ensures [indexRefreshedAfterThePodListChanged] result == nil ==> indexedVersion(ni.NodeInfo) == podListVersion(ni.NodeInfo)
//@   ensures [failureChangesNothing] result != nil ==> podListVersion(ni.NodeInfo) == old(podListVersion(ni.NodeInfo)) && indexedVersion(ni.NodeInfo) == old(indexedVersion(ni.NodeInfo))
//@ end
