//go:build verif

// Contracts for govc (contract-based deductive verification); comments only.
package cluster_info

// ---- C10: queue graph -----------------------------------------------------------------------
// What snapshotQueues hands over: every entry is a non-nil QueueInfo stored under its own UID
// (so distinct keys hold distinct objects).
//@ define nonNil(qs map[common_info.QueueID]*queue_info.QueueInfo) bool = forall k in qs :: qs[k] != nil
//@ define keyed(qs map[common_info.QueueID]*queue_info.QueueInfo) bool = forall k in qs :: qs[k] != nil && qs[k].UID == k
//@ define noChildren(qs map[common_info.QueueID]*queue_info.QueueInfo) bool = forall k in qs :: len(qs[k].ChildQueues) == 0
// C10 "missing parents": every queue's parent is "" or a queue of the map (orphans pruned)
//@ define wfParents(qs map[common_info.QueueID]*queue_info.QueueInfo) bool = forall k in qs :: qs[k].ParentQueue == "" || qs[k].ParentQueue in qs
// every listed child id exists
//@ define childrenExist(qs map[common_info.QueueID]*queue_info.QueueInfo) bool = forall k in qs :: forall i int :: 0 <= i && i < len(qs[k].ChildQueues) ==> qs[k].ChildQueues[i] in qs
// a listed child that exists names the lister (whose id is not "") as its parent (preserved by deletions)
//@ define childPar(qs map[common_info.QueueID]*queue_info.QueueInfo) bool = forall k in qs :: forall i int :: 0 <= i && i < len(qs[k].ChildQueues) && qs[k].ChildQueues[i] in qs ==> qs[qs[k].ChildQueues[i]].ParentQueue == k && k != ""
// a queue whose (non-empty) parent exists is listed by that parent (preserved by deletions)
//@ define childComplete(qs map[common_info.QueueID]*queue_info.QueueInfo) bool = forall c in qs :: qs[c].ParentQueue != "" && qs[c].ParentQueue in qs ==> queue_info.isChild(qs[qs[c].ParentQueue], c)

// Deletes queueID and everything listed (transitively) under it; nothing else. A deleted queue other
// than queueID had a parent that is deleted too; no surviving queue loses an existing parent.
//@ func deleteQueueAndChildren
//@   props C10
//@   note recursion: the recursive call is checked against this contract (partial correctness). Termination of the recursion is NOT claimed: it needs a rank that decreases from a queue to its listed children, i.e. acyclicity of the child lists below queueID. At the only call site queueID is an orphan (its parent is absent), and since ParentQueue is single-valued the queues below an orphan form a tree.
//@   requires nonNil(queues) && childPar(queues) && childComplete(queues)
//@   modifies queues[*]
//@   loop 1
//@     invariant 0 - 1 <= rangeindex && rangeindex < len(queue.ChildQueues)
//@     invariant forall k in queues :: old(k in queues) && queues[k] == old(queues[k])
//@     invariant forall m map[common_info.QueueID]*queue_info.QueueInfo :: m != queues && old(allocated(m)) ==> dom(m) == old(dom(m))
//@     invariant forall m map[common_info.QueueID]*queue_info.QueueInfo, k common_info.QueueID :: m != queues && old(allocated(m)) && old(k in m) ==> m[k] == old(m[k])
//@     invariant forall j int :: 0 <= j && j < len(queue.ChildQueues) && queue.ChildQueues[j] in queues ==> queues[queue.ChildQueues[j]].ParentQueue == queueID && queueID != ""
//@     invariant forall j int :: 0 <= j && j <= rangeindex ==> !(queue.ChildQueues[j] in queues)
//@     invariant forall k common_info.QueueID :: old(k in queues) && !(k in queues) ==> old(queues[k]).ParentQueue != "" && (old(queues[k]).ParentQueue == queueID || !(old(queues[k]).ParentQueue in queues))
//@     invariant forall k in queues :: queues[k].ParentQueue != "" && old(queues[k].ParentQueue in queues) && queues[k].ParentQueue != queueID ==> queues[k].ParentQueue in queues
//@     decreases len(queue.ChildQueues) - rangeindex
//@   ensures [deleted] !(queueID in queues)
//@   ensures [onlyDeletes] forall k in queues :: old(k in queues) && queues[k] == old(queues[k])
//@   ensures [deletedHaveDeletedParent] forall k common_info.QueueID :: old(k in queues) && !(k in queues) ==> k == queueID || (old(queues[k]).ParentQueue != "" && !(old(queues[k]).ParentQueue in queues))
//@   ensures [noNewOrphans] forall k in queues :: queues[k].ParentQueue != "" && old(queues[k].ParentQueue in queues) ==> queues[k].ParentQueue in queues
//@ end

// C10: "missing parents or queues": after the pass every remaining queue has parent "" or a parent
// that is still in the map, every listed child still exists, and ONLY orphans and their descendants
// were removed (a removed queue's parent is absent afterwards: "workloads not touched by the
// malformed objects are still scheduled").
//@ func cleanQueueOrphans
//@   props C10
//@   requires nonNil(queues) && childPar(queues) && childComplete(queues) && childrenExist(queues)
//@   modifies queues[*]
//@   loop 1
//@     invariant forall k in queues :: old(k in queues) && queues[k] == old(queues[k])
//@     invariant childrenExist(queues)
//@     invariant forall m map[common_info.QueueID]*queue_info.QueueInfo :: m != queues && old(allocated(m)) ==> dom(m) == old(dom(m))
//@     invariant forall m map[common_info.QueueID]*queue_info.QueueInfo, k common_info.QueueID :: m != queues && old(allocated(m)) && old(k in m) ==> m[k] == old(m[k])
//@     invariant forall k in visited :: k in queues ==> queues[k].ParentQueue == "" || queues[k].ParentQueue in queues
//@     invariant forall k common_info.QueueID :: old(k in queues) && !(k in queues) ==> old(queues[k]).ParentQueue != "" && !(old(queues[k]).ParentQueue in queues)
//@   ensures [parentsPresent] wfParents(queues)
//@   ensures [childrenPresent] childrenExist(queues)
//@   ensures [onlyDeletes] forall k in queues :: old(k in queues) && queues[k] == old(queues[k])
//@   ensures [onlyOrphansPruned] forall k common_info.QueueID :: old(k in queues) && !(k in queues) ==> old(queues[k]).ParentQueue != "" && !(old(queues[k]).ParentQueue in queues)
//@ end
