//go:build verif

// Contracts for govc (contract-based deductive verification); comments only.
package cache

// Ghost counters of the cluster-facing calls a scheduling cycle emits through the cache interface
// (C13: "Committing emits exactly the net effect of the steps still valid"; C01/C06 observe the same
// calls). They are only changed by the assumed interface contracts below.
//@ ghost evictCalls() int
//@ ghost pipelinedCalls() int
//@ ghost bindCalls() int

// Assumed (interface methods, never verified against a body): the cache talks to the API server
// (listers, status updater, bind requests, goroutines) and does not write the session's snapshot
// (ClusterInfo, NodeInfo, PodGroupInfo, PodInfo, Statement logs); the result models the API fault.
//@ func Cache.Evict
//@   modifies evictCalls()
//@   ensures evictCalls() == old(evictCalls()) + 1
//@   note assumed: SchedulerCache.Evict only reads listers and starts the eviction worker; no write to the session snapshot
//@ end

//@ func Cache.TaskPipelined
//@   modifies pipelinedCalls()
//@   ensures pipelinedCalls() == old(pipelinedCalls()) + 1
//@   note assumed: SchedulerCache.TaskPipelined only records a status update
//@ end

//@ func Cache.Bind
//@   modifies bindCalls()
//@   ensures bindCalls() == old(bindCalls()) + 1
//@   note assumed: SchedulerCache.Bind creates the BindRequest / status updates; no write to the session snapshot
//@ end

// C10 (helper scb): NewNodeAffinitiesFilter reads session.Cache.InternalK8sPlugins().NodeAffinity. Without this contract the
// invoke is case-split into MockCache (gomock reflection), which havocs the whole heap.
//@ func Cache.InternalK8sPlugins
//@   pure
//@   ensures [assumed] result != nil
//@   note assumed: SchedulerCache.internalPlugins is set once by the cache constructor (k8splugins.InitializeInternalPlugins) and returned as is; reads nothing of the session snapshot
//@ end
