//go:build verif

// Contracts for govc (contract-based deductive verification); comments only.
package cache

// Ghost counters of the cluster-facing calls a scheduling cycle emits through the cache interface
// (C13: "Committing emits exactly the net effect of the steps still valid"; C01/C06 observe the same
// calls). They are only changed by the assumed interface contracts below.
//@ ghost evictCalls() int
//@ ghost pipelinedCalls() int
//@ ghost bindCalls() int

// Assumed (interface methods, never verified against a body): the cache talks to the API server
// (listers, status updater, bind requests, goroutines) and does not write the session's snapshot
// (ClusterInfo, NodeInfo, PodGroupInfo, PodInfo, Statement logs); the result models the API fault.
//@ func Cache.Evict
//@   modifies evictCalls()
//@   ensures evictCalls() == old(evictCalls()) + 1
//@   note assumed: SchedulerCache.Evict only reads listers and starts the eviction worker; no write to the session snapshot
//@ end

//@ func Cache.TaskPipelined
//@   modifies pipelinedCalls()
//@   ensures pipelinedCalls() == old(pipelinedCalls()) + 1
//@   note assumed: SchedulerCache.TaskPipelined only records a status update
//@ end

//@ func Cache.Bind
//@   modifies bindCalls()
//@   ensures bindCalls() == old(bindCalls()) + 1
//@   note assumed: SchedulerCache.Bind creates the BindRequest / status updates; no write to the session snapshot
//@ end

// C10 (helper scb): NewNodeAffinitiesFilter reads session.Cache.InternalK8sPlugins().NodeAffinity. Without this contract the
// invoke is case-split into MockCache (gomock reflection), which havocs the whole heap.
//@ func Cache.InternalK8sPlugins
//@   pure
//@   ensures [assumed] result != nil
//@   note assumed: SchedulerCache.internalPlugins is set once by the cache constructor (k8splugins.InitializeInternalPlugins) and returned as is; reads nothing of the session snapshot
//@ end

// ---- C12: the BindRequest the scheduler creates carries the labels its own snapshot selector matches -----------------
// C12 "requests for deleted nodes ... are deleted": snapshotBindRequests keeps a request of a vanished node for
// deletion only if the scheduler's node-pool selector matches the request's labels; for the default partition
// (label key set, value empty) that selector is "key DoesNotExist". So createBindRequest must stamp the node-pool label
// exactly when GetLabels() yields it (key AND value set) - and always the selected-node label.
//@ import schedulingv1alpha2 "github.com/NVIDIA/KAI-scheduler/pkg/apis/scheduling/v1alpha2"
//@ ghost createdBindRequest() *schedulingv1alpha2.BindRequest
//@ func github.com/NVIDIA/KAI-scheduler/pkg/apis/client/clientset/versioned.Interface.SchedulingV1alpha2
//@   pure
//@   ensures [assumed] result != nil
//@   note assumed: generated clientset accessor
//@ end
//@ func github.com/NVIDIA/KAI-scheduler/pkg/apis/client/clientset/versioned/typed/scheduling/v1alpha2.SchedulingV1alpha2Interface.BindRequests
//@   pure
//@   ensures [assumed] result != nil
//@   note assumed: generated clientset accessor
//@ end
//@ func github.com/NVIDIA/KAI-scheduler/pkg/apis/client/clientset/versioned/typed/scheduling/v1alpha2.BindRequestInterface.Create
//@   modifies createdBindRequest()
//@   ensures [assumed] createdBindRequest() == bindRequest
//@   note assumed: generated client (REST call to the API server); touches nothing of the scheduler's memory; ghost: remembers the object it was asked to create
//@ end
//@ func (*SchedulerCache).createBindRequest
//@   props C12
//@   requires sc != nil && sc.kubeAiSchedulerClient != nil && sc.schedulingNodePoolParams != nil
//@   requires podInfo != nil && podInfo.Pod != nil && podInfo.AcceptedResource != nil
//@   loop 1
//@     invariant labels != nil && fresh(labels)
//@     invariant forall k string :: k in labels <==> k == "selected-node" || k in visited
//@     invariant labels["selected-node"] == nodeName || "selected-node" in visited
//@     invariant forall k in visited :: labels[k] == sc.schedulingNodePoolParams.NodePoolLabelValue && k == sc.schedulingNodePoolParams.NodePoolLabelKey && sc.schedulingNodePoolParams.NodePoolLabelKey != "" && sc.schedulingNodePoolParams.NodePoolLabelValue != ""
//@   modifies createdBindRequest()
//@   ensures [requestCreated] createdBindRequest() != nil && createdBindRequest().Spec.SelectedNode == nodeName
//@   ensures [selectedNodeLabel] sc.schedulingNodePoolParams.NodePoolLabelKey != "selected-node" ==> createdBindRequest().Labels["selected-node"] == nodeName
//@   ensures [nodePoolLabelIffKeyAndValue] forall k string :: k != "selected-node" ==> (k in createdBindRequest().Labels <==> sc.schedulingNodePoolParams.NodePoolLabelKey != "" && sc.schedulingNodePoolParams.NodePoolLabelValue != "" && k == sc.schedulingNodePoolParams.NodePoolLabelKey)
//@   ensures [nodePoolLabelValue] sc.schedulingNodePoolParams.NodePoolLabelKey != "" && sc.schedulingNodePoolParams.NodePoolLabelValue != "" ==> createdBindRequest().Labels[sc.schedulingNodePoolParams.NodePoolLabelKey] == sc.schedulingNodePoolParams.NodePoolLabelValue
//@ end
