//go:build verif

// Contracts for govc (contract-based deductive verification); comments only.
package kubeflow

//@ import pi "github.com/NVIDIA/KAI-scheduler/pkg/scheduler/api/pod_info"
//@ constglobal masterRoleValues

// library model (assumed): k8s.io/kubernetes/pkg/util/slice.ContainsString with a nil modifier is plain membership
// (the upstream body is `for _, item := range slice { if item == s { return true }; if modifier != nil && ... }`).
//@ func k8s.io/kubernetes/pkg/util/slice.ContainsString
//@   pure
//@   ensures arg2 == nil ==> result == (exists i int :: 0 <= i && i < len(arg0) && arg0[i] == arg1)
//@   note assumed library model of k8s.io/kubernetes/pkg/util/slice.ContainsString for modifier == nil (membership); nothing is said for a non-nil modifier
//@ end

// Task comparator of the "kubeflow" plugin (orders the TASKS OF ONE JOB: the master / launcher pod of a Kubeflow
// training job first; sign convention: -1 = l is ordered first).
// C16: the comparator reads only the two pods' own training.kubeflow.org/job-role labels, never the job, its priority or
// its creation time, so it cannot contradict the job order; it decides exactly the pairs (master, non-master) and
// returns 0 = undecided for every other pair.
//@ define kfMaster(p *pi.PodInfo) bool = ("training.kubeflow.org/job-role" in p.Pod.Labels) && (p.Pod.Labels["training.kubeflow.org/job-role"] == "master" || p.Pod.Labels["training.kubeflow.org/job-role"] == "launcher")
//@ define kfRank(p *pi.PodInfo) int = ite(kfMaster(p), 0, 1)
//@ define kfSgn(d int) int = ite(d < 0, 0 - 1, ite(d > 0, 1, 0))
//@ define kfWF(x interface{}) bool = typeis(x, "*pi.PodInfo") && unbox(x, "*pi.PodInfo") != nil && unbox(x, "*pi.PodInfo").Pod != nil

//@ func TaskOrderFn
//@   props C16 C10
//@   requires kfWF(l) && kfWF(r)
//@   pure
//@   ensures result == kfSgn(kfRank(unbox(l, "*pi.PodInfo")) - kfRank(unbox(r, "*pi.PodInfo")))
//@   ensures [threeValued] result == 0 - 1 || result == 0 || result == 1
//@   ensures [masterFirst] kfMaster(unbox(l, "*pi.PodInfo")) && !kfMaster(unbox(r, "*pi.PodInfo")) <==> result < 0
//@   ensures [undecidedOtherwise] kfMaster(unbox(l, "*pi.PodInfo")) == kfMaster(unbox(r, "*pi.PodInfo")) <==> result == 0
//@   lemma [antisym] result == 0 - kfSgn(kfRank(unbox(r, "*pi.PodInfo")) - kfRank(unbox(l, "*pi.PodInfo")))
//@   lemma [transitiveOverRank] forall a int, b int, c int :: kfSgn(a - b) <= 0 && kfSgn(b - c) <= 0 ==> kfSgn(a - c) <= 0
//@ end
