//go:build verif

// Contracts for govc (contract-based deductive verification); comments only.
package minruntime

//@ import pod_info "github.com/NVIDIA/KAI-scheduler/pkg/scheduler/api/pod_info"
//@ import sgi "github.com/NVIDIA/KAI-scheduler/pkg/scheduler/api/podgroup_info/subgroup_info"

// ---- validVictimForMinAvailable ------------------------------------------------------------------
// name of the pod set a victim task is counted against ("default" for an empty SubGroupName)
//@ define sgName(t *pod_info.PodInfo) string = ite(t.SubGroupName != "", t.SubGroupName, "default")
// vcount(v, n, sg): number of tasks among the first n victim tasks of v that belong to pod set sg.
// Ghost counting function; its recursive definition is supplied by the `assume` clauses of the
// contract (a definitional extension: the function reads only v.Tasks[i].SubGroupName, which the
// function under contract does not modify).
//@ declare vcount(v *api.VictimInfo, n int, sg string) int
//@ define victimsOf(v *api.VictimInfo, sg string) int = vcount(v, len(v.Tasks), sg)
//@ define podSetOf(v *api.VictimInfo, sg string) *sgi.PodSet = v.Job.PodSets[sg]
// C06: "elastic workloads only down to their minimum size": after removing the victims every pod
// set that loses a task keeps at least minAvailable active tasks.
//@ define keepsMin(v *api.VictimInfo, sg string) bool = podSetOf(v, sg).minAvailable <= podSetOf(v, sg).numActiveUsedTasks - victimsOf(v, sg)

//@ func validVictimForMinAvailable
//@   props C06 C03
//@   requires victimInfo != nil && victimInfo.Job != nil
//@   requires forall i int :: 0 <= i && i < len(victimInfo.Tasks) ==> victimInfo.Tasks[i] != nil
//@   # nil-safety: every victim task names a pod set of its job (unknown sub-group name => nil PodSet dereference)
//@   requires forall i int :: 0 <= i && i < len(victimInfo.Tasks) ==> sgName(victimInfo.Tasks[i]) in victimInfo.Job.PodSets && victimInfo.Job.PodSets[sgName(victimInfo.Tasks[i])] != nil
//@   assume forall sg string :: vcount(victimInfo, 0, sg) == 0
//@   assume forall n int, sg string :: 0 <= n && n < len(victimInfo.Tasks) ==> vcount(victimInfo, n + 1, sg) == vcount(victimInfo, n, sg) + ite(sgName(victimInfo.Tasks[n]) == sg, 1, 0)
//@   pure
//@   loop 1
//@     invariant 0 - 1 <= rangeindex && rangeindex < len(victimInfo.Tasks)
//@     invariant forall sg string :: numVictimTasksPerSubGroup[sg] == vcount(victimInfo, rangeindex + 1, sg) && vcount(victimInfo, rangeindex + 1, sg) >= 0
//@     invariant forall sg string :: sg in numVictimTasksPerSubGroup <==> vcount(victimInfo, rangeindex + 1, sg) > 0
//@     invariant forall sg in numVictimTasksPerSubGroup :: sg in victimInfo.Job.PodSets && victimInfo.Job.PodSets[sg] != nil
//@     decreases len(victimInfo.Tasks) - rangeindex
//@   loop 2
//@     invariant forall sg in visited :: sg in numVictimTasksPerSubGroup
//@     invariant forall sg in visited :: numCurrentlyRunningSubGroup[sg] == podSetOf(victimInfo, sg).numActiveUsedTasks
//@   loop 3
//@     invariant forall sg in visited :: sg in numVictimTasksPerSubGroup
//@     invariant forall sg in visited :: keepsMin(victimInfo, sg)
//@   ensures [keepsMinimum] result == (forall sg string :: victimsOf(victimInfo, sg) > 0 ==> keepsMin(victimInfo, sg))
//@ end

// ---- resolver.go -----------------------------------------------------------------------------------
//@ import queue_info "github.com/NVIDIA/KAI-scheduler/pkg/scheduler/api/queue_info"

//@ define parentOf(r *resolver, q *queue_info.QueueInfo) *queue_info.QueueInfo = r.queues[q.ParentQueue]
// Acyclicity of the parent chain as a ranking function (parentQueue == itself or a longer cycle makes
// the walk-up loops non-terminating: known C10 finding; here it is a precondition).
//@ declare rank(q *queue_info.QueueInfo) int
//@ define acyclic(r *resolver) bool = forall q *queue_info.QueueInfo :: rank(q) >= 0 && (q != nil && parentOf(r, q) != nil ==> rank(parentOf(r, q)) < rank(q))
// C06 "min-runtime settings (queue and LCA resolution)": the resolved preempt min-runtime of a queue is
// the setting of the nearest ancestor-or-self that has one, else the plugin default.
// Ghost function, recursive definition supplied by `assume` in each contract that uses it.
//@ declare preemptMR(r *resolver, q *queue_info.QueueInfo) int
//@ define preemptMRdef(r *resolver) bool = preemptMR(r, nil) == r.defaultPreemptMinRuntime.Duration && (forall q *queue_info.QueueInfo :: q != nil ==> preemptMR(r, q) == ite(q.PreemptMinRuntime != nil, q.PreemptMinRuntime.Duration, preemptMR(r, parentOf(r, q))))

//@ func (*resolver).resolvePreemptMinRuntime
//@   props C06
//@   requires r != nil && queue != nil && acyclic(r)
//@   assume preemptMRdef(r)
//@   modifies r.preemptMinRuntimeCache[*]
//@   loop 1
//@     invariant preemptMR(r, currentQueue) == preemptMR(r, queue)
//@     decreases ite(currentQueue == nil, 0, rank(currentQueue) + 1)
//@   ensures [nearestAncestorElseDefault] result0.Duration == preemptMR(r, queue)
//@   ensures result1 == nil
//@ end

// Cache hit path: the cache is a map with struct values (metav1.Duration), which the engine
// over-approximates, so the functional post is stated for the miss path only (see report).
//@ func (*resolver).getPreemptMinRuntime
//@   props C06
//@   requires r != nil && acyclic(r)
//@   assume preemptMRdef(r)
//@   modifies r.preemptMinRuntimeCache[*]
//@   ensures [nilQueueDefault] queue == nil ==> result0.Duration == r.defaultPreemptMinRuntime.Duration && result1 != nil
//@   ensures [resolved] queue != nil && !old(queue.UID in r.preemptMinRuntimeCache) ==> result0.Duration == preemptMR(r, queue) && result1 == nil
//@   ensures queue != nil ==> result1 == nil
//@ end

// Path from the top-level ancestor down to the queue itself: consecutive entries are parent/child,
// the first entry has no (known) parent, the last entry is the queue.
//@ define isPath(r *resolver, p []*queue_info.QueueInfo, q *queue_info.QueueInfo) bool = len(p) >= 1 && p[len(p) - 1] == q && parentOf(r, p[0]) == nil && (forall i int :: 0 <= i && i < len(p) ==> p[i] != nil) && (forall i int :: 1 <= i && i < len(p) ==> p[i - 1] == parentOf(r, p[i]))

//@ func (*resolver).getQueueHierarchyPath
//@   props C06
//@   requires r != nil && queue != nil && acyclic(r)
//@   pure
//@   loop 1
//@     invariant len(hierarchyPath) == 0 ==> currentQueue == queue
//@     invariant len(hierarchyPath) > 0 ==> hierarchyPath[len(hierarchyPath) - 1] == queue && currentQueue == parentOf(r, hierarchyPath[0])
//@     invariant forall i int :: 0 <= i && i < len(hierarchyPath) ==> hierarchyPath[i] != nil
//@     invariant forall i int :: 1 <= i && i < len(hierarchyPath) ==> hierarchyPath[i - 1] == parentOf(r, hierarchyPath[i])
//@     decreases ite(currentQueue == nil, 0, rank(currentQueue) + 1)
//@   ensures [ancestorChain] isPath(r, result, queue)
//@ end
