//go:build verif

// Contracts for govc (contract-based deductive verification); comments only.
package minruntime

//@ import pod_info "github.com/NVIDIA/KAI-scheduler/pkg/scheduler/api/pod_info"
//@ import sgi "github.com/NVIDIA/KAI-scheduler/pkg/scheduler/api/podgroup_info/subgroup_info"

// ---- validVictimForMinAvailable ------------------------------------------------------------------
// name of the pod set a victim task is counted against ("default" for an empty SubGroupName)
//@ define sgName(t *pod_info.PodInfo) string = ite(t.SubGroupName != "", t.SubGroupName, "default")
// vcount(v, n, sg): number of tasks among the first n victim tasks of v that belong to pod set sg.
// Ghost counting function; its recursive definition is supplied by the `assume` clauses of the
// contract (a definitional extension: the function reads only v.Tasks[i].SubGroupName, which the
// function under contract does not modify).
//@ declare vcount(v *api.VictimInfo, n int, sg string) int
//@ define victimsOf(v *api.VictimInfo, sg string) int = vcount(v, len(v.Tasks), sg)
//@ define podSetOf(v *api.VictimInfo, sg string) *sgi.PodSet = v.Job.PodSets[sg]
// C06: "elastic workloads only down to their minimum size": after removing the victims every pod
// set that loses a task keeps at least minAvailable active tasks.
//@ define keepsMin(v *api.VictimInfo, sg string) bool = podSetOf(v, sg).minAvailable <= podSetOf(v, sg).numActiveUsedTasks - victimsOf(v, sg)

//@ func validVictimForMinAvailable
//@   props C06 C03
//@   requires victimInfo != nil && victimInfo.Job != nil
//@   requires forall i int :: 0 <= i && i < len(victimInfo.Tasks) ==> victimInfo.Tasks[i] != nil
//@   # nil-safety: every victim task names a pod set of its job (unknown sub-group name => nil PodSet dereference)
//@   requires forall i int :: 0 <= i && i < len(victimInfo.Tasks) ==> sgName(victimInfo.Tasks[i]) in victimInfo.Job.PodSets && victimInfo.Job.PodSets[sgName(victimInfo.Tasks[i])] != nil
//@   assume forall sg string :: vcount(victimInfo, 0, sg) == 0
//@   assume forall n int, sg string :: 0 <= n && n < len(victimInfo.Tasks) ==> vcount(victimInfo, n + 1, sg) == vcount(victimInfo, n, sg) + ite(sgName(victimInfo.Tasks[n]) == sg, 1, 0)
//@   pure
//@   loop 1
//@     invariant 0 - 1 <= rangeindex && rangeindex < len(victimInfo.Tasks)
//@     invariant forall sg string :: numVictimTasksPerSubGroup[sg] == vcount(victimInfo, rangeindex + 1, sg) && vcount(victimInfo, rangeindex + 1, sg) >= 0
//@     invariant forall sg string :: sg in numVictimTasksPerSubGroup <==> vcount(victimInfo, rangeindex + 1, sg) > 0
//@     invariant forall sg in numVictimTasksPerSubGroup :: sg in victimInfo.Job.PodSets && victimInfo.Job.PodSets[sg] != nil
//@     decreases len(victimInfo.Tasks) - rangeindex
//@   loop 2
//@     invariant forall sg in visited :: sg in numVictimTasksPerSubGroup
//@     invariant forall sg in visited :: numCurrentlyRunningSubGroup[sg] == podSetOf(victimInfo, sg).numActiveUsedTasks
//@   loop 3
//@     invariant forall sg in visited :: sg in numVictimTasksPerSubGroup
//@     invariant forall sg in visited :: keepsMin(victimInfo, sg)
//@   ensures [keepsMinimum] result == (forall sg string :: victimsOf(victimInfo, sg) > 0 ==> keepsMin(victimInfo, sg))
//@ end

// ---- resolver.go -----------------------------------------------------------------------------------
//@ import queue_info "github.com/NVIDIA/KAI-scheduler/pkg/scheduler/api/queue_info"

//@ define parentOf(r *resolver, q *queue_info.QueueInfo) *queue_info.QueueInfo = r.queues[q.ParentQueue]
// Acyclicity of the parent chain as a ranking function (parentQueue == itself or a longer cycle makes
// the walk-up loops non-terminating: known C10 finding; here it is a precondition).
//@ declare rank(q *queue_info.QueueInfo) int
//@ define acyclic(r *resolver) bool = forall q *queue_info.QueueInfo :: rank(q) >= 0 && (q != nil && parentOf(r, q) != nil ==> rank(parentOf(r, q)) < rank(q))
// C06 "min-runtime settings (queue and LCA resolution)": the resolved preempt min-runtime of a queue is
// the setting of the nearest ancestor-or-self that has one, else the plugin default.
// Ghost function, recursive definition supplied by `assume` in each contract that uses it.
//@ declare preemptMR(r *resolver, q *queue_info.QueueInfo) int
//@ define preemptMRdef(r *resolver) bool = preemptMR(r, nil) == r.defaultPreemptMinRuntime.Duration && (forall q *queue_info.QueueInfo :: q != nil ==> preemptMR(r, q) == ite(q.PreemptMinRuntime != nil, q.PreemptMinRuntime.Duration, preemptMR(r, parentOf(r, q))))

//@ func (*resolver).resolvePreemptMinRuntime
//@   props C06
//@   requires r != nil && queue != nil && acyclic(r)
//@   assume preemptMRdef(r)
//@   modifies r.preemptMinRuntimeCache[*]
//@   loop 1
//@     invariant preemptMR(r, currentQueue) == preemptMR(r, queue)
//@     decreases ite(currentQueue == nil, 0, rank(currentQueue) + 1)
//@   ensures [nearestAncestorElseDefault] result0.Duration == preemptMR(r, queue)
//@   ensures result1 == nil
//@   # C06 "minimum runtime configured for THEIR queue": the memo entry written is the one of this queue, and it is the resolved value
//@   ensures [memoisedForThisQueue] old(r.preemptMinRuntimeCache) != nil ==> queue.UID in r.preemptMinRuntimeCache && r.preemptMinRuntimeCache[queue.UID].Duration == result0.Duration
//@   ensures [noOtherQueueTouched] forall k common_info.QueueID :: k != queue.UID ==> (k in r.preemptMinRuntimeCache) == old(k in r.preemptMinRuntimeCache) && r.preemptMinRuntimeCache[k].Duration == old(r.preemptMinRuntimeCache[k].Duration)
//@ end

// The memo tables hold metav1.Duration values (single-scalar struct: stored as that scalar by the engine since batch 11),
// so hit and miss paths are both stated.
//@ func (*resolver).getPreemptMinRuntime
//@   props C06
//@   requires r != nil && acyclic(r)
//@   assume preemptMRdef(r)
//@   modifies r.preemptMinRuntimeCache[*]
//@   ensures [nilQueueDefault] queue == nil ==> result0.Duration == r.defaultPreemptMinRuntime.Duration && result1 != nil
//@   ensures [resolved] queue != nil && !old(queue.UID in r.preemptMinRuntimeCache) ==> result0.Duration == preemptMR(r, queue) && result1 == nil
//@   ensures queue != nil ==> result1 == nil
//@   ensures [memoHit] queue != nil && old(queue.UID in r.preemptMinRuntimeCache) ==> result0.Duration == old(r.preemptMinRuntimeCache[queue.UID].Duration)
//@   ensures [memoKeptSound] queue != nil && old(r.preemptMinRuntimeCache) != nil ==> queue.UID in r.preemptMinRuntimeCache && r.preemptMinRuntimeCache[queue.UID].Duration == result0.Duration
//@   ensures [noOtherQueueTouched] forall k common_info.QueueID :: queue == nil || k != queue.UID ==> (k in r.preemptMinRuntimeCache) == old(k in r.preemptMinRuntimeCache) && r.preemptMinRuntimeCache[k].Duration == old(r.preemptMinRuntimeCache[k].Duration)
//@ end

// Path from the top-level ancestor down to the queue itself: consecutive entries are parent/child,
// the first entry has no (known) parent, the last entry is the queue.
//@ define isPath(r *resolver, p []*queue_info.QueueInfo, q *queue_info.QueueInfo) bool = len(p) >= 1 && p[len(p) - 1] == q && parentOf(r, p[0]) == nil && (forall i int :: 0 <= i && i < len(p) ==> p[i] != nil) && (forall i int :: 1 <= i && i < len(p) ==> p[i - 1] == parentOf(r, p[i]))

//@ func (*resolver).getQueueHierarchyPath
//@   props C06
//@   requires r != nil && queue != nil && acyclic(r)
//@   pure
//@   loop 1
//@     invariant len(hierarchyPath) == 0 ==> currentQueue == queue
//@     invariant len(hierarchyPath) > 0 ==> hierarchyPath[len(hierarchyPath) - 1] == queue && currentQueue == parentOf(r, hierarchyPath[0])
//@     invariant forall i int :: 0 <= i && i < len(hierarchyPath) ==> hierarchyPath[i] != nil
//@     invariant forall i int :: 1 <= i && i < len(hierarchyPath) ==> hierarchyPath[i - 1] == parentOf(r, hierarchyPath[i])
//@     decreases ite(currentQueue == nil, 0, rank(currentQueue) + 1)
//@   ensures [ancestorChain] isPath(r, result, queue)
//@ end

// Resolved reclaim min-runtime when walking up from queue q: the setting of the nearest
// ancestor-or-self that has one, else the plugin default (ghost, defined by `assume` like preemptMR).
//@ declare reclaimMR(r *resolver, q *queue_info.QueueInfo) int
//@ define reclaimMRdef(r *resolver) bool = reclaimMR(r, nil) == r.defaultReclaimMinRuntime.Duration && (forall q *queue_info.QueueInfo :: q != nil ==> reclaimMR(r, q) == ite(q.ReclaimMinRuntime != nil, q.ReclaimMinRuntime.Duration, reclaimMR(r, parentOf(r, q))))

// C06 "minimum runtime configured for their queue" (reclaim: for the PAIR reclaimer queue / victim queue): the memo table
// is keyed [reclaimer queue UID][victim queue UID]; an answer computed for one pair must never be filed under another.
//@ define rcHas(r *resolver, a common_info.QueueID, b common_info.QueueID) bool = a in r.reclaimMinRuntimeCache && r.reclaimMinRuntimeCache[a] != nil && b in r.reclaimMinRuntimeCache[a]
//@ define rcVal(r *resolver, a common_info.QueueID, b common_info.QueueID) int = r.reclaimMinRuntimeCache[a][b].Duration

// "queue" resolution: walk up from the victim's (preemptee's) queue.
//@ func (*resolver).resolveReclaimMinRuntimeQueue
//@   props C06
//@   requires r != nil && preemptorQueue != nil && preempteeQueue != nil && acyclic(r)
//@   assume reclaimMRdef(r)
//@   # frame = "an answer computed for one pair is never filed under another": only the entry of THIS pair (and the
//@   # reclaimer queue's row, created on first use) may change
//@   modifies r.reclaimMinRuntimeCache[preemptorQueue.UID], r.reclaimMinRuntimeCache[preemptorQueue.UID][preempteeQueue.UID]
//@   loop 1
//@     invariant reclaimMR(r, currentQueue) == reclaimMR(r, preempteeQueue)
//@     decreases ite(currentQueue == nil, 0, rank(currentQueue) + 1)
//@   ensures [nearestAncestorElseDefault] result0.Duration == reclaimMR(r, preempteeQueue)
//@   ensures result1 == nil
//@   ensures [memoisedForThisPair] old(r.reclaimMinRuntimeCache) != nil ==> rcHas(r, preemptorQueue.UID, preempteeQueue.UID) && rcVal(r, preemptorQueue.UID, preempteeQueue.UID) == result0.Duration
//@ end

// "lca" resolution (resolver.go doc comment): find the lowest common ancestor of the two queues
// (top-level queues are siblings under an implicit root), step one level down towards the victim's
// queue (or stay on it), and from there use the nearest ancestor-or-self setting, else the default.
// commonUpTo(P, V, L): the two top-down paths agree (by UID) on indices 0..L
//@ define commonUpTo(p []*queue_info.QueueInfo, v []*queue_info.QueueInfo, l int) bool = forall j int :: 0 <= j && j <= l ==> p[j].UID == v[j].UID
//@ define minLen(p []*queue_info.QueueInfo, v []*queue_info.QueueInfo) int = ite(len(p) < len(v), len(p), len(v))

// The four property clauses mention the function's own locals (the two paths, the start index), so they
// are `lemma`s (proved at exit, not exported to callers).
//@ func (*resolver).resolveReclaimMinRuntimeLCA
//@   props C06
//@   requires r != nil && preemptorQueue != nil && preempteeQueue != nil && acyclic(r)
//@   assume reclaimMRdef(r)
//@   # frame = "an answer computed for one pair is never filed under another": only the entry of THIS pair (and the
//@   # reclaimer queue's row, created on first use) may change
//@   modifies r.reclaimMinRuntimeCache[preemptorQueue.UID], r.reclaimMinRuntimeCache[preemptorQueue.UID][preempteeQueue.UID]
//@   loop 1
//@     invariant 0 <= i && i <= minLength && 0 <= lcaIndex && lcaIndex < minLength
//@     invariant lcaIndex == ite(i == 0, 0, i - 1)
//@     invariant commonUpTo(preemptorPath, preempteePath, lcaIndex)
//@     decreases minLength - i
//@   loop 2
//@     invariant 0 - 1 <= i && i < len(preempteePath)
//@     invariant duration.Duration == r.defaultReclaimMinRuntime.Duration
//@     invariant reclaimMR(r, ite(i >= 0, preempteePath[i], nil)) == reclaimMR(r, preempteePath[lcaIndex])
//@     decreases i + 1
//@   lemma [pathsAreAncestorChains] isPath(r, preemptorPath, preemptorQueue) && isPath(r, preempteePath, preempteeQueue)
//@   lemma [differentTopLevel] preemptorPath[0].UID != preempteePath[0].UID ==> result0.Duration == ite(preempteePath[0].ReclaimMinRuntime != nil, preempteePath[0].ReclaimMinRuntime.Duration, r.defaultReclaimMinRuntime.Duration)
//@   # the start index f = lcaIndex: everything above it is common to both paths, and f is the child of the LCA on the
//@   # victim's path (first index where the paths differ, or where the preemptor's path ends), or the victim's own
//@   # queue when that queue is itself a common ancestor
//@   lemma [commonPrefixAboveStart] preemptorPath[0].UID == preempteePath[0].UID && lcaIndex >= 1 ==> commonUpTo(preemptorPath, preempteePath, lcaIndex - 1)
//@   lemma [startIsChildOfLCA] preemptorPath[0].UID == preempteePath[0].UID ==> (lcaIndex < minLen(preemptorPath, preempteePath) && preemptorPath[lcaIndex].UID != preempteePath[lcaIndex].UID) || lcaIndex >= len(preemptorPath) || (lcaIndex == len(preempteePath) - 1 && commonUpTo(preemptorPath, preempteePath, lcaIndex))
//@   lemma [walkUpFromStart] preemptorPath[0].UID == preempteePath[0].UID ==> 0 <= lcaIndex && lcaIndex < len(preempteePath) && result0.Duration == reclaimMR(r, preempteePath[lcaIndex])
//@   ensures result1 == nil
//@   ensures [memoisedForThisPair] old(r.reclaimMinRuntimeCache) != nil ==> rcHas(r, preemptorQueue.UID, preempteeQueue.UID) && rcVal(r, preemptorQueue.UID, preempteeQueue.UID) == result0.Duration
//@ end

//@ func (*resolver).getReclaimMinRuntime
//@   props C06
//@   requires r != nil && acyclic(r)
//@   assume reclaimMRdef(r)
//@   # frame = "an answer computed for one pair is never filed under another": only the entry of THIS pair (and the
//@   # reclaimer queue's row, created on first use) may change
//@   modifies r.reclaimMinRuntimeCache[preemptorQueue.UID], r.reclaimMinRuntimeCache[preemptorQueue.UID][preempteeQueue.UID]
//@   ensures [nilQueueDefault] (preemptorQueue == nil || preempteeQueue == nil) ==> result0.Duration == r.defaultReclaimMinRuntime.Duration && result1 != nil
//@   ensures [queueMethodResolved] preemptorQueue != nil && preempteeQueue != nil && resolveMethod != "lca" && !old(preempteeQueue.UID in r.reclaimMinRuntimeCache[preemptorQueue.UID]) ==> result0.Duration == reclaimMR(r, preempteeQueue)
//@   ensures preemptorQueue != nil && preempteeQueue != nil ==> result1 == nil
//@   ensures [memoHit] preemptorQueue != nil && preempteeQueue != nil && old(rcHas(r, preemptorQueue.UID, preempteeQueue.UID)) ==> result0.Duration == old(rcVal(r, preemptorQueue.UID, preempteeQueue.UID))
//@   ensures [memoisedForThisPair] preemptorQueue != nil && preempteeQueue != nil && old(r.reclaimMinRuntimeCache) != nil ==> rcHas(r, preemptorQueue.UID, preempteeQueue.UID) && rcVal(r, preemptorQueue.UID, preempteeQueue.UID) == result0.Duration
//@ end

// ---- minruntime.go: protection predicates ---------------------------------------------------------------
// C06: "never evict pods ... of workloads still inside the minimum runtime configured for their queue":
// a victim is protected iff it has a start time and now < lastStart + resolved min-runtime.
// now() = the value of the function's (single) time.Now() call. Stated for the cache-miss path; on a hit
// the cached verdict (computed by this same code earlier in the session) is returned.
//@ define started(v *podgroup_info.PodGroupInfo) bool = v.LastStartTimestamp != nil && *v.LastStartTimestamp != 0
//@ define pluginOK(mr *minruntimePlugin) bool = mr != nil && mr.resolver != nil && acyclic(mr.resolver) && mr.preemptProtectionCache != nil && mr.reclaimProtectionCache != nil

//@ func (*minruntimePlugin).isPreemptMinRuntimeProtected
//@   props C06
//@   requires pluginOK(mr) && victim != nil
//@   assume preemptMRdef(mr.resolver)
//@   modifies mr.preemptProtectionCache[victim.UID], mr.resolver.preemptMinRuntimeCache[*]
//@   ensures [cacheHit] old(victim.UID in mr.preemptProtectionCache) ==> result == old(mr.preemptProtectionCache[victim.UID])
//@   ensures [neverStartedNotProtected] !old(victim.UID in mr.preemptProtectionCache) && !started(victim) ==> !result
//@   ensures [protectedWhileInsideMinRuntime] !old(victim.UID in mr.preemptProtectionCache) && started(victim) && mr.queues[victim.Queue] != nil && !old(mr.queues[victim.Queue].UID in mr.resolver.preemptMinRuntimeCache) ==> result == (now() < *victim.LastStartTimestamp + preemptMR(mr.resolver, mr.queues[victim.Queue]))
//@   ensures [unknownQueueUsesDefault] !old(victim.UID in mr.preemptProtectionCache) && started(victim) && mr.queues[victim.Queue] == nil ==> result == (now() < *victim.LastStartTimestamp + mr.defaultPreemptMinRuntime.Duration)
//@   ensures [verdictCached] !old(victim.UID in mr.preemptProtectionCache) && started(victim) ==> victim.UID in mr.preemptProtectionCache && mr.preemptProtectionCache[victim.UID] == result
//@ end

//@ define reclaimCached(mr *minruntimePlugin, p *podgroup_info.PodGroupInfo, v *podgroup_info.PodGroupInfo) bool = v.UID in mr.reclaimProtectionCache[p.UID]

//@ func (*minruntimePlugin).isReclaimMinRuntimeProtected
//@   props C06
//@   requires pluginOK(mr) && victim != nil && pendingJob != nil
//@   assume reclaimMRdef(mr.resolver)
//@   modifies family(mr.reclaimProtectionCache[*]), family(mr.reclaimProtectionCache[""][*]), family(mr.resolver.reclaimMinRuntimeCache[*]), family(mr.resolver.reclaimMinRuntimeCache[""][*])
//@   ensures [cacheHit] old(reclaimCached(mr, pendingJob, victim)) ==> result == old(mr.reclaimProtectionCache[pendingJob.UID][victim.UID])
//@   ensures [neverStartedNotProtected] !old(reclaimCached(mr, pendingJob, victim)) && !started(victim) ==> !result
//@   ensures [protectedWhileInsideMinRuntime] !old(reclaimCached(mr, pendingJob, victim)) && started(victim) && mr.reclaimResolveMethod != "lca" && mr.queues[victim.Queue] != nil && mr.queues[pendingJob.Queue] != nil && !old(mr.queues[victim.Queue].UID in mr.resolver.reclaimMinRuntimeCache[mr.queues[pendingJob.Queue].UID]) ==> result == (now() < *victim.LastStartTimestamp + reclaimMR(mr.resolver, mr.queues[victim.Queue]))
//@   ensures [unknownQueueUsesDefault] !old(reclaimCached(mr, pendingJob, victim)) && started(victim) && (mr.queues[victim.Queue] == nil || mr.queues[pendingJob.Queue] == nil) ==> result == (now() < *victim.LastStartTimestamp + mr.defaultReclaimMinRuntime.Duration)
//@ end

// C06: non-elastic victims inside their min-runtime are filtered out; elastic victims are always
// let through here and checked by the scenario validators ("elastic workloads only down to their minimum size").
//@ define elastic(v *podgroup_info.PodGroupInfo) bool = exists k in v.PodSets :: v.PodSets[k].minAvailable < len(v.PodSets[k].podInfos)

//@ func (*minruntimePlugin).preemptFilterFn
//@   props C06
//@   requires pluginOK(mr) && podgroup_info.setsOK(victim)
//@   assume preemptMRdef(mr.resolver)
//@   modifies mr.preemptProtectionCache[victim.UID], mr.resolver.preemptMinRuntimeCache[*]
//@   ensures [elasticAlwaysPasses] elastic(victim) ==> result
//@   ensures [nonElasticNeverStartedPasses] !elastic(victim) && !old(victim.UID in mr.preemptProtectionCache) && !started(victim) ==> result
//@   ensures [nonElasticAcceptedOnlyAfterMinRuntime] !elastic(victim) && !old(victim.UID in mr.preemptProtectionCache) && started(victim) && mr.queues[victim.Queue] != nil && !old(mr.queues[victim.Queue].UID in mr.resolver.preemptMinRuntimeCache) ==> result == (now() >= *victim.LastStartTimestamp + preemptMR(mr.resolver, mr.queues[victim.Queue]))
//@   ensures [cachedVerdict] !elastic(victim) && old(victim.UID in mr.preemptProtectionCache) ==> result == !old(mr.preemptProtectionCache[victim.UID])
//@ end

//@ func (*minruntimePlugin).reclaimFilterFn
//@   props C06
//@   requires pluginOK(mr) && podgroup_info.setsOK(victim) && pendingJob != nil
//@   assume reclaimMRdef(mr.resolver)
//@   modifies family(mr.reclaimProtectionCache[*]), family(mr.reclaimProtectionCache[""][*]), family(mr.resolver.reclaimMinRuntimeCache[*]), family(mr.resolver.reclaimMinRuntimeCache[""][*])
//@   ensures [elasticAlwaysPasses] elastic(victim) ==> result
//@   ensures [nonElasticNeverStartedPasses] !elastic(victim) && !old(reclaimCached(mr, pendingJob, victim)) && !started(victim) ==> result
//@   ensures [nonElasticAcceptedOnlyAfterMinRuntime] !elastic(victim) && !old(reclaimCached(mr, pendingJob, victim)) && started(victim) && mr.reclaimResolveMethod != "lca" && mr.queues[victim.Queue] != nil && mr.queues[pendingJob.Queue] != nil && !old(mr.queues[victim.Queue].UID in mr.resolver.reclaimMinRuntimeCache[mr.queues[pendingJob.Queue].UID]) ==> result == (now() >= *victim.LastStartTimestamp + reclaimMR(mr.resolver, mr.queues[victim.Queue]))
//@   ensures [cachedVerdict] !elastic(victim) && old(reclaimCached(mr, pendingJob, victim)) ==> result == !old(mr.reclaimProtectionCache[pendingJob.UID][victim.UID])
//@ end
