//go:build verif

// Contracts for govc (contract-based deductive verification); comments only.
package podaffinity

// The "podaffinity" plugin of the scheduler only SCORES nodes with the upstream InterPodAffinity plugin (preferred
// affinity terms); it registers no event handler and keeps no per-node state. The state that C04 speaks about
// ("... nor the required anti-affinity of pods already placed there - including pods placed earlier in the same cycle")
// is node_info.NodeInfo.PodAffinityInfo (cluster_info.K8sNodePodAffinityInfo wrapping an upstream NodeInfo): it is
// updated by NodeInfo.AddTask (PodAffinityInfo.AddPod) and reverted by NodeInfo.RemoveTask (PodAffinityInfo.RemovePod),
// whose interface contracts live in pkg/scheduler/api/pod_affinity (assumed `pure` there: see helper report plug2).
// What this plugin contributes to C04 is that its scoring hook reads exactly THAT in-session object of the node it is
// asked about ([scoresTheNodesInSessionAffinityState]), and the only state of its own - the per-session skip set - is
// written for the scored task only.
//
// skip set: tasks for which the upstream PreScore answered Skip (nothing to score); such tasks get score 0 on every
// node for the rest of the session (the entry is never removed: later pre-order calls can only add).
//@ define preStatus(k8sPlugins *k8s_internal.SessionScoreFns, task *pod_info.PodInfo) ref = k8s_internal.preScoreStatus(k8sPlugins.PrePodAffinity, task.Pod)

// upstream *Status accessors (library, ASSUMED): the same naming as in pkg/scheduler/k8s_internal (statusErr / statusSkip
// declared there, with the axiom that a nil status is a success); repeated here because a library contract of the unit's own
// package takes precedence over the first one in package-path order (which belongs to an unrelated binder plugin).
//@ func (*k8s.io/kube-scheduler/framework.Status).AsError
//@   pure
//@   ensures (result != nil) == k8s_internal.statusErr(recv)
//@ end
//@ func (*k8s.io/kube-scheduler/framework.Status).IsSkip
//@   pure
//@   ensures result == k8s_internal.statusSkip(recv)
//@ end

//@ func (skipOrderFn).add
//@   inline
//@ end
//@ func (skipOrderFn).shouldSkip
//@   inline
//@ end

//@ func (*podAffinityPlugin).nodePreOrderFn$1
//@   props C04 C10
//@   requires pp != nil && pp.skipOrderFn != nil && k8sPlugins != nil && k8sPlugins.PrePodAffinity != nil && task != nil
//@   modifies pp.skipOrderFn[task.UID]
//@   loop 1
//@     invariant -1 <= rangeindex && rangeindex < len(fittingNodes)
//@     invariant k8sPlugins.PrePodAffinity == old(k8sPlugins.PrePodAffinity) && pp.skipOrderFn == old(pp.skipOrderFn) && task.Pod == old(task.Pod) && task.UID == old(task.UID)
//@     invariant forall u common_info.PodID :: pp.skipOrderFn[u] == old(pp.skipOrderFn[u]) && (u in pp.skipOrderFn) == old(u in pp.skipOrderFn)
//@     decreases len(fittingNodes) - rangeindex
//@   ensures [errorIffUpstreamStatusIsAnError] (result != nil) == k8s_internal.statusErr(preStatus(k8sPlugins, task))
//@   ensures [skipRecordedIffUpstreamSkips] pp.skipOrderFn[task.UID] == (old(pp.skipOrderFn[task.UID]) || k8s_internal.statusSkip(preStatus(k8sPlugins, task)))
//@   ensures [skipSetOnlyGrows] forall u common_info.PodID :: old(pp.skipOrderFn[u]) ==> pp.skipOrderFn[u]
//@   ensures [nodeListNotRewritten] forall j int :: 0 <= j && j < len(fittingNodes) ==> fittingNodes[j] == old(fittingNodes[j])
//@ end

// the node's in-session pod-affinity object (what NodeInfo.AddTask / RemoveTask keep current during simulations)
//@ define k8sNI(node *node_info.NodeInfo) ref = unbox(node.PodAffinityInfo, "*cluster_info.K8sNodePodAffinityInfo").NodeInfo
//@ func (*podAffinityPlugin).nodeOrderFn$1
//@   props C04 C10
//@   requires pp != nil && k8sPlugins != nil && k8sPlugins.PodAffinity != nil && task != nil && node != nil
//@   requires typeis(node.PodAffinityInfo, "*cluster_info.K8sNodePodAffinityInfo") && unbox(node.PodAffinityInfo, "*cluster_info.K8sNodePodAffinityInfo") != nil
//@   pure
//@   ensures [skippedTaskScoresZero] pp.skipOrderFn[task.UID] ==> result0 == 0.0 && result1 == nil
//@   ensures [scoresTheNodesInSessionAffinityState] !pp.skipOrderFn[task.UID] ==> (result1 != nil) == k8s_internal.podScoreFails(k8sPlugins.PodAffinity, task.Pod, k8sNI(node))
//@   ensures [scoreIsScaledUpstreamScore] !pp.skipOrderFn[task.UID] && result1 == nil ==> result0 == 100000.0 * real(k8s_internal.podScore(k8sPlugins.PodAffinity, task.Pod, k8sNI(node)))
//@   ensures [errorScoresZero] result1 != nil ==> result0 == 0.0
//@ end

//@ func (*podAffinityPlugin).nodePreOrderFn
//@   props C04 C10
//@   pure
//@   ensures result != nil
//@ end
//@ func (*podAffinityPlugin).nodeOrderFn
//@   props C04 C10
//@   pure
//@   ensures result != nil
//@ end
